import LimeModel.ServerHs
/-!
# M2 (client): `ClientChannel.EstablishSession` and its helpers (client_channel.go, channel.go)

The environment is explicit: what the server sends (script), what the selector and authenticator
callbacks return, which sends fail, whether `SetEncryption` / `SetCompression` succeed.
Traces are newest-first. A panic of the Go code is an explicit outcome.
-/
namespace LimeModel.ClientHs
open LimeModel LimeModel.ServerHs

inductive Ev
  | recv (r : Recv)                              -- the transport delivered this
  | emit (s : Ses) (enc : Opt)                   -- envelope written, with the client's encryption in force
  | selCall (compOpts encOpts : List Opt)        -- the two selectors were consulted
  | authCall (schemes : List Scheme) (roundTrip : Option Auth)  -- the authenticator was consulted
  | setState (s : SState)
  | setEnc (e : Opt) (ok : Bool)
  | setComp (c : Opt) (ok : Bool)
  | close
  | confirmed (comp enc : Opt)   -- ghost: the server's reply to the selection was a confirmation
  deriving Repr

structure Cfg where
  identity : Identity
  inst : Str
  compSel : List Opt → Opt          -- `CompressionSelector`
  encSel : List Opt → Opt           -- `EncryptionSelector`
  eofDisconnects : Bool := true

structure St where
  state : SState := .new
  connected : Bool := true
  enc : Opt := cs!"none"
  comp : Opt := cs!"none"
  sid : Str := []
  localNode : Node := Node.zero
  remoteNode : Node := Node.zero
  recvs : List Recv
  auths : List Auth            -- what the authenticator returns, call by call (exhausted: guest)
  sendOk : List Bool
  setEncOk : Bool := true
  trace : List Ev := []

/-- how a call ends -/
inductive Res
  | ok (s : Ses)      -- returns the session envelope
  | err               -- returns an error
  | panic             -- the Go code panics (on the calling or on the receiver goroutine)
  deriving Repr, DecidableEq

def St.log (s : St) (e : Ev) : St := { s with trace := e :: s.trace }

def markEof (c : Cfg) (s : St) : St := if c.eofDisconnects then { s with connected := false } else s

/-- `channel.sendSession` -/
def sendSession (s : St) (e : Ses) : Bool × St :=
  if !s.connected then (false, s)
  else if s.state = .finished ∨ s.state = .failed then (false, s)
  else match s.sendOk with
    | [] => (true, s.log (.emit e s.enc))
    | true :: r => (true, ({ s with sendOk := r }).log (.emit e s.enc))
    | false :: r => (false, { s with sendOk := r })

/-- what the transport hands over next; `none` = the script is exhausted (the peer went away) -/
def nextItem (c : Cfg) (s : St) : Option Recv × St :=
  match s.recvs with
  | [] => (none, markEof c s)
  | .fail true :: r => (some (.fail true), markEof c (({ s with recvs := r }).log (.recv (.fail true))))
  | .sesGone y :: r =>   -- the envelope arrives, and the transport already reports not connected
    (some (.ses y), ({ s with recvs := r, connected := false }).log (.recv (.ses y)))
  | x :: r => (some x, ({ s with recvs := r }).log (.recv x))

/-- `setStateWLock`'s guard: a state earlier (in `Step` order) than the current one is refused -/
def stateAccepted (s : St) (x : SState) : Bool := decide (s.state.step ≤ x.step)

/-- what the refusal is: an error return (before the repair `setStateWLock` panicked: `true`) -/
def regressPanics : Bool := false

/-- result of a receive step -/
inductive RecvRes
  | got (x : Ses)
  | err
  | panic
  deriving Repr, DecidableEq

def setState (s : St) (x : SState) : St := ({ s with state := x }).log (.setState x)

/-- the receiver stops at any session envelope; if that envelope did not end the session the channel
must not go on looking established: the transport is closed -/
def stopsEstablished (s : St) : St := if s.state = .established then { s with connected := false } else s

@[simp] theorem stopsEstablished_trace (s : St) : (stopsEstablished s).trace = s.trace := by
  unfold stopsEstablished; split <;> rfl
@[simp] theorem stopsEstablished_state (s : St) : (stopsEstablished s).state = s.state := by
  unfold stopsEstablished; split <;> rfl
@[simp] theorem stopsEstablished_sid (s : St) : (stopsEstablished s).sid = s.sid := by
  unfold stopsEstablished; split <;> rfl
@[simp] theorem stopsEstablished_enc (s : St) : (stopsEstablished s).enc = s.enc := by
  unfold stopsEstablished; split <;> rfl
@[simp] theorem stopsEstablished_comp (s : St) : (stopsEstablished s).comp = s.comp := by
  unfold stopsEstablished; split <;> rfl
@[simp] theorem stopsEstablished_local (s : St) : (stopsEstablished s).localNode = s.localNode := by
  unfold stopsEstablished; split <;> rfl
@[simp] theorem stopsEstablished_remote (s : St) : (stopsEstablished s).remoteNode = s.remoteNode := by
  unfold stopsEstablished; split <;> rfl
@[simp] theorem stopsEstablished_recvs (s : St) : (stopsEstablished s).recvs = s.recvs := by
  unfold stopsEstablished; split <;> rfl

/-- the receiver goroutine's part of `receiveSession` once the channel is established: envelopes
of other kinds go to the application streams, the first session envelope is handed over and, on
the client, its state adopted through `setStateWLock`; a transport error ends the receiver
("channel closed"). `fuel` bounds the number of skipped data envelopes by the script length. -/
def recvViaReceiver (c : Cfg) : Nat → St → RecvRes × St
  | 0, s => (.err, s)
  | fuel + 1, s =>
    let q := nextItem c s
    match q.1 with
    | none => (.err, q.2)
    | some (.ses x) =>
      if stateAccepted q.2 x.state then (.got x, stopsEstablished (setState q.2 x.state))
      else if regressPanics then (.panic, q.2)       -- on the receiver goroutine
      else (.got x, stopsEstablished q.2)
    | some .other => recvViaReceiver c fuel q.2
    | some (.fail _) => (.err, { q.2 with connected := false })   -- the receiver gives up and closes the transport
    | some (.sesGone _) => (.err, q.2)             -- not produced by `nextItem`

/-- `channel.receiveSession` -/
def receiveSession (c : Cfg) (s : St) : RecvRes × St :=
  if s.state = .finished then (.err, s)
  else if s.state = .established then recvViaReceiver c (s.recvs.length + 1) s
  else if !s.connected then (.err, s)
  else
    let q := nextItem c s
    match q.1 with
    | some (.ses x) => (.got x, q.2)
    | _ => (.err, q.2)

def closeT (s : St) : St := ({ s with connected := false }).log .close

/-- adopting a server session: nodes (when established), session id, state -/
def adopt (s : St) (ses : Ses) : St :=
  if ses.state = .established then
    setState { s with localNode := ses.to, remoteNode := ses.from_, sid := ses.id } ses.state
  else setState { s with sid := ses.id } ses.state

/-- a `finished` / `failed` session makes the client close its transport (closing an already
closed transport is an error) -/
def finishRecv (s : St) (ses : Ses) : RecvRes × St :=
  if ses.state = .finished ∨ ses.state = .failed then
    (if s.connected then (.got ses, closeT s) else (.err, s))
  else (.got ses, s)

/-- the refusal of a regressing state -/
def refuse (s : St) : RecvRes × St := if regressPanics then (.panic, s) else (.err, s)

/-- `receiveSessionFromServer` -/
def recvFromServer (c : Cfg) (s : St) : RecvRes × St :=
  let q := receiveSession c s
  match q.1 with
  | .err => (.err, q.2)
  | .panic => (.panic, q.2)
  | .got ses =>
    if !stateAccepted q.2 ses.state then refuse q.2
    else finishRecv (adopt q.2 ses) ses

/-- the authentication loop `for ses.State == SessionStateAuthenticating` -/
def authLoop (c : Cfg) : Nat → St → Ses → Option Auth → Res × St
  | 0, s, _, _ => (.err, s)
  | fuel + 1, s, ses, roundTrip =>
    if ses.state ≠ .authenticating then (.ok ses, s) else
    let a := s.auths.headD .guest
    let s := ({ s with auths := s.auths.tail }).log (.authCall ses.schemeOpts roundTrip)
    -- authenticateSession: ensureState(authenticating)
    if !s.connected ∨ s.state ≠ .authenticating then (.err, s) else
    let r := sendSession s { id := s.sid, from_ := ⟨c.identity.name, c.identity.domain, c.inst⟩,
                             state := .authenticating, scheme := a.scheme, auth := some a }
    if !r.1 then (.err, r.2) else
    let q := recvFromServer c r.2
    match q.1 with
    | .err => (.err, q.2)
    | .panic => (.panic, q.2)
    | .got ses' => authLoop c fuel q.2 ses' ses'.auth

def applyEnc (s : St) (e : Opt) : Bool × St :=
  if e ≠ [] ∧ e ≠ s.enc then
    if s.setEncOk then (true, ({ s with enc := e }).log (.setEnc e true))
    else (false, s.log (.setEnc e false))
  else (true, s)

def applyComp (s : St) (x : Opt) : Bool × St :=
  if x ≠ [] ∧ x ≠ s.comp then (false, s.log (.setComp x false)) else (true, s)

/-- after the reply to the selection: a `negotiating` reply is a confirmation whose options are
applied to the transport -/
def applyConfirmed (s : St) (conf : Ses) : Bool × St :=
  if conf.state = .negotiating then
    let s := s.log (.confirmed conf.comp conf.enc)
    let a := applyComp s conf.comp
    if !a.1 then (false, a.2) else applyEnc a.2 conf.enc
  else (true, s)

/-- the `if ses.State == SessionStateNegotiating { … }` block; returns the envelope to continue with -/
def negotiateBlock (c : Cfg) (s : St) (ses : Ses) : RecvRes × St :=
  let s := s.log (.selCall ses.compOpts ses.encOpts)
  -- negotiateSession: ensureState(negotiating)
  if !s.connected ∨ s.state ≠ .negotiating then (.err, s) else
  let r := sendSession s { id := s.sid, state := .negotiating, comp := c.compSel ses.compOpts, enc := c.encSel ses.encOpts }
  if !r.1 then (.err, r.2) else
  let q := recvFromServer c r.2
  match q.1 with
  | .err => (.err, q.2)
  | .panic => (.panic, q.2)
  | .got conf =>
    let r2 := applyConfirmed q.2 conf
    if !r2.1 then (.err, r2.2) else
    -- "await for authentication options"
    recvFromServer c r2.2

/-- `EstablishSession` on a fresh client channel -/
def establish (c : Cfg) (s : St) : Res × St :=
  -- startNewSession: ensureState(new)
  if !s.connected ∨ s.state ≠ .new then (.err, s) else
  let r := sendSession s { state := .new }
  if !r.1 then (.err, r.2) else
  let q := recvFromServer c r.2
  match q.1 with
  | .err => (.err, q.2)
  | .panic => (.panic, q.2)
  | .got ses =>
    let n := if ses.state = .negotiating then negotiateBlock c q.2 ses else (.got ses, q.2)
    match n.1 with
    | .err => (.err, n.2)
    | .panic => (.panic, n.2)
    | .got ses2 => authLoop c (n.2.recvs.length + 2) n.2 ses2 none

structure Result where
  trace : List Ev
  res : Res
  final : St

def run (c : Cfg) (recvs : List Recv) (auths : List Auth) (sendOk : List Bool) (setEncOk : Bool)
    (enc0 : Opt := cs!"none") : Result :=
  let r := establish c { recvs, auths, sendOk, setEncOk, enc := enc0 }
  { trace := r.2.trace.reverse, res := r.1, final := r.2 }

end LimeModel.ClientHs
