import LimeModel.Basic
/-!
# Text forms: `strings.Split`, `Identity`, `Node`, `MediaType` (identity.go, node.go, mediatype.go)
-/
namespace LimeModel

/-- `strings.Split(s, string(sep))` for a one-character separator: never empty. -/
def splitOn (sep : Char) : Str → List Str
  | [] => [[]]
  | c :: t =>
    if c = sep then [] :: splitOn sep t
    else match splitOn sep t with
      | [] => [[c]]          -- unreachable: splitOn never returns []
      | h :: r => (c :: h) :: r

structure Identity where
  name : Str
  domain : Str
  deriving DecidableEq, Repr

structure Node where
  name : Str
  domain : Str
  inst : Str
  deriving DecidableEq, Repr

def Node.zero : Node := ⟨[], [], []⟩
def Node.identity (n : Node) : Identity := ⟨n.name, n.domain⟩
def Node.isZero (n : Node) : Bool := n.name.isEmpty && n.domain.isEmpty && n.inst.isEmpty

/-- `Identity.String` -/
def printIdentity (i : Identity) : Str :=
  if i.name = [] ∧ i.domain = [] then []
  else if i.domain = [] then i.name
  else i.name ++ '@' :: i.domain

/-- `ParseIdentity` -/
def parseIdentity (s : Str) : Identity :=
  let v := splitOn '@' s
  ⟨v.headD [], if v.length > 1 then v.getD 1 [] else []⟩

/-- `Node.String` -/
def printNode (n : Node) : Str :=
  if n.name = [] ∧ n.domain = [] ∧ n.inst = [] then []
  else if n.inst = [] then printIdentity n.identity
  else printIdentity n.identity ++ '/' :: n.inst

/-- `ParseNode` -/
def parseNode (s : Str) : Node :=
  let v := splitOn '/' s
  let i := parseIdentity (v.headD [])
  ⟨i.name, i.domain, if v.length > 1 then v.getD 1 [] else []⟩

structure MT where
  type : Str
  subtype : Str
  suffix : Str
  deriving DecidableEq, Repr

def MT.isZero (m : MT) : Bool := m.type.isEmpty && m.subtype.isEmpty && m.suffix.isEmpty
def MT.isJson (m : MT) : Bool := m.suffix = cs!"json"

/-- `MediaType.String` -/
def printMT (m : MT) : Str :=
  if m.type = [] ∧ m.subtype = [] ∧ m.suffix = [] then []
  else if m.suffix = [] then m.type ++ '/' :: m.subtype
  else m.type ++ '/' :: m.subtype ++ '+' :: m.suffix

/-- `ParseMediaType`: `none` is the error return. -/
def parseMT (s : Str) : Option MT :=
  let v := splitOn '+' s
  let suffix := if v.length > 1 then v.getD 1 [] else []
  let w := splitOn '/' (v.headD [])
  if w.length = 1 ∨ w.headD [] = [] ∨ w.getD 1 [] = [] then none
  else some ⟨w.headD [], w.getD 1 [], suffix⟩

end LimeModel
