import LimeModel.Basic
/-!
# M4: delivery on an established channel (channel.go, transports)

Sender goroutines with programs → the send mutex (one whole envelope at a time reaches the wire) →
the transport FIFO → the single receiver goroutine (`pop`, then a possibly blocking `push`) → four
bounded per-kind inbound streams (capacity `cap ≥ 0`; an unbuffered Go channel hands over only when
a consumer is ready, which the model over-approximates by one extra slot) → consumers (handlers,
stream readers) of arbitrary speed. One labelled step per action; the scheduler is arbitrary.
-/
namespace LimeModel.Chan

structure Env where
  kind : Nat
  sender : Nat
  seq : Nat
  deriving DecidableEq, Repr

structure CS where
  prog : Nat → List Env          -- remaining program of sender goroutine i
  wire : List Env                -- transport FIFO (whole envelopes: the send mutex + framing)
  hold : Option Env              -- envelope the receiver has read and is pushing
  q : Nat → List Env             -- per-kind inbound stream buffers
  delivered : Nat → List Env     -- what handlers / stream readers have seen, per kind
  sent : List Env                -- ghost: order in which Send calls completed

inductive CL | send (i : Nat) | pop | push | consume (k : Nat)
  deriving Repr

def updf {α} (f : Nat → α) (k : Nat) (v : α) : Nat → α := fun x => if x = k then v else f x

def cstep (cap : Nat) (s : CS) : CL → Option CS
  | .send i => match s.prog i with
    | [] => none
    | e :: rest => some { s with prog := updf s.prog i rest, wire := s.wire ++ [e], sent := s.sent ++ [e] }
  | .pop => match s.hold, s.wire with
    | none, e :: w => some { s with hold := some e, wire := w }
    | _, _ => none
  | .push => match s.hold with
    | some e => if (s.q e.kind).length < cap + 1 then
        some { s with hold := none, q := updf s.q e.kind (s.q e.kind ++ [e]) } else none
    | none => none
  | .consume k => match s.q k with
    | e :: r => some { s with q := updf s.q k r, delivered := updf s.delivered k (s.delivered k ++ [e]) }
    | [] => none

def init (progs : Nat → List Env) : CS :=
  { prog := progs, wire := [], hold := none, q := fun _ => [], delivered := fun _ => [], sent := [] }

def runL (cap : Nat) : CS → List CL → Option CS
  | s, [] => some s
  | s, l :: ls => match cstep cap s l with | some s' => runL cap s' ls | none => none

def ofKind (k : Nat) (l : List Env) : List Env := l.filter (fun e => e.kind = k)
def bySender (i : Nat) (l : List Env) : List Env := l.filter (fun e => e.sender = i)
def holdK (k : Nat) (h : Option Env) : List Env :=
  match h with | some e => if e.kind = k then [e] else [] | none => []

/-- the judge of a finished run, used on the model (theorem `quiescent_judged`) and, through the
driver, on histories recorded from the implementation: per kind, what was delivered carries that
kind and a known sender, and restricted to each sender it is exactly what that sender's successful
sends of that kind were, in order — nothing lost, duplicated, invented or reordered. -/
def judge (nS nK : Nat) (sentBy : Nat → List Env) (delivered : Nat → List Env) : Bool :=
  (List.range nK).all fun k =>
    (delivered k).all (fun e => decide (e.kind = k) && decide (e.sender < nS)) &&
    (List.range nS).all fun i => decide (bySender i (delivered k) = ofKind k (sentBy i))

/-- the same for a run that was cut short: a prefix, per sender and kind -/
def judgePrefix (nS nK : Nat) (sentBy : Nat → List Env) (delivered : Nat → List Env) : Bool :=
  (List.range nK).all fun k =>
    (delivered k).all (fun e => decide (e.kind = k) && decide (e.sender < nS)) &&
    (List.range nS).all fun i => (bySender i (delivered k)).isPrefixOf (ofKind k (sentBy i))

end LimeModel.Chan
