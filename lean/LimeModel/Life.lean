import LimeModel.ServerHs
/-!
# M4 (life cycle): what the data path of a channel looks at (channel.go)

`sendToTransport` consults the transport's `Connected()` and the session state; the receiver
goroutine — the only producer of the inbound streams — is started by `setState established`, runs
`for c.Established() { Receive; push }` and is stopped by `setState finished/failed`, by `Close`, or
by a session envelope it hands over. Everything else the handshake and teardown code of either role
does is, for the data path, a sequence of `setState` / `Close` / peer-gone events. The model
therefore takes an *arbitrary* sequence of such operations interleaved with application sends and
arriving data envelopes: every interleaving of application calls with every stage of either role's
handshake and teardown is one of these sequences.
-/
namespace LimeModel.Life
open LimeModel
open LimeModel.ServerHs (SState)

inductive Kind | msg | ntf | req | resp
  deriving DecidableEq, Repr

inductive Op
  | setState (x : SState)               -- `channel.setState` (handshake / teardown code of either role)
  | peerGone                            -- the transport starts reporting not connected
  | close                               -- `transport.Close()` / `channel.Close()`
  | send (k : Kind)                     -- SendMessage / SendNotification / Send*Command / ProcessCommand
  | arrive (k : Kind)                   -- a data envelope arrives on the transport
  | arriveSes (x : SState) (client : Bool)  -- a session envelope arrives on the transport
  deriving DecidableEq, Repr

inductive Ev
  | setState (x : SState)
  | refused (x : SState)                -- `setStateWLock` refuses a regressing state
  | gone
  | close
  | emit (k : Kind)                     -- a data envelope was written to the wire
  | sendErr (k : Kind)                  -- the send operation returned an error, nothing written
  | deliver (k : Kind)                  -- a data envelope was pushed to an inbound stream
  | held (k : Kind)                     -- a data envelope arrived and was not taken by the receiver
  | sesToApp (x : SState)               -- the receiver handed a session envelope over and exited
  | sesHeld (x : SState)                -- a session envelope arrived outside the receiver (handshake code reads it)
  deriving DecidableEq, Repr

structure L where
  state : SState := .new
  connected : Bool := true
  rcvStarted : Bool := false      -- `startRcv.Do` ran
  rcvStopped : Bool := false      -- `stopRcv.Do` ran, or the receiver returned
  trace : List Ev := []           -- newest first
  deriving Repr

def L.log (s : L) (e : Ev) : L := { s with trace := e :: s.trace }

/-- `channel.Established()` -/
def L.established (s : L) : Bool := s.state == .established && s.connected

/-- the receiver goroutine exists and its loop condition holds -/
def L.receiving (s : L) : Bool := s.rcvStarted && !s.rcvStopped && s.established

def terminal (x : SState) : Bool := x == .finished || x == .failed

/-- `channel.setState` -/
def setState (s : L) (x : SState) : L :=
  if x.step < s.state.step then s.log (.refused x)
  else
    let s1 := ({ s with state := x }).log (.setState x)
    if x = .established then { s1 with rcvStarted := true }
    else if terminal x then { s1 with rcvStopped := true }
    else s1

/-- `channel.sendToTransport`: `ensureEstablished` = transport connected and state established -/
def send (s : L) (k : Kind) : L :=
  if !s.connected then s.log (.sendErr k)
  else if s.state ≠ .established then s.log (.sendErr k)
  else s.log (.emit k)

def step (s : L) : Op → L
  | .setState x => setState s x
  | .peerGone => ({ s with connected := false }).log .gone
  | .close => ({ s with connected := false, rcvStopped := true }).log .close
  | .send k => send s k
  | .arrive k => if s.receiving then s.log (.deliver k) else s.log (.held k)
  | .arriveSes x client =>
    if s.receiving then
      let s1 := ({ s with rcvStopped := true }).log (.sesToApp x)
      if client && decide (s.state.step ≤ x.step) then { s1 with state := x }.log (.setState x) else s1
    else s.log (.sesHeld x)

def run (ops : List Op) : L := ops.foldl step {}

/-! ## the statement as a checker over traces (newest first) -/

/-- the session state after a trace -/
def stateOf : List Ev → SState
  | [] => .new
  | .setState x :: _ => x
  | _ :: t => stateOf t

/-- the transport still reports connected after a trace -/
def connOf : List Ev → Bool
  | [] => true
  | .gone :: _ => false
  | .close :: _ => false
  | _ :: t => connOf t

/-- every data envelope written or delivered was written / delivered while the session was
established on a connected transport; every send in another situation reported an error -/
def okRev : List Ev → Bool
  | [] => true
  | .emit _ :: t => (stateOf t == .established && connOf t) && okRev t
  | .deliver _ :: t => (stateOf t == .established && connOf t) && okRev t
  | .sendErr _ :: t => !(stateOf t == .established && connOf t) && okRev t
  | _ :: t => okRev t

/-- data events of a trace -/
def isData : Ev → Bool
  | .emit _ | .deliver _ => true
  | _ => false

end LimeModel.Life
