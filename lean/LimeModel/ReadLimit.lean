import LimeModel.Basic
import LimeModel.Generated
/-!
# M3: `io.LimitedReader` under the buffering stream decoder (tcp_transport.go `Receive`)

Numeric abstraction: the stream is seen through the length `f` of the frame at its head (counting
the separator the sender writes with it); `buf` bytes of the remaining stream are already in the
decoder's buffer; every read returns `k` bytes with `1 ≤ k ≤ min budget available`, `k` chosen by an
oracle (`reads`), so nothing depends on the decoder's buffer growth policy. The budget is re-armed to
the limit before every `Receive`.
-/
namespace LimeModel.ReadLimit

structure RS where
  buf : Nat          -- bytes buffered and not yet consumed (a prefix of the remaining stream)
  avail : Nat        -- bytes of the remaining stream not yet read from the connection
  deriving Repr, DecidableEq

inductive Res | ok (s : RS) (consumed : Nat) | err (consumed : Nat)
  deriving Repr, DecidableEq

/-- one `Receive`: `f` = length of the frame at the head of the stream, `N` = remaining budget,
`reads` = oracle (requested sizes, clamped to `1 .. min N avail`), `used` = bytes read so far. -/
def recvLoop (f : Nat) : Nat → RS → Nat → List Nat → Nat → Res
  | 0, _, _, _, used => .err used                        -- unreachable with fuel = f + 1
  | fuel + 1, s, N, reads, used =>
    if f ≤ s.buf then .ok { s with buf := s.buf - f } used       -- complete frame buffered: no read
    else if N = 0 then .err used                                   -- LimitedReader: EOF
    else if s.avail = 0 then .err used                             -- stream cut
    else
      let k := max 1 (min (reads.headD 1) (min N s.avail))
      recvLoop f fuel { buf := s.buf + k, avail := s.avail - k } (N - k) reads.tail (used + k)

/-- `Receive` with read limit `L` -/
def recv (L f : Nat) (s : RS) (reads : List Nat) : Res := recvLoop f (f + 1) s L reads 0

def Res.consumed : Res → Nat | .ok _ c => c | .err c => c

/-! ## the budget across the receives of one connection

`recv` starts every receive with the full budget. On the connection the budget is a field that the
code renews at some point of `Receive`; *when* it does decides whether "an envelope within the limit
is accepted no matter how much data preceded it" survives documents that are taken off the stream
and then refused. -/

/-- what a document on the stream turns out to be -/
inductive DocKind
  | envelope          -- decodes and converts
  | refusedByDecode   -- well-formed JSON that `Decode` rejects after reading it (a member of the wrong JSON type, an invalid media type)
  | refusedByConvert  -- decodes into the raw struct but is no envelope (no member tells its kind)
  deriving DecidableEq, Repr

/-- when the code renews the budget -/
inductive Policy
  | onValue       -- whenever a complete JSON value was taken off the stream (the code as repaired)
  | onDecodeOk    -- only when `Decode` returned no error (the code before the repair)
  | onEnvelope    -- only when the value converted into an envelope
  deriving DecidableEq, Repr

def Policy.renews : Policy → DocKind → Bool
  | .onValue, _ => true
  | .onDecodeOk, .refusedByDecode => false
  | .onDecodeOk, _ => true
  | .onEnvelope, .envelope => true
  | .onEnvelope, _ => false

structure Conn where
  rs : RS
  N : Nat          -- what is left of the budget
  deriving Repr, DecidableEq

/-- one `Receive` on the connection: `true` = the document was taken off the stream (and handed out or
refused for what it is), `false` = the stream failed (budget exhausted or cut) -/
def recvC (p : Policy) (L f : Nat) (k : DocKind) (c : Conn) (reads : List Nat) : Bool × Conn :=
  match recvLoop f (f + 1) c.rs c.N reads 0 with
  | .ok s used => (true, { rs := s, N := if p.renews k then L else c.N - used })
  | .err used => (false, { c with N := c.N - used })

/-- a stream of documents, one read oracle each -/
def runC (p : Policy) (L : Nat) : Conn → List (Nat × DocKind × List Nat) → List Bool
  | _, [] => []
  | c, (f, k, reads) :: rest =>
    let r := recvC p L f k c reads
    r.1 :: runC p L r.2 rest

/-- which policy the code has, read from the source on this run (`harness/cmd/facts/structure.go`:
the assignment to the budget precedes the error return that follows `Decode`) -/
def policy : Policy := if Generated.readBudgetRenewedPerValue then .onValue else .onDecodeOk

end LimeModel.ReadLimit
