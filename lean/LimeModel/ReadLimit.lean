import LimeModel.Basic
/-!
# M3: `io.LimitedReader` under the buffering stream decoder (tcp_transport.go `Receive`)

Numeric abstraction: the stream is seen through the length `f` of the frame at its head (counting
the separator the sender writes with it); `buf` bytes of the remaining stream are already in the
decoder's buffer; every read returns `k` bytes with `1 ≤ k ≤ min budget available`, `k` chosen by an
oracle (`reads`), so nothing depends on the decoder's buffer growth policy. The budget is re-armed to
the limit before every `Receive`.
-/
namespace LimeModel.ReadLimit

structure RS where
  buf : Nat          -- bytes buffered and not yet consumed (a prefix of the remaining stream)
  avail : Nat        -- bytes of the remaining stream not yet read from the connection
  deriving Repr, DecidableEq

inductive Res | ok (s : RS) (consumed : Nat) | err (consumed : Nat)
  deriving Repr, DecidableEq

/-- one `Receive`: `f` = length of the frame at the head of the stream, `N` = remaining budget,
`reads` = oracle (requested sizes, clamped to `1 .. min N avail`), `used` = bytes read so far. -/
def recvLoop (f : Nat) : Nat → RS → Nat → List Nat → Nat → Res
  | 0, _, _, _, used => .err used                        -- unreachable with fuel = f + 1
  | fuel + 1, s, N, reads, used =>
    if f ≤ s.buf then .ok { s with buf := s.buf - f } used       -- complete frame buffered: no read
    else if N = 0 then .err used                                   -- LimitedReader: EOF
    else if s.avail = 0 then .err used                             -- stream cut
    else
      let k := max 1 (min (reads.headD 1) (min N s.avail))
      recvLoop f fuel { buf := s.buf + k, avail := s.avail - k } (N - k) reads.tail (used + k)

/-- `Receive` with read limit `L` -/
def recv (L f : Nat) (s : RS) (reads : List Nat) : Res := recvLoop f (f + 1) s L reads 0

def Res.consumed : Res → Nat | .ok _ c => c | .err c => c

end LimeModel.ReadLimit
