import LimeModel.Basic
/-!
# JSON trees and the generic behaviour of `encoding/json` over structs

Bytes ↔ tree (escaping, UTF-8, number syntax) is `encoding/json`'s job and is trusted; the model
starts from the tree. Objects keep their members in order (duplicates possible, as on the wire).
Numbers keep their literal text.
-/
namespace LimeModel

/-- A JSON number: an integer literal (`-?[0-9]+`, by value) or any other literal (by text).
Literal text ↔ value is part of the trusted bytes ↔ tree layer. -/
inductive JNum where
  | int (i : Int)
  | other (text : Str)
  deriving Repr, DecidableEq

inductive Json where
  | null
  | bool (b : Bool)
  | num (n : JNum)
  | str (s : Str)
  | arr (l : List Json)
  | obj (kvs : List (Str × Json))
  deriving Repr

namespace Json

/-- `encoding/json`'s key folding: ASCII letters to upper case, plus the two non-ASCII runes
whose simple case folding lands in ASCII (U+017F long s, U+212A Kelvin sign). -/
def foldChar (c : Char) : Char :=
  if 'a' ≤ c ∧ c ≤ 'z' then Char.ofNat (c.toNat - 32)
  else if c = Char.ofNat 0x17F then 'S'
  else if c = Char.ofNat 0x212A then 'K'
  else c

def foldKey (s : Str) : Str := s.map foldChar

/-- Does the object key `k` select the struct field whose JSON name is `field`? -/
def keyMatch (field k : Str) : Bool := foldKey k == foldKey field

/-- All values whose key selects `field`, in member order. -/
def fieldVals (field : Str) : List (Str × Json) → List Json
  | [] => []
  | (k, v) :: t => if keyMatch field k then v :: fieldVals field t else fieldVals field t

theorem fieldVals_append (f : Str) (a b : List (Str × Json)) :
    fieldVals f (a ++ b) = fieldVals f a ++ fieldVals f b := by
  induction a with
  | nil => rfl
  | cons h t ih => obtain ⟨k, v⟩ := h; simp only [List.cons_append, fieldVals]; split <;> simp [ih]

theorem sizeOf_lt_of_mem_fieldVals {f : Str} {kvs : List (Str × Json)} {v : Json}
    (h : v ∈ fieldVals f kvs) : sizeOf v < sizeOf kvs := by
  induction kvs with
  | nil => simp [fieldVals] at h
  | cons a t ih =>
    obtain ⟨k, w⟩ := a
    simp only [fieldVals] at h
    split at h
    · cases h with
      | head => simp; omega
      | tail _ h' => have := ih h'; simp; omega
    · have := ih h; simp; omega

/-- The last value assigned to a pointer / scalar field wins. -/
def lastVal (field : Str) (kvs : List (Str × Json)) : Option Json := (fieldVals field kvs).getLast?

theorem sizeOf_lt_of_lastVal {f : Str} {kvs : List (Str × Json)} {v : Json}
    (h : lastVal f kvs = some v) : sizeOf v < sizeOf kvs := by
  unfold lastVal at h
  exact sizeOf_lt_of_mem_fieldVals (List.mem_of_getLast? h)

theorem sizeOf_lt_of_mem {l : List Json} {v : Json} (h : v ∈ l) : sizeOf v < sizeOf l := by
  induction l with
  | nil => cases h
  | cons a t ih =>
    cases h with
    | head => simp; omega
    | tail _ h' => have := ih h'; simp; omega

/-- `encoding/json` decoding a JSON value into a Go `string` (or a plain string type without
unmarshalling methods): a string is taken, `null` leaves the destination as it is, anything else
is a type error. `cur` is the destination's current value. -/
def intoString (cur : Str) : Json → Outcome Str
  | .str s => .ok s
  | .null => .ok cur
  | _ => .err

/-- into a Go `int` (64 bit): integer literal in range (what `strconv.ParseInt` accepts), `null`
keeps the current value, anything else is an error -/
def intoInt (cur : Int) : Json → Outcome Int
  | .num (.int i) => if -9223372036854775808 ≤ i ∧ i ≤ 9223372036854775807 then .ok i else .err
  | .null => .ok cur
  | _ => .err

/-- fold the assignments of all occurrences of a field, in member order -/
def foldVals {α} (assign : α → Json → Outcome α) : α → List Json → Outcome α
  | a, [] => .ok a
  | a, v :: t => (assign a v).bind (fun a' => foldVals assign a' t)

@[simp] theorem foldVals_nil {α} (assign : α → Json → Outcome α) (a : α) : foldVals assign a [] = .ok a := rfl
@[simp] theorem foldVals_single {α} (assign : α → Json → Outcome α) (a : α) (v : Json) :
    foldVals assign a [v] = assign a v := by
  simp only [foldVals]; cases assign a v <;> rfl

/-- a `*json.RawMessage` field: the last occurrence wins; `null` makes the pointer nil -/
def rawLast (field : Str) (kvs : List (Str × Json)) : Option Json :=
  match lastVal field kvs with
  | some .null => none
  | some v => some v
  | none => none

theorem sizeOf_lt_of_rawLast {f : Str} {kvs : List (Str × Json)} {v : Json}
    (h : rawLast f kvs = some v) : sizeOf v < sizeOf kvs := by
  unfold rawLast at h
  split at h
  · cases h
  · rename_i w hw; cases h; exact sizeOf_lt_of_lastVal hw
  · cases h

/-- a pointer to a type with `UnmarshalText` (`*Node`, `*MediaType`, enum pointers, `*URI`):
a string is parsed (a parse error is an error), `null` makes the pointer nil, anything else is a
type error -/
def ptrText {α} (parse : Str → Option α) (_cur : Option α) : Json → Outcome (Option α)
  | .str s => match parse s with
    | some a => .ok (some a)
    | none => .err
  | .null => .ok none
  | _ => .err

/-- a pointer to a plain string type (`*SessionEncryption`, `*AuthenticationScheme`, `*CommandStatus`) -/
def ptrString (_cur : Option Str) : Json → Outcome (Option Str)
  | .str s => .ok (some s)
  | .null => .ok none
  | _ => .err

/-- element of a `map[string]T` for a plain string type `T`: `null` gives the zero value -/
def elemString : Json → Outcome Str
  | .str s => .ok s
  | .null => .ok []
  | _ => .err

/-- elements of a `[]T` (plain string type) decoded over the slice's previous contents `old`:
element `i` is decoded into the existing element when there is one, so `null` keeps it -/
def elemsOver : List Str → List Json → Outcome (List Str)
  | _, [] => .ok []
  | old, v :: t =>
    (intoString (old.headD []) v).bind (fun s =>
    (elemsOver old.tail t).bind (fun r => .ok (s :: r)))

/-- a slice of a plain string type: an array is decoded over the current contents, `null` makes
the slice nil, anything else is an error -/
def sliceString (cur : Option (List Str)) : Json → Outcome (Option (List Str))
  | .arr l => (elemsOver (cur.getD []) l).bind (fun x => .ok (some x))
  | .null => .ok none
  | _ => .err

end Json
end LimeModel
