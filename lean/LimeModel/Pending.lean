import LimeModel.Generated
import LimeModel.Basic
/-!
# M4: the pending-command table (channel.go `processCommand` ‖ `trySubmitCommandResult`)

Lock-region granularity: every labelled step is one critical section of `processingCmdsMu` or one
channel operation. Any number of `ProcessCommand` calls (callers `i`, command ids `id`), one
receiver goroutine taking responses from `incoming` in order. `fixed = true` is the code as it is
(lookup and delete form one critical section; the deferred delete removes only the caller's own
registration); `fixed = false` is the tree before the repair (lookup under RLock, delete under a
second Lock; unconditional deferred delete), kept for the witness schedule.
-/
namespace LimeModel.Pending

structure Resp where
  id : Nat
  tag : Nat          -- distinguishes responses
  deriving DecidableEq, Repr

inductive Result | rejected | sendErr | ctxErr | resp (r : Resp)
  deriving DecidableEq, Repr

inductive PC | absent | start | registered | waiting | cleanup (res : Result) | done (res : Result)
  deriving DecidableEq, Repr

structure Caller where
  id : Nat
  pc : PC
  deriving DecidableEq, Repr

inductive RcvPC | idle | lookedUp (r : Resp) (ch : Nat) | deleted (r : Resp) (ch : Nat)
  deriving DecidableEq, Repr

structure S where
  table : Nat → Option Nat        -- command id ↦ caller (= its reply channel)
  chan : Nat → Option Resp        -- one-slot reply channel per caller
  caller : Nat → Caller
  rcv : RcvPC
  incoming : List Resp
  stream : List Resp

inductive Lbl
  | spawn (i id : Nat)            -- a new ProcessCommand call i for command id
  | register (i : Nat)
  | send (i : Nat) (ok : Bool)
  | take (i : Nat)                -- select picks the reply channel
  | cancel (i : Nat)              -- select picks ctx.Done
  | cleanup (i : Nat)             -- deferred delete
  | rcvLookup | rcvDelete | rcvHandoff
  deriving Repr

def upd {α} (f : Nat → α) (k : Nat) (v : α) : Nat → α := fun x => if x = k then v else f x

def setPC (s : S) (i : Nat) (pc : PC) : S := { s with caller := upd s.caller i { (s.caller i) with pc := pc } }

def step (fixed : Bool) (s : S) : Lbl → Option S
  | .spawn i id => if (s.caller i).pc = .absent then some { s with caller := upd s.caller i ⟨id, .start⟩ } else none
  | .register i =>
    if (s.caller i).pc = .start then
      match s.table (s.caller i).id with
      | some _ => some (setPC s i (.done .rejected))
      | none => some (setPC { s with table := upd s.table (s.caller i).id (some i) } i .registered)
    else none
  | .send i ok =>
    if (s.caller i).pc = .registered then some (setPC s i (if ok then .waiting else .cleanup .sendErr)) else none
  | .take i =>
    if (s.caller i).pc = .waiting then
      match s.chan i with
      | some r => some (setPC { s with chan := upd s.chan i none } i (.cleanup (.resp r)))
      | none => none
    else none
  | .cancel i => if (s.caller i).pc = .waiting then some (setPC s i (.cleanup .ctxErr)) else none
  | .cleanup i =>
    match (s.caller i).pc with
    | .cleanup res =>
      let del := !fixed || s.table (s.caller i).id == some i
      some (setPC (if del then { s with table := upd s.table (s.caller i).id none } else s) i (.done res))
    | _ => none
  | .rcvLookup =>
    if s.rcv = .idle then
      match s.incoming with
      | [] => none
      | r :: rest =>
        match s.table r.id with
        | none => some { s with incoming := rest, stream := s.stream ++ [r] }
        | some ch =>
          if fixed then some { s with incoming := rest, table := upd s.table r.id none, rcv := .deleted r ch }
          else some { s with incoming := rest, rcv := .lookedUp r ch }
    else none
  | .rcvDelete =>
    match s.rcv with
    | .lookedUp r ch => some { s with table := upd s.table r.id none, rcv := .deleted r ch }
    | _ => none
  | .rcvHandoff =>
    match s.rcv with
    | .deleted r ch =>
      match s.chan ch with
      | none => some { s with chan := upd s.chan ch (some r), rcv := .idle }
      | some _ => none       -- would block
    | _ => none

def init (incoming : List Resp) : S :=
  { table := fun _ => none, chan := fun _ => none, caller := fun _ => ⟨0, .absent⟩, rcv := .idle, incoming, stream := [] }

def runL (fixed : Bool) : S → List Lbl → Option S
  | s, [] => some s
  | s, l :: ls => match step fixed s l with | some s' => runL fixed s' ls | none => none


/-- which variant the code is: see `Props.C05` and the differential mode `c05` -/
def repaired : Bool :=
  Generated.pendingLookupDeleteOneRegion && Generated.pendingCleanupConditional

end LimeModel.Pending
