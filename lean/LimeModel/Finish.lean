import LimeModel.Generated
import LimeModel.ServerHs
/-!
# M5: the end of a session seen from the client that asks for it
(client_channel.go `FinishSession` / `receiveSessionFromServer`, channel.go `receiveSession`,
`receiveFromTransport`, `setState` / `stopReceiver`)

Two goroutines share the channel: the caller of `FinishSession` (send `finishing`; read the state;
wait on the session stream, or - in a terminal state - take what is pending there; adopt the
state; stop the receiver; close the transport) and the receiver goroutine (take the server's
`finished` reply from the transport; push it to the session stream; adopt its state; exit, closing
the inbound streams and the done signal). Every labelled step is atomic, the scheduler arbitrary.
`fixed = false` is the tree before the repair: a caller that read `finished` gave up.
-/
namespace LimeModel.Finish

inductive RPC | running | pushed | exited
  deriving DecidableEq, Repr

inductive CPC | idle | sent | readEst | readTerm | got | adopted | stopped | closed | failed
  deriving DecidableEq, Repr

structure FS where
  rpc : RPC := .running
  cpc : CPC := .idle
  finished : Bool := false      -- the channel state is `finished` (otherwise `established`)
  wire : Bool := false          -- the server's `finished` reply is on the transport
  inSes : Bool := false         -- ... is in the session stream (buffer of one)
  inSesClosed : Bool := false   -- the session stream (with the other inbound streams) is closed
  cancelReq : Bool := false     -- `stopReceiver` cancelled the receiver's context
  tclosed : Bool := false       -- the client's transport is closed
  closes : Nat := 0             -- how many times the inbound streams were closed
  deriving DecidableEq, Repr

inductive Lbl
  | callerSend | callerRead | callerWait | callerTerminal | callerAdopt | callerStop | callerClose
  | rcvTake | rcvAdopt | rcvCancelled
  deriving DecidableEq, Repr

def step (fixed : Bool) (s : FS) : Lbl → Option FS
  | .callerSend => if s.cpc = .idle ∧ !s.finished then some { s with cpc := .sent, wire := true } else none
  | .callerRead =>
    if s.cpc = .sent then some { s with cpc := if s.finished then .readTerm else .readEst } else none
  | .callerWait =>
    if s.cpc = .readEst then
      if s.inSes then some { s with cpc := .got, inSes := false }
      else if s.inSesClosed then some { s with cpc := .failed }   -- "channel closed"
      else none                                                    -- blocked
    else none
  | .callerTerminal =>
    if s.cpc = .readTerm then
      if fixed ∧ s.inSes then some { s with cpc := .got, inSes := false }
      else some { s with cpc := .failed }                          -- "cannot do in the finished state"
    else none
  | .callerAdopt => if s.cpc = .got then some { s with cpc := .adopted, finished := true } else none
  | .callerStop =>
    if s.cpc = .adopted then
      if s.rpc = .exited then some { s with cpc := .stopped }
      else if !s.cancelReq then some { s with cancelReq := true }
      else none                                                    -- waiting for the done signal
    else none
  | .callerClose => if s.cpc = .stopped then some { s with cpc := .closed, tclosed := true } else none
  | .rcvTake =>
    if s.rpc = .running ∧ s.wire ∧ !s.finished ∧ !s.tclosed ∧ !s.cancelReq then
      some { s with rpc := .pushed, wire := false, inSes := true }
    else none
  | .rcvAdopt =>
    if s.rpc = .pushed then
      some { s with rpc := .exited, finished := true, inSesClosed := true, closes := s.closes + 1 }
    else none
  | .rcvCancelled =>
    if s.rpc = .running ∧ s.cancelReq then
      some { s with rpc := .exited, inSesClosed := true, closes := s.closes + 1 }
    else none

def runL (fixed : Bool) : FS → List Lbl → Option FS
  | s, [] => some s
  | s, l :: ls => match step fixed s l with | some s' => runL fixed s' ls | none => none

def allLabels : List Lbl :=
  [.callerSend, .callerRead, .callerWait, .callerTerminal, .callerAdopt, .callerStop, .callerClose,
   .rcvTake, .rcvAdopt, .rcvCancelled]

/-- no step is enabled -/
def stuck (fixed : Bool) (s : FS) : Bool := allLabels.all fun l => (step fixed s l).isNone

/-- which variant the code is, read from the source on this run: `receiveSession` takes a pending
session envelope in the terminal states -/
def repaired : Bool := Generated.finishDrainsTerminalState

end LimeModel.Finish
