import LimeModel.Envelope
/-!
# M2 (server): `ServerChannel.EstablishSession` and its helpers (server_channel.go, channel.go)

One Lean function per Go helper. The environment is explicit: the script of what `Receive`
returns, the outcomes of the `Authenticate` and `Register` callbacks, which `Send` calls fail,
whether `SetEncryption` succeeds. Traces are newest-first.
-/
namespace LimeModel.ServerHs
open LimeModel

inductive SState | new | negotiating | authenticating | established | finishing | finished | failed
  deriving DecidableEq, Repr

/-- `SessionState.Step` -/
def SState.step : SState → Nat
  | .new => 0 | .negotiating => 1 | .authenticating => 2 | .established => 3
  | .finishing => 4 | .finished => 5 | .failed => 6

def SState.name : SState → Str
  | .new => cs!"new" | .negotiating => cs!"negotiating" | .authenticating => cs!"authenticating"
  | .established => cs!"established" | .finishing => cs!"finishing" | .finished => cs!"finished"
  | .failed => cs!"failed"

abbrev Opt := Str        -- "none" / "tls" / "gzip"
abbrev Scheme := Str

/-- the session envelope fields the handshake looks at or produces -/
structure Ses where
  id : Str := []
  from_ : Node := Node.zero
  to : Node := Node.zero
  state : SState
  compOpts : List Opt := []
  encOpts : List Opt := []
  comp : Opt := []
  enc : Opt := []
  schemeOpts : List Scheme := []
  scheme : Scheme := []
  auth : Option Auth := none
  hasReason : Bool := false
  deriving DecidableEq, Repr

/-- what `receiveSession` gets from the transport -/
inductive Recv
  | ses (s : Ses)     -- a session envelope
  | sesGone (s : Ses) -- a session envelope, and by the time `Receive` returns the transport reports
                      -- not connected (in-process transport whose peer closed right after sending)
  | other             -- an envelope of another kind ("unexpected envelope type")
  | fail (eof : Bool) -- a transport error: the peer went away (`eof`) or undecodable bytes / context end
  deriving Repr

/-- outcome of the `Authenticate` callback -/
inductive AuthOut
  | role                      -- a known domain role
  | unknown                   -- role unknown / empty, no round trip
  | roundTrip (data : Auth)   -- asks for another round
  | error                     -- returns an error
  deriving DecidableEq, Repr

inductive Ev
  | recv (r : Recv)                         -- `Receive` returned this input
  | emit (s : Ses) (enc : Opt)              -- envelope written, with the transport encryption in force
  | authCall (name domain : Str) (scheme : Scheme) (cred : Option Auth) (enc : Opt) (out : AuthOut)
  | regCall (cand : Node) (res : Option Node)
  | setState (s : SState)
  | setEnc (e : Opt) (ok : Bool)
  | setComp (c : Opt) (ok : Bool)
  | close
  deriving Repr

structure Cfg where
  sid : Str
  node : Node
  compOpts : List Opt
  encOpts : List Opt
  schemeOpts : List Scheme
  supComp : List Opt        -- transport.SupportedCompression()
  supEnc : List Opt         -- transport.SupportedEncryption()
  eofDisconnects : Bool := true   -- TCP: a read that hits EOF marks the transport as not connected

/-- mutable part + environment oracles + trace -/
structure St where
  state : SState := .new
  connected : Bool := true   -- `transport.Connected()`
  held : Bool := true        -- the local end of the connection is still open (not yet `Close`d)
  enc : Opt := cs!"none"
  comp : Opt := cs!"none"
  remote : Node := Node.zero
  recvs : List Recv          -- what Receive returns, in order (exhausted = error)
  auths : List AuthOut       -- Authenticate outcomes in order (exhausted = error)
  regs : List (Option Node)  -- Register outcomes (exhausted / none = error)
  sendOk : List Bool         -- whether each transport.Send succeeds (exhausted = true)
  setEncOk : Bool := true
  trace : List Ev := []

/-- the trace is kept newest-first -/
def St.log (s : St) (e : Ev) : St := { s with trace := e :: s.trace }

def setState (s : St) (x : SState) : St := ({ s with state := x }).log (.setState x)

/-- `channel.sendSession` -/
def sendSession (s : St) (e : Ses) : Bool × St :=
  if !s.connected then (false, s)
  else if s.state = .finished ∨ s.state = .failed then (false, s)
  else match s.sendOk with
    | [] => (true, s.log (.emit e s.enc))
    | true :: r => (true, ({ s with sendOk := r }).log (.emit e s.enc))
    | false :: r => (false, { s with sendOk := r })

/-- the transport saw EOF: `tcpTransport` sets its `eof` flag, after which `Connected()` is false
(no close call is made) -/
def markEof (c : Cfg) (s : St) : St := if c.eofDisconnects then { s with connected := false } else s

/-- what one script item does to `receiveSession` -/
def recvItem (c : Cfg) (s : St) (x : Recv) (r : List Recv) : Option Ses × St :=
  match x with
  | .ses y => (some y, ({ s with recvs := r }).log (.recv (.ses y)))
  | .sesGone y => (some y, ({ s with recvs := r, connected := false }).log (.recv (.ses y)))
  | .other => (none, ({ s with recvs := r }).log (.recv .other))
  | .fail true => (none, markEof c (({ s with recvs := r }).log (.recv (.fail true))))
  | .fail false => (none, ({ s with recvs := r }).log (.recv (.fail false)))

/-- `channel.receiveSession` during the handshake (state neither established nor finished) -/
def recvSession (c : Cfg) (s : St) : Option Ses × St :=
  if !s.connected then (none, s)
  else match s.recvs with
    | [] => (none, markEof c s)                -- script exhausted: the peer went away
    | x :: r => recvItem c s x r

def closeT (s : St) : St := ({ s with connected := false, held := false }).log .close

/-- `ServerChannel.FailSession`; the Boolean is `err == nil` -/
def failSession (c : Cfg) (s : St) : Bool × St :=
  if !s.connected then (false, s)
  else
    let r := sendSession s { id := c.sid, from_ := c.node, to := s.remote, state := .failed, hasReason := true }
    let s2 := setState r.2 .failed
    -- the connection is released whether or not the envelope could be sent
    (r.1, closeT s2)

/-- `intersect` (order of the first list) -/
def inter (a b : List Opt) : List Opt := a.filter (fun x => b.contains x)

def popAuth (s : St) : St := { s with auths := s.auths.tail }
def popReg (s : St) : St := { s with regs := s.regs.tail }
def setRemote (s : St) (n : Node) : St := { s with remote := n }

/-- `sendEstablishedSession` -/
def sendEstablished (c : Cfg) (s : St) (n : Node) : Bool × St :=
  if !s.connected then (false, s) else
  if s.state ≠ .new ∧ s.state ≠ .negotiating ∧ s.state ≠ .authenticating then (false, s) else
  sendSession (setRemote (setState s .established) n) { id := c.sid, from_ := c.node, to := n, state := .established }

def callAuth (s : St) (ses : Ses) (out : AuthOut) : St :=
  (popAuth s).log (.authCall ses.from_.name ses.from_.domain ses.scheme ses.auth s.enc out)
def callReg (s : St) (ses : Ses) (res : Option Node) : St :=
  (popReg s).log (.regCall ses.from_ res)

/-- the `for c.state == SessionStateAuthenticating` loop of `authenticateSession` -/
def authLoop (c : Cfg) (s : St) (ses : Ses) : Nat → Bool × St
  | 0 => (false, s)     -- fuel is the length of the callback oracle + 1: exhausted = callback error
  | fuel + 1 =>
    if s.state ≠ .authenticating then (true, s) else
    if ses.state ≠ .authenticating then failSession c s else
    if ses.id ≠ c.sid then failSession c s else
    if !c.schemeOpts.contains ses.scheme then failSession c s else
    match s.auths.head? with
    | none => (false, s)
    | some .error => (false, callAuth s ses .error)
    | some .role =>
      let s := callAuth s ses .role
      match s.regs.head? with
      | none | some none => (false, callReg s ses none)
      | some (some n) =>
        let r := sendEstablished c (callReg s ses (some n)) n
        if r.1 then authLoop c r.2 ses fuel else (false, r.2)
    | some (.roundTrip d) =>
      let s := callAuth s ses (.roundTrip d)
      -- sendAuthenticatingRoundTripSession: ensureState(authenticating)
      if !s.connected then (false, s) else
      let r := sendSession s { id := c.sid, from_ := c.node, state := .authenticating, auth := some d }
      if !r.1 then (false, r.2) else
      let q := recvSession c r.2
      match q.1 with
      | none => (false, q.2)
      | some ses' => authLoop c q.2 ses' fuel
    | some .unknown =>
      let r := failSession c (callAuth s ses .unknown)
      if r.1 then authLoop c r.2 ses fuel else (false, r.2)

/-- `authenticateSession` -/
def authenticate (c : Cfg) (s : St) : Bool × St :=
  -- sendAuthenticatingSession
  if c.schemeOpts.isEmpty then (false, s) else
  if !s.connected then (false, s) else
  if s.state ≠ .new ∧ s.state ≠ .negotiating then (false, s) else
  let r := sendSession (setState s .authenticating)
    { id := c.sid, from_ := c.node, state := .authenticating, schemeOpts := c.schemeOpts }
  if !r.1 then (false, r.2) else
  let q := recvSession c r.2
  match q.1 with
  | none => (false, q.2)
  | some ses => authLoop c q.2 ses (q.2.auths.length + 1)

/-- `transport.SetEncryption` when the selected value differs from the one in force -/
def applyEnc (s : St) (e : Opt) : Bool × St :=
  if s.enc ≠ e then
    if s.setEncOk then (true, ({ s with enc := e }).log (.setEnc e true))
    else (false, s.log (.setEnc e false))
  else (true, s)

/-- `transport.SetCompression` when the selected value differs: no transport can change it -/
def applyComp (s : St) (x : Opt) : Bool × St :=
  if s.comp ≠ x then (false, s.log (.setComp x false)) else (true, s)

/-- `sendNegotiatingConfirmationSession` + `SetCompression` + `SetEncryption` -/
def confirm (c : Cfg) (s : St) (comp enc : Opt) : Bool × St :=
  if !s.connected ∨ s.state ≠ .negotiating then (false, s) else
  let r2 := sendSession s { id := c.sid, from_ := c.node, state := .negotiating, comp := comp, enc := enc }
  if !r2.1 then (false, r2.2) else
  let r3 := applyComp r2.2 comp
  if !r3.1 then (false, r3.2) else
  applyEnc r3.2 enc

/-- the decision on the client's answer to the options -/
def onSelection (c : Cfg) (s : St) (co eo : List Opt) (ses : Ses) : Bool × St :=
  if ses.id ≠ c.sid then failSession c s else
  if ses.state = .negotiating ∧ ses.comp ≠ [] ∧ ses.enc ≠ [] ∧ co.contains ses.comp ∧ eo.contains ses.enc then
    confirm c s ses.comp ses.enc
  else failSession c s

/-- `negotiateSession` -/
def negotiate (c : Cfg) (s : St) (co eo : List Opt) : Bool × St :=
  if co.isEmpty ∨ eo.isEmpty then (false, s) else
  if !s.connected ∨ s.state ≠ .new then (false, s) else
  let r := sendSession (setState s .negotiating)
    { id := c.sid, from_ := c.node, state := .negotiating, compOpts := co, encOpts := eo }
  if !r.1 then (false, r.2) else
  let q := recvSession c r.2
  match q.1 with
  | none => (false, q.2)
  | some ses => onSelection c q.2 co eo ses

/-- negotiate when there is a choice to make, or when the single acceptable option is not the one
in force: `len(co) > 1 || len(eo) > 1 || (len(co) == 1 && co[0] != Compression()) ||
(len(eo) == 1 && eo[0] != Encryption())` -/
def needNegotiation (s : St) (co eo : List Opt) : Bool :=
  decide (co.length > 1) || decide (eo.length > 1) ||
    (decide (co.length = 1) && !co.contains s.comp) || (decide (eo.length = 1) && !eo.contains s.enc)

/-- the `if ses.State == SessionStateNew { … }` block -/
def newBlock (c : Cfg) (s : St) : Bool × St :=
  let co := inter c.compOpts c.supComp
  let eo := inter c.encOpts c.supEnc
  let r := if needNegotiation s co eo then negotiate c s co eo else (true, s)
  if !r.1 then (false, r.2) else
  if r.2.state ≠ .failed then authenticate c r.2 else (true, r.2)

/-- `EstablishSession` -/
def establish (c : Cfg) (s : St) : Bool × St :=
  if !s.connected then (false, s) else
  if s.state ≠ .new then (false, s) else
  let q := recvSession c s
  match q.1 with
  | none => (false, q.2)
  | some ses =>
    if ses.id ≠ [] then failSession c q.2 else
    let r := if ses.state = .new then newBlock c q.2 else (true, q.2)
    if !r.1 then (false, r.2) else
    if r.2.state ≠ .established ∧ r.2.state ≠ .failed ∧ r.2.connected then failSession c r.2 else (true, r.2)

/-- callbacks of the serving layer -/
inductive CbEv | established | finished
  deriving DecidableEq, Repr

/-- `channel.Close()`: the receiver is stopped and the local end of the connection is released,
also when the peer already went away (`Connected()` false but the socket still held) -/
def channelClose (s : St) : St := if s.held then closeT s else s

/-- `Server.handleChannel` up to the point where the session is served: a connection whose
handshake returned an error, or was answered with a failed session, is released and no callback
is invoked; otherwise the `Established` callback runs, the session is served (not modelled here)
and the `Finished` callback runs afterwards. -/
def handleChannel (c : Cfg) (s : St) : List CbEv × St :=
  let r := establish c s
  if !r.1 then ([], channelClose r.2)
  else if !(r.2.state = .established ∧ r.2.connected) then ([], channelClose r.2)
  else ([.established, .finished], r.2)

structure Result where
  trace : List Ev          -- oldest first
  ok : Bool                -- `err == nil`
  final : St

def run (c : Cfg) (recvs : List Recv) (auths : List AuthOut) (regs : List (Option Node))
    (sendOk : List Bool) (setEncOk : Bool) (enc0 : Opt := cs!"none") : Result :=
  let r := establish c { recvs, auths, regs, sendOk, setEncOk, enc := enc0 }
  { trace := r.2.trace.reverse, ok := r.1, final := r.2 }

end LimeModel.ServerHs
