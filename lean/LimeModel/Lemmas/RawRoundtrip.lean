import LimeModel.Lemmas.RawFields
import LimeModel.Lemmas.Doc
import LimeModel.Lemmas.Text
/-! Helper lemmas: the raw wire struct survives `json.Marshal` followed by `json.Unmarshal`. -/
namespace LimeModel
open Json

/-- what a raw struct must satisfy to come back unchanged -/
def Raw.wf (U : Str → Option Str) (r : Raw) : Bool :=
  optWf Node.wf r.from_ && optWf Node.wf r.pp && optWf Node.wf r.to &&
  (match r.metadata with
   | none => true
   | some [] => false
   | some kvs => keysDistinct kvs) &&
  optWf Reason.wf r.reason && optWf MT.wf r.type &&
  optWf (fun s => notificationEvents.contains s) r.event &&
  optWf (fun s => commandMethods.contains s) r.method &&
  optWf (fun s => sessionStates.contains s) r.state &&
  optWf (fun u => U u == some u) r.uri &&
  optsWf r.encOpts && optsWf r.compOpts && optsWf r.schemeOpts &&
  optWf (fun j => match j with | .null => false | _ => true) r.content &&
  optWf (fun j => match j with | .null => false | _ => true) r.resource &&
  optWf (fun j => match j with | .null => false | _ => true) r.auth

theorem rt_id (id : Str) : foldVals intoString [] (idJson id).toList = .ok id := by
  unfold idJson; split <;> simp_all [intoString]

theorem rt_node (o : Option Node) (h : optWf Node.wf o = true) :
    foldVals (ptrText parseNodeSome) none ((o.map (fun n => Json.str (printNode n))).toList) = .ok o := by
  cases o with
  | none => simp
  | some n =>
    simp only [optWf] at h
    simp [ptrText, parseNodeSome, parse_print_node n h]

theorem rt_mt (o : Option MT) (h : optWf MT.wf o = true) :
    foldVals (ptrText parseMT) none ((o.map (fun t => Json.str (printMT t))).toList) = .ok o := by
  cases o with
  | none => simp
  | some m => simp only [optWf] at h; simp [ptrText, parse_print_mt m h]

theorem rt_enum (members : List Str) (o : Option Str) (h : optWf (fun s => members.contains s) o = true)
    (j : Option Json) (hj : enumJson members o = .ok j) :
    foldVals (ptrText (parseEnum members)) none j.toList = .ok o := by
  cases o with
  | none => simp [enumJson] at hj; subst hj; simp
  | some s =>
    simp only [optWf] at h
    simp only [enumJson, h, ↓reduceIte] at hj
    cases hj
    have h' : s ∈ members := by simpa using h
    simp [ptrText, parseEnum, h']

theorem enumJson_ok (members : List Str) (o : Option Str) (h : optWf (fun s => members.contains s) o = true) :
    ∃ j, enumJson members o = .ok j := by
  cases o with
  | none => exact ⟨none, rfl⟩
  | some s =>
    simp only [optWf] at h
    have h' : s ∈ members := by simpa using h
    exact ⟨some (.str s), by simp [enumJson, h']⟩

theorem rt_uri (U : Str → Option Str) (o : Option Str) (h : optWf (fun u => U u == some u) o = true) :
    foldVals (ptrText U) none ((o.map Json.str).toList) = .ok o := by
  cases o with
  | none => simp
  | some u => simp only [optWf, beq_iff_eq] at h; simp [ptrText, h]

theorem rt_str (o : Option Str) : foldVals ptrString none ((o.map Json.str).toList) = .ok o := by
  cases o <;> simp [ptrString]

theorem elemsOver_strs (l : List Str) : elemsOver [] (l.map Json.str) = .ok l := by
  induction l with
  | nil => rfl
  | cons a t ih => simp [elemsOver, intoString, Outcome.bind, ih]

theorem rt_slice (o : Option (List Str)) (h : optsWf o = true) :
    foldVals sliceString none (sliceJson o).toList = .ok o := by
  cases o with
  | none => simp [sliceJson]
  | some l =>
    cases l with
    | nil => simp [optsWf] at h
    | cons a t =>
      simp only [sliceJson, strList, Option.toList_some, foldVals_single, sliceString, Option.getD_none]
      rw [elemsOver_strs]; rfl

theorem metaElems_strs (kvs : List (Str × Str)) :
    metaElems (kvs.map (fun p => (p.1, Json.str p.2))) = .ok kvs := by
  induction kvs with
  | nil => rfl
  | cons a t ih => obtain ⟨k, v⟩ := a; simp [metaElems, elemString, ih, Outcome.bind]

theorem rt_meta (m : Option (List (Str × Str)))
    (h : (match m with | none => true | some [] => false | some kvs => keysDistinct kvs) = true) :
    foldVals assignMeta none (metaJson m).toList = .ok m := by
  cases m with
  | none => simp [metaJson]
  | some kvs =>
    cases kvs with
    | nil => simp at h
    | cons a t =>
      simp only at h
      simp only [metaJson, Option.toList_some, foldVals_single, assignMeta, metaElems_strs,
        Outcome.bind, Option.getD_none, List.nil_append, dedupKeys_of_distinct _ h]

theorem rt_reason (o : Option Reason) (h : optWf Reason.wf o = true) :
    foldVals assignReason none ((o.map Reason.toJson).toList) = .ok o := by
  cases o with
  | none => simp
  | some r =>
    obtain ⟨code, desc⟩ := r
    simp only [optWf, Reason.wf, int64, Bool.and_eq_true, decide_eq_true_eq] at h
    simp only [Option.map_some, Option.toList_some, foldVals_single, Reason.toJson, assignReason,
      Option.getD_none, fieldVals_append]
    by_cases hc : code = 0 <;> by_cases hd : desc = [] <;>
      simp [hc, hd, fieldVals, keyMatch, foldKey, foldChar, intoInt, intoString, Outcome.bind, h.1, h.2]

theorem rt_raw (name : Str) (kvs : List (Str × Json)) (o : Option Json)
    (hf : fieldVals name kvs = o.toList)
    (h : optWf (fun j => match j with | .null => false | _ => true) o = true) :
    rawLast name kvs = o := by
  unfold rawLast lastVal
  rw [hf]
  cases o with
  | none => rfl
  | some j => cases j <;> simp_all [optWf]

/-- the raw struct survives the wire -/
theorem Raw.roundtrip (U : Str → Option Str) (r : Raw) (h : r.wf U = true) :
    ∃ j, r.toJson = .ok j ∧ Raw.ofJson U j = .ok r := by
  simp only [Raw.wf, Bool.and_eq_true] at h
  obtain ⟨⟨⟨⟨⟨⟨⟨⟨⟨⟨⟨⟨⟨⟨⟨hfrom, hpp⟩, hto⟩, hmeta⟩, hreason⟩, htype⟩, hevent⟩, hmethod⟩, hstate⟩, huri⟩,
    henc⟩, hcomp⟩, hsch⟩, hcontent⟩, hresource⟩, hauth⟩ := h
  obtain ⟨ev, hev⟩ := enumJson_ok notificationEvents r.event hevent
  obtain ⟨me, hme⟩ := enumJson_ok commandMethods r.method hmethod
  obtain ⟨st, hst⟩ := enumJson_ok sessionStates r.state hstate
  refine ⟨.obj (r.members ev me st), by simp [Raw.toJson, hev, hme, hst, Outcome.bind], ?_⟩
  simp only [Raw.ofJson, bind, Outcome.bind,
    members_id, members_from, members_pp, members_to, members_metadata, members_reason, members_type,
    members_event, members_method, members_uri, members_status, members_state, members_encryptionOptions,
    members_encryption, members_compressionOptions, members_compression, members_schemeOptions, members_scheme,
    rt_id, rt_node _ hfrom, rt_node _ hpp, rt_node _ hto, rt_meta _ hmeta, rt_reason _ hreason, rt_mt _ htype,
    rt_enum _ _ hevent _ hev, rt_enum _ _ hmethod _ hme, rt_enum _ _ hstate _ hst, rt_uri U _ huri, rt_str,
    rt_slice _ henc, rt_slice _ hcomp, rt_slice _ hsch,
    rt_raw _ _ _ (members_content r ev me st) hcontent,
    rt_raw _ _ _ (members_resource r ev me st) hresource,
    rt_raw _ _ _ (members_authentication r ev me st) hauth, pure]

end LimeModel
