import LimeModel.WF
/-! Helper lemmas about `splitOn` and the text forms (kept apart from the property theorems). -/
namespace LimeModel

theorem splitOn_ne_nil (sep : Char) (s : Str) : splitOn sep s ≠ [] := by
  induction s with
  | nil => simp [splitOn]
  | cons c t ih =>
    unfold splitOn
    split
    · simp
    · split <;> simp

theorem splitOn_cons_ne (sep c : Char) (t : Str) (h : c ≠ sep) :
    splitOn sep (c :: t) = match splitOn sep t with
      | [] => [[c]]
      | x :: r => (c :: x) :: r := by
  rw [splitOn]; simp only [h, ↓reduceIte]; cases splitOn sep t <;> rfl

theorem splitOn_cons_eq (sep : Char) (t : Str) : splitOn sep (sep :: t) = [] :: splitOn sep t := by
  rw [splitOn]; simp

theorem splitOn_noSep (sep : Char) (s : Str) (h : sep ∉ s) : splitOn sep s = [s] := by
  induction s with
  | nil => rfl
  | cons c t ih =>
    have hc : c ≠ sep := fun e => h (by simp [e])
    have ht : sep ∉ t := fun m => h (List.mem_cons_of_mem _ m)
    rw [splitOn_cons_ne _ _ _ hc, ih ht]

theorem splitOn_append (sep : Char) (a b : Str) (h : sep ∉ a) :
    splitOn sep (a ++ sep :: b) = a :: splitOn sep b := by
  induction a with
  | nil => simp [splitOn_cons_eq]
  | cons c t ih =>
    have hc : c ≠ sep := fun e => h (by simp [e])
    have ht : sep ∉ t := fun m => h (List.mem_cons_of_mem _ m)
    rw [List.cons_append, splitOn_cons_ne _ _ _ hc, ih ht]

theorem noSep_not_mem {seps : List Char} {s : Str} (h : noSep seps s = true) {c : Char}
    (hc : c ∈ seps) : c ∉ s := by
  intro hm
  unfold noSep at h
  rw [List.all_eq_true] at h
  have := h c hm
  simp [hc] at this

theorem parse_print_identity (i : Identity) (h : i.wf = true) :
    parseIdentity (printIdentity i) = i := by
  obtain ⟨name, domain⟩ := i
  simp only [Identity.wf, Bool.and_eq_true] at h
  have hn : '@' ∉ name := noSep_not_mem h.1 (by simp)
  have hd : '@' ∉ domain := noSep_not_mem h.2 (by simp)
  unfold printIdentity parseIdentity
  by_cases h1 : name = [] ∧ domain = []
  · obtain ⟨rfl, rfl⟩ := h1; simp [splitOn]
  · simp only [h1, ↓reduceIte]
    by_cases h2 : domain = []
    · subst h2; simp [splitOn_noSep _ _ hn]
    · simp [h2, splitOn_append _ _ _ hn, splitOn_noSep _ _ hd]

theorem parse_print_node (n : Node) (h : n.wf = true) : parseNode (printNode n) = n := by
  obtain ⟨name, domain, inst⟩ := n
  simp only [Node.wf, Bool.and_eq_true] at h
  obtain ⟨⟨h1, h2⟩, h3⟩ := h
  have hn : '@' ∉ name := noSep_not_mem h1 (by simp)
  have hn' : '/' ∉ name := noSep_not_mem h1 (by simp)
  have hd : '@' ∉ domain := noSep_not_mem h2 (by simp)
  have hd' : '/' ∉ domain := noSep_not_mem h2 (by simp)
  have hi : '/' ∉ inst := noSep_not_mem h3 (by simp)
  have hid : parseIdentity (printIdentity ⟨name, domain⟩) = ⟨name, domain⟩ :=
    parse_print_identity ⟨name, domain⟩ (by simp [Identity.wf, noSep] at *; exact ⟨fun x hx => (h1 x hx).1, fun x hx => (h2 x hx).1⟩)
  have hslash : '/' ∉ printIdentity ⟨name, domain⟩ := by
    unfold printIdentity
    split
    · simp
    · split
      · exact hn'
      · simp only [List.mem_append, List.mem_cons, not_or]
        exact ⟨hn', by decide, hd'⟩
  unfold printNode parseNode
  simp only [Node.identity]
  by_cases hz : name = [] ∧ domain = [] ∧ inst = []
  · obtain ⟨rfl, rfl, rfl⟩ := hz; simp [splitOn, parseIdentity]
  · simp only [hz, ↓reduceIte]
    by_cases hi0 : inst = []
    · subst hi0
      simp [splitOn_noSep _ _ hslash, hid]
    · simp [hi0, splitOn_append _ _ _ hslash, splitOn_noSep _ _ hi, hid]

theorem parse_print_mt (m : MT) (h : m.wf = true) : parseMT (printMT m) = some m := by
  obtain ⟨type, subtype, suffix⟩ := m
  simp only [MT.wf, Bool.and_eq_true, Bool.not_eq_true', List.isEmpty_eq_false_iff] at h
  obtain ⟨⟨⟨⟨ht0, hs0⟩, h1⟩, h2⟩, h3⟩ := h
  have ht : '/' ∉ type := noSep_not_mem h1 (by simp)
  have ht' : '+' ∉ type := noSep_not_mem h1 (by simp)
  have hs : '/' ∉ subtype := noSep_not_mem h2 (by simp)
  have hs' : '+' ∉ subtype := noSep_not_mem h2 (by simp)
  have hx : '+' ∉ suffix := noSep_not_mem h3 (by simp)
  have hplus : '+' ∉ type ++ '/' :: subtype := by
    simp only [List.mem_append, List.mem_cons, not_or]
    exact ⟨ht', by decide, hs'⟩
  unfold printMT parseMT
  have hz : ¬(type = [] ∧ subtype = [] ∧ suffix = []) := fun hh => ht0 hh.1
  simp only [hz, ↓reduceIte]
  by_cases hx0 : suffix = []
  · subst hx0
    simp [splitOn_noSep _ _ hplus, splitOn_append _ _ _ ht, splitOn_noSep _ _ hs, ht0, hs0]
  · simp only [hx0, ↓reduceIte]
    have : type ++ '/' :: subtype ++ '+' :: suffix = (type ++ '/' :: subtype) ++ '+' :: suffix := by simp
    rw [this, splitOn_append _ _ _ hplus, splitOn_noSep _ _ hx]
    simp [splitOn_append _ _ _ ht, splitOn_noSep _ _ hs, ht0, hs0]


end LimeModel
