import LimeModel.WF
/-! Helper lemmas for the document round trip. -/
namespace LimeModel
open Json

theorem dedupKeys_of_distinct {α} (kvs : List (Str × α)) (h : keysDistinct kvs = true) :
    dedupKeys kvs = kvs := by
  induction kvs with
  | nil => rfl
  | cons a t ih =>
    obtain ⟨k, v⟩ := a
    simp only [keysDistinct, Bool.and_eq_true, Bool.not_eq_true'] at h
    simp only [dedupKeys, h.1, Bool.false_eq_true, ↓reduceIte, ih h.2]

mutual
theorem Json.norm_of_isNorm : (j : Json) → j.isNorm = true → Json.norm j = j
  | .null, _ => rfl
  | .bool _, _ => rfl
  | .num _, _ => rfl
  | .str _, _ => rfl
  | .arr l, h => by
    simp only [Json.isNorm] at h
    simp only [Json.norm, Json.normList_of_isNorm l h]
  | .obj kvs, h => by
    simp only [Json.isNorm, Bool.and_eq_true] at h
    simp only [Json.norm, Json.normKvs_of_isNorm kvs h.2, dedupKeys_of_distinct kvs h.1]
theorem Json.normList_of_isNorm : (l : List Json) → Json.isNormList l = true → Json.normList l = l
  | [], _ => rfl
  | j :: t, h => by
    simp only [Json.isNormList, Bool.and_eq_true] at h
    simp only [Json.normList, Json.norm_of_isNorm j h.1, Json.normList_of_isNorm t h.2]
theorem Json.normKvs_of_isNorm : (kvs : List (Str × Json)) → Json.isNormKvs kvs = true → Json.normKvs kvs = kvs
  | [], _ => rfl
  | (k, v) :: t, h => by
    simp only [Json.isNormKvs, Bool.and_eq_true] at h
    simp only [Json.normKvs, Json.norm_of_isNorm v h.1, Json.normKvs_of_isNorm t h.2]
end

theorem Doc.enc_ne_null : (d : Doc) → Doc.enc d ≠ .null
  | .text _ => by rw [Doc.enc]; intro h; cases h
  | .json _ => by rw [Doc.enc]; intro h; cases h
  | .container _ _ => by rw [Doc.enc]; intro h; cases h
  | .collection _ _ _ => by rw [Doc.enc]; intro h; cases h
  | .ping => by rw [Doc.enc]; intro h; cases h

/-- key matching on the literal member names used by the encoders -/
theorem keyMatch_self (k : Str) : keyMatch k k = true := by simp [keyMatch]

end LimeModel
