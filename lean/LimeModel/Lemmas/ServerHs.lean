import LimeModel.ServerSpec
/-! Field-preservation and trace-shape lemmas for the server handshake model. -/
namespace LimeModel.ServerHs
open LimeModel LimeModel.ServerSpec

@[simp] theorem log_trace (s : St) (e : Ev) : (s.log e).trace = e :: s.trace := rfl
@[simp] theorem log_enc (s : St) (e) : (s.log e).enc = s.enc := rfl
@[simp] theorem log_state (s : St) (e) : (s.log e).state = s.state := rfl
@[simp] theorem log_connected (s : St) (e) : (s.log e).connected = s.connected := rfl
@[simp] theorem log_auths (s : St) (e) : (s.log e).auths = s.auths := rfl
@[simp] theorem log_regs (s : St) (e) : (s.log e).regs = s.regs := rfl
@[simp] theorem log_remote (s : St) (e) : (s.log e).remote = s.remote := rfl
@[simp] theorem setState_trace (s : St) (x) : (setState s x).trace = .setState x :: s.trace := rfl
@[simp] theorem setState_enc (s : St) (x) : (setState s x).enc = s.enc := rfl
@[simp] theorem setState_state (s : St) (x) : (setState s x).state = x := rfl
@[simp] theorem setState_connected (s : St) (x) : (setState s x).connected = s.connected := rfl
@[simp] theorem setRemote_trace (s : St) (n) : (setRemote s n).trace = s.trace := rfl
@[simp] theorem setRemote_enc (s : St) (n) : (setRemote s n).enc = s.enc := rfl
@[simp] theorem setRemote_state (s : St) (n) : (setRemote s n).state = s.state := rfl
@[simp] theorem setRemote_connected (s : St) (n) : (setRemote s n).connected = s.connected := rfl
@[simp] theorem callAuth_trace (s : St) (ses out) : (callAuth s ses out).trace =
    .authCall ses.from_.name ses.from_.domain ses.scheme ses.auth s.enc out :: s.trace := rfl
@[simp] theorem callAuth_enc (s : St) (a b) : (callAuth s a b).enc = s.enc := rfl
@[simp] theorem callAuth_state (s : St) (a b) : (callAuth s a b).state = s.state := rfl
@[simp] theorem callAuth_connected (s : St) (a b) : (callAuth s a b).connected = s.connected := rfl
@[simp] theorem callReg_trace (s : St) (ses res) : (callReg s ses res).trace = .regCall ses.from_ res :: s.trace := rfl
@[simp] theorem callReg_enc (s : St) (a b) : (callReg s a b).enc = s.enc := rfl
@[simp] theorem callReg_state (s : St) (a b) : (callReg s a b).state = s.state := rfl
@[simp] theorem callReg_connected (s : St) (a b) : (callReg s a b).connected = s.connected := rfl
@[simp] theorem closeT_trace (s : St) : (closeT s).trace = .close :: s.trace := rfl
@[simp] theorem closeT_enc (s : St) : (closeT s).enc = s.enc := rfl
@[simp] theorem closeT_state (s : St) : (closeT s).state = s.state := rfl
@[simp] theorem closeT_connected (s : St) : (closeT s).connected = false := rfl
@[simp] theorem markEof_trace (c : Cfg) (s : St) : (markEof c s).trace = s.trace := by
  unfold markEof; split <;> rfl
@[simp] theorem markEof_enc (c : Cfg) (s : St) : (markEof c s).enc = s.enc := by
  unfold markEof; split <;> rfl
@[simp] theorem markEof_state (c : Cfg) (s : St) : (markEof c s).state = s.state := by
  unfold markEof; split <;> rfl

@[simp] theorem obs_nil : obs [] = [] := rfl
@[simp] theorem obs_recv (r : Recv) (t : List Ev) : obs (.recv r :: t) = .recv r :: obs t := rfl
@[simp] theorem obs_emit (s : Ses) (e : Opt) (t : List Ev) : obs (.emit s e :: t) = .emit s e :: obs t := rfl
@[simp] theorem obs_auth (a b c d e f) (t : List Ev) : obs (.authCall a b c d e f :: t) = .authCall a b c d e f :: obs t := rfl
@[simp] theorem obs_reg (a b) (t : List Ev) : obs (.regCall a b :: t) = .regCall a b :: obs t := rfl
@[simp] theorem obs_setState (x) (t : List Ev) : obs (.setState x :: t) = obs t := rfl
@[simp] theorem obs_setEnc (x y) (t : List Ev) : obs (.setEnc x y :: t) = obs t := rfl
@[simp] theorem obs_setComp (x y) (t : List Ev) : obs (.setComp x y :: t) = obs t := rfl
@[simp] theorem obs_close (t : List Ev) : obs (.close :: t) = obs t := rfl

/-- what `sendSession` does to the state -/
theorem sendSession_cases (s : St) (e : Ses) :
    ((sendSession s e).1 = true ∧ (sendSession s e).2.trace = .emit e s.enc :: s.trace ∧
        s.connected = true ∧ s.state ≠ .finished ∧ s.state ≠ .failed) ∨
    ((sendSession s e).1 = false ∧ (sendSession s e).2.trace = s.trace) := by
  unfold sendSession
  split
  · exact Or.inr ⟨rfl, rfl⟩
  · rename_i hc
    split
    · exact Or.inr ⟨rfl, rfl⟩
    · rename_i hs
      simp only [not_or] at hs
      have hc' : s.connected = true := by simpa using hc
      split
      · exact Or.inl ⟨rfl, rfl, hc', hs.1, hs.2⟩
      · exact Or.inl ⟨rfl, rfl, hc', hs.1, hs.2⟩
      · exact Or.inr ⟨rfl, rfl⟩

@[simp] theorem sendSession_state (s : St) (e : Ses) : (sendSession s e).2.state = s.state := by
  unfold sendSession; split
  · rfl
  · split
    · rfl
    · split <;> rfl
@[simp] theorem sendSession_enc (s : St) (e : Ses) : (sendSession s e).2.enc = s.enc := by
  unfold sendSession; split
  · rfl
  · split
    · rfl
    · split <;> rfl
@[simp] theorem sendSession_connected (s : St) (e : Ses) : (sendSession s e).2.connected = s.connected := by
  unfold sendSession; split
  · rfl
  · split
    · rfl
    · split <;> rfl

/-- what `recvSession` does -/
theorem recvSession_cases (c : Cfg) (s : St) :
    (∃ x, (recvSession c s).1 = some x ∧ (recvSession c s).2.trace = .recv (.ses x) :: s.trace) ∨
    ((recvSession c s).1 = none ∧
      ((recvSession c s).2.trace = s.trace ∨ ∃ r, (∀ x, r ≠ .ses x) ∧ (recvSession c s).2.trace = .recv r :: s.trace)) := by
  unfold recvSession
  split
  · exact Or.inr ⟨rfl, Or.inl rfl⟩
  · split
    · exact Or.inr ⟨rfl, Or.inl (markEof_trace c s)⟩
    · rename_i x r _
      cases x with
      | ses y => exact Or.inl ⟨y, rfl, rfl⟩
      | sesGone y => exact Or.inl ⟨y, rfl, rfl⟩
      | other => exact Or.inr ⟨rfl, Or.inr ⟨.other, (fun x h => by cases h), rfl⟩⟩
      | fail eof =>
        cases eof with
        | true => exact Or.inr ⟨rfl, Or.inr ⟨.fail true, (fun x h => by cases h), by simp [recvItem]⟩⟩
        | false => exact Or.inr ⟨rfl, Or.inr ⟨.fail false, (fun x h => by cases h), rfl⟩⟩

@[simp] theorem recvSession_state (c : Cfg) (s : St) : (recvSession c s).2.state = s.state := by
  unfold recvSession; split
  · rfl
  · split
    · simp
    · rename_i x r _; cases x with
      | ses y => rfl
      | sesGone y => rfl
      | other => rfl
      | fail eof => cases eof <;> simp [recvItem]
@[simp] theorem recvSession_enc (c : Cfg) (s : St) : (recvSession c s).2.enc = s.enc := by
  unfold recvSession; split
  · rfl
  · split
    · simp
    · rename_i x r _; cases x with
      | ses y => rfl
      | sesGone y => rfl
      | other => rfl
      | fail eof => cases eof <;> simp [recvItem]

theorem failSession_state (c : Cfg) (s : St) : (failSession c s).1 = true → (failSession c s).2.state = .failed := by
  unfold failSession; split
  · simp
  · intro _; simp [closeT, setState, St.log]
@[simp] theorem failSession_enc (c : Cfg) (s : St) : (failSession c s).2.enc = s.enc := by
  unfold failSession; split
  · rfl
  · simp [closeT, setState, St.log]

end LimeModel.ServerHs
