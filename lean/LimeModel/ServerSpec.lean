import LimeModel.ServerHs
/-!
# Executable specifications of the server-handshake properties

Boolean checkers over a trace of *observable* events (client inputs, emitted envelopes, callback
invocations), newest first. The theorems in `Props/` say every trace of `ServerHs.run` passes
them; the compiled driver applies the very same functions to the traces recorded from the real
`ServerChannel`, which makes them the implementation oracle as well.
-/
namespace LimeModel.ServerSpec
open LimeModel LimeModel.ServerHs

/-- what a scripted peer and the callbacks can see -/
def Ev.observable : Ev → Bool
  | .recv _ | .emit _ _ | .authCall .. | .regCall .. => true
  | _ => false

def obs (tr : List Ev) : List Ev := tr.filter Ev.observable

/-- **C03** on a newest-first observable trace: an `established` envelope is immediately preceded
by the `Register` call that returned the node it announces, that by the `Authenticate` call that
returned a known role, and that by the client envelope whose identity, scheme and credentials the
callback was given — an authenticating envelope bearing the session id, under an offered scheme. -/
def okRev (c : Cfg) : List Ev → Bool
  | [] => true
  | .emit s _ :: rest =>
    (if s.state = .established then
      match rest with
      | .regCall cand (some n) :: .authCall nm dm _ cred _ .role :: .recv (.ses x) :: _ =>
          decide (s.to = n) && decide (s.id = c.sid) && decide (s.from_ = c.node) &&
          decide (cand = x.from_) && decide (nm = x.from_.name ∧ dm = x.from_.domain) && decide (cred = x.auth) &&
          c.schemeOpts.contains x.scheme && decide (x.id = c.sid) && decide (x.state = .authenticating)
      | _ => false
     else true) && okRev c rest
  | _ :: rest => okRev c rest

/-- **C10** on a newest-first trace: authentication requests, credential checks and establishment
happen only under a configured encryption. -/
def encRev (c : Cfg) : List Ev → Bool
  | [] => true
  | .emit s enc :: rest =>
    (if s.state = .authenticating ∨ s.state = .established then c.encOpts.contains enc else true) && encRev c rest
  | .authCall _ _ _ _ enc _ :: rest => c.encOpts.contains enc && encRev c rest
  | _ :: rest => encRev c rest

/-! ## The handshake as a protocol automaton (C07, C09) -/

/-- where the exchange stands, as far as observable events tell -/
inductive Phase
  | start                                   -- nothing received yet
  | gotNew                                  -- a fresh `new` session arrived
  | awaitSel (co eo : List Opt)             -- options offered, selection awaited
  | gotSel (comp enc : Opt)                 -- an offered pair was selected
  | confirmed                               -- the selection was confirmed
  | awaitAuth                               -- authentication requested (or a round trip sent)
  | gotAuth (x : Ses)                       -- a well-formed authenticating envelope arrived
  | authed (x : Ses) (out : AuthOut)        -- `Authenticate` was called for it
  | registered (n : Node)                   -- `Register` supplied the node
  | established                             -- the established envelope went out
  | mustFail                                -- the client violated the exchange: only `failed` may follow
  | term                                    -- `failed` went out: nothing may follow
  | ended                                   -- the exchange was abandoned without an answer
  deriving DecidableEq, Repr

/-- envelopes the server emits carry the session id and the server's node -/
def stamped (c : Cfg) (s : Ses) : Bool := decide (s.id = c.sid) && decide (s.from_ = c.node)

def isNegOpts (c : Cfg) (s : Ses) : Bool :=
  stamped c s && decide (s.state = .negotiating) && decide (s.compOpts = inter c.compOpts c.supComp) &&
    decide (s.encOpts = inter c.encOpts c.supEnc) && !s.compOpts.isEmpty && !s.encOpts.isEmpty &&
    decide (s.comp = []) && decide (s.enc = []) && decide (s.auth = none) && decide (s.schemeOpts = [])

def isNegConf (c : Cfg) (a b : Opt) (s : Ses) : Bool :=
  stamped c s && decide (s.state = .negotiating) && decide (s.comp = a) && decide (s.enc = b) &&
    decide (s.compOpts = []) && decide (s.encOpts = []) && decide (s.auth = none) && decide (s.schemeOpts = [])

def isAuthOpts (c : Cfg) (s : Ses) : Bool :=
  stamped c s && decide (s.state = .authenticating) && decide (s.schemeOpts = c.schemeOpts) && decide (s.auth = none)

def isRoundTrip (c : Cfg) (d : Auth) (s : Ses) : Bool :=
  stamped c s && decide (s.state = .authenticating) && decide (s.auth = some d) && decide (s.schemeOpts = [])

def isEstablished (c : Cfg) (n : Node) (s : Ses) : Bool :=
  stamped c s && decide (s.state = .established) && decide (s.to = n)

def isFailed (c : Cfg) (s : Ses) : Bool := stamped c s && decide (s.state = .failed) && s.hasReason

/-- the selection the client may make once options were offered -/
def validSelection (c : Cfg) (co eo : List Opt) (x : Ses) : Bool :=
  decide (x.id = c.sid) && decide (x.state = .negotiating) && decide (x.comp ≠ []) && decide (x.enc ≠ []) &&
    co.contains x.comp && eo.contains x.enc

/-- the authenticating envelope the client may send once authentication was requested -/
def validAuth (c : Cfg) (x : Ses) : Bool :=
  decide (x.state = .authenticating) && decide (x.id = c.sid) && c.schemeOpts.contains x.scheme

/-- one observable event; `none` = the event is not allowed here -/
def stepPhase (c : Cfg) : Phase → Ev → Option Phase
  | .start, .recv (.ses x) => if x.state = .new ∧ x.id = [] then some .gotNew else some .mustFail
  | .start, .recv _ => some .ended
  | .gotNew, .emit s _ =>
    if isNegOpts c s then some (.awaitSel s.compOpts s.encOpts)
    else if isAuthOpts c s then some .awaitAuth else none
  | .awaitSel co eo, .recv (.ses x) => if validSelection c co eo x then some (.gotSel x.comp x.enc) else some .mustFail
  | .awaitSel _ _, .recv _ => some .ended
  | .gotSel a b, .emit s _ => if isNegConf c a b s then some .confirmed else none
  | .confirmed, .emit s _ => if isAuthOpts c s then some .awaitAuth else none
  | .awaitAuth, .recv (.ses x) => if validAuth c x then some (.gotAuth x) else some .mustFail
  | .awaitAuth, .recv _ => some .ended
  | .gotAuth x, .authCall nm dm _ cred _ out =>
    if nm = x.from_.name ∧ dm = x.from_.domain ∧ cred = x.auth then some (.authed x out) else none
  | .authed x .role, .regCall cand res =>
    if cand = x.from_ then (match res with | some n => some (.registered n) | none => some .ended) else none
  | .authed _ .unknown, .emit s _ => if isFailed c s then some .term else none
  | .authed _ (.roundTrip d), .emit s _ => if isRoundTrip c d s then some .awaitAuth else none
  | .registered n, .emit s _ => if isEstablished c n s then some .established else none
  | .mustFail, .emit s _ => if isFailed c s then some .term else none
  | _, _ => none

/-- run the automaton over a newest-first observable trace -/
def phaseOf (c : Cfg) : List Ev → Option Phase
  | [] => some .start
  | e :: rest => (phaseOf c rest).bind (fun p => stepPhase c p e)

/-- phases in which a run whose sends all succeed can stop -/
def Phase.restful : Phase → Bool
  | .mustFail | .gotSel _ _ | .registered _ | .authed _ .unknown | .authed _ (.roundTrip _) => false
  | _ => true

/-- **C07 / C09** as one executable predicate on a newest-first observable trace: the trace is a
word of the protocol automaton — emission order, id and sender stamps, the offer being the
intersection of configured and supported options, confirmation only of an offered pair, every
client violation answered by exactly one `failed` envelope with a reason and nothing after it. -/
def orderRev (c : Cfg) (tr : List Ev) : Bool := (phaseOf c tr).isSome

/-- with all sends succeeding the run must also have *answered*: it cannot stop in a phase that owes
an envelope -/
def answeredRev (c : Cfg) (tr : List Ev) : Bool :=
  match phaseOf c tr with
  | some p => p.restful
  | none => false

/-- the visible session state never moves backwards (`setState` events, newest first) -/
def monoRev : List Ev → Bool
  | [] => true
  | .setState x :: rest =>
    rest.all (fun e => match e with | .setState y => decide (y.step ≤ x.step) | _ => true) && monoRev rest
  | _ :: rest => monoRev rest

/-! ## C09: the confirmed options are in force before any authentication data is exchanged -/

/-- the encryption of the newest negotiation confirmation the server emitted -/
def confirmedEnc : List Ev → Option Opt
  | [] => none
  | .emit s _ :: rest =>
    if s.state = .negotiating ∧ s.enc ≠ [] ∧ s.encOpts = [] then some s.enc else confirmedEnc rest
  | _ :: rest => confirmedEnc rest

/-- **C09 (server applies before authenticating)** on a newest-first trace: once a confirmation
went out, every authentication request, `Authenticate` call and `established` envelope happens
with the transport on the confirmed encryption. -/
def appliedRev : List Ev → Bool
  | [] => true
  | .emit s enc :: rest =>
    (if s.state = .authenticating ∨ s.state = .established then
      (match confirmedEnc rest with
       | some b => decide (enc = b)
       | none => true)
     else true) && appliedRev rest
  | .authCall _ _ _ _ enc _ :: rest =>
    (match confirmedEnc rest with
     | some b => decide (enc = b)
     | none => true) && appliedRev rest
  | _ :: rest => appliedRev rest

end LimeModel.ServerSpec
