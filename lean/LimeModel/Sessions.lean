import LimeModel.Mux
/-!
# M4: concurrent sessions on one server (server.go `consumeTransports` / `handleChannel`,
handler.go `listen`, context.go `sessionContext`)

Every accepted connection gets a channel with a fresh id from the id supply (`uuid.NewString`,
trusted to be injective), the server's node as local node and the node returned by the `Register`
callback as remote node. The *shared* mux holds the handler table and nothing else: for each
envelope that arrives on connection `i` it builds the context from connection `i`'s channel and
passes that channel as the sender. Operations of different connections interleave arbitrarily.
-/
namespace LimeModel.Sessions
open LimeModel.Mux

structure Sess where
  id : Nat
  loc : Nat
  rem : Nat
  deriving DecidableEq, Repr

inductive Op
  | accept (reg : Nat)                 -- a connection is accepted and established; `Register` returned `reg`
  | recv (i : Nat) (k : Kind) (e : Nat) -- envelope `e` of kind `k` arrives on connection `i`
  deriving Repr

inductive Ev
  | announced (i id rem : Nat)          -- the established envelope sent on connection `i`
  | invoked (i : Nat) (k : Kind) (h : Nat) (ctxId ctxLoc ctxRem : Nat) (sender : Nat) (e : Nat)
  deriving DecidableEq, Repr

structure St where
  node : Nat                 -- the server's node
  sessions : List Sess       -- index = connection
  supply : List Nat          -- the ids the generator will hand out, in order
  trace : List Ev := []      -- newest first

/-- the handler that `dispatch` invokes, if any -/
def invokedHandler (t : Table Nat) (k : Kind) (e : Nat) : Option Nat := firstMatch e (t.get k) 0

def step (t : Table Nat) (s : St) : Op → St
  | .accept reg =>
    match s.supply with
    | [] => s
    | id :: rest =>
      { s with sessions := s.sessions ++ [⟨id, s.node, reg⟩], supply := rest,
               trace := .announced s.sessions.length id reg :: s.trace }
  | .recv i k e =>
    match s.sessions[i]? with
    | none => s
    | some ss =>
      match invokedHandler t k e with
      | none => s
      | some h => { s with trace := .invoked i k h ss.id ss.loc ss.rem i e :: s.trace }

def run (t : Table Nat) (node : Nat) (supply : List Nat) (ops : List Op) : St :=
  ops.foldl (step t) { node, sessions := [], supply }

/-- the events of connection `i` -/
def proj (i : Nat) : List Ev → List Ev
  | [] => []
  | .announced j id r :: t => if j = i then .announced j id r :: proj i t else proj i t
  | .invoked j k h a b c s e :: t => if j = i then .invoked j k h a b c s e :: proj i t else proj i t

/-- what connection `i` must see given only its own session and its own inputs (newest first) -/
def expected (t : Table Nat) (i : Nat) (ss : Sess) : List (Kind × Nat) → List Ev
  | [] => [.announced i ss.id ss.rem]
  | (k, e) :: rest =>
    match invokedHandler t k e with
    | none => expected t i ss rest
    | some h => .invoked i k h ss.id ss.loc ss.rem i e :: expected t i ss rest

/-- the inputs of connection `i` in an operation list, newest first -/
def inputsOf (i : Nat) : List Op → List (Kind × Nat)
  | [] => []
  | .recv j k e :: t => if j = i then inputsOf i t ++ [(k, e)] else inputsOf i t
  | .accept _ :: t => inputsOf i t

end LimeModel.Sessions
