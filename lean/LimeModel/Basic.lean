/-!
# Common vocabulary of the model

Text is `List Char` inside the model (proofs about lists are simple; the driver converts at the
boundary). `Outcome` is what a Go call can do as far as the properties care: return a value, return
an error, or panic.
-/
open Lean in
/-- `cs!"abc"` is the character list `['a', 'b', 'c']`, expanded at elaboration time, so that no
proof depends on evaluating `String.toList` on a literal. -/
macro:max "cs!" s:str : term => do
  let cs : Array (TSyntax `term) :=
    (s.getString.toList.map (fun c => (⟨(Syntax.mkCharLit c).raw⟩ : TSyntax `term))).toArray
  `([$cs,*])

namespace LimeModel

abbrev Str := List Char

/-- Result of a Go call: value, `error`, or a run-time panic. -/
inductive Outcome (α : Type) where
  | ok (a : α)
  | err
  | panic
  deriving Repr, DecidableEq

namespace Outcome

@[inline] def bind {α β} (x : Outcome α) (f : α → Outcome β) : Outcome β :=
  match x with
  | .ok a => f a
  | .err => .err
  | .panic => .panic

instance : Monad Outcome where
  pure := .ok
  bind := bind

@[simp] theorem bind_ok {α β} (a : α) (f : α → Outcome β) : (Outcome.ok a >>= f) = f a := rfl
@[simp] theorem bind_err {α β} (f : α → Outcome β) : ((Outcome.err : Outcome α) >>= f) = .err := rfl
@[simp] theorem bind_panic {α β} (f : α → Outcome β) : ((Outcome.panic : Outcome α) >>= f) = .panic := rfl
@[simp] theorem pure_eq {α} (a : α) : (pure a : Outcome α) = .ok a := rfl

def isOk {α} : Outcome α → Bool | .ok _ => true | _ => false
def isPanic {α} : Outcome α → Bool | .panic => true | _ => false

/-- Go `if x == nil { return err }` on an optional value. -/
def ofOption {α} : Option α → Outcome α
  | some a => .ok a
  | none => .err

@[simp] theorem ofOption_some {α} (a : α) : ofOption (some a) = .ok a := rfl
@[simp] theorem ofOption_none {α} : ofOption (none : Option α) = .err := rfl

theorem bind_eq_ok {α β} {x : Outcome α} {f : α → Outcome β} {b : β} :
    (x >>= f) = .ok b ↔ ∃ a, x = .ok a ∧ f a = .ok b := by
  cases x <;> simp [Bind.bind, bind]

theorem bind_ne_panic {α β} {x : Outcome α} {f : α → Outcome β}
    (hx : x ≠ .panic) (hf : ∀ a, f a ≠ .panic) : (x >>= f) ≠ .panic := by
  cases x <;> simp_all [Bind.bind, bind]

end Outcome

/-- `mapM` over a list, stopping at the first error / panic. -/
def mapMO {α β} (f : α → Outcome β) : List α → Outcome (List β)
  | [] => .ok []
  | a :: t => do
    let b ← f a
    let bs ← mapMO f t
    pure (b :: bs)

end LimeModel
