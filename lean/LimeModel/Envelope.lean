import LimeModel.Doc
/-!
# Envelopes: the raw wire struct, the five kinds, encode / decode, reply builders
(envelope.go, message.go, notification.go, command.go, session.go)

`net/url` is a parameter: `U : Str → Option Str` is `ParseLimeURI` followed by `String()`
(`none` = parse error or a foreign scheme). Enum members come from `Generated` through the tie
theorems in `Props/Tie.lean`.
-/
namespace LimeModel
open Json

structure Reason where
  code : Int
  desc : Str
  deriving Repr, DecidableEq

inductive Auth where
  | guest
  | plain (password : Str)
  | key (key : Str)
  | transport
  | external (token issuer : Str)
  deriving Repr, DecidableEq

def Auth.scheme : Auth → Str
  | .guest => cs!"guest"
  | .plain _ => cs!"plain"
  | .key _ => cs!"key"
  | .transport => cs!"transport"
  | .external _ _ => cs!"external"

/-- the common `Envelope` struct -/
structure Env where
  id : Str := []
  from_ : Node := Node.zero
  pp : Node := Node.zero
  to : Node := Node.zero
  metadata : Option (List (Str × Str)) := none     -- `none` = nil map
  deriving Repr

structure Message where
  env : Env
  type : MT
  content : Option Doc        -- `none` = nil interface
  deriving Repr

structure Notification where
  env : Env
  event : Str
  reason : Option Reason
  deriving Repr

structure Command where
  env : Env
  method : Str
  type : Option MT
  resource : Option Doc
  deriving Repr

structure RequestCommand where
  cmd : Command
  uri : Option Str            -- text of the URL, `none` = nil `*URI`
  deriving Repr

structure ResponseCommand where
  cmd : Command
  status : Str
  reason : Option Reason
  deriving Repr

structure Session where
  env : Env
  state : Str
  encOpts : Option (List Str) := none
  enc : Str := []
  compOpts : Option (List Str) := none
  comp : Str := []
  schemeOpts : Option (List Str) := none
  scheme : Str := []
  auth : Option Auth := none
  reason : Option Reason := none
  deriving Repr

inductive Kind | message | notification | request | response | session
  deriving DecidableEq, Repr

inductive Envelope where
  | message (m : Message)
  | notification (n : Notification)
  | request (c : RequestCommand)
  | response (c : ResponseCommand)
  | session (s : Session)
  deriving Repr

def Envelope.kind : Envelope → Kind
  | .message _ => .message | .notification _ => .notification | .request _ => .request
  | .response _ => .response | .session _ => .session

/-! ## enum tables (tied to the source by `Props.Tie`) -/

def sessionStates : List Str :=
  [cs!"new", cs!"negotiating", cs!"authenticating", cs!"established",
   cs!"finishing", cs!"finished", cs!"failed"]
def notificationEvents : List Str :=
  [cs!"accepted", cs!"dispatched", cs!"received", cs!"consumed", cs!"failed"]
def commandMethods : List Str :=
  [cs!"get", cs!"set", cs!"delete", cs!"subscribe", cs!"unsubscribe",
   cs!"observe", cs!"merge"]
def authSchemes : List Str :=
  [cs!"guest", cs!"plain", cs!"key", cs!"transport", cs!"external"]

/-- `UnmarshalText` of a validated enum -/
def parseEnum (members : List Str) (s : Str) : Option Str := if members.contains s then some s else none

/-! ## the raw wire struct -/

structure Raw where
  id : Str := []
  from_ : Option Node := none
  pp : Option Node := none
  to : Option Node := none
  metadata : Option (List (Str × Str)) := none
  reason : Option Reason := none
  type : Option MT := none
  content : Option Json := none
  event : Option Str := none
  method : Option Str := none
  resource : Option Json := none
  uri : Option Str := none
  status : Option Str := none
  state : Option Str := none
  encOpts : Option (List Str) := none
  enc : Option Str := none
  compOpts : Option (List Str) := none
  comp : Option Str := none
  schemeOpts : Option (List Str) := none
  scheme : Option Str := none
  auth : Option Json := none
  deriving Repr

def optField (name : Str) (v : Option Json) : List (Str × Json) :=
  match v with
  | some j => [(name, j)]
  | none => []

def strList (l : List Str) : Json := .arr (l.map Json.str)

/-- a `[]T` member with `omitempty`: nil and empty slices are both left out -/
def sliceJson (v : Option (List Str)) : Option Json :=
  match v with
  | none => none
  | some [] => none
  | some l => some (strList l)

def Reason.toJson (r : Reason) : Json :=
  .obj ((if r.code = 0 then [] else [(cs!"code", .num (.int r.code))]) ++
        (if r.desc = [] then [] else [(cs!"description", .str r.desc)]))

/-- a `map[string]string` member with `omitempty`: nil and empty maps are both left out -/
def metaJson (m : Option (List (Str × Str))) : Option Json :=
  match m with
  | none => none
  | some [] => none
  | some kvs => some (.obj (kvs.map (fun p => (p.1, Json.str p.2))))

/-- a validated enum pointer: `MarshalText` fails on a value outside the member list -/
def enumJson (members : List Str) (v : Option Str) : Outcome (Option Json) :=
  match v with
  | none => .ok none
  | some s => if members.contains s then .ok (some (.str s)) else .err

def idJson (id : Str) : Option Json := if id = [] then none else some (.str id)

/-- the members of the wire object, in struct order, all `omitempty` -/
def Raw.members (r : Raw) (event method state : Option Json) : List (Str × Json) :=
  optField cs!"id" (idJson r.id) ++
  optField cs!"from" (r.from_.map (fun n => .str (printNode n))) ++
  optField cs!"pp" (r.pp.map (fun n => .str (printNode n))) ++
  optField cs!"to" (r.to.map (fun n => .str (printNode n))) ++
  optField cs!"metadata" (metaJson r.metadata) ++
  optField cs!"reason" (r.reason.map Reason.toJson) ++
  optField cs!"type" (r.type.map (fun t => .str (printMT t))) ++
  optField cs!"content" r.content ++
  optField cs!"event" event ++
  optField cs!"method" method ++
  optField cs!"resource" r.resource ++
  optField cs!"uri" (r.uri.map Json.str) ++
  optField cs!"status" (r.status.map Json.str) ++
  optField cs!"state" state ++
  optField cs!"encryptionOptions" (sliceJson r.encOpts) ++
  optField cs!"encryption" (r.enc.map Json.str) ++
  optField cs!"compressionOptions" (sliceJson r.compOpts) ++
  optField cs!"compression" (r.comp.map Json.str) ++
  optField cs!"schemeOptions" (sliceJson r.schemeOpts) ++
  optField cs!"scheme" (r.scheme.map Json.str) ++
  optField cs!"authentication" r.auth

/-- `json.Marshal(raw)` -/
def Raw.toJson (r : Raw) : Outcome Json :=
  (enumJson notificationEvents r.event).bind (fun event =>
  (enumJson commandMethods r.method).bind (fun method =>
  (enumJson sessionStates r.state).bind (fun state =>
  .ok (.obj (r.members event method state)))))

/-- element of `map[string]string`: `null` stores the zero value -/
def metaElems : List (Str × Json) → Outcome (List (Str × Str))
  | [] => .ok []
  | (k, v) :: t =>
    match elemString v with
    | .ok s => (metaElems t).bind (fun r => .ok ((k, s) :: r))
    | .err => .err
    | .panic => .panic

/-- assigning a JSON value to the `metadata` map member: an object merges into the current map -/
def assignMeta (cur : Option (List (Str × Str))) : Json → Outcome (Option (List (Str × Str)))
  | .obj kvs => (metaElems kvs).bind (fun es => .ok (some (dedupKeys (cur.getD [] ++ es))))
  | .null => .ok none
  | _ => .err

/-- assigning to a `*Reason` member: an object fills the (allocated) struct member-wise -/
def assignReason (cur : Option Reason) : Json → Outcome (Option Reason)
  | .obj kvs =>
    let c := cur.getD ⟨0, []⟩
    (foldVals intoInt c.code (fieldVals cs!"code" kvs)).bind (fun code =>
    (foldVals intoString c.desc (fieldVals cs!"description" kvs)).bind (fun desc =>
    .ok (some ⟨code, desc⟩)))
  | .null => .ok none
  | _ => .err

def parseNodeSome (s : Str) : Option Node := some (parseNode s)

/-- `json.Unmarshal(b, &raw)` on the tree of `b` -/
def Raw.ofJson (U : Str → Option Str) (j : Json) : Outcome Raw :=
  match j with
  | .null => .ok {}
  | .obj kvs => do
    let f (name : Str) := fieldVals name kvs
    let id ← foldVals intoString [] (f cs!"id")
    let from_ ← foldVals (ptrText parseNodeSome) none (f cs!"from")
    let pp ← foldVals (ptrText parseNodeSome) none (f cs!"pp")
    let to ← foldVals (ptrText parseNodeSome) none (f cs!"to")
    let metadata ← foldVals assignMeta none (f cs!"metadata")
    let reason ← foldVals assignReason none (f cs!"reason")
    let type ← foldVals (ptrText parseMT) none (f cs!"type")
    let event ← foldVals (ptrText (parseEnum notificationEvents)) none (f cs!"event")
    let method ← foldVals (ptrText (parseEnum commandMethods)) none (f cs!"method")
    let uri ← foldVals (ptrText U) none (f cs!"uri")
    let status ← foldVals ptrString none (f cs!"status")
    let state ← foldVals (ptrText (parseEnum sessionStates)) none (f cs!"state")
    let encOpts ← foldVals sliceString none (f cs!"encryptionOptions")
    let enc ← foldVals ptrString none (f cs!"encryption")
    let compOpts ← foldVals sliceString none (f cs!"compressionOptions")
    let comp ← foldVals ptrString none (f cs!"compression")
    let schemeOpts ← foldVals sliceString none (f cs!"schemeOptions")
    let scheme ← foldVals ptrString none (f cs!"scheme")
    pure { id, from_, pp, to, metadata, reason, type,
           content := rawLast cs!"content" kvs,
           event, method,
           resource := rawLast cs!"resource" kvs,
           uri, status, state, encOpts, enc, compOpts, comp, schemeOpts, scheme,
           auth := rawLast cs!"authentication" kvs }
  | _ => .err

/-! ## value → raw (`toRawEnvelope`) -/

def nodePtr (n : Node) : Option Node := if n.isZero then none else some n
def strPtr (s : Str) : Option Str := if s = [] then none else some s

def Env.toRaw (e : Env) : Raw :=
  { id := e.id, from_ := nodePtr e.from_, pp := nodePtr e.pp, to := nodePtr e.to, metadata := e.metadata }

def Auth.toJson : Auth → Json
  | .guest => .obj []
  | .plain p => .obj [(cs!"password", .str p)]
  | .key k => .obj [(cs!"key", .str k)]
  | .transport => .obj []
  | .external t i => .obj [(cs!"token", .str t), (cs!"issuer", .str i)]

def Message.toRaw (m : Message) : Outcome Raw :=
  match m.content with
  | none => .err                                   -- "message content is required"
  | some d => .ok { m.env.toRaw with type := some m.type, content := some d.enc }

def Notification.toRaw (n : Notification) : Raw :=
  { n.env.toRaw with event := strPtr n.event, reason := n.reason }

def Command.toRaw (c : Command) : Raw :=
  match c.resource with
  | some d => { c.env.toRaw with resource := some d.enc, type := c.type, method := strPtr c.method }
  | none => { c.env.toRaw with method := strPtr c.method }

def RequestCommand.toRaw (c : RequestCommand) : Raw := { c.cmd.toRaw with uri := c.uri }

def ResponseCommand.toRaw (c : ResponseCommand) : Raw :=
  { c.cmd.toRaw with status := strPtr c.status, reason := c.reason }

def Session.toRaw (s : Session) : Raw :=
  { s.env.toRaw with
    auth := s.auth.map Auth.toJson
    state := strPtr s.state
    encOpts := s.encOpts
    enc := strPtr s.enc
    compOpts := s.compOpts
    comp := strPtr s.comp
    schemeOpts := s.schemeOpts
    scheme := strPtr s.scheme
    reason := s.reason }

def Envelope.toRaw : Envelope → Outcome Raw
  | .message m => m.toRaw
  | .notification n => .ok n.toRaw
  | .request c => .ok c.toRaw
  | .response c => .ok c.toRaw
  | .session s => .ok s.toRaw

/-- `json.Marshal(envelope)` -/
def Envelope.encode (e : Envelope) : Outcome Json := e.toRaw >>= Raw.toJson

/-! ## raw → value (`populate`) -/

def Env.ofRaw (r : Raw) : Env :=
  { id := r.id, metadata := r.metadata, from_ := r.from_.getD Node.zero, pp := r.pp.getD Node.zero,
    to := r.to.getD Node.zero }

def Message.ofRaw (r : Raw) : Outcome Message :=
  match r.type with
  | none => .err
  | some t =>
    match r.content with
    | none => .err
    | some c => (Doc.dec c t).bind (fun d => .ok { env := Env.ofRaw r, type := t, content := some d })

def Notification.ofRaw (r : Raw) : Outcome Notification :=
  match r.event with
  | none => .err
  | some e => .ok { env := Env.ofRaw r, event := e, reason := r.reason }

def Command.ofRaw (r : Raw) : Outcome Command :=
  let res : Outcome (Option MT × Option Doc) :=
    match r.resource with
    | none => .ok (none, none)
    | some j =>
      match r.type with
      | none => .err
      | some t => (Doc.dec j t).bind (fun d => .ok (some t, some d))
  res.bind (fun p =>
    match r.method with
    | none => .err
    | some m => .ok { env := Env.ofRaw r, method := m, type := p.1, resource := p.2 })

def RequestCommand.ofRaw (r : Raw) : Outcome RequestCommand :=
  (Command.ofRaw r).bind (fun c => .ok { cmd := c, uri := r.uri })

def ResponseCommand.ofRaw (r : Raw) : Outcome ResponseCommand :=
  (Command.ofRaw r).bind (fun c =>
    if r.status = some [] then .err              -- "command status cannot be empty"
    else .ok { cmd := c, status := r.status.getD [], reason := r.reason })

/-- `json.Unmarshal(*raw.Authentication, &a)` into the struct the scheme's factory made -/
def Auth.ofJson (scheme : Str) (j : Json) : Outcome Auth :=
  if scheme = cs!"guest" then
    match j with | .obj _ => .ok .guest | _ => .err
  else if scheme = cs!"transport" then
    match j with | .obj _ => .ok .transport | _ => .err
  else if scheme = cs!"plain" then
    match j with
    | .obj kvs => (foldVals intoString [] (fieldVals cs!"password" kvs)).bind (fun p => .ok (.plain p))
    | _ => .err
  else if scheme = cs!"key" then
    match j with
    | .obj kvs => (foldVals intoString [] (fieldVals cs!"key" kvs)).bind (fun k => .ok (.key k))
    | _ => .err
  else if scheme = cs!"external" then
    match j with
    | .obj kvs =>
      (foldVals intoString [] (fieldVals cs!"token" kvs)).bind (fun t =>
      (foldVals intoString [] (fieldVals cs!"issuer" kvs)).bind (fun i => .ok (.external t i)))
    | _ => .err
  else .err                                         -- unknown authentication scheme

def Session.ofRaw (r : Raw) : Outcome Session :=
  let a : Outcome (Option Auth) :=
    match r.auth with
    | none => .ok none
    | some j =>
      match r.scheme with
      | none => .err
      | some sch => (Auth.ofJson sch j).bind (fun a => .ok (some a))
  a.bind (fun auth =>
    match r.state with
    | none => .err
    | some st =>
      .ok { env := Env.ofRaw r, state := st, encOpts := r.encOpts, enc := r.enc.getD [],
            compOpts := r.compOpts, comp := r.comp.getD [], schemeOpts := r.schemeOpts,
            scheme := r.scheme.getD [], auth := auth, reason := r.reason })

/-- `rawEnvelope.envelopeType` -/
def Raw.kind (r : Raw) : Outcome Kind :=
  if r.method.isSome ∧ r.uri.isSome then .ok .request
  else if r.method.isSome ∧ r.status.isSome then .ok .response
  else if r.event.isSome then .ok .notification
  else if r.content.isSome then .ok .message
  else if r.state.isSome then .ok .session
  else .err

def populate (k : Kind) (r : Raw) : Outcome Envelope :=
  match k with
  | .message => (Message.ofRaw r).bind (fun m => .ok (.message m))
  | .notification => (Notification.ofRaw r).bind (fun m => .ok (.notification m))
  | .request => (RequestCommand.ofRaw r).bind (fun m => .ok (.request m))
  | .response => (ResponseCommand.ofRaw r).bind (fun m => .ok (.response m))
  | .session => (Session.ofRaw r).bind (fun m => .ok (.session m))

/-- `json.Unmarshal(b, &typedEnvelope)` -/
def decodeTyped (U : Str → Option Str) (k : Kind) (j : Json) : Outcome Envelope :=
  (Raw.ofJson U j).bind (populate k)

/-- a transport's receive path: decode the raw struct, discriminate the kind, populate -/
def decodeAny (U : Str → Option Str) (j : Json) : Outcome Envelope :=
  (Raw.ofJson U j).bind (fun r => r.kind.bind (fun k => populate k r))

/-! ## reply builders (envelope.go `Sender`, command.go, message.go) -/

/-- `Envelope.Sender` -/
def Env.sender (e : Env) : Node := if e.pp.isZero then e.from_ else e.pp

def RequestCommand.successResponse (c : RequestCommand) : ResponseCommand :=
  { cmd := { env := { id := c.cmd.env.id, from_ := c.cmd.env.to, to := c.cmd.env.sender },
             method := c.cmd.method, type := none, resource := none },
    status := cs!"success", reason := none }

def RequestCommand.successResponseWithResource (c : RequestCommand) (d : Doc) : ResponseCommand :=
  let r := c.successResponse
  { r with cmd := { r.cmd with resource := some d, type := some d.mt } }

def RequestCommand.failureResponse (c : RequestCommand) (reason : Option Reason) : ResponseCommand :=
  { cmd := { env := { id := c.cmd.env.id, from_ := c.cmd.env.to, to := c.cmd.env.sender },
             method := c.cmd.method, type := none, resource := none },
    status := cs!"failure", reason := reason }

def Message.notification (m : Message) (event : Str) : Notification :=
  { env := { id := m.env.id, from_ := m.env.to, to := m.env.sender }, event := event, reason := none }

def Message.failedNotification (m : Message) (reason : Option Reason) : Notification :=
  { m.notification cs!"failed" with reason := reason }

end LimeModel
