import LimeModel.Mux
import LimeModel.Generated
/-!
# The dispatch loop in the variant the source has on this run

`harness/cmd/facts/structure.go` reads the four `handleX` loops and the four `Match` methods of
handler.go off the syntax tree: `muxLoopFirstMatchBreak` says each loop is literally
`for _, h := range m.<kind>Handlers { if !h.Match(x) { continue }; if err := h.Handle(.., x, ..); err != nil { return <error> }; break }; return nil`,
`muxNilPredicateMatches` says each `Match` is `if h.predicate == nil { return true }; return h.predicate(x)`.
`scanV` is the loop with both as switches: without the `break` the scan goes on after a handler that
returned no error; without the nil check a handler without predicate is not taken to match. The
theorems of `Props/C20.lean` are about `scan` = `scanV true true`; `Props/CodeV/C20.lean` states them
for `dispatchCode`, the variant read from the source.
-/
namespace LimeModel.Mux

def Handler.matchesV {ε} (nilOk : Bool) (h : Handler ε) (e : ε) : Bool :=
  match h.pred with
  | none => nilOk
  | some p => p e

def scanV {ε} (brk nilOk : Bool) (e : ε) : List (Handler ε) → Nat → List Ev
  | [], _ => []
  | h :: t, i =>
    if h.matchesV nilOk e then
      .consult i true :: .invoke i (h.fails e) :: (if brk || h.fails e then [] else scanV brk nilOk e t (i + 1))
    else .consult i false :: scanV brk nilOk e t (i + 1)

theorem matchesV_true {ε} (h : Handler ε) (e : ε) : h.matchesV true e = h.matches e := by
  unfold Handler.matchesV Handler.matches; rfl

theorem scanV_true {ε} (e : ε) (hs : List (Handler ε)) : ∀ i, scanV true true e hs i = scan e hs i := by
  induction hs with
  | nil => intro i; rfl
  | cons h t ih =>
    intro i
    simp only [scanV, scan, matchesV_true, Bool.true_or, ↓reduceIte, ih]

def codeBreaks : Bool := Generated.muxLoopFirstMatchBreak
def codeNilMatches : Bool := Generated.muxNilPredicateMatches

/-- `handleX` as the source has it -/
def dispatchCode {ε} (hs : List (Handler ε)) (e : ε) : List Ev × Bool :=
  let l := scanV codeBreaks codeNilMatches e hs 0
  (l, l.any (fun ev => match ev with | .invoke _ true => true | _ => false))

end LimeModel.Mux
