import LimeModel.Generated
import LimeModel.Basic
/-!
# M5: the high-level client and the unrequested loss of its session
(client.go `getOrBuildChannel` / listener goroutine, channel.go `receiveFromTransport`, `Established`)

The client decides whether to reuse its channel by `channelOK` = the channel is in the established
state on a transport that reports connected. The listener goroutine loops over: get (or rebuild) the
channel; `ListenClient`, which returns at once when the channel's receiver goroutine has exited.
A fault ends the receiver; what it does to the state and to the transport depends on its kind.
`fixed = false` is the tree before the repair: a receive error other than EOF (undecodable bytes,
JSON that is no envelope, an oversized envelope) left the transport looking connected.
-/
namespace LimeModel.ClientLife

inductive Fault | srvFinish | srvFail | drop | halfClose | garbage | notEnvelope | oversize | oddSession
  deriving DecidableEq, Repr

structure CL where
  established : Bool := true
  connected : Bool := true
  receiverAlive : Bool := true
  sessions : Nat := 1         -- sessions established so far
  deriving DecidableEq, Repr

def CL.channelOK (s : CL) : Bool := s.established && s.connected

/-- which of the two repairs of the receiver the code has: it closes the transport on a receive
error (`onError`), and on a session envelope that leaves the client established (`onOdd`) -/
structure Fix where
  onError : Bool
  onOdd : Bool
  deriving DecidableEq, Repr

def Fix.all : Fix := ⟨true, true⟩
def Fix.none : Fix := ⟨false, false⟩
@[simp] theorem Fix.all_onError : Fix.all.onError = true := rfl
@[simp] theorem Fix.all_onOdd : Fix.all.onOdd = true := rfl
@[simp] theorem Fix.none_onError : Fix.none.onError = false := rfl
@[simp] theorem Fix.none_onOdd : Fix.none.onOdd = false := rfl

/-- what a fault does to the client's channel -/
def fault (fixed : Fix) (s : CL) : Fault → CL
  | .srvFinish | .srvFail =>            -- the receiver hands the session envelope over and adopts its state
    { s with established := false, receiverAlive := false }
  | .drop | .halfClose =>               -- the receiver reads EOF: the transport marks itself disconnected
    { s with connected := false, receiverAlive := false }
  | .garbage | .notEnvelope | .oversize =>   -- the receiver gets another error
    if fixed.onError then { s with connected := false, receiverAlive := false }   -- and closes the transport
    else { s with receiverAlive := false }
  | .oddSession =>          -- a session envelope that ends nothing: the receiver hands it over and stops
    if fixed.onOdd then { s with connected := false, receiverAlive := false }   -- ... closing the transport
    else { s with receiverAlive := false }

/-- `getOrBuildChannel` (the server is reachable): reuse, or build a fresh established channel -/
def getOrBuild (s : CL) : CL :=
  if s.channelOK then s else { established := true, connected := true, receiverAlive := true, sessions := s.sessions + 1 }

/-- one iteration of the listener goroutine: `true` = it blocked in `ListenClient` (a live receiver),
`false` = `ListenClient` returned at once -/
def listenerIter (s : CL) : Bool × CL :=
  let s1 := getOrBuild s
  (s1.receiverAlive, s1)

/-- the client is deaf and its listener spins: a channel that looks fine without a receiver -/
def CL.wedged (s : CL) : Bool := s.channelOK && !s.receiverAlive

inductive Op | fault (f : Fault) | send | listen
  deriving DecidableEq, Repr

def step (fixed : Fix) (s : CL) : Op → CL
  | .fault f => fault fixed s f
  | .send => getOrBuild s
  | .listen => (listenerIter s).2

def run (fixed : Fix) (ops : List Op) : CL := ops.foldl (step fixed) {}

/-- which variant the code is, read from the source on this run: the receiver closes the transport
on a receive error and on a session envelope that leaves the client established -/
def repaired : Fix := ⟨Generated.receiverClosesOnError, Generated.receiverClosesOnOddSession⟩

end LimeModel.ClientLife
