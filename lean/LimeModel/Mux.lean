/-!
# M4 `Mux` — model of `EnvelopeMux` dispatch (handler.go)

`handleMessage` / `handleNotification` / `handleRequestCommand` / `handleResponseCommand`
are the same loop over the kind's handler slice:

```go
for _, h := range m.msgHandlers {
    if !h.Match(msg) { continue }
    if err := h.Handle(ctx, msg, s); err != nil { return fmt.Errorf(...) }
    break
}
return nil
```

`Match` of the built-in handler types is `predicate == nil || predicate(env)`.
`listen` takes envelopes one at a time and stops at the first handler error.
The model keeps the *log of calls* (predicate consultations and handler invocations), so that
"exactly once", "first match" and "later predicates are not consulted" are statements about it.
-/

namespace LimeModel.Mux

/-- The four envelope kinds a mux dispatches. -/
inductive Kind | msg | ntf | req | resp
  deriving DecidableEq, Repr

/-- A registered handler over envelopes of type `ε`: optional predicate (`none` = Go `nil`)
and the outcome of `Handle` (`true` = returns an error). -/
structure Handler (ε : Type) where
  pred  : Option (ε → Bool)
  fails : ε → Bool

/-- `Match`. -/
def Handler.matches {ε} (h : Handler ε) (e : ε) : Bool :=
  match h.pred with
  | none => true
  | some p => p e

/-- What the environment can see of one dispatch. Indices are registration positions. -/
inductive Ev
  | consult (i : Nat) (r : Bool)     -- `Match` of handler `i` returned `r`
  | invoke  (i : Nat) (err : Bool)   -- `Handle` of handler `i` was called and returned `err`
  deriving DecidableEq, Repr

/-- The dispatch loop from registration index `i` on. -/
def scan {ε} (e : ε) : List (Handler ε) → Nat → List Ev
  | [], _ => []
  | h :: t, i =>
    if h.matches e then [.consult i true, .invoke i (h.fails e)]
    else .consult i false :: scan e t (i + 1)

/-- `handleX`: the log and whether it returned an error. -/
def dispatch {ε} (hs : List (Handler ε)) (e : ε) : List Ev × Bool :=
  let l := scan e hs 0
  (l, l.any (fun ev => match ev with | .invoke _ true => true | _ => false))

/-- The per-kind tables of a mux. -/
structure Table (ε : Type) where
  msg  : List (Handler ε)
  ntf  : List (Handler ε)
  req  : List (Handler ε)
  resp : List (Handler ε)

def Table.get {ε} (t : Table ε) : Kind → List (Handler ε)
  | .msg => t.msg | .ntf => t.ntf | .req => t.req | .resp => t.resp

/-- `listen` over a sequence of inbound envelopes: per envelope the dispatch log; the loop
returns at the first handler error (the second component says whether it did). -/
def listen {ε} (t : Table ε) : List (Kind × ε) → List (Kind × List Ev) × Bool
  | [] => ([], false)
  | (k, e) :: rest =>
    let d := dispatch (t.get k) e
    if d.2 then ([(k, d.1)], true)
    else
      let r := listen t rest
      ((k, d.1) :: r.1, r.2)

/-- Index of the first matching handler, the specification. -/
def firstMatch {ε} (e : ε) : List (Handler ε) → Nat → Option Nat
  | [], _ => none
  | h :: t, i => if h.matches e then some i else firstMatch e t (i + 1)

end LimeModel.Mux
