import LimeModel.Envelope
/-!
# Well-formedness: the explicit, decidable hypotheses of the round-trip theorems

Everything excluded here is covered by the differential run (the encoder / decoder behaviour on
ill-formed values is part of the model and is diffed against the code).
-/
namespace LimeModel
open Json

def noSep (seps : List Char) (s : Str) : Bool := s.all (fun c => !seps.contains c)

/-- name and domain free of `@`; the zero identity is allowed (it prints as the empty string) -/
def Identity.wf (i : Identity) : Bool := noSep ['@'] i.name && noSep ['@'] i.domain

/-- the address grammar's reserved separators: name, domain free of `@` and `/`; instance free of `/` -/
def Node.wf (n : Node) : Bool :=
  noSep ['@', '/'] n.name && noSep ['@', '/'] n.domain && noSep ['/'] n.inst

/-- type and subtype non-empty and free of `/` and `+`; suffix free of `+` -/
def MT.wf (m : MT) : Bool :=
  !m.type.isEmpty && !m.subtype.isEmpty &&
    noSep ['/', '+'] m.type && noSep ['/', '+'] m.subtype && noSep ['+'] m.suffix

def int64 (i : Int) : Bool := decide (-9223372036854775808 ≤ i) && decide (i ≤ 9223372036854775807)

def keysDistinct {α} : List (Str × α) → Bool
  | [] => true
  | (k, _) :: t => !t.any (fun p => p.1 == k) && keysDistinct t

mutual
/-- objects have distinct keys at every level (what a Go map can hold) -/
def Json.isNorm : Json → Bool
  | .arr l => Json.isNormList l
  | .obj kvs => keysDistinct kvs && Json.isNormKvs kvs
  | _ => true
def Json.isNormList : List Json → Bool
  | [] => true
  | j :: t => Json.isNorm j && Json.isNormList t
def Json.isNormKvs : List (Str × Json) → Bool
  | [] => true
  | (_, v) :: t => Json.isNorm v && Json.isNormKvs t
end

mutual
/-- `d` is well-formed as a document travelling under media type `t` -/
def Doc.wf (t : MT) : Doc → Bool
  | .text _ => factoryFor t == .text
  | .json kvs => factoryFor t == .json && keysDistinct kvs && Json.isNormKvs kvs
  | .ping => factoryFor t == .ping
  | .container t' v => factoryFor t == .container && t'.wf && Doc.wf t' v
  | .collection total it items =>
    factoryFor t == .collection && int64 total && it.wf && Doc.wfItems it items
def Doc.wfItems (t : MT) : Option (List Doc) → Bool
  | none => true
  | some l => Doc.wfList t l
def Doc.wfList (t : MT) : List Doc → Bool
  | [] => true
  | d :: r => Doc.wf t d && Doc.wfList t r
end

def Reason.wf (r : Reason) : Bool := int64 r.code

def optWf {α} (p : α → Bool) : Option α → Bool
  | none => true
  | some a => p a

def Env.wf (e : Env) : Bool :=
  e.from_.wf && e.pp.wf && e.to.wf &&
    (match e.metadata with
     | none => true
     | some [] => false            -- an empty non-nil map is omitted on the wire and comes back nil
     | some kvs => keysDistinct kvs)

def optsWf : Option (List Str) → Bool
  | some [] => false               -- an empty non-nil slice is omitted on the wire and comes back nil
  | _ => true

/-- `U` is the URL library's parse-then-print; a well-formed URI text is a fixed point of it -/
def Envelope.wf (U : Str → Option Str) : Envelope → Bool
  | .message m =>
    m.env.wf && m.type.wf &&
      (match m.content with
       | none => false
       | some d => Doc.wf m.type d)
  | .notification n => n.env.wf && notificationEvents.contains n.event && optWf Reason.wf n.reason
  | .request c =>
    c.cmd.env.wf && commandMethods.contains c.cmd.method &&
      (match c.cmd.resource, c.cmd.type with
       | none, none => true
       | some d, some t => t.wf && Doc.wf t d
       | _, _ => false) &&
      (match c.uri with
       | none => false
       | some u => U u == some u)
  | .response c =>
    c.cmd.env.wf && commandMethods.contains c.cmd.method &&
      (match c.cmd.resource, c.cmd.type with
       | none, none => true
       | some d, some t => t.wf && Doc.wf t d
       | _, _ => false) &&
      !c.status.isEmpty && optWf Reason.wf c.reason
  | .session s =>
    s.env.wf && sessionStates.contains s.state && optsWf s.encOpts && optsWf s.compOpts &&
      optsWf s.schemeOpts && optWf Reason.wf s.reason &&
      (match s.auth with
       | none => true
       | some a => s.scheme == a.scheme)

/-- the resource of a command is typed by its media type, or both are absent -/
def Command.resWf (c : Command) : Bool :=
  match c.resource, c.type with
  | none, none => true
  | some d, some t => t.wf && Doc.wf t d
  | _, _ => false

/-- what the *typed* decoders accept is a little more than `Envelope.wf`: a request may lack its
`uri` and a response its `status` (the receive path could not tell their kind, the typed decoder is
told it) -/
def Envelope.wfT (U : Str → Option Str) : Envelope → Bool
  | .request c =>
    c.cmd.env.wf && commandMethods.contains c.cmd.method && c.cmd.resWf && optWf (fun u => U u == some u) c.uri
  | .response c =>
    c.cmd.env.wf && commandMethods.contains c.cmd.method && c.cmd.resWf && optWf Reason.wf c.reason
  | e => e.wf U

/-! ## normal form: the two things a Go value can hold that the wire cannot tell apart

An empty non-nil map or slice is left out by `omitempty` exactly like a nil one, so it comes back
nil. `norm` makes them nil; it changes nothing else. -/

def normMeta : Option (List (Str × Str)) → Option (List (Str × Str))
  | some [] => none
  | o => o

def normOpts : Option (List Str) → Option (List Str)
  | some [] => none
  | o => o

def Env.norm (e : Env) : Env := { e with metadata := normMeta e.metadata }

def Command.norm (c : Command) : Command := { c with env := c.env.norm }

def Envelope.norm : Envelope → Envelope
  | .message m => .message { m with env := m.env.norm }
  | .notification n => .notification { n with env := n.env.norm }
  | .request c => .request { c with cmd := c.cmd.norm }
  | .response c => .response { c with cmd := c.cmd.norm }
  | .session s =>
    .session { s with env := s.env.norm, encOpts := normOpts s.encOpts, compOpts := normOpts s.compOpts,
                      schemeOpts := normOpts s.schemeOpts }

/-- the raw struct of the normal form -/
def Raw.normR (r : Raw) : Raw :=
  { r with metadata := normMeta r.metadata, encOpts := normOpts r.encOpts, compOpts := normOpts r.compOpts,
           schemeOpts := normOpts r.schemeOpts }

end LimeModel
