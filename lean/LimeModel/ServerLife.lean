import LimeModel.Generated
import LimeModel.Basic
/-!
# M5: server start / stop (server.go `ListenAndServe`, `acceptTransports`, `consumeTransports`,
`handleChannel`, `Close`)

Goroutine-level model: the caller of `ListenAndServe` (publish the cancel function; start the
listeners one by one, spawning an acceptor for each; spawn the consumer; wait for the group; return),
one acceptor per listener (`Accept`, then a `select` between the cancelled context and the hand-over
to the queue), the consumer, `Close` (cancel the context, then close the listeners one by one), and
the sessions the consumer spawns (handshake, `Established` callback, service, `Finished` callback).
Every labelled step is atomic; the scheduler is arbitrary. `fixed = true` is the code as it is;
`fixed = false` the tree before the repairs (the return value was the first error any acceptor
reported; listeners started after an early `Close` stayed open).
-/
namespace LimeModel.ServerLife

inductive AccPC
  | notSpawned
  | accepting
  | holding                 -- `Accept` returned a transport; in the `select`
  | exited (ctxErr : Bool)  -- returned the context's error (`true`) or the listener's (`false`)
  deriving DecidableEq, Repr

inductive Lst | notStarted | listening | closed
  deriving DecidableEq, Repr

inductive ConsPC | notSpawned | running | exited
  deriving DecidableEq, Repr

inductive SesPC | none | handshaking | established | finished | released
  deriving DecidableEq, Repr

inductive Ret | serverClosed | listenerErr
  deriving DecidableEq, Repr

inductive Ev | est (i : Nat) | fin (i : Nat) | handler (i : Nat)
  deriving DecidableEq, Repr

structure St where
  n : Nat                          -- number of listeners
  backlog : Nat
  published : Bool := false        -- `srv.shutdown` is set
  cancelled : Bool := false        -- `Close` cancelled the server context
  closeAt : Nat := 0               -- listeners `Close` has been through
  groupCancelled : Bool := false   -- the errgroup's context was cancelled by a failing goroutine
  firstErr : Option Bool := none   -- the first error reported to the group (`true` = a context error)
  lst : Nat → Lst := fun _ => .notStarted
  started : Nat := 0               -- listeners `ListenAndServe` has started
  acc : Nat → AccPC := fun _ => .notSpawned
  cons : ConsPC := .notSpawned
  queue : Nat := 0
  nses : Nat := 0                  -- sessions spawned so far
  ses : Nat → SesPC := fun _ => .none
  returned : Option Ret := none
  trace : List Ev := []            -- callbacks and handler runs, newest first

inductive Lbl
  | publish | startListener | spawnConsumer | ret
  | connect (i : Nat) | push (i : Nat) | accExitCtx (i : Nat) | accExitLst (i : Nat)
  | take | consumerExit
  | closeCancel | closeLst
  | hsOk (j : Nat) | hsFail (j : Nat) | handle (j : Nat) | finish (j : Nat)
  deriving Repr

def upd {α} (f : Nat → α) (k : Nat) (v : α) : Nat → α := fun x => if x = k then v else f x

/-- the errgroup keeps the first error reported to it -/
def keepFirst : Option Bool → Bool → Option Bool
  | none, b => some b
  | some x, _ => some x

def St.ctxDone (s : St) : Bool := s.cancelled || s.groupCancelled

def allAccExited (s : St) : Bool := (List.range s.n).all fun i => match s.acc i with | .exited _ => true | _ => false

def closeListeners (s : St) : Nat → Lst := fun i => if i < s.n ∧ s.lst i = .listening then .closed else s.lst i

def step (fixed : Bool) (s : St) : Lbl → Option St
  | .publish => if !s.published then some { s with published := true } else none
  | .startListener =>
    if s.published ∧ s.started < s.n ∧ s.returned = none then
      some { s with lst := upd s.lst s.started .listening, acc := upd s.acc s.started .accepting, started := s.started + 1 }
    else none
  | .spawnConsumer =>
    if s.published ∧ s.started = s.n ∧ s.cons = .notSpawned then some { s with cons := .running } else none
  | .connect i =>
    if i < s.n ∧ s.lst i = .listening ∧ s.acc i = .accepting then some { s with acc := upd s.acc i .holding } else none
  | .push i =>
    if i < s.n ∧ s.acc i = .holding ∧ s.queue < s.backlog + 1 then
      some { s with acc := upd s.acc i .accepting, queue := s.queue + 1 }
    else none
  | .accExitCtx i =>
    if i < s.n ∧ (s.acc i = .accepting ∨ s.acc i = .holding) ∧ s.ctxDone then
      some { s with acc := upd s.acc i (.exited true), groupCancelled := true, firstErr := keepFirst s.firstErr true }
    else none
  | .accExitLst i =>
    if i < s.n ∧ s.acc i = .accepting ∧ s.lst i = .closed then
      some { s with acc := upd s.acc i (.exited false), groupCancelled := true, firstErr := keepFirst s.firstErr false }
    else none
  | .take =>
    if s.cons = .running ∧ 0 < s.queue then
      some { s with queue := s.queue - 1, ses := upd s.ses s.nses .handshaking, nses := s.nses + 1 }
    else none
  | .consumerExit => if s.cons = .running ∧ s.ctxDone then some { s with cons := .exited } else none
  | .closeCancel => if s.published ∧ !s.cancelled then some { s with cancelled := true } else none
  | .closeLst =>
    if s.cancelled ∧ s.closeAt < s.n then
      some { s with lst := upd s.lst s.closeAt (if s.lst s.closeAt = .listening then .closed else s.lst s.closeAt),
                    closeAt := s.closeAt + 1 }
    else none
  | .ret =>
    if s.started = s.n ∧ s.cons = .exited ∧ allAccExited s ∧ s.returned = none then
      if fixed then
        if s.cancelled then some { s with returned := some .serverClosed, lst := closeListeners s }
        else some { s with returned := some (if s.firstErr = some true then .serverClosed else .listenerErr) }
      else some { s with returned := some (if s.firstErr = some true then .serverClosed else .listenerErr) }
    else none
  | .hsOk j =>
    if s.ses j = .handshaking then some { s with ses := upd s.ses j .established, trace := .est j :: s.trace } else none
  | .hsFail j => if s.ses j = .handshaking then some { s with ses := upd s.ses j .released } else none
  | .handle j => if s.ses j = .established then some { s with trace := .handler j :: s.trace } else none
  | .finish j =>
    if s.ses j = .established then some { s with ses := upd s.ses j .finished, trace := .fin j :: s.trace } else none

def runL (fixed : Bool) : St → List Lbl → Option St
  | s, [] => some s
  | s, l :: ls => match step fixed s l with | some s' => runL fixed s' ls | none => none

def init (n backlog : Nat) : St := { n, backlog }

/-- the callback discipline on a newest-first log: `Established` at most once per session and before
everything else of that session; `Finished` at most once, after `Established`, nothing after it -/
def pairedRev : List Ev → Bool
  | [] => true
  | .est i :: t => !t.contains (.est i) && !t.contains (.fin i) && !t.contains (.handler i) && pairedRev t
  | .fin i :: t => t.contains (.est i) && !t.contains (.fin i) && pairedRev t
  | .handler i :: t => t.contains (.est i) && !t.contains (.fin i) && pairedRev t

/-- at the end: every session that was announced as established was also announced as finished -/
def allFinished (tr : List Ev) : Bool :=
  tr.all fun e => match e with | .est i => tr.contains (.fin i) | _ => true

/-- which variant the code is, read from the source on this run: `ListenAndServe` decides on the
server's own context whether it was closed (`harness/cmd/facts/structure.go`) -/
def repaired : Bool := Generated.serveReturnsClosedAfterClose

end LimeModel.ServerLife
