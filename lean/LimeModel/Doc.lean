import LimeModel.Json
import LimeModel.Text
/-!
# Documents (document.go, mediatype.go `GetDocumentFactory` / `UnmarshalDocument`)
-/
namespace LimeModel
open Json

/-- a document value; its media type is carried next to it by the envelope / container / collection -/
inductive Doc where
  | text (s : Str)                                   -- `TextDocument`
  | json (kvs : List (Str × Json))                   -- `JsonDocument` (a non-nil map)
  | container (t : MT) (v : Doc)                     -- `DocumentContainer{Type, Value}`
  | collection (total : Int) (itemType : MT) (items : Option (List Doc))   -- `none` = nil slice
  | ping
  deriving Repr

def mtTextPlain : MT := ⟨cs!"text", cs!"plain", []⟩
def mtAppJson : MT := ⟨cs!"application", cs!"json", []⟩
def mtContainer : MT := ⟨cs!"application", cs!"vnd.lime.container", cs!"json"⟩
def mtCollection : MT := ⟨cs!"application", cs!"vnd.lime.collection", cs!"json"⟩
def mtPing : MT := ⟨cs!"application", cs!"vnd.lime.ping", cs!"json"⟩

inductive DocKind | text | json | container | collection | ping
  deriving DecidableEq, Repr

/-- `GetDocumentFactory` with the five built-in registrations: exact media type first, then
`+json` ↦ generic JSON, anything else ↦ plain text. -/
def factoryFor (t : MT) : DocKind :=
  if t = mtTextPlain then .text
  else if t = mtAppJson then .json
  else if t = mtContainer then .container
  else if t = mtCollection then .collection
  else if t = mtPing then .ping
  else if t.isJson then .json
  else .text

/-- `Document.MediaType()` -/
def Doc.mt : Doc → MT
  | .text _ => mtTextPlain
  | .json _ => mtAppJson
  | .container _ _ => mtContainer
  | .collection _ _ _ => mtCollection
  | .ping => mtPing

def Doc.kind : Doc → DocKind
  | .text _ => .text
  | .json _ => .json
  | .container _ _ => .container
  | .collection _ _ _ => .collection
  | .ping => .ping

/-- keep, for every key, its last binding (what decoding into a Go map leaves) -/
def dedupKeys {α} : List (Str × α) → List (Str × α)
  | [] => []
  | (k, v) :: t => if t.any (fun p => p.1 == k) then dedupKeys t else (k, v) :: dedupKeys t

mutual
/-- decoding into `interface{}` / `map[string]interface{}`: nested objects become maps -/
def Json.norm : Json → Json
  | .arr l => .arr (Json.normList l)
  | .obj kvs => .obj (dedupKeys (Json.normKvs kvs))
  | j => j
def Json.normList : List Json → List Json
  | [] => []
  | j :: t => Json.norm j :: Json.normList t
def Json.normKvs : List (Str × Json) → List (Str × Json)
  | [] => []
  | (k, v) :: t => (k, Json.norm v) :: Json.normKvs t
end

/-- `total` has `omitempty` -/
def totalField (total : Int) : List (Str × Json) :=
  if total = 0 then [] else [(cs!"total", .num (.int total))]

mutual
def Doc.enc : Doc → Json
  | .text s => .str s
  | .json kvs => .obj kvs
  | .container t v => .obj [(cs!"type", .str (printMT t)), (cs!"value", Doc.enc v)]
  | .collection total it items =>
    .obj (totalField total ++
      [(cs!"itemType", .str (printMT it)), (cs!"items", Doc.encItems items)])
  | .ping => .obj []
def Doc.encItems : Option (List Doc) → Json
  | none => .null
  | some l => .arr (Doc.encList l)
def Doc.encList : List Doc → List Json
  | [] => []
  | d :: t => Doc.enc d :: Doc.encList t
end

/-- `UnmarshalDocument` called with a nil `*json.RawMessage` (member absent or `null`):
"document value is required". (Before the repair this was a nil dereference, i.e. `.panic`.) -/
def nilRawDeref {α} : Outcome α := .err

/-- the last occurrence of an `items` member, after all occurrences were accepted -/
def itemsField (kvs : List (Str × Json)) : Outcome (Option (List Json)) :=
  foldVals (fun _ v => match v with
    | .arr l => .ok (some l)
    | .null => .ok none
    | _ => .err) none (fieldVals cs!"items" kvs)

theorem itemsField_sizeOf {kvs : List (Str × Json)} {l : List Json}
    (h : itemsField kvs = .ok (some l)) : sizeOf l < sizeOf kvs := by
  unfold itemsField at h
  have key : ∀ (vals : List Json) (init : Option (List Json)),
      (∀ v ∈ vals, sizeOf v < sizeOf kvs) →
      (∀ l', init = some l' → sizeOf l' < sizeOf kvs) →
      foldVals (fun _ v => match v with
        | .arr l => .ok (some l)
        | .null => .ok none
        | _ => .err) init vals = .ok (some l) → sizeOf l < sizeOf kvs := by
    intro vals
    induction vals with
    | nil => intro init _ hi hf; simp at hf; exact hi l hf
    | cons v t ih =>
      intro init hv hi hf
      simp only [foldVals] at hf
      cases v with
      | arr l' =>
        simp only [Outcome.bind] at hf
        refine ih (some l') (fun w hw => hv w (List.mem_cons_of_mem _ hw)) ?_ hf
        intro l'' hl''; cases hl''
        have := hv (.arr l') (List.mem_cons_self ..)
        simp at this; omega
      | null =>
        simp only [Outcome.bind] at hf
        exact ih none (fun w hw => hv w (List.mem_cons_of_mem _ hw)) (by intro _ h; cases h) hf
      | bool _ => simp [Outcome.bind] at hf
      | num _ => simp [Outcome.bind] at hf
      | str _ => simp [Outcome.bind] at hf
      | obj _ => simp [Outcome.bind] at hf
  exact key _ none (fun v hv => sizeOf_lt_of_mem_fieldVals hv) (by intro _ h; cases h) h

mutual
/-- `UnmarshalDocument(&raw, t)` for a non-nil raw value `j`. -/
def Doc.dec (j : Json) (t : MT) : Outcome Doc :=
  match factoryFor t with
  | .text =>
    match j with
    | .str s => .ok (.text s)
    | _ => .err
  | .json =>
    match j with
    | .obj kvs => .ok (.json (dedupKeys (Json.normKvs kvs)))
    | _ => .err
  | .ping =>
    match j with
    | .obj _ => .ok .ping
    | _ => .err
  | .container =>
    match j with
    | .obj kvs =>
      match foldVals (ptrText parseMT) none (fieldVals cs!"type" kvs) with
      | .err => .err
      | .panic => .panic
      | .ok none => .err                         -- "document type is required"
      | .ok (some t') =>
        match h : rawLast cs!"value" kvs with
        | none => nilRawDeref
        | some v =>
          have : sizeOf v < sizeOf kvs := sizeOf_lt_of_rawLast h
          match Doc.dec v t' with
          | .ok d => .ok (.container t' d)
          | .err => .err
          | .panic => .panic
    | _ => .err
  | .collection =>
    match j with
    | .obj kvs =>
      match foldVals intoInt 0 (fieldVals cs!"total" kvs) with
      | .err => .err
      | .panic => .panic
      | .ok total =>
      match foldVals (ptrText parseMT) none (fieldVals cs!"itemType" kvs) with
      | .err => .err
      | .panic => .panic
      | .ok oit =>
      match h : itemsField kvs with
      | .err => .err
      | .panic => .panic
      | .ok items =>
        match oit with
        | none => .err                           -- "document collection item type is required"
        | some it =>
          match items with
          | none => .ok (.collection total it none)
          | some l =>
            have : sizeOf l < sizeOf kvs := itemsField_sizeOf h
            match Doc.decList l it with
            | .ok ds => .ok (.collection total it (some ds))
            | .err => .err
            | .panic => .panic
    | _ => .err
termination_by sizeOf j
decreasing_by
  all_goals simp_wf
  all_goals omega

/-- the items loop of `DocumentCollection.populate`: a `null` item is a nil pointer -/
def Doc.decList (js : List Json) (t : MT) : Outcome (List Doc) :=
  match js with
  | [] => .ok []
  | .null :: _ => nilRawDeref
  | j :: rest =>
    match Doc.dec j t with
    | .ok d =>
      match Doc.decList rest t with
      | .ok ds => .ok (d :: ds)
      | .err => .err
      | .panic => .panic
    | .err => .err
    | .panic => .panic
termination_by sizeOf js
decreasing_by
  all_goals simp_wf
  all_goals omega
end

end LimeModel
