import LimeModel.Generated
import LimeModel.Basic
/-!
# M5: blocking operations and their context (tcp_transport.go `ctxConn.Read` / `ctxConn.Write`,
the `select`-based operations, the WebSocket helper-goroutine pattern)

Time is a natural number (any unit). A context may have a deadline and may be cancelled at some
moment. The peer is described by the moment at which the underlying operation could complete
(`none`: never — a silent peer, or one that does not read with full buffers).
-/
namespace LimeModel.Timed

structure Ctx where
  deadline : Option Nat := none
  cancelAt : Option Nat := none
  deriving Repr, DecidableEq

/-- `ctx.Err() != nil` at time `t` -/
def Ctx.done (c : Ctx) (t : Nat) : Bool :=
  (match c.deadline with | some d => decide (d ≤ t) | none => false) ||
  (match c.cancelAt with | some a => decide (a ≤ t) | none => false)

inductive Res | ok | ctxErr
  deriving Repr, DecidableEq

/-- the I/O deadline one iteration sets: `min(now + poll, ctx deadline)` -/
def ioDeadline (poll : Nat) (c : Ctx) (now : Nat) : Nat :=
  match c.deadline with
  | some d => min (now + poll) d
  | none => now + poll

/-- `ctxConn.Read` / `ctxConn.Write`: check the context; set the I/O deadline; do the operation; on
a timeout go round again. Returns the time of return and the result. -/
def pollLoop (poll : Nat) (c : Ctx) (readyAt : Option Nat) : Nat → Nat → Nat × Res
  | 0, now => (now, .ctxErr)
  | fuel + 1, now =>
    if c.done now then (now, .ctxErr)
    else
      let d := ioDeadline poll c now
      match readyAt with
      | some r => if r < d then (max now r, .ok) else pollLoop poll c readyAt fuel d
      | none => pollLoop poll c readyAt fuel d

/-- the moment a context ends, if it does -/
def Ctx.endTime (c : Ctx) : Option Nat :=
  match c.deadline, c.cancelAt with
  | some d, some a => some (min d a)
  | some d, none => some d
  | none, some a => some a
  | none, none => none

/-- a `select` between `ctx.Done()` and the operation (in-process Receive / Send / Accept, the TCP
and WebSocket Accept, `ProcessCommand`, `receiveSession` on an established channel) -/
def selectOp (c : Ctx) (readyAt : Option Nat) (now : Nat) : Option (Nat × Res) :=
  match readyAt, c.endTime with
  | some r, some e => if max now r < max now e then some (max now r, .ok) else some (max now e, .ctxErr)
  | some r, none => some (max now r, .ok)
  | none, some e => some (max now e, .ctxErr)
  | none, none => none            -- blocks for ever: no context end, no peer

/-- the WebSocket pattern: a helper goroutine does the blocking operation, the caller selects on the
context and then forces a deadline on the connection and waits for the helper. `interrupts` says
whether forcing the deadline reaches the operation in progress (`true`: it is set on the underlying
network connection; `false`: only a field of the WebSocket library is set, the tree before the repair) -/
def helperOp (interrupts : Bool) (c : Ctx) (readyAt : Option Nat) (now : Nat) : Option (Nat × Res) :=
  match selectOp c readyAt now with
  | some (t, .ok) => some (t, .ok)
  | some (t, .ctxErr) =>
    if interrupts then some (t, .ctxErr)
    else match readyAt with
      | some r => some (max t r, .ctxErr)    -- returns only when the operation itself completes
      | none => none                          -- never
  | none => none

/-- read from the source on this run: the WebSocket `Send` forces the deadline onto the underlying
connection when its context ends -/
def wsInterrupts : Bool := Generated.wsForcesUnderlyingDeadline

end LimeModel.Timed
