import LimeModel.Basic
/-!
# M3: the TCP byte stream (tcp_transport.go `ctxConn.Write` / `ctxConn.Read`, the stream decoder)

* `writeLoop` mirrors the retry loop of `ctxConn.Write` over a plan of what each `conn.Write` does.
* `Framing` abstracts a streaming value scanner (`json.Decoder`) by the three laws it has to obey;
  `recvFrames` is the buffered receive loop of `Receive` over an arbitrary fragmentation of the stream.
-/
namespace LimeModel.Stream

abbrev Bytes := List Nat

/-- what one call of the underlying `conn.Write(p)` does -/
inductive WriteEv
  | full                    -- writes all of `p`, returns nil
  | timeoutAfter (n : Nat)  -- writes `min n |p|` bytes and returns a temporary timeout error
  | failAfter (n : Nat)     -- writes `min n |p|` bytes and returns another error
  | ctxDone                 -- the write context is over before the call
  deriving Repr, DecidableEq

structure WriteRes where
  wire : Bytes      -- what reached the connection, in order
  ok : Bool         -- `Write` returned a nil error
  n : Nat           -- the byte count `Write` reported
  deriving Repr, DecidableEq

/-- `ctxConn.Write(b)`: after a short write that ended in a transient timeout the loop goes on with
the bytes not yet written (`b[written:]`). An exhausted plan means the connection takes the rest. -/
def writeLoop : Bytes → List WriteEv → Nat → WriteRes
  | b, [], w => { wire := b, ok := true, n := w + b.length }
  | b, .full :: _, w => { wire := b, ok := true, n := w + b.length }
  | _, .ctxDone :: _, w => { wire := [], ok := false, n := w }
  | b, .failAfter k :: _, w => { wire := b.take k, ok := false, n := w + min k b.length }
  | b, .timeoutAfter k :: rest, w =>
    let r := writeLoop (b.drop k) rest (w + min k b.length)
    { r with wire := b.take k ++ r.wire }

/-- a streaming value scanner: `complete buf = some k` when the first `k` bytes of `buf` are a
complete frame. `isFrame` describes the frames a sender puts on the wire. -/
structure Framing where
  isFrame : Bytes → Prop
  complete : Bytes → Option Nat
  /-- a frame followed by anything is recognised as exactly that frame -/
  frame_complete : ∀ f rest, isFrame f → complete (f ++ rest) = some f.length
  /-- a proper prefix of a frame is not yet complete -/
  prefix_incomplete : ∀ f (k : Nat), isFrame f → k < f.length → complete (f.take k) = none
  /-- frames are not empty -/
  frame_nonempty : ∀ f, isFrame f → f ≠ []
  /-- nothing buffered, nothing recognised -/
  empty_incomplete : complete [] = none

inductive RecvOut
  | frame (f : Bytes)
  | err
  deriving Repr, DecidableEq

/-- one `Receive`: take a complete frame from the buffer if there is one, else read the next chunk
(sizes from the fragmentation plan, at least 1, at most what the stream still holds; an exhausted
stream is the cut / EOF) and try again. Returns the result, the new buffer, the unread stream and the
rest of the plan. -/
def recvOne (complete : Bytes → Option Nat) : Nat → Bytes → Bytes → List Nat → RecvOut × Bytes × Bytes × List Nat
  | 0, buf, unread, plan => (.err, buf, unread, plan)
  | fuel + 1, buf, unread, plan =>
    match complete buf with
    | some k => (.frame (buf.take k), buf.drop k, unread, plan)
    | none =>
      match unread with
      | [] => (.err, buf, unread, plan)
      | _ =>
        let k := max 1 (min (plan.headD 1) unread.length)
        recvOne complete fuel (buf ++ unread.take k) (unread.drop k) plan.tail

/-- `n` successive `Receive` calls on a stream fragmented according to `plan` -/
def recvFrames (complete : Bytes → Option Nat) : Nat → Bytes → Bytes → List Nat → List RecvOut
  | 0, _, _, _ => []
  | n + 1, buf, unread, plan =>
    let r := recvOne complete (unread.length + 1) buf unread plan
    match r.1 with
    | .err => [.err]
    | .frame f => .frame f :: recvFrames complete n r.2.1 r.2.2.1 r.2.2.2

/-! ## Scanner framings

A left-to-right scanner is a state machine over bytes; `δ s c = none` means "the value ends with
this byte". Both the newline framing and the JSON value scanner of `json.Decoder` (as far as
top-level objects and arrays go: whitespace is skipped, brackets are counted outside strings, a
backslash inside a string protects the next byte) are of this form. -/

def scan {σ : Type} (δ : σ → Nat → Option σ) : σ → Bytes → Nat → Option Nat
  | _, [], _ => none
  | s, c :: t, i =>
    match δ s c with
    | none => some (i + 1)
    | some s' => scan δ s' t (i + 1)

inductive JState
  | start                                   -- before the value: whitespace is skipped
  | inside (depth : Nat) (str esc : Bool)   -- in the value: bracket depth, in a string, after a backslash
  | dead                                    -- not an object or array
  deriving Repr, DecidableEq

def isWs (c : Nat) : Bool := c == 32 || c == 9 || c == 10 || c == 13

def jsonδ : JState → Nat → Option JState
  | .start, c =>
    if isWs c then some .start
    else if c == 123 || c == 91 then some (.inside 1 false false)
    else some .dead
  | .dead, _ => some .dead
  | .inside d true true, _ => some (.inside d true false)
  | .inside d true false, c =>
    if c == 92 then some (.inside d true true)
    else if c == 34 then some (.inside d false false)
    else some (.inside d true false)
  | .inside d false _, c =>
    if c == 34 then some (.inside d true false)
    else if c == 123 || c == 91 then some (.inside (d + 1) false false)
    else if c == 125 || c == 93 then (if d ≤ 1 then none else some (.inside (d - 1) false false))
    else some (.inside d false false)

/-- the `complete` function the driver runs against the real `json.Decoder` -/
def jsonComplete (buf : Bytes) : Option Nat := scan jsonδ .start buf 0

end LimeModel.Stream
