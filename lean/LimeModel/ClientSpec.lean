import LimeModel.ClientHs
/-!
# Executable specification of the client-handshake property (C08)
-/
namespace LimeModel.ClientSpec
open LimeModel LimeModel.ClientHs
open LimeModel.ServerHs (SState Ses Recv Opt)

/-- the server's latest session envelope in a newest-first trace -/
def latestSes : List Ev → Option Ses
  | [] => none
  | .recv (.ses x) :: _ => some x
  | _ :: rest => latestSes rest

/-- **C08** on a newest-first trace: the first client envelope is a bare `new` session; every later
one echoes the id of the server's latest session envelope; credentials are only ever sent in answer
to an authentication request. -/
def cliRev : List Ev → Bool
  | [] => true
  | .emit s _ :: rest =>
    (match latestSes rest with
     | none => decide (s.state = .new) && decide (s.id = []) && decide (s.auth = none)
     | some x => decide (s.id = x.id) && (s.auth.isNone || decide (x.state = .authenticating))) && cliRev rest
  | _ :: rest => cliRev rest

/-- what the caller is told, against what the server last said -/
def truthful (res : Res) (final : St) (tr : List Ev) : Bool :=
  match res with
  | .ok ses =>
    (match latestSes tr with
     | some x => decide (x = ses)
     | none => false) &&
    (if ses.state = .established then
       decide (final.state = .established) && decide (final.sid = ses.id) &&
       decide (final.localNode = ses.to) && decide (final.remoteNode = ses.from_)
     else true) &&
    (if ses.state = .finished ∨ ses.state = .failed then !final.connected else true)
  | _ => true

/-! ## C09: the client applies the confirmed options before it sends credentials -/

/-- the encryption the server confirmed (the `confirmed` event marks the server's `negotiating`
reply to the client's selection), if it named one -/
def confirmedByServer : List Ev → Option Opt
  | [] => none
  | .confirmed _ e :: rest => if e ≠ [] then some e else confirmedByServer rest
  | _ :: rest => confirmedByServer rest

/-- **C09 (client applies before credentials)**: every client envelope that carries credentials is
written with the client's transport on the encryption the server confirmed. -/
def cliAppliedRev : List Ev → Bool
  | [] => true
  | .emit s enc :: rest =>
    (if s.auth.isSome then
      (match confirmedByServer rest with
       | some b => decide (enc = b)
       | none => true)
     else true) && cliAppliedRev rest
  | _ :: rest => cliAppliedRev rest

end LimeModel.ClientSpec
