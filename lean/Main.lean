import Driver.Util
import Driver.MuxD
import Driver.CodecD
import Driver.HsD
import Driver.CliD
import Driver.StreamD
import Driver.LifeD
import Driver.PendD
import Driver.ChanD
import Driver.SessD
import Driver.SrvLifeD
import Driver.TimedD
import Driver.CliLifeD
/-!
# `limedriver` — line protocol in front of the executable model

One JSON object per input line with a field `"m"` naming the model mode; one JSON object per
output line: the model's observation, or `{"error": …}` for a line the driver cannot interpret.
-/
open Lean Driver

def dispatch (j : Json) : R Json := do
  let m ← getStr j "m"
  match m with
  | "mux" => MuxD.handle j
  | "enc" => CodecD.handleEnc j
  | "dec" => CodecD.handleDec j
  | "text" => CodecD.handleText j
  | "wf" => CodecD.handleWf j
  | "srvhs" => HsD.handleSrv j
  | "srvjudge" => HsD.handleJudge j
  | "srvwants" => HsD.handleWants j
  | "srvserve" => HsD.handleServe j
  | "clihs" => CliD.handleCli j
  | "cliwants" => CliD.handleWants j
  | "clijudge" => CliD.handleJudge j
  | "build" => CodecD.handleBuild j
  | "clientlife" => CliLifeD.handle j
  | "timed" => TimedD.handle j
  | "srvlife" => SrvLifeD.handle j
  | "sessions" => SessD.handle j
  | "chanjudge" => ChanD.handle j
  | "pend" => PendD.handle j
  | "life" => LifeD.handle j
  | "wloop" => StreamD.handleWloop j
  | "frames" => StreamD.handleFrames j
  | "rlimit" => StreamD.handleRlimit j
  | "ping" => pure (Json.mkObj [("pong", .bool true)])
  | _ => throw s!"unknown mode {m}"

partial def loop (hin : IO.FS.Stream) (hout : IO.FS.Stream) : IO Unit := do
  let line ← hin.getLine
  if line.isEmpty then return ()
  let out : Json :=
    match Json.parse line with
    | .error e => Json.mkObj [("error", .str s!"parse: {e}")]
    | .ok j =>
      match dispatch j with
      | .ok r => r
      | .error e => Json.mkObj [("error", .str e)]
  hout.putStrLn out.compress
  hout.flush
  loop hin hout

def main : IO Unit := do
  loop (← IO.getStdin) (← IO.getStdout)
