import Driver.Util
import LimeModel.Timed
/-! Driver mode `timed`: when does a blocking operation return, according to the model. -/
namespace Driver.TimedD
open Lean Driver LimeModel.Timed

def optNat (j : Json) (k : String) : Option Nat :=
  match j.getObjVal? k with
  | .ok (.num n) => if n.exponent == 0 && n.mantissa ≥ 0 then some n.mantissa.toNat else none
  | _ => none

def handle (j : Json) : R Json := do
  let c : Ctx := { deadline := optNat j "deadline", cancelAt := optNat j "cancelAt" }
  let readyAt := optNat j "readyAt"
  let now := getNatD j "now"
  let out : Option (Nat × Res) :=
    match getStrD j "kind" "poll" with
    | "poll" => some (pollLoop (getNatD j "poll" 5000) c readyAt (getNatD j "fuel" 100000) now)
    | "select" => selectOp c readyAt now
    | _ => helperOp (getBoolD j "interrupts" wsInterrupts) c readyAt now
  match out with
  | none => pure <| Json.mkObj [("returns", .bool false)]
  | some (t, r) => pure <| Json.mkObj [("returns", .bool true), ("at", natJ t), ("res", match r with | .ok => "ok" | .ctxErr => "ctxErr")]

end Driver.TimedD
