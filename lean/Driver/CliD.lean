import Driver.Util
import Driver.CodecD
import Driver.HsD
import LimeModel.ClientSpec
/-! Driver mode `clihs`: run the client handshake model on a server script. -/
namespace Driver.CliD
open Lean Driver
open LimeModel hiding Json
open LimeModel.ServerHs (SState Ses Recv Opt)
open LimeModel.ClientHs
open Driver.CodecD (S T strJ nodeOf nodeJ field authOf authJ)
open Driver.HsD (sesOf sesJ recvOf recvJ strs)

def selector (name : String) : List Opt → Opt :=
  match name with
  | "none" => fun _ => S "none"
  | "tls" => fun _ => S "tls"
  | "gzip" => fun _ => S "gzip"
  | "first" => fun l => l.headD (S "none")
  | "last" => fun l => l.getLast?.getD (S "none")
  | "empty" => fun _ => []
  | _ => fun _ => S "zz"

def strsJ (l : List Str) : Json := Json.arr (l.map strJ).toArray

def evJ : Ev → Json
  | .recv r => Json.mkObj [("e", "recv"), ("r", recvJ r)]
  | .emit s enc => Json.mkObj [("e", "emit"), ("ses", sesJ s), ("enc", strJ enc)]
  | .selCall co eo => Json.mkObj [("e", "sel"), ("compOpts", strsJ co), ("encOpts", strsJ eo)]
  | .authCall schemes rt => Json.mkObj [("e", "authenticator"), ("schemes", strsJ schemes), ("rt", authJ rt)]
  | .setState s => Json.mkObj [("e", "state"), ("s", strJ s.name)]
  | .setEnc e ok => Json.mkObj [("e", "setenc"), ("v", strJ e), ("ok", .bool ok)]
  | .setComp c ok => Json.mkObj [("e", "setcomp"), ("v", strJ c), ("ok", .bool ok)]
  | .close => Json.mkObj [("e", "close")]
  | .confirmed a b => Json.mkObj [("e", "confirmed"), ("comp", strJ a), ("enc", strJ b)]

def resJ : Res → Json
  | .ok s => Json.mkObj [("r", "ok"), ("ses", sesJ s)]
  | .err => Json.mkObj [("r", "err")]
  | .panic => Json.mkObj [("r", "panic")]

def cfgOf (cj : Json) : Cfg :=
  let idn := nodeOf (field cj "identity")
  { identity := ⟨idn.name, idn.domain⟩, inst := S (getStrD cj "instance"),
    compSel := selector (getStrD cj "compSel" "none"), encSel := selector (getStrD cj "encSel" "none") }

def authsOf (j : Json) : R (List Auth) := do
  (← getArr j "auths").toList.mapM (fun a => do
    match ← authOf a with
    | some x => pure x
    | none => throw "bad auth")

/-- for every candidate next server input after the prefix: does the client then ask for more? -/
def handleWants (j : Json) : R Json := do
  let c := cfgOf (field j "cfg")
  let prefix_ ← (← getArr j "recvs").toList.mapM recvOf
  let cands ← (← getArr j "cands").toList.mapM recvOf
  let auths ← authsOf j
  let sendOk ← (← getArr j "sendOk").toList.mapM asBool
  let wants := cands.map (fun a =>
    let r := run c (prefix_ ++ [a, .fail true]) auths sendOk (getBoolD j "setEncOk" true) (S (getStrD j "enc0" "none"))
    r.final.recvs.isEmpty && r.res != .panic)
  pure (Json.arr (wants.map (fun b => Lean.Json.bool b)).toArray)

def evOf (j : Json) : R Ev := do
  match getStrD j "e" with
  | "recv" => pure (.recv (← recvOf (field j "r")))
  | "emit" => pure (.emit (← sesOf (field j "ses")) (S (getStrD j "enc")))
  | "sel" => pure (.selCall (← strs (field j "compOpts")) (← strs (field j "encOpts")))
  | "authenticator" => pure (.authCall (← strs (field j "schemes")) (← authOf (field j "rt")))
  | "confirmed" => pure (.confirmed (S (getStrD j "comp")) (S (getStrD j "enc")))
  | x => throw s!"bad client event {x}"

/-- judge an observed client trace (oldest first) and outcome with the property checkers -/
def handleJudge (j : Json) : R Json := do
  let tr ← (← getArr j "trace").toList.mapM evOf
  let rev := tr.reverse
  let res : Res ← match getStrD (field j "res") "r" with
    | "ok" => do pure (.ok (← sesOf (field (field j "res") "ses")))
    | "panic" => pure .panic
    | _ => pure .err
  let stateOf' ← HsD.stateOf (getStrD j "state" "new")
  let fin : St := { recvs := [], auths := [], sendOk := [], state := stateOf', connected := getBoolD j "connected",
                    sid := S (getStrD j "sid"), localNode := nodeOf (field j "local"), remoteNode := nodeOf (field j "remote") }
  pure <| Json.mkObj [
    ("sends", .bool (LimeModel.ClientSpec.cliRev rev)),
    ("truthful", .bool (LimeModel.ClientSpec.truthful res fin rev)),
    ("applied", .bool (LimeModel.ClientSpec.cliAppliedRev rev)),
    ("nopanic", .bool (res != .panic))]

def handleCli (j : Json) : R Json := do
  let c := cfgOf (field j "cfg")
  let recvs ← (← getArr j "recvs").toList.mapM recvOf
  let auths ← authsOf j
  let sendOk ← (← getArr j "sendOk").toList.mapM asBool
  let r := run c recvs auths sendOk (getBoolD j "setEncOk" true) (S (getStrD j "enc0" "none"))
  pure <| Json.mkObj [
    ("trace", Json.arr (r.trace.map evJ).toArray), ("res", resJ r.res),
    ("state", strJ r.final.state.name), ("connected", .bool r.final.connected),
    ("sid", strJ r.final.sid), ("local", nodeJ r.final.localNode), ("remote", nodeJ r.final.remoteNode),
    ("enc", strJ r.final.enc), ("consumed", natJ (recvs.length - r.final.recvs.length))]

end Driver.CliD
