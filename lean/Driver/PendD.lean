import Driver.Util
import LimeModel.Pending
/-! Driver mode `pend`: run the pending-table model over a schedule of labelled steps. -/
namespace Driver.PendD
open Lean Driver LimeModel.Pending

def lblOf (j : Json) : R Lbl := do
  let a ← asArr j
  match ← asStr a[0]! with
  | "spawn" => pure (.spawn (← asNat a[1]!) (← asNat a[2]!))
  | "register" => pure (.register (← asNat a[1]!))
  | "send" => pure (.send (← asNat a[1]!) (← asBool a[2]!))
  | "take" => pure (.take (← asNat a[1]!))
  | "cancel" => pure (.cancel (← asNat a[1]!))
  | "cleanup" => pure (.cleanup (← asNat a[1]!))
  | "rcvLookup" => pure .rcvLookup
  | "rcvDelete" => pure .rcvDelete
  | "rcvHandoff" => pure .rcvHandoff
  | x => throw s!"bad label {x}"

def respJ (r : Resp) : Json := Json.arr #[natJ r.id, natJ r.tag]

def resJ : Result → Json
  | .rejected => "rejected" | .sendErr => "sendErr" | .ctxErr => "ctxErr"
  | .resp r => Json.mkObj [("resp", respJ r)]

def pcJ : PC → Json
  | .absent => Json.mkObj [("pc", "absent")]
  | .start => Json.mkObj [("pc", "start")]
  | .registered => Json.mkObj [("pc", "registered")]
  | .waiting => Json.mkObj [("pc", "waiting")]
  | .cleanup r => Json.mkObj [("pc", "cleanup"), ("res", resJ r)]
  | .done r => Json.mkObj [("pc", "done"), ("res", resJ r)]

def rcvJ : RcvPC → Json
  | .idle => "idle"
  | .lookedUp r ch => Json.mkObj [("lookedUp", respJ r), ("ch", natJ ch)]
  | .deleted r ch => Json.mkObj [("deleted", respJ r), ("ch", natJ ch)]

def handle (j : Json) : R Json := do
  let incoming ← (← getArr j "incoming").toList.mapM (fun x => do
    let a ← asArr x
    pure (⟨← asNat a[0]!, ← asNat a[1]!⟩ : Resp))
  let labels ← (← getArr j "labels").toList.mapM lblOf
  let cands ← (← getArr j "cands").toList.mapM lblOf
  let callers := (List.range (getNatD j "ncallers" 4))
  let ids ← (← getArr j "ids").toList.mapM asNat
  let fixed := getBoolD j "fixed" repaired
  match runL fixed (init incoming) labels with
  | none => pure <| Json.mkObj [("ok", .bool false)]
  | some s =>
    pure <| Json.mkObj [("ok", .bool true),
      ("enabled", Json.arr (cands.map (fun l => Json.bool (step fixed s l).isSome)).toArray),
      ("callers", Json.arr (callers.map (fun i => Json.mkObj [("i", natJ i), ("id", natJ (s.caller i).id),
          ("state", pcJ (s.caller i).pc), ("chan", match s.chan i with | some r => respJ r | none => .null)])).toArray),
      ("stream", Json.arr (s.stream.map respJ).toArray),
      ("table", Json.arr ((ids.filter (fun id => (s.table id).isSome)).map natJ).toArray),
      ("rcv", rcvJ s.rcv), ("left", natJ s.incoming.length)]

end Driver.PendD
