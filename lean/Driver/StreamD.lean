import Driver.Util
import LimeModel.Stream
import LimeModel.ReadLimit
/-! Driver modes `wloop` (the write retry loop), `frames` (buffered receive over a fragmented
stream, JSON value framing) and `rlimit` (the read budget). -/
namespace Driver.StreamD
open Lean Driver LimeModel.Stream

def natsJ (l : List Nat) : Json := Json.arr (l.map natJ).toArray

def parseNats (a : Array Json) : R (List Nat) := a.toList.mapM asNat

def parseWriteEv (j : Json) : R WriteEv := do
  let a ← asArr j
  match ← asStr a[0]! with
  | "full" => pure .full
  | "ctx" => pure .ctxDone
  | "t" => pure (.timeoutAfter (← asNat a[1]!))
  | "f" => pure (.failAfter (← asNat a[1]!))
  | s => throw s!"bad write event {s}"

def handleWloop (j : Json) : R Json := do
  let b ← parseNats (← getArr j "b")
  let plan ← (← getArr j "plan").toList.mapM parseWriteEv
  let r := writeLoop b plan 0
  pure <| Json.mkObj [("wire", natsJ r.wire), ("ok", .bool r.ok), ("n", natJ r.n)]

def outJ : RecvOut → Json
  | .frame f => natsJ f
  | .err => .str "err"

def handleFrames (j : Json) : R Json := do
  let stream ← parseNats (← getArr j "stream")
  let plan ← parseNats (← getArr j "plan")
  let n := getNatD j "n"
  pure <| Json.mkObj [("out", Json.arr ((recvFrames jsonComplete n [] stream plan).map outJ).toArray)]

open LimeModel.ReadLimit in
def handleRlimit (j : Json) : R Json := do
  let L := getNatD j "L"
  let frames ← parseNats (← getArr j "frames")
  let recvs ← (← getArr j "reads").toList.mapM (fun r => do parseNats (← asArr r))
  let mut s : RS := { buf := 0, avail := getNatD j "avail" }
  let mut out : Array Json := #[]
  let mut fs := frames
  for reads in recvs do
    match fs with
    | [] =>
      -- no further frame on the stream: the decoder waits for a value that never completes
      let r := recv L (s.buf + s.avail + 1) s reads
      out := out.push (Json.mkObj [("ok", .bool false), ("consumed", natJ r.consumed)])
      break
    | f :: rest =>
      match recv L f s reads with
      | .ok s' c =>
        out := out.push (Json.mkObj [("ok", .bool true), ("consumed", natJ c), ("buf", natJ s'.buf), ("avail", natJ s'.avail)])
        s := s'; fs := rest
      | .err c =>
        out := out.push (Json.mkObj [("ok", .bool false), ("consumed", natJ c)])
        break
  pure <| Json.mkObj [("out", Json.arr out)]

end Driver.StreamD
