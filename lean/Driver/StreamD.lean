import Driver.Util
import LimeModel.Stream
import LimeModel.ReadLimit
/-! Driver modes `wloop` (the write retry loop), `frames` (buffered receive over a fragmented
stream, JSON value framing) and `rlimit` (the read budget). -/
namespace Driver.StreamD
open Lean Driver LimeModel.Stream

def natsJ (l : List Nat) : Json := Json.arr (l.map natJ).toArray

def parseNats (a : Array Json) : R (List Nat) := a.toList.mapM asNat

def parseWriteEv (j : Json) : R WriteEv := do
  let a ← asArr j
  match ← asStr a[0]! with
  | "full" => pure .full
  | "ctx" => pure .ctxDone
  | "t" => pure (.timeoutAfter (← asNat a[1]!))
  | "f" => pure (.failAfter (← asNat a[1]!))
  | s => throw s!"bad write event {s}"

def handleWloop (j : Json) : R Json := do
  let b ← parseNats (← getArr j "b")
  let plan ← (← getArr j "plan").toList.mapM parseWriteEv
  let r := writeLoop b plan 0
  pure <| Json.mkObj [("wire", natsJ r.wire), ("ok", .bool r.ok), ("n", natJ r.n)]

def outJ : RecvOut → Json
  | .frame f => natsJ f
  | .err => .str "err"

def handleFrames (j : Json) : R Json := do
  let stream ← parseNats (← getArr j "stream")
  let plan ← parseNats (← getArr j "plan")
  let n := getNatD j "n"
  pure <| Json.mkObj [("out", Json.arr ((recvFrames jsonComplete n [] stream plan).map outJ).toArray)]

open LimeModel.ReadLimit
def kindOf (s : String) : DocKind :=
  match s with
  | "type-error" | "bad-mediatype" => .refusedByDecode
  | "no-kind" => .refusedByConvert
  | _ => .envelope

/-- `rlimit`: the receives of one connection. The budget is a field of the connection, renewed by the
policy the source has on this run (`ReadLimit.policy`), or by `"policy"` when given. -/
def handleRlimit (j : Json) : R Json := do
  let L := getNatD j "L"
  let frames ← parseNats (← getArr j "frames")
  let kinds : List DocKind := match j.getObjVal? "kinds" with
    | .ok (.arr a) => a.toList.map (fun x => match x with | .str s => kindOf s | _ => .envelope)
    | _ => []
  let pol : Policy := match getStrD j "policy" "" with
    | "onValue" => .onValue
    | "onDecodeOk" => .onDecodeOk
    | "onEnvelope" => .onEnvelope
    | _ => policy
  let recvs ← (← getArr j "reads").toList.mapM (fun r => do parseNats (← asArr r))
  let mut c : Conn := { rs := { buf := 0, avail := getNatD j "avail" }, N := L }
  let mut out : Array Json := #[]
  let mut fs := frames
  let mut ks := kinds
  for reads in recvs do
    match fs with
    | [] =>
      -- no further frame on the stream: the decoder waits for a value that never completes
      let r := recvLoop (c.rs.buf + c.rs.avail + 1) (c.rs.buf + c.rs.avail + 2) c.rs c.N reads 0
      out := out.push (Json.mkObj [("ok", .bool false), ("consumed", natJ r.consumed)])
      break
    | f :: rest =>
      let k := ks.headD .envelope
      let before := c
      let (ok, c') := recvC pol L f k c reads
      let consumed := match recvLoop f (f + 1) before.rs before.N reads 0 with | .ok _ u => u | .err u => u
      if ok then
        out := out.push (Json.mkObj [("ok", .bool true), ("consumed", natJ consumed), ("buf", natJ c'.rs.buf), ("avail", natJ c'.rs.avail)])
        c := c'; fs := rest; ks := ks.tail
      else
        out := out.push (Json.mkObj [("ok", .bool false), ("consumed", natJ consumed)])
        break
  pure <| Json.mkObj [("out", Json.arr out)]

end Driver.StreamD
