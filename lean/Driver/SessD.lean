import Driver.Util
import Driver.MuxD
import LimeModel.Sessions
/-! Driver mode `sessions`: run the concurrent-sessions model over an operation list. -/
namespace Driver.SessD
open Lean Driver LimeModel.Mux LimeModel.Sessions

def opOf (j : Json) : R Op := do
  let a ← asArr j
  match ← asStr a[0]! with
  | "accept" => pure (.accept (← asNat a[1]!))
  | "recv" => pure (.recv (← asNat a[1]!) (← MuxD.parseKind (← asStr a[2]!)) (← asNat a[3]!))
  | x => throw s!"bad op {x}"

def evJ : LimeModel.Sessions.Ev → Json
  | .announced i id r => Json.arr #["announced", natJ i, natJ id, natJ r]
  | .invoked i k h a b c s e => Json.arr #["invoked", natJ i, .str (MuxD.kindStr k), natJ h, natJ a, natJ b, natJ c, natJ s, natJ e]

def handle (j : Json) : R Json := do
  let tj ← j.getObjVal? "tbl"
  let hs (k : String) : R (List (Handler Nat)) := do (← getArr tj k).toList.mapM MuxD.parseHandler
  let t : Table Nat := { msg := ← hs "msg", ntf := ← hs "ntf", req := ← hs "req", resp := ← hs "resp" }
  let supply ← (← getArr j "supply").toList.mapM asNat
  let ops ← (← getArr j "ops").toList.mapM opOf
  let r := run t (getNatD j "node") supply ops
  pure <| Json.mkObj [("trace", Json.arr (r.trace.reverse.map evJ).toArray)]

end Driver.SessD
