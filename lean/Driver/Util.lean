import Lean.Data.Json
/-! Small helpers shared by the driver modes (conversion between `Lean.Json` and model values). -/
namespace Driver
open Lean

abbrev R := Except String

def getArr (j : Json) (k : String) : R (Array Json) := do
  match j.getObjVal? k with
  | .ok (.arr a) => pure a
  | .ok .null => pure #[]
  | .ok _ => throw s!"field {k}: not an array"
  | .error _ => pure #[]

def getStr (j : Json) (k : String) : R String := do
  match j.getObjVal? k with
  | .ok (.str s) => pure s
  | _ => throw s!"field {k}: not a string"

def getStrD (j : Json) (k : String) (d : String := "") : String :=
  match j.getObjVal? k with
  | .ok (.str s) => s
  | _ => d

def getBoolD (j : Json) (k : String) (d : Bool := false) : Bool :=
  match j.getObjVal? k with
  | .ok (.bool b) => b
  | _ => d

def getNatD (j : Json) (k : String) (d : Nat := 0) : Nat :=
  match j.getObjVal? k with
  | .ok (.num n) => if n.exponent == 0 && n.mantissa ≥ 0 then n.mantissa.toNat else d
  | _ => d

def getIntD (j : Json) (k : String) (d : Int := 0) : Int :=
  match j.getObjVal? k with
  | .ok (.num n) => if n.exponent == 0 then n.mantissa else d
  | _ => d

def asNat (j : Json) : R Nat :=
  match j with
  | .num n => if n.exponent == 0 && n.mantissa ≥ 0 then pure n.mantissa.toNat else throw "not a nat"
  | _ => throw "not a nat"

def asBool (j : Json) : R Bool :=
  match j with
  | .bool b => pure b
  | _ => throw "not a bool"

def asStr (j : Json) : R String :=
  match j with
  | .str s => pure s
  | _ => throw "not a string"

def asArr (j : Json) : R (Array Json) :=
  match j with
  | .arr a => pure a
  | .null => pure #[]
  | _ => throw "not an array"

def natJ (n : Nat) : Json := .num (.fromNat n)
def intJ (n : Int) : Json := .num (.fromInt n)

end Driver
