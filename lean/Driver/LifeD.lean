import Driver.Util
import LimeModel.Life
/-! Driver mode `life`: run the life-cycle model over an operation sequence. -/
namespace Driver.LifeD
open Lean Driver LimeModel.Life
open LimeModel.ServerHs (SState)

def stateOfStr (s : String) : R SState :=
  match s with
  | "new" => pure .new | "negotiating" => pure .negotiating | "authenticating" => pure .authenticating
  | "established" => pure .established | "finishing" => pure .finishing | "finished" => pure .finished
  | "failed" => pure .failed
  | x => throw s!"bad state {x}"

def kindOf (s : String) : R Kind :=
  match s with
  | "msg" => pure .msg | "ntf" => pure .ntf | "req" => pure .req | "resp" => pure .resp
  | x => throw s!"bad kind {x}"

def kindStr : Kind → String
  | .msg => "msg" | .ntf => "ntf" | .req => "req" | .resp => "resp"

def opOf (j : Json) : R Op := do
  let a ← asArr j
  match ← asStr a[0]! with
  | "state" => pure (.setState (← stateOfStr (← asStr a[1]!)))
  | "gone" => pure .peerGone
  | "close" => pure .close
  | "send" => pure (.send (← kindOf (← asStr a[1]!)))
  | "arrive" => pure (.arrive (← kindOf (← asStr a[1]!)))
  | "arriveSes" => pure (.arriveSes (← stateOfStr (← asStr a[1]!)) (← asBool a[2]!))
  | x => throw s!"bad op {x}"

def evJ : Ev → Json
  | .setState x => Json.arr #["state", (String.ofList x.name : String)]
  | .refused x => Json.arr #["refused", (String.ofList x.name : String)]
  | .gone => Json.arr #["gone"]
  | .close => Json.arr #["close"]
  | .emit k => Json.arr #["emit", kindStr k]
  | .sendErr k => Json.arr #["sendErr", kindStr k]
  | .deliver k => Json.arr #["deliver", kindStr k]
  | .held k => Json.arr #["held", kindStr k]
  | .sesToApp x => Json.arr #["sesToApp", (String.ofList x.name : String)]
  | .sesHeld x => Json.arr #["sesHeld", (String.ofList x.name : String)]

def handle (j : Json) : R Json := do
  let ops ← (← getArr j "ops").toList.mapM opOf
  let r := run ops
  pure <| Json.mkObj [("trace", Json.arr (r.trace.reverse.map evJ).toArray),
    ("ok", .bool (okRev r.trace)), ("state", (String.ofList r.state.name : String)), ("connected", .bool r.connected)]

end Driver.LifeD
