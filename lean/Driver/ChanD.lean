import Driver.Util
import LimeModel.Chan
/-! Driver mode `chanjudge`: the Lean judge of a delivery history. -/
namespace Driver.ChanD
open Lean Driver LimeModel.Chan

def envOf (j : Json) : R Env := do
  let a ← asArr j
  pure ⟨← asNat a[0]!, ← asNat a[1]!, ← asNat a[2]!⟩

def handle (j : Json) : R Json := do
  let nS := getNatD j "nS"
  let nK := getNatD j "nK"
  let sentBy ← (← getArr j "sentBy").toList.mapM (fun l => do (← asArr l).toList.mapM envOf)
  let delivered ← (← getArr j "delivered").toList.mapM (fun l => do (← asArr l).toList.mapM envOf)
  let sb : Nat → List Env := fun i => sentBy.getD i []
  let dl : Nat → List Env := fun k => delivered.getD k []
  pure <| Json.mkObj [("ok", .bool (judge nS nK sb dl)), ("prefix", .bool (judgePrefix nS nK sb dl))]

end Driver.ChanD
