import Driver.Util
import LimeModel.ClientLife
/-! Driver mode `clientlife`: a fault sequence on the client life-cycle model. -/
namespace Driver.CliLifeD
open Lean Driver LimeModel.ClientLife

def faultOf (s : String) : R Fault :=
  match s with
  | "srv-finish" => pure .srvFinish | "srv-fail" => pure .srvFail | "drop" => pure .drop
  | "half-close" => pure .halfClose | "garbage" => pure .garbage | "not-envelope" => pure .notEnvelope
  | "oversize" => pure .oversize
  | "odd-session" => pure .oddSession
  | x => throw s!"bad fault {x}"

def handle (j : Json) : R Json := do
  let faults ← (← getArr j "faults").toList.mapM (fun x => do faultOf (← asStr x))
  -- "fixed": true / false overrides both switches; default = what the source has on this run
  let fixed : Fix := match j.getObjVal? "fixed" with
    | .ok (.bool true) => Fix.all
    | .ok (.bool false) => Fix.none
    | _ => repaired
  -- after each fault: is the client wedged (deaf, spinning)? then the next operation
  let (s, wedged) := faults.foldl (fun (acc : CL × Bool) f =>
    let s1 := fault fixed acc.1 f
    (getOrBuild s1, acc.2 || s1.wedged)) (({} : CL), false)
  pure <| Json.mkObj [("wedged", .bool wedged), ("spins", .bool wedged), ("sessions", natJ s.sessions)]

end Driver.CliLifeD
