import Driver.Util
import LimeModel.Mux
/-! Driver mode `mux`: run `LimeModel.Mux.listen` on a table given by truth tables. -/
namespace Driver.MuxD
open Lean Driver LimeModel.Mux

def boolAt (l : List Bool) (i : Nat) : Bool := l.getD i false

def parseHandler (j : Json) : R (Handler Nat) := do
  let fails ← (← getArr j "fails").toList.mapM asBool
  let pred ← match j.getObjVal? "pred" with
    | .ok .null => pure none
    | .ok (.arr a) => do
      let bs ← a.toList.mapM asBool
      pure (some (boolAt bs))
    | _ => pure none
  pure { pred := pred, fails := boolAt fails }

def parseKind (s : String) : R Kind :=
  match s with
  | "msg" => pure .msg | "ntf" => pure .ntf | "req" => pure .req | "resp" => pure .resp
  | _ => throw s!"bad kind {s}"

def kindStr : Kind → String
  | .msg => "msg" | .ntf => "ntf" | .req => "req" | .resp => "resp"

def evJ : Ev → Json
  | .consult i r => Json.arr #["c", natJ i, .bool r]
  | .invoke i e => Json.arr #["i", natJ i, .bool e]

def handle (j : Json) : R Json := do
  let tj ← j.getObjVal? "tbl"
  let hs (k : String) : R (List (Handler Nat)) := do (← getArr tj k).toList.mapM parseHandler
  let t : Table Nat := { msg := ← hs "msg", ntf := ← hs "ntf", req := ← hs "req", resp := ← hs "resp" }
  let envs ← (← getArr j "envs").toList.mapM (fun e => do
    let a ← asArr e
    let k ← parseKind (← asStr a[0]!)
    let c ← asNat a[1]!
    pure (k, c))
  let r := listen t envs
  pure <| Json.mkObj [
    ("log", Json.arr (r.1.map (fun (k, l) => Json.arr #[.str (kindStr k), Json.arr (l.map evJ).toArray])).toArray),
    ("err", .bool r.2)]

end Driver.MuxD
