import Driver.Util
import LimeModel.ServerLife
/-! Driver mode `srvlife`: the Lean judge of a callback log (oldest first), and a schedule runner. -/
namespace Driver.SrvLifeD
open Lean Driver LimeModel.ServerLife

def evOf (j : Json) : R Ev := do
  let a ← asArr j
  let i ← asNat a[1]!
  match ← asStr a[0]! with
  | "E" => pure (.est i) | "F" => pure (.fin i) | "H" => pure (.handler i)
  | x => throw s!"bad event {x}"

def lblOf (j : Json) : R Lbl := do
  let a ← asArr j
  let i : R Nat := asNat a[1]!
  match ← asStr a[0]! with
  | "publish" => pure .publish | "startListener" => pure .startListener | "spawnConsumer" => pure .spawnConsumer
  | "ret" => pure .ret | "take" => pure .take | "consumerExit" => pure .consumerExit
  | "closeCancel" => pure .closeCancel | "closeLst" => pure .closeLst
  | "connect" => pure (.connect (← i)) | "push" => pure (.push (← i))
  | "accExitCtx" => pure (.accExitCtx (← i)) | "accExitLst" => pure (.accExitLst (← i))
  | "hsOk" => pure (.hsOk (← i)) | "hsFail" => pure (.hsFail (← i))
  | "handle" => pure (.handle (← i)) | "finish" => pure (.finish (← i))
  | x => throw s!"bad label {x}"

def handle (j : Json) : R Json := do
  match j.getObjVal? "log" with
  | .ok (.arr a) =>
    let evs ← a.toList.mapM evOf
    let rev := evs.reverse
    pure <| Json.mkObj [("paired", .bool (pairedRev rev)), ("allFinished", .bool (allFinished rev))]
  | _ =>
    let labels ← (← getArr j "labels").toList.mapM lblOf
    let fixed := getBoolD j "fixed" repaired
    match runL fixed (init (getNatD j "n" 1) (getNatD j "backlog" 4)) labels with
    | none => pure <| Json.mkObj [("ok", .bool false)]
    | some s =>
      let ret : Json := match s.returned with
        | none => .null | some .serverClosed => "serverClosed" | some .listenerErr => "listenerErr"
      pure <| Json.mkObj [("ok", .bool true), ("returned", ret),
        ("listening", Json.arr ((List.range s.n).filter (fun i => s.lst i == .listening) |>.map natJ).toArray)]

end Driver.SrvLifeD
