import Driver.Util
import LimeModel.WF
/-!
Driver modes for M1: `enc`, `dec`, `text`, `build`.

Trees travel in an explicit encoding that keeps member order, duplicate keys and number literals:
`["z"]` null, `["b",bool]`, `["n","literal"]`, `["s","text"]`, `["a",[tree…]]`, `["o",[[key,tree]…]]`.
-/
namespace Driver.CodecD
open Lean Driver
open LimeModel hiding Json

abbrev MJ := LimeModel.Json

def S (s : String) : Str := s.toList
def T (s : Str) : String := String.ofList s
def strJ (s : Str) : Json := .str (T s)

def isIntLit (s : String) : Bool :=
  let cs := s.toList
  let ds := match cs with | '-' :: r => r | r => r
  !ds.isEmpty && ds.all Char.isDigit

partial def treeOf (j : Json) : R MJ := do
  let a ← asArr j
  let tag ← asStr a[0]!
  match tag with
  | "z" => pure .null
  | "b" => pure (.bool (← asBool a[1]!))
  | "n" =>
    let lit ← asStr a[1]!
    if isIntLit lit then
      match lit.toInt? with
      | some i => pure (.num (.int i))
      | none => pure (.num (.other (S lit)))
    else pure (.num (.other (S lit)))
  | "s" => pure (.str (S (← asStr a[1]!)))
  | "a" => do
    let xs ← (← asArr a[1]!).toList.mapM treeOf
    pure (.arr xs)
  | "o" => do
    let ms ← (← asArr a[1]!).toList.mapM (fun m => do
      let p ← asArr m
      let k ← asStr p[0]!
      let v ← treeOf p[1]!
      pure (S k, v))
    pure (.obj ms)
  | _ => throw s!"bad tree tag {tag}"

partial def treeJ : MJ → Json
  | .null => Json.arr #["z"]
  | .bool b => Json.arr #["b", .bool b]
  | .num (.int i) => Json.arr #["n", .str (toString i)]
  | .num (.other t) => Json.arr #["n", strJ t]
  | .str s => Json.arr #["s", strJ s]
  | .arr l => Json.arr #["a", Json.arr (l.map treeJ).toArray]
  | .obj kvs => Json.arr #["o", Json.arr (kvs.map (fun (k, v) => Json.arr #[strJ k, treeJ v])).toArray]

def nodeOf (j : Json) : Node :=
  match j with
  | .null => Node.zero
  | _ => ⟨S (getStrD j "n"), S (getStrD j "d"), S (getStrD j "i")⟩

def nodeJ (n : Node) : Json := Json.mkObj [("n", strJ n.name), ("d", strJ n.domain), ("i", strJ n.inst)]

def mtOf (j : Json) : MT := ⟨S (getStrD j "t"), S (getStrD j "s"), S (getStrD j "x")⟩
def mtJ (m : MT) : Json := Json.mkObj [("t", strJ m.type), ("s", strJ m.subtype), ("x", strJ m.suffix)]

def field (j : Json) (k : String) : Json := (j.getObjVal? k).toOption.getD .null

partial def docOf (j : Json) : R Doc := do
  match getStrD j "k" with
  | "text" => pure (.text (S (getStrD j "s")))
  | "json" =>
    match ← treeOf (field j "v") with
    | .obj kvs => pure (.json kvs)
    | _ => throw "json doc: not an object"
  | "container" => do
    let v ← docOf (field j "d")
    pure (.container (mtOf (field j "t")) v)
  | "collection" => do
    let items ← match field j "items" with
      | .null => pure none
      | .arr a => do pure (some (← a.toList.mapM docOf))
      | _ => throw "items"
    pure (.collection (getIntD j "total") (mtOf (field j "it")) items)
  | "ping" => pure .ping
  | k => throw s!"bad doc kind {k}"

partial def docJ : Doc → Json
  | .text s => Json.mkObj [("k", "text"), ("s", strJ s)]
  | .json kvs => Json.mkObj [("k", "json"), ("v", treeJ (.obj kvs))]
  | .container t v => Json.mkObj [("k", "container"), ("t", mtJ t), ("d", docJ v)]
  | .collection total it items => Json.mkObj [("k", "collection"), ("total", intJ total), ("it", mtJ it),
      ("items", match items with | none => .null | some l => Json.arr (l.map docJ).toArray)]
  | .ping => Json.mkObj [("k", "ping")]

def optDocOf (j : Json) : R (Option Doc) :=
  match j with
  | .null => pure none
  | _ => do pure (some (← docOf j))

def reasonOf (j : Json) : Option Reason :=
  match j with
  | .null => none
  | _ => some ⟨getIntD j "code", S (getStrD j "desc")⟩

def reasonJ : Option Reason → Json
  | none => .null
  | some r => Json.mkObj [("code", intJ r.code), ("desc", strJ r.desc)]

def metaOf (j : Json) : R (Option (List (Str × Str))) :=
  match j with
  | .null => pure none
  | .arr a => do
    let l ← a.toList.mapM (fun p => do
      let q ← asArr p
      pure (S (← asStr q[0]!), S (← asStr q[1]!)))
    pure (some l)
  | _ => throw "metadata"

def metaJ : Option (List (Str × Str)) → Json
  | none => .null
  | some l => Json.arr (l.map (fun (k, v) => Json.arr #[strJ k, strJ v])).toArray

def envOf (j : Json) : R Env := do
  pure { id := S (getStrD j "id"), from_ := nodeOf (field j "from"), pp := nodeOf (field j "pp"),
         to := nodeOf (field j "to"), metadata := ← metaOf (field j "metadata") }

def envJ (e : Env) : List (String × Json) :=
  [("id", strJ e.id), ("from", nodeJ e.from_), ("pp", nodeJ e.pp), ("to", nodeJ e.to), ("metadata", metaJ e.metadata)]

def optStrList (j : Json) : R (Option (List Str)) :=
  match j with
  | .null => pure none
  | .arr a => do pure (some (← a.toList.mapM (fun x => do pure (S (← asStr x)))))
  | _ => throw "string list"

def optStrListJ : Option (List Str) → Json
  | none => .null
  | some l => Json.arr (l.map strJ).toArray

def authOf (j : Json) : R (Option Auth) :=
  match j with
  | .null => pure none
  | _ =>
    match getStrD j "scheme" with
    | "guest" => pure (some .guest)
    | "transport" => pure (some .transport)
    | "plain" => pure (some (.plain (S (getStrD j "password"))))
    | "key" => pure (some (.key (S (getStrD j "key"))))
    | "external" => pure (some (.external (S (getStrD j "token")) (S (getStrD j "issuer"))))
    | s => throw s!"bad auth scheme {s}"

def authJ : Option Auth → Json
  | none => .null
  | some .guest => Json.mkObj [("scheme", "guest")]
  | some .transport => Json.mkObj [("scheme", "transport")]
  | some (.plain p) => Json.mkObj [("scheme", "plain"), ("password", strJ p)]
  | some (.key k) => Json.mkObj [("scheme", "key"), ("key", strJ k)]
  | some (.external t i) => Json.mkObj [("scheme", "external"), ("token", strJ t), ("issuer", strJ i)]

def optMtOf (j : Json) : Option MT := match j with | .null => none | _ => some (mtOf j)
def optMtJ : Option MT → Json | none => .null | some m => mtJ m
def optStrOf (j : Json) : Option Str := match j with | .str s => some (S s) | _ => none
def optStrJ : Option Str → Json | none => .null | some s => strJ s

def commandOf (j : Json) : R LimeModel.Command := do
  pure { env := ← envOf j, method := S (getStrD j "method"), type := optMtOf (field j "type"),
         resource := ← optDocOf (field j "resource") }

def envelopeOf (j : Json) : R Envelope := do
  match getStrD j "kind" with
  | "message" => pure (.message { env := ← envOf j, type := mtOf (field j "type"), content := ← optDocOf (field j "content") })
  | "notification" => pure (.notification { env := ← envOf j, event := S (getStrD j "event"), reason := reasonOf (field j "reason") })
  | "request" => pure (.request { cmd := ← commandOf j, uri := optStrOf (field j "uri") })
  | "response" => pure (.response { cmd := ← commandOf j, status := S (getStrD j "status"), reason := reasonOf (field j "reason") })
  | "session" => pure (.session {
      env := ← envOf j, state := S (getStrD j "state"),
      encOpts := ← optStrList (field j "encOpts"), enc := S (getStrD j "enc"),
      compOpts := ← optStrList (field j "compOpts"), comp := S (getStrD j "comp"),
      schemeOpts := ← optStrList (field j "schemeOpts"), scheme := S (getStrD j "scheme"),
      auth := ← authOf (field j "auth"), reason := reasonOf (field j "reason") })
  | k => throw s!"bad envelope kind {k}"

def commandJ (c : LimeModel.Command) : List (String × Json) :=
  envJ c.env ++ [("method", strJ c.method), ("type", optMtJ c.type),
    ("resource", match c.resource with | none => .null | some d => docJ d)]

def envelopeJ : Envelope → Json
  | .message m => Json.mkObj ([("kind", Json.str "message")] ++ envJ m.env ++ [("type", mtJ m.type),
      ("content", match m.content with | none => .null | some d => docJ d)])
  | .notification n => Json.mkObj ([("kind", Json.str "notification")] ++ envJ n.env ++ [("event", strJ n.event), ("reason", reasonJ n.reason)])
  | .request c => Json.mkObj ([("kind", Json.str "request")] ++ commandJ c.cmd ++ [("uri", optStrJ c.uri)])
  | .response c => Json.mkObj ([("kind", Json.str "response")] ++ commandJ c.cmd ++ [("status", strJ c.status), ("reason", reasonJ c.reason)])
  | .session s => Json.mkObj ([("kind", Json.str "session")] ++ envJ s.env ++ [("state", strJ s.state),
      ("encOpts", optStrListJ s.encOpts), ("enc", strJ s.enc), ("compOpts", optStrListJ s.compOpts), ("comp", strJ s.comp),
      ("schemeOpts", optStrListJ s.schemeOpts), ("scheme", strJ s.scheme), ("auth", authJ s.auth), ("reason", reasonJ s.reason)])

def kindOf (s : String) : R (Option Kind) :=
  match s with
  | "message" => pure (some .message) | "notification" => pure (some .notification)
  | "request" => pure (some .request) | "response" => pure (some .response)
  | "session" => pure (some .session) | "any" => pure none
  | k => throw s!"bad kind {k}"

/-- the URI oracle: a table text ↦ normalised text (or null for a parse error) supplied per case -/
def uriOracle (j : Json) : Str → Option Str :=
  let tbl : List (Str × Option Str) :=
    match j with
    | .arr a => a.toList.filterMap (fun p =>
        match p with
        | .arr q => match q[0]!, q[1]! with
          | .str k, .str v => some (S k, some (S v))
          | .str k, _ => some (S k, none)
          | _, _ => none
        | _ => none)
    | _ => []
  fun s => match tbl.find? (fun p => p.1 == s) with
    | some (_, r) => r
    | none => some s

def outcomeJ {α} (f : α → Json) (key : String) : Outcome α → Json
  | .ok a => Json.mkObj [("r", "ok"), (key, f a)]
  | .err => Json.mkObj [("r", "err")]
  | .panic => Json.mkObj [("r", "panic")]

def handleEnc (j : Json) : R Json := do
  let e ← envelopeOf (field j "env")
  pure (outcomeJ treeJ "json" e.encode)

def handleDec (j : Json) : R Json := do
  let t ← treeOf (field j "json")
  let U := uriOracle (field j "uri")
  let k ← kindOf (getStrD j "kind" "any")
  let r := match k with
    | some k => decodeTyped U k t
    | none => decodeAny U t
  pure (outcomeJ envelopeJ "env" r)

def handleWf (j : Json) : R Json := do
  let e ← envelopeOf (field j "env")
  -- generated URI texts are normalised by the harness (ParseLimeURI then String), so the URL
  -- oracle is the identity on them
  pure (Json.mkObj [("wf", .bool (e.wf (fun u => some u)))])

def handleText (j : Json) : R Json := do
  let s := S (getStrD j "s")
  match ← getStr j "f" with
  | "node" =>
    let n := parseNode s
    pure (Json.mkObj [("v", nodeJ n), ("p", strJ (printNode n)), ("wf", .bool n.wf)])
  | "identity" =>
    let i := parseIdentity s
    pure (Json.mkObj [("v", Json.mkObj [("n", strJ i.name), ("d", strJ i.domain)]), ("p", strJ (printIdentity i)), ("wf", .bool i.wf)])
  | "mt" =>
    match parseMT s with
    | none => pure (Json.mkObj [("v", .null)])
    | some m => pure (Json.mkObj [("v", mtJ m), ("p", strJ (printMT m)), ("wf", .bool m.wf)])
  | "printnode" =>
    let n := nodeOf (field j "v")
    pure (Json.mkObj [("p", strJ (printNode n)), ("wf", .bool n.wf)])
  | "printmt" =>
    let m := mtOf (field j "v")
    pure (Json.mkObj [("p", strJ (printMT m)), ("wf", .bool m.wf)])
  | f => throw s!"bad text function {f}"

def handleBuild (j : Json) : R Json := do
  let e ← envelopeOf (field j "env")
  let f ← getStr j "f"
  match e, f with
  | .request c, "success" => pure (envelopeJ (.response c.successResponse))
  | .request c, "successres" => do
    let d ← docOf (field j "doc")
    pure (envelopeJ (.response (c.successResponseWithResource d)))
  | .request c, "failure" => pure (envelopeJ (.response (c.failureResponse (reasonOf (field j "reason")))))
  | .message m, "notification" => pure (envelopeJ (.notification (m.notification (S (getStrD j "event")))))
  | .message m, "failed" => pure (envelopeJ (.notification (m.failedNotification (reasonOf (field j "reason")))))
  | .request c, "sender" => pure (nodeJ c.cmd.env.sender)
  | .message m, "sender" => pure (nodeJ m.env.sender)
  | _, _ => throw s!"bad builder {f}"

end Driver.CodecD
