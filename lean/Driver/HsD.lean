import Driver.Util
import Driver.CodecD
import LimeModel.ServerSpec
/-! Driver mode `srvhs`: run the server handshake model on a script. -/
namespace Driver.HsD
open Lean Driver
open LimeModel hiding Json
open LimeModel.ServerHs
open Driver.CodecD (S T strJ nodeOf nodeJ field authOf authJ)

def stateOf (s : String) : R SState :=
  match s with
  | "new" => pure .new | "negotiating" => pure .negotiating | "authenticating" => pure .authenticating
  | "established" => pure .established | "finishing" => pure .finishing | "finished" => pure .finished
  | "failed" => pure .failed
  | x => throw s!"bad state {x}"

def strs (j : Json) : R (List Str) := do
  match j with
  | .null => pure []
  | .arr a => a.toList.mapM (fun x => do pure (S (← asStr x)))
  | _ => throw "string list expected"

def sesOf (j : Json) : R Ses := do
  pure { id := S (getStrD j "id"), from_ := nodeOf (field j "from"), to := nodeOf (field j "to"),
         state := ← stateOf (getStrD j "state" "new"),
         compOpts := ← strs (field j "compOpts"), encOpts := ← strs (field j "encOpts"),
         comp := S (getStrD j "comp"), enc := S (getStrD j "enc"),
         schemeOpts := ← strs (field j "schemeOpts"), scheme := S (getStrD j "scheme"),
         auth := ← authOf (field j "auth"), hasReason := getBoolD j "hasReason" }

def sesJ (s : Ses) : Json :=
  Json.mkObj [("id", strJ s.id), ("from", nodeJ s.from_), ("to", nodeJ s.to), ("state", strJ s.state.name),
    ("compOpts", Json.arr (s.compOpts.map strJ).toArray), ("encOpts", Json.arr (s.encOpts.map strJ).toArray),
    ("comp", strJ s.comp), ("enc", strJ s.enc), ("schemeOpts", Json.arr (s.schemeOpts.map strJ).toArray),
    ("scheme", strJ s.scheme), ("auth", authJ s.auth), ("hasReason", .bool s.hasReason)]

def recvOf (j : Json) : R Recv := do
  match getStrD j "t" with
  | "ses" => pure (.ses (← sesOf (field j "ses")))
  | "sesgone" => pure (.sesGone (← sesOf (field j "ses")))
  | "other" => pure .other
  | "fail" => pure (.fail (getStrD j "how" "close" == "close"))
  | x => throw s!"bad recv {x}"

def authOutOf (j : Json) : R AuthOut := do
  match j with
  | .str "role" => pure .role
  | .str "unknown" => pure .unknown
  | .str "unknown0" => pure .unknown
  | .str "error" => pure .error
  | _ =>
    match ← authOf (field j "rt") with
    | some a => pure (.roundTrip a)
    | none => throw "bad auth outcome"

def authOutJ : AuthOut → Json
  | .role => "role" | .unknown => "unknown" | .error => "error"
  | .roundTrip a => Json.mkObj [("rt", authJ (some a))]

def recvJ : Recv → Json
  | .ses s => Json.mkObj [("t", "ses"), ("ses", sesJ s)]
  | .sesGone s => Json.mkObj [("t", "sesgone"), ("ses", sesJ s)]
  | .other => Json.mkObj [("t", "other")]
  | .fail eof => Json.mkObj [("t", "fail"), ("how", if eof then "close" else "garbage")]

def evJ : Ev → Json
  | .recv r => Json.mkObj [("e", "recv"), ("r", recvJ r)]
  | .emit s enc => Json.mkObj [("e", "emit"), ("ses", sesJ s), ("enc", strJ enc)]
  | .authCall n d sch cred enc out => Json.mkObj [("e", "auth"), ("name", strJ n), ("domain", strJ d),
      ("scheme", strJ sch), ("cred", authJ cred), ("enc", strJ enc), ("out", authOutJ out)]
  | .regCall cand res => Json.mkObj [("e", "reg"), ("cand", nodeJ cand),
      ("res", match res with | none => .null | some n => nodeJ n)]
  | .setState s => Json.mkObj [("e", "state"), ("s", strJ s.name)]
  | .setEnc e ok => Json.mkObj [("e", "setenc"), ("v", strJ e), ("ok", .bool ok)]
  | .setComp c ok => Json.mkObj [("e", "setcomp"), ("v", strJ c), ("ok", .bool ok)]
  | .close => Json.mkObj [("e", "close")]

def cfgOf (j : Json) : R Cfg := do
  pure { sid := S (getStrD j "sid"), node := nodeOf (field j "node"),
         compOpts := ← strs (field j "compOpts"), encOpts := ← strs (field j "encOpts"),
         schemeOpts := ← strs (field j "schemeOpts"),
         supComp := ← strs (field j "supComp"), supEnc := ← strs (field j "supEnc") }

def evOf (j : Json) : R Ev := do
  match getStrD j "e" with
  | "recv" => pure (.recv (← recvOf (field j "r")))
  | "emit" => pure (.emit (← sesOf (field j "ses")) (S (getStrD j "enc")))
  | "auth" => pure (.authCall (S (getStrD j "name")) (S (getStrD j "domain")) (S (getStrD j "scheme"))
      (← authOf (field j "cred")) (S (getStrD j "enc")) (← authOutOf (field j "out")))
  | "reg" => pure (.regCall (nodeOf (field j "cand")) (match field j "res" with | .null => none | x => some (nodeOf x)))
  | "state" => pure (.setState (← stateOf (getStrD j "s")))
  | "close" => pure .close
  | x => throw s!"bad event {x}"

/-- judge an observed trace (oldest first) with the property checkers -/
def handleJudge (j : Json) : R Json := do
  let c ← cfgOf (field j "cfg")
  let tr ← (← getArr j "trace").toList.mapM evOf
  let rev := LimeModel.ServerSpec.obs tr.reverse
  pure <| Json.mkObj [
    ("c03", .bool (LimeModel.ServerSpec.okRev c rev)),
    ("c10", .bool (LimeModel.ServerSpec.encRev c rev)),
    ("c07", .bool (LimeModel.ServerSpec.orderRev c rev)),
    ("c09", .bool (LimeModel.ServerSpec.appliedRev rev)),
    ("c07answered", .bool (LimeModel.ServerSpec.answeredRev c rev)),
    ("phase", .str (reprStr (LimeModel.ServerSpec.phaseOf c rev)))]

def handleSrv (j : Json) : R Json := do
  let c ← cfgOf (field j "cfg")
  let recvs ← (← getArr j "recvs").toList.mapM recvOf
  let auths ← (← getArr j "auths").toList.mapM authOutOf
  let regs := (← getArr j "regs").toList.map (fun x => match x with | .null => none | y => some (nodeOf y))
  let sendOk ← (← getArr j "sendOk").toList.mapM asBool
  let r := run c recvs auths regs sendOk (getBoolD j "setEncOk" true) (S (getStrD j "enc0" "none"))
  pure <| Json.mkObj [
    ("trace", Json.arr (r.trace.map evJ).toArray), ("ok", .bool r.ok),
    ("state", strJ r.final.state.name), ("connected", .bool r.final.connected),
    ("remote", nodeJ r.final.remote), ("enc", strJ r.final.enc),
    ("consumed", natJ (recvs.length - r.final.recvs.length))]

def handleServe (j : Json) : R Json := do
  let c ← cfgOf (field j "cfg")
  let recvs ← (← getArr j "recvs").toList.mapM recvOf
  let auths ← (← getArr j "auths").toList.mapM authOutOf
  let regs := (← getArr j "regs").toList.map (fun x => match x with | .null => none | y => some (nodeOf y))
  let sendOk ← (← getArr j "sendOk").toList.mapM asBool
  let r := handleChannel c { recvs, auths, regs, sendOk, setEncOk := getBoolD j "setEncOk" true, enc := S (getStrD j "enc0" "none") }
  pure <| Json.mkObj [
    ("cb_established", natJ (r.1.count .established)), ("cb_finished", natJ (r.1.count .finished)),
    ("held", .bool r.2.held), ("state", strJ r.2.state.name), ("starved", .bool r.2.recvs.isEmpty)]

/-- for a script prefix and a list of candidate next inputs: does the server, after consuming
prefix ++ [candidate], ask for yet another input? (one answer per candidate) -/
def handleWants (j : Json) : R Json := do
  let c ← cfgOf (field j "cfg")
  let prefix_ ← (← getArr j "recvs").toList.mapM recvOf
  let cands ← (← getArr j "cands").toList.mapM recvOf
  let auths ← (← getArr j "auths").toList.mapM authOutOf
  let regs := (← getArr j "regs").toList.map (fun x => match x with | .null => none | y => some (nodeOf y))
  let sendOk ← (← getArr j "sendOk").toList.mapM asBool
  let setEncOk := getBoolD j "setEncOk" true
  let enc0 := S (getStrD j "enc0" "none")
  let wants := cands.map (fun a =>
    let script := prefix_ ++ [a, .fail true]
    let r := run c script auths regs sendOk setEncOk enc0
    r.final.recvs.isEmpty)
  pure (Json.arr (wants.map (fun b => Lean.Json.bool b)).toArray)

end Driver.HsD
