import LimeModel.Chan
/-!
# C04 — established channels deliver every envelope exactly once, intact, in order

For any number of sender goroutines, any programs, any stream capacity `cap ≥ 0`, any consumer
speed and **every** interleaving of send / receive / push / consume steps:
* `chan_invariant` — per kind, `delivered ++ queued ++ held ++ on the wire = sent` (as sequences),
  and per sender `sent ++ still to send = program`;
* `per_sender_per_kind_order` — what a consumer of kind `k` has seen from sender `i` is a prefix of
  what `i`'s program sends of kind `k`; `no_fabrication`; `no_duplication` (nothing is delivered
  more often than it was sent);
* `no_deadlock`, `quiescent_complete`, `quiescent_judged` — as long as consumers keep taking, the
  system moves until every program is finished and everything sent has been delivered, and that
  final state satisfies the judge used on the implementation's histories.
"Intact" is C01 (`envelope_roundtrip`) and C12 (`stream_reassembly`) for the byte level.
-/
namespace Props.C04
open LimeModel.Chan

theorem ofKind_append (k a b) : ofKind k (a ++ b) = ofKind k a ++ ofKind k b := by simp [ofKind]
theorem bySender_append (i a b) : bySender i (a ++ b) = bySender i a ++ bySender i b := by simp [bySender]
theorem bySender_ofKind (i k l) : bySender i (ofKind k l) = ofKind k (bySender i l) := by
  simp only [bySender, ofKind, List.filter_filter]
  congr 1; funext e; exact Bool.and_comm ..

structure Inv (orig : Nat → List Env) (s : CS) : Prop where
  /-- nothing lost, duplicated, invented or reordered between "Send returned" and "consumer saw it" -/
  flow : ∀ k, s.delivered k ++ s.q k ++ holdK k s.hold ++ ofKind k s.wire = ofKind k s.sent
  qkind : ∀ k e, e ∈ s.q k → e.kind = k
  /-- each sender goes through its program in order -/
  progs : ∀ i, bySender i s.sent ++ s.prog i = orig i
  tagged : ∀ i e, e ∈ s.prog i → e.sender = i

theorem inv_init (progs : Nat → List Env) (hw : ∀ i e, e ∈ progs i → e.sender = i) : Inv progs (init progs) :=
  ⟨by intro k; simp [init, holdK, ofKind], by intro k e h; simp [init] at h, by intro i; simp [init, bySender], hw⟩

theorem inv_step (orig) (cap : Nat) (s s' : CS) (l : CL) (h : Inv orig s) (hs : cstep cap s l = some s') :
    Inv orig s' := by
  obtain ⟨hf, hq, hp, ht⟩ := h
  cases l with
  | send i =>
    simp only [cstep] at hs
    split at hs
    · cases hs
    · rename_i e rest hpi
      cases hs
      have hes : e.sender = i := ht i e (by rw [hpi]; exact List.mem_cons_self ..)
      refine ⟨?_, hq, ?_, ?_⟩
      · intro k; simp only [ofKind_append, ← hf k, List.append_assoc]
      · intro j
        simp only [bySender_append, updf]
        by_cases hj : j = i
        · subst hj
          have := hp j; rw [hpi] at this
          simp only [↓reduceIte, List.append_assoc]
          have he : bySender j [e] = [e] := by simp [bySender, hes]
          rw [he]; simpa using this
        · have he : bySender j [e] = [] := by
            simp only [bySender, List.filter_cons, List.filter_nil]
            have : ¬ e.sender = j := fun hh => hj (by rw [← hh, hes])
            simp [this]
          simp only [hj, ↓reduceIte, he, List.append_nil]; exact hp j
      · intro j x hx
        simp only [updf] at hx
        by_cases hj : j = i
        · subst hj; simp only [↓reduceIte] at hx
          exact ht j x (by rw [hpi]; exact List.mem_cons_of_mem _ hx)
        · simp only [hj, ↓reduceIte] at hx; exact ht j x hx
  | pop =>
    simp only [cstep] at hs
    split at hs
    · rename_i e w hh hw
      cases hs
      refine ⟨?_, hq, hp, ht⟩
      intro k
      have hk := hf k
      simp only [hh, hw, holdK, ofKind] at hk ⊢
      by_cases he : e.kind = k <;> simp_all
    · cases hs
  | push =>
    simp only [cstep] at hs
    split at hs
    · rename_i e hh
      split at hs
      · cases hs
        refine ⟨?_, ?_, hp, ht⟩
        · intro k
          have hk := hf k
          simp only [hh, holdK, updf] at hk ⊢
          by_cases he : e.kind = k
          · subst he; simp_all
          · have : k ≠ e.kind := fun h => he h.symm
            simp_all
        · intro k x hx
          simp only [updf] at hx
          by_cases hk : k = e.kind
          · subst hk
            simp only [↓reduceIte, List.mem_append, List.mem_singleton] at hx
            rcases hx with hx | hx
            · exact hq _ x hx
            · rw [hx]
          · simp only [hk, ↓reduceIte] at hx; exact hq k x hx
      · cases hs
    · cases hs
  | consume k' =>
    simp only [cstep] at hs
    split at hs
    · rename_i e r hqk
      cases hs
      refine ⟨?_, ?_, hp, ht⟩
      · intro k
        have hk := hf k
        simp only [updf] at hk ⊢
        by_cases he : k = k'
        · subst he; simp_all
        · simp_all
      · intro k x hx
        simp only [updf] at hx
        by_cases hk : k = k'
        · subst hk; simp only [↓reduceIte] at hx
          exact hq k x (by rw [hqk]; exact List.mem_cons_of_mem _ hx)
        · simp only [hk, ↓reduceIte] at hx; exact hq k x hx
    · cases hs

/-- **C04 (invariant)**: every reachable state, under every schedule. -/
theorem chan_invariant (orig : Nat → List Env) (hw : ∀ i e, e ∈ orig i → e.sender = i) (cap : Nat)
    (ls : List CL) (s : CS) (hr : runL cap (init orig) ls = some s) : Inv orig s := by
  have key : ∀ (ls : List CL) (s0 s : CS), Inv orig s0 → runL cap s0 ls = some s → Inv orig s := by
    intro ls
    induction ls with
    | nil => intro s0 s h hr; simp [runL] at hr; exact hr ▸ h
    | cons l ls ih =>
      intro s0 s h hr
      simp only [runL] at hr
      split at hr
      · rename_i s1 hs; exact ih s1 s (inv_step orig cap s0 s1 l h hs) hr
      · cases hr
  exact key ls _ s (inv_init orig hw) hr

/-- what a consumer of kind `k` has seen is a prefix of the successful sends of that kind -/
theorem delivered_prefix (orig s) (h : Inv orig s) (k : Nat) : s.delivered k <+: ofKind k s.sent :=
  ⟨s.q k ++ holdK k s.hold ++ ofKind k s.wire, by have := h.flow k; simpa [List.append_assoc] using this⟩

/-- **C04 (order)**: from each sender, per kind, in program order and without gaps. -/
theorem per_sender_per_kind_order (orig s) (h : Inv orig s) (i k : Nat) :
    bySender i (s.delivered k) <+: ofKind k (orig i) := by
  obtain ⟨x, hx⟩ := delivered_prefix orig s h k
  refine ⟨bySender i x ++ ofKind k (s.prog i), ?_⟩
  have h1 : bySender i (s.delivered k) ++ bySender i x = ofKind k (bySender i s.sent) := by
    rw [← bySender_append, hx, bySender_ofKind]
  have h2 := congrArg (ofKind k) (h.progs i)
  rw [ofKind_append] at h2
  rw [← List.append_assoc, h1, h2]

/-- **C04 (nothing invented)** -/
theorem no_fabrication (orig s) (h : Inv orig s) (k : Nat) (e : Env) (he : e ∈ s.delivered k) :
    e ∈ orig e.sender ∧ e.kind = k := by
  have hp := per_sender_per_kind_order orig s h e.sender k
  have hm : e ∈ bySender e.sender (s.delivered k) := by simp [bySender, he]
  have := hp.subset hm
  simp only [ofKind, List.mem_filter, decide_eq_true_eq] at this
  exact this

/-- **C04 (exactly once, upper half)**: nothing is delivered more often than it was sent. -/
theorem no_duplication (orig s) (h : Inv orig s) (k : Nat) (e : Env) :
    (s.delivered k).count e ≤ (orig e.sender).count e := by
  have hp := per_sender_per_kind_order orig s h e.sender k
  have h1 : (s.delivered k).count e = (bySender e.sender (s.delivered k)).count e := by
    unfold bySender; rw [List.count_filter]; simp
  rw [h1]
  exact Nat.le_trans (hp.sublist.count_le e) ((List.filter_sublist (l := orig e.sender)).count_le e)

/-- a state in which no step is enabled -/
def Stuck (cap : Nat) (s : CS) : Prop := ∀ l, cstep cap s l = none

/-- **C04 (no deadlock)**: as long as something is unsent, in transit or queued, a step is enabled
(consumers keep taking). -/
theorem no_deadlock (cap : Nat) (s : CS)
    (h : (∃ i, s.prog i ≠ []) ∨ s.wire ≠ [] ∨ s.hold ≠ none ∨ ∃ k, s.q k ≠ []) : ¬ Stuck cap s := by
  intro hst
  rcases h with ⟨i, hi⟩ | hw | hh | ⟨k, hk⟩
  · have := hst (.send i); simp only [cstep] at this
    cases hp : s.prog i with
    | nil => exact hi hp
    | cons e r => simp [hp] at this
  · cases hh : s.hold with
    | none =>
      have := hst .pop
      cases hw' : s.wire with
      | nil => exact hw hw'
      | cons e w => simp [cstep, hh, hw'] at this
    | some e =>
      have h1 := hst .push
      simp only [cstep, hh] at h1
      split at h1
      · cases h1
      · rename_i hfull
        have h2 := hst (.consume e.kind)
        cases hq : s.q e.kind with
        | nil => simp [hq] at hfull
        | cons a r => simp [cstep, hq] at h2
  · cases hh' : s.hold with
    | none => exact hh hh'
    | some e =>
      have h1 := hst .push
      simp only [cstep, hh'] at h1
      split at h1
      · cases h1
      · rename_i hfull
        have h2 := hst (.consume e.kind)
        cases hq : s.q e.kind with
        | nil => simp [hq] at hfull
        | cons a r => simp [cstep, hq] at h2
  · have := hst (.consume k)
    cases hq : s.q k with
    | nil => exact hk hq
    | cons a r => simp [cstep, hq] at this

/-- **C04 (exactly once, lower half)**: when nothing can move any more, every program has been sent
completely and everything sent has been delivered. -/
theorem quiescent_complete (orig s) (cap : Nat) (h : Inv orig s) (hst : Stuck cap s) :
    (∀ i, bySender i s.sent = orig i) ∧ ∀ k, s.delivered k = ofKind k s.sent := by
  have hp : ∀ i, s.prog i = [] := by
    intro i; apply Classical.byContradiction; intro hi
    exact no_deadlock cap s (Or.inl ⟨i, hi⟩) hst
  have hw : s.wire = [] := by
    apply Classical.byContradiction; intro hi
    exact no_deadlock cap s (Or.inr (Or.inl hi)) hst
  have hh : s.hold = none := by
    apply Classical.byContradiction; intro hi
    exact no_deadlock cap s (Or.inr (Or.inr (Or.inl hi))) hst
  have hq : ∀ k, s.q k = [] := by
    intro k; apply Classical.byContradiction; intro hi
    exact no_deadlock cap s (Or.inr (Or.inr (Or.inr ⟨k, hi⟩))) hst
  refine ⟨fun i => by have := h.progs i; rwa [hp i, List.append_nil] at this, fun k => ?_⟩
  have := h.flow k
  rw [hq k, hh, hw] at this
  simpa [holdK, ofKind] using this

/-- **C04 (the judge is sound for the model)**: the final state of every complete run satisfies
the predicate that judges the implementation's histories. -/
theorem quiescent_judged (orig s) (cap nS nK : Nat) (h : Inv orig s) (hst : Stuck cap s)
    (hS : ∀ i, nS ≤ i → orig i = []) : judge nS nK orig s.delivered = true := by
  obtain ⟨h1, h2⟩ := quiescent_complete orig s cap h hst
  simp only [judge, List.all_eq_true, List.mem_range, Bool.and_eq_true, decide_eq_true_eq]
  intro k _
  refine ⟨?_, ?_⟩
  · intro e he
    obtain ⟨hm, hk⟩ := no_fabrication orig s h k e he
    refine ⟨hk, ?_⟩
    apply Classical.byContradiction; intro hlt
    rw [hS e.sender (by omega)] at hm; cases hm
  · intro i _
    rw [h2 k, bySender_ofKind, h1 i]

/-- Non-vacuity: two senders, two kinds, capacity 0, one complete schedule. -/
def demoProgs : Nat → List Env
  | 0 => [⟨0, 0, 1⟩, ⟨1, 0, 2⟩]
  | 1 => [⟨0, 1, 1⟩]
  | _ => []

example : (runL 0 (init demoProgs) [.send 0, .send 1, .pop, .push, .send 0, .consume 0, .pop, .push, .pop, .consume 0,
      .push, .consume 1]).map (fun s => (s.delivered 0, s.delivered 1, s.wire, s.hold)) =
    some ([⟨0, 0, 1⟩, ⟨0, 1, 1⟩], [⟨1, 0, 2⟩], [], none) := by decide

end Props.C04
