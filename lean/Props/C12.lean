import LimeModel.Stream
/-!
# C12 — the TCP transport preserves the envelope stream under fragmentation and stalls

* `write_loop_exact`: for every byte string and every write plan (short writes of every length, any
  number of transient timeouts, a hard failure or the end of the context anywhere) the bytes put on
  the connection are a prefix of the buffer, each byte once, and `Write` reports success only if all
  of it was written;
* `stream_reassembly`: for every framing that obeys the scanner laws, every list of frames and every
  fragmentation / coalescing plan, successive receives return exactly the frames, in order;
* `cut_stream_safe`: on a stream cut anywhere, the receives return a prefix of the frames followed
  by an error — never a partial, duplicated, reordered or invented frame.
-/
namespace Props.C12
open LimeModel.Stream

/-- **C12 (write loop)** -/
theorem write_loop_exact (b : Bytes) (plan : List WriteEv) (w : Nat) :
    (∃ rest, b = (writeLoop b plan w).wire ++ rest) ∧
    ((writeLoop b plan w).ok = true → (writeLoop b plan w).wire = b) ∧
    (writeLoop b plan w).n = w + (writeLoop b plan w).wire.length := by
  induction plan generalizing b w with
  | nil => simp [writeLoop]
  | cons e rest ih =>
    cases e with
    | full => simp [writeLoop]
    | ctxDone => simp [writeLoop]
    | failAfter k =>
      simp only [writeLoop, List.length_take]
      refine ⟨⟨b.drop k, (List.take_append_drop k b).symm⟩, ?_, ?_⟩
      · intro h; cases h
      · trivial
    | timeoutAfter k =>
      obtain ⟨⟨r, hr⟩, h2, h3⟩ := ih (b.drop k) (w + min k b.length)
      simp only [writeLoop]
      refine ⟨⟨r, ?_⟩, ?_, ?_⟩
      · rw [List.append_assoc, ← hr, List.take_append_drop]
      · intro hok
        rw [h2 hok, List.take_append_drop]
      · rw [h3]; simp only [List.length_append, List.length_take]; omega

/-- buffered prefix and frame: either the buffer already holds the frame, or it is a proper prefix -/
theorem buf_cases (buf unread f rest : Bytes) (h : buf ++ unread = f ++ rest) :
    (∃ x, buf = f ++ x ∧ rest = x ++ unread) ∨ (buf.length < f.length ∧ buf = f.take buf.length) := by
  rcases List.append_eq_append_iff.mp h with ⟨a, ha, hb⟩ | ⟨a, ha, hb⟩
  · -- f = buf ++ a
    by_cases hz : a = []
    · subst hz; simp at ha hb; exact Or.inl ⟨[], by simp [ha], by simp [hb]⟩
    · refine Or.inr ⟨?_, ?_⟩
      · rw [ha]; simp; exact List.length_pos_iff.mpr hz
      · rw [ha]; simp
  · exact Or.inl ⟨a, ha, hb⟩

/-- one receive returns the frame at the head of the stream, and leaves the rest -/
theorem recvOne_head (F : Framing) (f rest : Bytes) (hf : F.isFrame f) :
    ∀ fuel buf unread plan, buf ++ unread = f ++ rest → unread.length < fuel →
    ∃ buf' unread' plan', recvOne F.complete fuel buf unread plan = (.frame f, buf', unread', plan') ∧
      buf' ++ unread' = rest := by
  intro fuel
  induction fuel with
  | zero => intro buf unread plan _ h; omega
  | succ n ih =>
    intro buf unread plan heq hfuel
    unfold recvOne
    rcases buf_cases buf unread f rest heq with ⟨x, hb, hr⟩ | ⟨hlt, hb⟩
    · -- the buffer holds the whole frame
      have hc : F.complete buf = some f.length := by rw [hb]; exact F.frame_complete f x hf
      simp only [hc]
      refine ⟨buf.drop f.length, unread, plan, ?_, ?_⟩
      · rw [hb]; simp
      · rw [hb, hr]; simp
    · -- the buffer is a proper prefix of the frame: not complete, read on
      have hc : F.complete buf = none := by rw [hb]; exact F.prefix_incomplete f buf.length hf hlt
      simp only [hc]
      cases hu : unread with
      | nil =>
        subst hu
        simp only [List.append_nil] at heq
        have : buf.length = f.length + rest.length := by rw [heq]; simp
        omega
      | cons a t =>
        simp only
        have hk : 1 ≤ max 1 (min (plan.headD 1) (a :: t).length) ∧
            max 1 (min (plan.headD 1) (a :: t).length) ≤ (a :: t).length := by
          simp only [List.length_cons]; omega
        apply ih
        · rw [List.append_assoc, List.take_append_drop, ← hu]; exact heq
        · simp only [List.length_drop]; rw [hu] at hfuel; simp only [List.length_cons] at hfuel ⊢; omega

/-- **C12 (reassembly)**: whatever the fragmentation plan, `fs.length` receives on the stream that
consists of the frames `fs` return exactly `fs`, each intact, in order. -/
theorem stream_reassembly (F : Framing) (fs : List Bytes) (hfs : ∀ f ∈ fs, F.isFrame f) :
    ∀ buf unread plan, buf ++ unread = fs.flatten →
    recvFrames F.complete fs.length buf unread plan = fs.map RecvOut.frame := by
  induction fs with
  | nil => intro buf unread plan _; rfl
  | cons f rest ih =>
    intro buf unread plan heq
    have hf := hfs f (List.mem_cons_self ..)
    simp only [List.flatten_cons] at heq
    obtain ⟨buf', unread', plan', h1, h2⟩ :=
      recvOne_head F f rest.flatten hf (unread.length + 1) buf unread plan heq (by omega)
    simp only [List.length_cons, recvFrames, h1, List.map_cons]
    rw [ih (fun g hg => hfs g (List.mem_cons_of_mem _ hg)) buf' unread' plan' h2]

/-- the frames handed out by a run of receives (errors dropped) -/
def framesOf : List RecvOut → List Bytes
  | [] => []
  | .frame f :: t => f :: framesOf t
  | .err :: t => framesOf t

/-- one receive on a stream that is a *prefix* of the frame sequence returns the head frame or an
error — nothing else -/
theorem recvOne_cut (F : Framing) (f rest : Bytes) (hf : F.isFrame f) :
    ∀ fuel buf unread plan tail, buf ++ unread ++ tail = f ++ rest →
    (∃ buf' unread' plan', recvOne F.complete fuel buf unread plan = (.frame f, buf', unread', plan') ∧
        buf' ++ unread' ++ tail = rest) ∨
    (∃ buf' unread' plan', recvOne F.complete fuel buf unread plan = (.err, buf', unread', plan')) := by
  intro fuel
  induction fuel with
  | zero => intro buf unread plan tail _; exact Or.inr ⟨_, _, _, rfl⟩
  | succ n ih =>
    intro buf unread plan tail heq
    unfold recvOne
    have heq' : buf ++ (unread ++ tail) = f ++ rest := by rw [← List.append_assoc]; exact heq
    rcases buf_cases buf (unread ++ tail) f rest heq' with ⟨x, hb, hr⟩ | ⟨hlt, hb⟩
    · have hc : F.complete buf = some f.length := by rw [hb]; exact F.frame_complete f x hf
      simp only [hc]
      refine Or.inl ⟨buf.drop f.length, unread, plan, ?_, ?_⟩
      · rw [hb]; simp
      · rw [hb, hr]; simp
    · have hc : F.complete buf = none := by rw [hb]; exact F.prefix_incomplete f buf.length hf hlt
      simp only [hc]
      cases hu : unread with
      | nil => exact Or.inr ⟨_, _, _, rfl⟩
      | cons a t =>
        simp only
        apply ih
        rw [List.append_assoc (buf), List.take_append_drop, ← hu]; exact heq

/-- **C12 (cut stream)**: if the stream is cut anywhere (what is delivered is a prefix of the frame
sequence), any number of receives return a prefix of the frames — each intact, in order, none twice,
none invented — and after the first error nothing more. -/
theorem cut_stream_safe (F : Framing) (fs : List Bytes) (hfs : ∀ f ∈ fs, F.isFrame f) :
    ∀ n buf unread plan tail, buf ++ unread ++ tail = fs.flatten →
    ∃ k, framesOf (recvFrames F.complete n buf unread plan) = fs.take k := by
  induction fs with
  | nil =>
    intro n buf unread plan tail heq
    simp only [List.flatten_nil, List.append_eq_nil_iff] at heq
    obtain ⟨⟨rfl, rfl⟩, rfl⟩ := heq
    refine ⟨0, ?_⟩
    cases n with
    | zero => rfl
    | succ m =>
      -- the empty buffer holds no frame (frames are non-empty, a proper prefix is incomplete): error
      simp only [recvFrames, recvOne, F.empty_incomplete, framesOf, List.take_zero]
  | cons f rest ih =>
    intro n buf unread plan tail heq
    have hf := hfs f (List.mem_cons_self ..)
    cases n with
    | zero => exact ⟨0, rfl⟩
    | succ m =>
      simp only [List.flatten_cons] at heq
      rcases recvOne_cut F f rest.flatten hf (unread.length + 1) buf unread plan tail heq with
        ⟨buf', unread', plan', h1, h2⟩ | ⟨buf', unread', plan', h1⟩
      · obtain ⟨k, hk⟩ := ih (fun g hg => hfs g (List.mem_cons_of_mem _ hg)) m buf' unread' plan' tail h2
        refine ⟨k + 1, ?_⟩
        simp only [recvFrames, h1, framesOf, hk, List.take_succ_cons]
      · refine ⟨0, ?_⟩
        simp only [recvFrames, h1, framesOf, List.take_zero]

/-! ## every scanner is a framing -/

theorem scan_bounds {σ} (δ : σ → Nat → Option σ) : ∀ (a : Bytes) s i j,
    scan δ s a i = some j → i < j ∧ j ≤ i + a.length := by
  intro a
  induction a with
  | nil => intro s i j h; simp [scan] at h
  | cons c t ih =>
    intro s i j h
    simp only [scan] at h
    cases hd : δ s c with
    | none => simp only [hd, Option.some.injEq] at h; simp only [List.length_cons]; omega
    | some s' =>
      simp only [hd] at h
      have := ih s' (i + 1) j h
      simp only [List.length_cons]; omega

theorem scan_append {σ} (δ : σ → Nat → Option σ) : ∀ (a b : Bytes) s i j,
    scan δ s a i = some j → scan δ s (a ++ b) i = some j := by
  intro a
  induction a with
  | nil => intro b s i j h; simp [scan] at h
  | cons c t ih =>
    intro b s i j h
    simp only [scan, List.cons_append] at h ⊢
    cases hd : δ s c with
    | none => simpa only [hd] using h
    | some s' =>
      simp only [hd] at h ⊢
      exact ih b s' (i + 1) j h

/-- the framing of a scanner: a frame is a byte string the scanner accepts exactly at its end -/
def scannerFraming {σ} (δ : σ → Nat → Option σ) (s0 : σ) : Framing where
  isFrame f := scan δ s0 f 0 = some f.length
  complete buf := scan δ s0 buf 0
  frame_complete := by
    intro f rest hf
    exact scan_append δ f rest s0 0 _ hf
  prefix_incomplete := by
    intro f k hf hk
    cases hs : scan δ s0 (f.take k) 0 with
    | none => rfl
    | some j =>
      have hb := scan_bounds δ _ _ _ _ hs
      have := scan_append δ (f.take k) (f.drop k) s0 0 j hs
      rw [List.take_append_drop, hf] at this
      simp only [List.length_take, Option.some.injEq] at this hb
      omega
  frame_nonempty := by
    intro f hf hnil
    subst hnil
    simp [scan] at hf
  empty_incomplete := rfl

/-- the JSON value framing used by the driver against the real `json.Decoder` -/
def jsonFraming : Framing := scannerFraming jsonδ .start

/-- what the driver executes is the `complete` of a lawful framing, so `stream_reassembly` and
`cut_stream_safe` apply to every run of the driver's `frames` mode -/
theorem driver_framing : jsonFraming.complete = jsonComplete := rfl

/-- `{"a":"}\""}` preceded by a newline is a frame; the `}` inside the string does not end it -/
example : jsonFraming.isFrame [10, 123, 34, 97, 34, 58, 34, 125, 92, 34, 34, 125] := by
  show scan jsonδ .start _ 0 = some _
  decide

/-- The laws are satisfiable: newline-terminated frames (no newline inside, newline at the end). -/
def nl : Nat := 10

def lineComplete : Bytes → Nat → Option Nat
  | [], _ => none
  | c :: t, i => if c = nl then some (i + 1) else lineComplete t (i + 1)

theorem lineComplete_spec (a rest : Bytes) (i : Nat) (h : nl ∉ a) :
    lineComplete (a ++ nl :: rest) i = some (i + a.length + 1) := by
  induction a generalizing i with
  | nil => simp [lineComplete]
  | cons c t ih =>
    have hc : c ≠ nl := fun e => h (by simp [e])
    have ht : nl ∉ t := fun m => h (List.mem_cons_of_mem _ m)
    simp only [List.cons_append, lineComplete, hc, ↓reduceIte, ih (i + 1) ht, List.length_cons]
    congr 1; omega

theorem lineComplete_none (a : Bytes) (i : Nat) (h : nl ∉ a) : lineComplete a i = none := by
  induction a generalizing i with
  | nil => rfl
  | cons c t ih =>
    have hc : c ≠ nl := fun e => h (by simp [e])
    have ht : nl ∉ t := fun m => h (List.mem_cons_of_mem _ m)
    simp only [lineComplete, hc, ↓reduceIte, ih (i + 1) ht]

def lineFraming : Framing where
  isFrame f := ∃ a, nl ∉ a ∧ f = a ++ [nl]
  complete buf := lineComplete buf 0
  frame_complete := by
    rintro f rest ⟨a, ha, rfl⟩
    have := lineComplete_spec a rest 0 ha
    simpa using this
  prefix_incomplete := by
    rintro f k ⟨a, ha, rfl⟩ hk
    simp only [List.length_append, List.length_singleton] at hk
    have : (a ++ [nl]).take k = a.take k := by
      rw [List.take_append_of_le_length (by omega)]
    rw [this]
    exact lineComplete_none _ 0 (fun hm => ha (List.mem_of_mem_take hm))
  frame_nonempty := by
    rintro f ⟨a, _, rfl⟩; simp
  empty_incomplete := rfl

/-- Non-vacuity: two lines, delivered byte by byte with the second one cut, reassemble to the first
line and an error. -/
example : recvFrames lineFraming.complete 3 [] [1, 2, nl, 3] [1, 1, 1, 1] = [.frame [1, 2, nl], .err] := by decide

/-- a short write of 2 bytes with a transient timeout: each byte reaches the wire once -/
example : (writeLoop [1, 2, 3, 4] [.timeoutAfter 2] 0).wire = [1, 2, 3, 4] := by decide

end Props.C12
