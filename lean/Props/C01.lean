import LimeModel.Lemmas.RawRoundtrip
import Props.C01Doc
import Props.C01Text
/-!
# C01 — envelope JSON round trip preserves kind and content

For every well-formed envelope of each of the five kinds — any identifiers, addresses in the
grammar, metadata, media types, documents nested to any depth, authentication data, every subset
of optional members — the encoder succeeds and both the typed decoder of the envelope's kind and
a transport's receive path (`decodeAny`) give back the same envelope.
`U` is the URL library (parse then print); a well-formed URI text is a fixed point of it.
-/
namespace Props.C01
open LimeModel LimeModel.Json

theorem nodePtr_wf (n : Node) (h : n.wf = true) : optWf Node.wf (nodePtr n) = true := by
  unfold nodePtr; split <;> simp [optWf, h]

theorem nodePtr_getD (n : Node) : (nodePtr n).getD Node.zero = n := by
  unfold nodePtr
  split
  · rename_i hz
    obtain ⟨a, b, c⟩ := n
    simp [Node.isZero] at hz
    simp [Node.zero, hz]
  · rfl

theorem env_ofRaw_toRaw (e : Env) (r : Raw) (hid : r.id = e.id) (hm : r.metadata = e.metadata)
    (hf : r.from_ = nodePtr e.from_) (hp : r.pp = nodePtr e.pp) (ht : r.to = nodePtr e.to) :
    Env.ofRaw r = e := by
  obtain ⟨id, f, p, t, m⟩ := e
  simp only [Env.ofRaw, hid, hm, hf, hp, ht, nodePtr_getD]

theorem strPtr_getD (s : Str) : (strPtr s).getD [] = s := by
  unfold strPtr; split <;> simp_all

theorem strPtr_enum (members : List Str) (s : Str) (h : members.contains s = true) :
    optWf (fun s => members.contains s) (strPtr s) = true := by
  unfold strPtr; split
  · rfl
  · exact h

abbrev notNull : Json → Bool := fun j => match j with | Json.null => false | _ => true

theorem Raw.wf_intro (U : Str → Option Str) (r : Raw)
    (h1 : optWf Node.wf r.from_ = true) (h2 : optWf Node.wf r.pp = true) (h3 : optWf Node.wf r.to = true)
    (h4 : (match r.metadata with | none => true | some [] => false | some kvs => keysDistinct kvs) = true)
    (h5 : optWf Reason.wf r.reason = true) (h6 : optWf MT.wf r.type = true)
    (h7 : optWf (fun s => notificationEvents.contains s) r.event = true)
    (h8 : optWf (fun s => commandMethods.contains s) r.method = true)
    (h9 : optWf (fun s => sessionStates.contains s) r.state = true)
    (h10 : optWf (fun u => U u == some u) r.uri = true)
    (h11 : optsWf r.encOpts = true) (h12 : optsWf r.compOpts = true) (h13 : optsWf r.schemeOpts = true)
    (h14 : optWf notNull r.content = true) (h15 : optWf notNull r.resource = true)
    (h16 : optWf notNull r.auth = true) : r.wf U = true := by
  simp only [Raw.wf, Bool.and_eq_true]
  exact ⟨⟨⟨⟨⟨⟨⟨⟨⟨⟨⟨⟨⟨⟨⟨h1, h2⟩, h3⟩, h4⟩, h5⟩, h6⟩, h7⟩, h8⟩, h9⟩, h10⟩, h11⟩, h12⟩, h13⟩, h14⟩, h15⟩, h16⟩

theorem enum_ne_nil (members : List Str) (hm : members.contains [] = false) (s : Str)
    (h : members.contains s = true) : strPtr s = some s := by
  unfold strPtr
  split
  · rename_i h0; subst h0; rw [hm] at h; cases h
  · rfl

theorem optWf_null_enc (d : Doc) : optWf notNull (some (Doc.enc d)) = true := by
  simp only [optWf]
  have := Doc.enc_ne_null d
  cases h : Doc.enc d <;> simp_all

theorem message_roundtrip (U : Str → Option Str) (m : Message) (h : (Envelope.message m).wf U = true) :
    ∃ j, (Envelope.message m).encode = .ok j ∧
      decodeTyped U .message j = .ok (.message m) ∧ decodeAny U j = .ok (.message m) := by
  obtain ⟨env, type, content⟩ := m
  simp only [Envelope.wf, Bool.and_eq_true] at h
  obtain ⟨⟨henv, htype⟩, hc⟩ := h
  cases content with
  | none => simp at hc
  | some d =>
    simp only at hc
    simp only [Env.wf, Bool.and_eq_true] at henv
    obtain ⟨⟨⟨hf, hp⟩, ht⟩, hmeta⟩ := henv
    let r : Raw := { env.toRaw with type := some type, content := some d.enc }
    have hr : r.wf U = true :=
      Raw.wf_intro U r (nodePtr_wf _ hf) (nodePtr_wf _ hp) (nodePtr_wf _ ht) hmeta rfl htype rfl rfl rfl rfl
        rfl rfl rfl (optWf_null_enc d) rfl rfl
    obtain ⟨j, hj, hback⟩ := Raw.roundtrip U r hr
    have hpop : Message.ofRaw r = .ok ⟨env, type, some d⟩ := by
      simp only [Message.ofRaw, r, doc_roundtrip type d hc, Outcome.bind]
      rw [env_ofRaw_toRaw env _ rfl rfl rfl rfl rfl]
    have hkind : r.kind = .ok .message := by simp [Raw.kind, r, Env.toRaw]
    refine ⟨j, ?_, ?_, ?_⟩
    · simp only [Envelope.encode, Envelope.toRaw, Message.toRaw, bind, Outcome.bind]; exact hj
    · simp only [decodeTyped, hback, Outcome.bind, populate, hpop]
    · simp only [decodeAny, hback, Outcome.bind, hkind, populate, hpop]

theorem env_parts (env : Env) (h : env.wf = true) :
    optWf Node.wf (nodePtr env.from_) = true ∧ optWf Node.wf (nodePtr env.pp) = true ∧
    optWf Node.wf (nodePtr env.to) = true ∧
    (match env.metadata with | none => true | some [] => false | some kvs => keysDistinct kvs) = true := by
  simp only [Env.wf, Bool.and_eq_true] at h
  exact ⟨nodePtr_wf _ h.1.1.1, nodePtr_wf _ h.1.1.2, nodePtr_wf _ h.1.2, h.2⟩

theorem notification_roundtrip (U : Str → Option Str) (n : Notification)
    (h : (Envelope.notification n).wf U = true) :
    ∃ j, (Envelope.notification n).encode = .ok j ∧
      decodeTyped U .notification j = .ok (.notification n) ∧ decodeAny U j = .ok (.notification n) := by
  obtain ⟨env, event, reason⟩ := n
  simp only [Envelope.wf, Bool.and_eq_true] at h
  obtain ⟨⟨henv, hev⟩, hreason⟩ := h
  obtain ⟨hf, hp, ht, hmeta⟩ := env_parts env henv
  have hsome : strPtr event = some event := enum_ne_nil notificationEvents (by decide) event hev
  let r : Raw := { env.toRaw with event := strPtr event, reason := reason }
  have hr : r.wf U = true :=
    Raw.wf_intro U r hf hp ht hmeta hreason rfl (strPtr_enum _ _ hev) rfl rfl rfl rfl rfl rfl rfl rfl rfl
  obtain ⟨j, hj, hback⟩ := Raw.roundtrip U r hr
  have hpop : Notification.ofRaw r = .ok ⟨env, event, reason⟩ := by
    simp only [Notification.ofRaw, r, hsome]
    rw [env_ofRaw_toRaw env _ rfl rfl rfl rfl rfl]
  have hkind : r.kind = .ok .notification := by simp [Raw.kind, r, Env.toRaw, hsome]
  refine ⟨j, ?_, ?_, ?_⟩
  · simp only [Envelope.encode, Envelope.toRaw, Notification.toRaw, bind, Outcome.bind]; exact hj
  · simp only [decodeTyped, hback, Outcome.bind, populate, hpop]
  · simp only [decodeAny, hback, Outcome.bind, hkind, populate, hpop]

/-- the command part shared by requests and responses -/
theorem command_parts (c : Command)
    (hm : commandMethods.contains c.method = true)
    (hres : (match c.resource, c.type with
       | none, none => true
       | some d, some t => t.wf && Doc.wf t d
       | _, _ => false) = true) :
    optWf MT.wf c.toRaw.type = true ∧ optWf notNull c.toRaw.resource = true ∧
    c.toRaw.method = some c.method ∧ c.toRaw.uri = none ∧ c.toRaw.status = none ∧ c.toRaw.event = none ∧
    c.toRaw.content = none ∧ c.toRaw.state = none ∧ c.toRaw.reason = none ∧ c.toRaw.auth = none ∧
    c.toRaw.encOpts = none ∧ c.toRaw.compOpts = none ∧ c.toRaw.schemeOpts = none ∧
    c.toRaw.id = c.env.id ∧ c.toRaw.metadata = c.env.metadata ∧ c.toRaw.from_ = nodePtr c.env.from_ ∧
    c.toRaw.pp = nodePtr c.env.pp ∧ c.toRaw.to = nodePtr c.env.to ∧
    Command.ofRaw c.toRaw = .ok c := by
  obtain ⟨env, method, type, resource⟩ := c
  have hsome : strPtr method = some method := enum_ne_nil commandMethods (by decide) method hm
  cases resource with
  | none =>
    cases type with
    | some t => simp at hres
    | none =>
      refine ⟨?_, ?_, ?_, ?_, ?_, ?_, ?_, ?_, ?_, ?_, ?_, ?_, ?_, ?_, ?_, ?_, ?_, ?_, ?_⟩
      case refine_19 =>
        simp only [Command.toRaw, Env.toRaw, hsome, Command.ofRaw, Outcome.bind]
        rw [env_ofRaw_toRaw env _ rfl rfl rfl rfl rfl]
      all_goals simp only [Command.toRaw, Env.toRaw, hsome, optWf]
  | some d =>
    cases type with
    | none => simp at hres
    | some t =>
      simp only [Bool.and_eq_true] at hres
      refine ⟨?_, ?_, ?_, ?_, ?_, ?_, ?_, ?_, ?_, ?_, ?_, ?_, ?_, ?_, ?_, ?_, ?_, ?_, ?_⟩
      case refine_19 =>
        simp only [Command.toRaw, Env.toRaw, hsome, Command.ofRaw, Outcome.bind, doc_roundtrip t d hres.2]
        rw [env_ofRaw_toRaw env _ rfl rfl rfl rfl rfl]
      case refine_1 => exact hres.1
      case refine_2 => exact optWf_null_enc d
      all_goals simp only [Command.toRaw, Env.toRaw, hsome]

theorem request_roundtrip (U : Str → Option Str) (c : RequestCommand)
    (h : (Envelope.request c).wf U = true) :
    ∃ j, (Envelope.request c).encode = .ok j ∧
      decodeTyped U .request j = .ok (.request c) ∧ decodeAny U j = .ok (.request c) := by
  obtain ⟨cmd, uri⟩ := c
  simp only [Envelope.wf, Bool.and_eq_true] at h
  obtain ⟨⟨⟨henv, hm⟩, hres⟩, huri⟩ := h
  obtain ⟨hf, hp, ht, hmeta⟩ := env_parts cmd.env henv
  cases uri with
  | none => simp at huri
  | some u =>
    simp only at huri
    obtain ⟨p1, p2, p3, p4, p5, p6, p7, p8, p9, p10, p11, p12, p13, p14, p15, p16, p17, p18, p19⟩ :=
      command_parts cmd hm hres
    let r : Raw := { cmd.toRaw with uri := some u }
    have hr : r.wf U = true :=
      Raw.wf_intro U r (by simp only [r, p16]; exact hf) (by simp only [r, p17]; exact hp)
        (by simp only [r, p18]; exact ht) (by simp only [r, p15]; exact hmeta)
        (by simp only [r, p9]; rfl) p1 (by simp only [r, p6]; rfl)
        (by simp only [r, p3]; exact hm) (by simp only [r, p8]; rfl) huri
        (by simp only [r, p11]; rfl) (by simp only [r, p12]; rfl) (by simp only [r, p13]; rfl)
        (by simp only [r, p7]; rfl) p2 (by simp only [r, p10]; rfl)
    obtain ⟨j, hj, hback⟩ := Raw.roundtrip U r hr
    have hcmd : Command.ofRaw r = .ok cmd := by
      have : Command.ofRaw r = Command.ofRaw cmd.toRaw := by
        simp only [Command.ofRaw, r, Env.ofRaw]
      rw [this, p19]
    have hpop : RequestCommand.ofRaw r = .ok ⟨cmd, some u⟩ := by
      unfold RequestCommand.ofRaw
      rw [hcmd]
      simp only [Outcome.bind, r]
    have hkind : r.kind = .ok .request := by simp [Raw.kind, r, p3]
    refine ⟨j, ?_, ?_, ?_⟩
    · simp only [Envelope.encode, Envelope.toRaw, RequestCommand.toRaw, bind, Outcome.bind]; exact hj
    · simp only [decodeTyped, hback, Outcome.bind, populate, hpop]
    · simp only [decodeAny, hback, Outcome.bind, hkind, populate, hpop]

theorem response_roundtrip (U : Str → Option Str) (c : ResponseCommand)
    (h : (Envelope.response c).wf U = true) :
    ∃ j, (Envelope.response c).encode = .ok j ∧
      decodeTyped U .response j = .ok (.response c) ∧ decodeAny U j = .ok (.response c) := by
  obtain ⟨cmd, status, reason⟩ := c
  simp only [Envelope.wf, Bool.and_eq_true, Bool.not_eq_true', List.isEmpty_eq_false_iff] at h
  obtain ⟨⟨⟨⟨henv, hm⟩, hres⟩, hstatus⟩, hreason⟩ := h
  obtain ⟨hf, hp, ht, hmeta⟩ := env_parts cmd.env henv
  obtain ⟨p1, p2, p3, p4, p5, p6, p7, p8, p9, p10, p11, p12, p13, p14, p15, p16, p17, p18, p19⟩ :=
    command_parts cmd hm hres
  have hsome : strPtr status = some status := by unfold strPtr; simp [hstatus]
  let r : Raw := { cmd.toRaw with status := strPtr status, reason := reason }
  have hr : r.wf U = true :=
    Raw.wf_intro U r (by simp only [r, p16]; exact hf) (by simp only [r, p17]; exact hp)
      (by simp only [r, p18]; exact ht) (by simp only [r, p15]; exact hmeta)
      hreason p1 (by simp only [r, p6]; rfl)
      (by simp only [r, p3]; exact hm) (by simp only [r, p8]; rfl) (by simp only [r, p4]; rfl)
      (by simp only [r, p11]; rfl) (by simp only [r, p12]; rfl) (by simp only [r, p13]; rfl)
      (by simp only [r, p7]; rfl) p2 (by simp only [r, p10]; rfl)
  obtain ⟨j, hj, hback⟩ := Raw.roundtrip U r hr
  have hcmd : Command.ofRaw r = .ok cmd := by
    have : Command.ofRaw r = Command.ofRaw cmd.toRaw := by
      simp only [Command.ofRaw, r, Env.ofRaw]
    rw [this, p19]
  have hpop : ResponseCommand.ofRaw r = .ok ⟨cmd, status, reason⟩ := by
    unfold ResponseCommand.ofRaw
    rw [hcmd]
    simp only [Outcome.bind, r, hsome]
    simp [hstatus]
  have hkind : r.kind = .ok .response := by simp [Raw.kind, r, p3, p4, hsome]
  refine ⟨j, ?_, ?_, ?_⟩
  · simp only [Envelope.encode, Envelope.toRaw, ResponseCommand.toRaw, bind, Outcome.bind]; exact hj
  · simp only [decodeTyped, hback, Outcome.bind, populate, hpop]
  · simp only [decodeAny, hback, Outcome.bind, hkind, populate, hpop]

theorem auth_roundtrip (a : Auth) : Auth.ofJson a.scheme a.toJson = .ok a := by
  cases a <;>
    simp [Auth.ofJson, Auth.scheme, Auth.toJson, fieldVals, keyMatch, foldKey, foldChar, intoString, Outcome.bind]

theorem auth_scheme_ne_nil (a : Auth) : strPtr a.scheme = some a.scheme := by
  cases a <;> simp [Auth.scheme, strPtr]

theorem session_roundtrip (U : Str → Option Str) (s : Session)
    (h : (Envelope.session s).wf U = true) :
    ∃ j, (Envelope.session s).encode = .ok j ∧
      decodeTyped U .session j = .ok (.session s) ∧ decodeAny U j = .ok (.session s) := by
  obtain ⟨env, state, encOpts, enc, compOpts, comp, schemeOpts, scheme, auth, reason⟩ := s
  simp only [Envelope.wf, Bool.and_eq_true] at h
  obtain ⟨⟨⟨⟨⟨⟨henv, hstate⟩, he⟩, hc⟩, hs⟩, hreason⟩, hauth⟩ := h
  obtain ⟨hf, hp, ht, hmeta⟩ := env_parts env henv
  have hsome : strPtr state = some state := enum_ne_nil sessionStates (by decide) state hstate
  let r : Raw := Session.toRaw ⟨env, state, encOpts, enc, compOpts, comp, schemeOpts, scheme, auth, reason⟩
  have hr : r.wf U = true :=
    Raw.wf_intro U r hf hp ht hmeta hreason rfl rfl rfl (strPtr_enum _ _ hstate) rfl he hc hs rfl rfl
      (by cases auth with
          | none => rfl
          | some a => cases a <;> rfl)
  obtain ⟨j, hj, hback⟩ := Raw.roundtrip U r hr
  have hpop : Session.ofRaw r = .ok ⟨env, state, encOpts, enc, compOpts, comp, schemeOpts, scheme, auth, reason⟩ := by
    cases auth with
    | none =>
      simp only [Session.ofRaw, r, Session.toRaw, Option.map_none, Outcome.bind, hsome, strPtr_getD]
      rw [env_ofRaw_toRaw env _ rfl rfl rfl rfl rfl]
    | some a =>
      simp only [beq_iff_eq] at hauth
      subst hauth
      simp only [Session.ofRaw, r, Session.toRaw, Option.map_some, auth_scheme_ne_nil, auth_roundtrip,
        Outcome.bind, hsome, strPtr_getD]
      rw [env_ofRaw_toRaw env _ rfl rfl rfl rfl rfl]
      simp [auth_scheme_ne_nil]
  have hkind : r.kind = .ok .session := by simp [Raw.kind, r, Session.toRaw, Env.toRaw, hsome]
  refine ⟨j, ?_, ?_, ?_⟩
  · simp only [Envelope.encode, Envelope.toRaw, bind, Outcome.bind]; exact hj
  · simp only [decodeTyped, hback, Outcome.bind, populate, hpop]
  · simp only [decodeAny, hback, Outcome.bind, hkind, populate, hpop]

/-- **C01**: every well-formed envelope encodes, and both the typed decoder of its kind and the
transport receive path decode that encoding back to the same envelope (same kind, equal fields). -/
theorem envelope_roundtrip (U : Str → Option Str) (e : Envelope) (h : e.wf U = true) :
    ∃ j, e.encode = .ok j ∧ decodeTyped U e.kind j = .ok e ∧ decodeAny U j = .ok e := by
  cases e with
  | message m => exact message_roundtrip U m h
  | notification n => exact notification_roundtrip U n h
  | request c => exact request_roundtrip U c h
  | response c => exact response_roundtrip U c h
  | session s => exact session_roundtrip U s h

/-- Non-vacuity: a message whose content is a container holding a collection of containers of text
(depth 3), with delegation, metadata and non-ASCII text, satisfies the hypothesis. -/
def sampleMessage : Envelope :=
  .message {
    env := { id := cs!"m-1", from_ := ⟨cs!"alice", cs!"example.com", cs!"home"⟩,
             pp := ⟨cs!"bob", cs!"example.com", []⟩, to := ⟨cs!"postmaster", cs!"msging.net", []⟩,
             metadata := some [(cs!"k1", cs!"v1"), (cs!"ключ", cs!"значение")] },
    type := mtContainer,
    content := some (.container mtCollection
      (.collection 2 mtContainer (some [.container mtTextPlain (.text cs!"héllo"),
                                         .container mtTextPlain (.text cs!"wörld")]))) }

example : sampleMessage.wf (fun u => some u) = true := by decide

/-- Non-vacuity: a session envelope with every option list and plain credentials. -/
def sampleSession : Envelope :=
  .session { env := { id := cs!"s1", from_ := ⟨cs!"u", cs!"d", cs!"i"⟩ }, state := cs!"authenticating", encOpts := some [cs!"none", cs!"tls"], enc := cs!"tls", compOpts := some [cs!"none"], comp := cs!"none", schemeOpts := some [cs!"plain", cs!"guest"], scheme := cs!"plain", auth := some (.plain cs!"cGFzcw=="), reason := none }

example : sampleSession.wf (fun u => some u) = true := by decide

end Props.C01
