import LimeModel.Generated
import LimeModel.Pending
import LimeModel.ServerLife
import LimeModel.ClientLife
import LimeModel.Finish
import LimeModel.Timed
/-!
# Structural tie: the variant of each concurrent model is the one the source has on this run

The models of the pending-command table, the server life cycle, the client life cycle, the
finish handshake and the timed operations carry a switch (`fixed`, `interrupts`) between the
behaviour before and after a repair of lime-go. The switch is not written by hand: it is computed
in `LimeModel/*.lean` from Booleans that `harness/cmd/facts/structure.go` reads off the syntax tree
of the functions concerned (is the look-up and the delete one critical section, does the write loop
resume with the rest of its buffer, does the receiver close the transport on an error, …).

The property theorems are proved about the `true` variant. The theorems here say that the code is
that variant. If a change takes the construct away the theorem stops checking (`decide` fails),
the driver runs the other variant as the model, and `./check` searches that model and the
implementation for a failing history.
-/
namespace Props.TieStruct
open LimeModel

/-- C05: `trySubmitCommandResult` looks up and deletes in one critical section and the deferred
clean-up of `processCommand` deletes only its own entry -/
theorem pending_repaired : Pending.repaired = true := by decide

/-- C18: `ListenAndServe` reports the server-closed error by the server's own context -/
theorem serverlife_repaired : ServerLife.repaired = true := by decide

/-- C19: the client's receiver closes the transport when a receive fails and when a session
envelope leaves the client established -/
theorem clientlife_repaired : ClientLife.repaired = ClientLife.Fix.all := by decide

/-- C13: `receiveSession` takes a pending session envelope in the terminal states -/
theorem finish_repaired : Finish.repaired = true := by decide

/-- C13: `sendSession` writes under the send lock, so the session envelope of a finishing or failing
end is one atomic write among the data envelopes (the `callerSend` step of `Finish`) -/
theorem send_session_locked : Generated.sendSessionUnderSendMu = true := by decide

/-- C15: the WebSocket `Send` forces its context's end onto the underlying connection -/
theorem ws_interrupts : Timed.wsInterrupts = true := by decide

/-- C12 (and C04, which rests on it): `ctxConn.Write` resumes a short write with the rest of its
buffer, as `Stream.writeLoop` does with `b.drop k` -/
theorem write_resumes : Generated.writeResumesAfterShortWrite = true := by decide

/-- C16: `Receive` re-arms the read budget by assignment from `ReadLimit` after each envelope, as
`ReadLimit.recv` starts every envelope with the full budget -/
theorem read_budget_rearmed : Generated.readBudgetRearmed = true := by decide

end Props.TieStruct
