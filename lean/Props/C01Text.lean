import LimeModel.Lemmas.Text
/-!
# C01 (text forms): the textual forms of identities, node addresses and media types parse back
to the value that produced them — for every value in the address grammar, with a necessity
counter-example for every hypothesis.
-/
namespace Props.C01
open LimeModel

/-- **C01**: an identity in the address grammar (name and domain free of `@`) parses back from its text form. -/
theorem identity_print_parse (i : Identity) (h : i.wf = true) :
    parseIdentity (printIdentity i) = i := parse_print_identity i h

/-- **C01**: a node address in the grammar (name, domain free of `@` `/`; instance free of `/`)
parses back from its text form. -/
theorem node_print_parse (n : Node) (h : n.wf = true) : parseNode (printNode n) = n :=
  parse_print_node n h

/-- **C01**: a media type in the grammar parses back from its text form. -/
theorem mediatype_print_parse (m : MT) (h : m.wf = true) : parseMT (printMT m) = some m :=
  parse_print_mt m h

/-! Necessity of the grammar hypotheses (each reserved separator really is lossy). -/

example : parseIdentity (printIdentity ⟨['a', '@', 'b'], ['c']⟩) ≠ ⟨['a', '@', 'b'], ['c']⟩ := by decide
example : parseNode (printNode ⟨['a', '/', 'b'], ['c'], []⟩) ≠ ⟨['a', '/', 'b'], ['c'], []⟩ := by decide
example : parseNode (printNode ⟨['a'], ['c'], ['x', '/', 'y']⟩) ≠ ⟨['a'], ['c'], ['x', '/', 'y']⟩ := by decide
example : parseMT (printMT ⟨['a'], ['b', '+', 'c'], []⟩) ≠ some ⟨['a'], ['b', '+', 'c'], []⟩ := by decide
example : parseMT (printMT ⟨[], [], []⟩) = none := by decide
example : parseMT (printMT ⟨[], ['x'], []⟩) = none := by decide

/-! Non-vacuity: values with every part present satisfy the hypotheses. -/
example : (⟨['a', 'l'], ['x', '.', 'y'], ['h', '@', '1']⟩ : Node).wf = true := by decide
example : (⟨"application".toList, "vnd.lime.container".toList, "json".toList⟩ : MT).wf = true := by decide

end Props.C01
