import LimeModel.Lemmas.ServerHs
/-!
# C07 — the server handshake follows the protocol order and fails closed
(and C09's server half: the offer is the intersection, only an offered pair is confirmed)

Every trace of `ServerHs.run` is a word of the protocol automaton `ServerSpec.stepPhase`.
-/
namespace Props.C07
open LimeModel LimeModel.ServerHs LimeModel.ServerSpec

/-- the observable trace so far is accepted and the automaton is in phase `p` -/
abbrev P (c : Cfg) (s : St) (p : Phase) : Prop := phaseOf c (obs s.trace) = some p

theorem sendSession_phase (c : Cfg) (s : St) (e : Ses) (p p' : Phase) (h : P c s p)
    (hs : ∀ enc, stepPhase c p (.emit e enc) = some p') :
    ((sendSession s e).1 = true ∧ P c (sendSession s e).2 p') ∨
    ((sendSession s e).1 = false ∧ P c (sendSession s e).2 p) := by
  rcases sendSession_cases s e with ⟨h1, ht, _⟩ | ⟨h1, ht⟩
  · refine Or.inl ⟨h1, ?_⟩
    simp only [P, ht, obs_emit, phaseOf, h, Option.bind_some, hs]
  · exact Or.inr ⟨h1, by simp only [P, ht]; exact h⟩

def failedSes (c : Cfg) (s : St) : Ses :=
  { id := c.sid, from_ := c.node, to := s.remote, state := .failed, hasReason := true }

theorem isFailed_failedSes (c : Cfg) (s : St) : isFailed c (failedSes c s) = true := by
  simp [isFailed, stamped, failedSes]

/-- `FailSession` in a phase that allows the `failed` envelope -/
theorem failSession_phase (c : Cfg) (s : St) (p : Phase) (h : P c s p)
    (hs : ∀ enc, stepPhase c p (.emit (failedSes c s) enc) = some .term) :
    ((failSession c s).1 = true ∧ P c (failSession c s).2 .term ∧ (failSession c s).2.state = .failed) ∨
    ((failSession c s).1 = false ∧ P c (failSession c s).2 p) := by
  unfold failSession
  split
  · exact Or.inr ⟨rfl, h⟩
  · rcases sendSession_phase c s (failedSes c s) p .term h hs with ⟨h1, h2⟩ | ⟨h1, h2⟩
    · refine Or.inl ?_
      simp only [failedSes] at h1 h2
      simp only [h1, ↓reduceIte, closeT_state, setState_state, and_true, true_and]
      simpa [P] using h2
    · refine Or.inr ?_
      simp only [failedSes] at h1 h2
      simp only [h1, Bool.false_eq_true, ↓reduceIte, true_and]
      simpa [P] using h2

theorem mustFail_failed (c : Cfg) (s : St) (enc : Opt) :
    stepPhase c .mustFail (.emit (failedSes c s) enc) = some .term := by
  simp [stepPhase, isFailed_failedSes]

theorem unknown_failed (c : Cfg) (s : St) (x : Ses) (enc : Opt) :
    stepPhase c (.authed x .unknown) (.emit (failedSes c s) enc) = some .term := by
  simp [stepPhase, isFailed_failedSes]

/-- what `recvSession` does to the phase when an input is awaited -/
theorem recvSession_phase (c : Cfg) (s : St) (p : Phase) (h : P c s p)
    (hp : p = .start ∨ (∃ co eo, p = .awaitSel co eo) ∨ p = .awaitAuth) :
    (∃ x t, (recvSession c s).1 = some x ∧ obs (recvSession c s).2.trace = .recv (.ses x) :: t ∧
        phaseOf c t = some p ∧ P c (recvSession c s).2 ((stepPhase c p (.recv (.ses x))).getD .ended)) ∨
    ((recvSession c s).1 = none ∧ (P c (recvSession c s).2 p ∨ P c (recvSession c s).2 .ended)) := by
  rcases recvSession_cases c s with ⟨x, hx, ht⟩ | ⟨hn, ht | ⟨r, hr, ht⟩⟩
  · refine Or.inl ⟨x, obs s.trace, hx, by rw [ht, obs_recv], h, ?_⟩
    simp only [P, ht, obs_recv, phaseOf, h, Option.bind_some]
    rcases hp with rfl | ⟨co, eo, rfl⟩ | rfl <;> simp [stepPhase] <;> split <;> rfl
  · exact Or.inr ⟨hn, Or.inl (by simp only [P, ht]; exact h)⟩
  · refine Or.inr ⟨hn, Or.inr ?_⟩
    simp only [P, ht, obs_recv, phaseOf, h, Option.bind_some]
    cases r with
    | ses x => exact absurd rfl (hr x)
    | sesGone x => rcases hp with rfl | ⟨co, eo, rfl⟩ | rfl <;> rfl
    | other => rcases hp with rfl | ⟨co, eo, rfl⟩ | rfl <;> rfl
    | fail b => rcases hp with rfl | ⟨co, eo, rfl⟩ | rfl <;> rfl

theorem sendEstablished_state (c : Cfg) (s : St) (n : Node) (h : (sendEstablished c s n).1 = true) :
    (sendEstablished c s n).2.state = .established := by
  unfold sendEstablished at h ⊢
  split
  · rename_i hc; simp [hc] at h
  · split
    · rename_i _ hs; simp [hs] at h
    · simp

theorem sendEstablished_phase (c : Cfg) (s : St) (n : Node) (h : P c s (.registered n)) :
    ((sendEstablished c s n).1 = true ∧ P c (sendEstablished c s n).2 .established) ∨
    ((sendEstablished c s n).1 = false ∧ P c (sendEstablished c s n).2 (.registered n)) := by
  unfold sendEstablished
  split
  · exact Or.inr ⟨rfl, h⟩
  · split
    · exact Or.inr ⟨rfl, h⟩
    · have h' : P c (setRemote (setState s .established) n) (.registered n) := by simpa [P] using h
      exact sendSession_phase c _ _ _ .established h' (by intro enc; simp [stepPhase, isEstablished, stamped])

/-- the entry condition of the authentication loop -/
def LoopIn (c : Cfg) (s : St) (ses : Ses) : Prop :=
  (s.state = .authenticating ∧ ∃ t, obs s.trace = .recv (.ses ses) :: t ∧ phaseOf c t = some .awaitAuth) ∨
  (s.state = .established ∧ P c s .established) ∨ (s.state = .failed ∧ P c s .term)

/-- what a handshake step guarantees when it reports success -/
def Done (c : Cfg) (r : Bool × St) : Prop :=
  ∃ p, P c r.2 p ∧ (r.1 = true → (r.2.state = .established ∧ p = .established) ∨ (r.2.state = .failed ∧ p = .term))

theorem done_of_fail (c : Cfg) (s : St) (p : Phase) (h : P c s p)
    (hs : ∀ enc, stepPhase c p (.emit (failedSes c s) enc) = some .term) : Done c (failSession c s) := by
  rcases failSession_phase c s p h hs with ⟨_, h2, h3⟩ | ⟨h1, h2⟩
  · exact ⟨.term, h2, fun _ => Or.inr ⟨h3, rfl⟩⟩
  · exact ⟨p, h2, fun hh => by rw [h1] at hh; cases hh⟩

theorem done_false (c : Cfg) (s : St) (p : Phase) (h : P c s p) : Done c (false, s) :=
  ⟨p, h, fun hh => by cases hh⟩

theorem authLoop_phase (c : Cfg) (fuel : Nat) : ∀ (s : St) (ses : Ses), LoopIn c s ses →
    Done c (authLoop c s ses fuel) := by
  induction fuel with
  | zero =>
    intro s ses hin
    unfold authLoop
    rcases hin with ⟨_, t, ht, hp⟩ | ⟨_, hp⟩ | ⟨_, hp⟩
    · refine done_false c s ((stepPhase c .awaitAuth (.recv (.ses ses))).getD .ended) ?_
      simp only [P, ht, phaseOf, hp, Option.bind_some, stepPhase]; split <;> rfl
    · exact done_false c s _ hp
    · exact done_false c s _ hp
  | succ n ih =>
    intro s ses hin
    unfold authLoop
    split
    · -- the loop condition is false: established or failed
      rename_i hstate
      rcases hin with ⟨hs, _⟩ | ⟨hs, hp⟩ | ⟨hs, hp⟩
      · exact absurd hs hstate
      · exact ⟨.established, hp, fun _ => Or.inl ⟨hs, rfl⟩⟩
      · exact ⟨.term, hp, fun _ => Or.inr ⟨hs, rfl⟩⟩
    · rename_i hstate
      have hstate' : s.state = .authenticating := by simpa using hstate
      rcases hin with ⟨_, t, ht, hpt⟩ | ⟨hs, _⟩ | ⟨hs, _⟩
      rotate_left
      · rw [hs] at hstate'; cases hstate'
      · rw [hs] at hstate'; cases hstate'
      have hphase : ∀ q, stepPhase c .awaitAuth (.recv (.ses ses)) = some q → P c s q := by
        intro q hq; simp only [P, ht, phaseOf, hpt, Option.bind_some, hq]
      have hmust : validAuth c ses = false → P c s .mustFail := by
        intro hv; exact hphase _ (by simp [stepPhase, hv])
      split
      · rename_i h1
        exact done_of_fail c s .mustFail (hmust (by simp [validAuth, h1])) (mustFail_failed c s)
      rename_i h1
      split
      · rename_i h2
        exact done_of_fail c s .mustFail (hmust (by simp [validAuth, h2])) (mustFail_failed c s)
      rename_i h2
      split
      · rename_i h3
        have h3' : c.schemeOpts.contains ses.scheme = false := by simpa using h3
        exact done_of_fail c s .mustFail (hmust (by simp only [validAuth, h3', Bool.and_false])) (mustFail_failed c s)
      rename_i h3
      have hvalid : validAuth c ses = true := by
        have a1 : ses.state = .authenticating := by simpa using h1
        have a2 : ses.id = c.sid := by simpa using h2
        have a3 : c.schemeOpts.contains ses.scheme = true := by simpa using h3
        simp only [validAuth, a1, a2, a3, decide_true, Bool.and_self]
      have hgot : P c s (.gotAuth ses) := hphase _ (by simp [stepPhase, hvalid])
      have hcall : ∀ out, P c (callAuth s ses out) (.authed ses out) := by
        intro out
        simp only [P, callAuth_trace, obs_auth, phaseOf, hgot, Option.bind_some, stepPhase, and_self, ↓reduceIte]
      split
      · exact done_false c s _ hgot
      · exact done_false c _ _ (hcall .error)
      · -- known role
        simp only
        have hreg : ∀ res, P c (callReg (callAuth s ses .role) ses res)
            (match res with | some n => .registered n | none => .ended) := by
          intro res
          simp only [P, callReg_trace, obs_reg, phaseOf, hcall .role, Option.bind_some, stepPhase, ↓reduceIte]
          cases res <;> rfl
        split
        · exact done_false c _ _ (hreg none)
        · exact done_false c _ _ (hreg none)
        · rename_i nn _
          rcases sendEstablished_phase c _ nn (hreg (some nn)) with ⟨h5, h6⟩ | ⟨h5, h6⟩
          · simp only [h5, ↓reduceIte]
            exact ih _ ses (Or.inr (Or.inl ⟨sendEstablished_state c _ nn h5, h6⟩))
          · simp only [h5, Bool.false_eq_true, ↓reduceIte]
            exact done_false c _ _ h6
      · -- round trip
        rename_i d _
        simp only
        split
        · exact done_false c _ _ (hcall _)
        · rcases sendSession_phase c (callAuth s ses (.roundTrip d))
            { id := c.sid, from_ := c.node, state := .authenticating, auth := some d } _ .awaitAuth (hcall _)
            (by intro enc; simp [stepPhase, isRoundTrip, stamped]) with ⟨h5, h6⟩ | ⟨h5, h6⟩
          · simp only [h5, Bool.not_true, Bool.false_eq_true, ↓reduceIte]
            rcases recvSession_phase c _ .awaitAuth h6 (Or.inr (Or.inr rfl)) with ⟨x, t', hx, hxt, hpt', _⟩ | ⟨hnone, hq⟩
            · simp only [hx]
              refine ih _ x (Or.inl ⟨by simp [hstate'], t', hxt, hpt'⟩)
            · simp only [hnone]
              rcases hq with hq | hq
              · exact done_false c _ _ hq
              · exact done_false c _ _ hq
          · simp only [h5, Bool.not_false, ↓reduceIte]
            exact done_false c _ _ h6
      · -- unknown role
        simp only
        rcases failSession_phase c (callAuth s ses .unknown) _ (hcall .unknown) (unknown_failed c _ ses) with
          ⟨h5, h6, h7⟩ | ⟨h5, h6⟩
        · simp only [h5, ↓reduceIte]
          exact ih _ ses (Or.inr (Or.inr ⟨h7, h6⟩))
        · simp only [h5, Bool.false_eq_true, ↓reduceIte]
          exact done_false c _ _ h6

def authOptsSes (c : Cfg) : Ses :=
  { id := c.sid, from_ := c.node, state := .authenticating, schemeOpts := c.schemeOpts }

theorem authenticate_phase (c : Cfg) (s : St) (p : Phase) (hp : p = .gotNew ∨ p = .confirmed) (h : P c s p) :
    Done c (authenticate c s) := by
  unfold authenticate
  split; · exact done_false c s p h
  split; · exact done_false c s p h
  split; · exact done_false c s p h
  have h' : P c (setState s .authenticating) p := by simpa [P] using h
  have hstep : ∀ enc, stepPhase c p (.emit (authOptsSes c) enc) = some .awaitAuth := by
    intro enc
    rcases hp with rfl | rfl <;> simp [stepPhase, isNegOpts, isAuthOpts, stamped, authOptsSes]
  rcases sendSession_phase c (setState s .authenticating) (authOptsSes c) p .awaitAuth h' hstep with ⟨h5, h6⟩ | ⟨h5, h6⟩
  · simp only [authOptsSes] at h5 h6
    simp only [h5, Bool.not_true, Bool.false_eq_true, ↓reduceIte]
    rcases recvSession_phase c _ .awaitAuth h6 (Or.inr (Or.inr rfl)) with ⟨x, t', hx, hxt, hpt', _⟩ | ⟨hnone, hq⟩
    · simp only [hx]
      exact authLoop_phase c _ _ x (Or.inl ⟨by simp, t', hxt, hpt'⟩)
    · simp only [hnone]
      rcases hq with hq | hq
      · exact done_false c _ _ hq
      · exact done_false c _ _ hq
  · simp only [authOptsSes] at h5 h6
    simp only [h5, Bool.not_false, ↓reduceIte]
    exact done_false c _ _ h6

/-- what a negotiation step guarantees when it reports success -/
def NegDone (c : Cfg) (r : Bool × St) : Prop :=
  ∃ p, P c r.2 p ∧ (r.1 = true → (r.2.state = .negotiating ∧ p = .confirmed) ∨ (r.2.state = .failed ∧ p = .term))

theorem negdone_false (c : Cfg) (s : St) (p : Phase) (h : P c s p) : NegDone c (false, s) :=
  ⟨p, h, fun hh => by cases hh⟩

theorem negdone_of_fail (c : Cfg) (s : St) (p : Phase) (h : P c s p)
    (hs : ∀ enc, stepPhase c p (.emit (failedSes c s) enc) = some .term) : NegDone c (failSession c s) := by
  rcases failSession_phase c s p h hs with ⟨_, h2, h3⟩ | ⟨h1, h2⟩
  · exact ⟨.term, h2, fun _ => Or.inr ⟨h3, rfl⟩⟩
  · exact ⟨p, h2, fun hh => by rw [h1] at hh; cases hh⟩

theorem applyComp_phase (c : Cfg) (s : St) (x : Opt) (p : Phase) (h : P c s p) :
    P c (applyComp s x).2 p ∧ (applyComp s x).2.state = s.state := by
  unfold applyComp; split
  · exact ⟨by simpa [P] using h, rfl⟩
  · exact ⟨h, rfl⟩

theorem applyEnc_phase (c : Cfg) (s : St) (x : Opt) (p : Phase) (h : P c s p) :
    P c (applyEnc s x).2 p ∧ (applyEnc s x).2.state = s.state := by
  unfold applyEnc; split
  · split
    · exact ⟨by simpa [P] using h, rfl⟩
    · exact ⟨by simpa [P] using h, rfl⟩
  · exact ⟨h, rfl⟩

theorem confirm_phase (c : Cfg) (s : St) (a b : Opt) (h : P c s (.gotSel a b)) : NegDone c (confirm c s a b) := by
  unfold confirm
  split; · exact negdone_false c s _ h
  rename_i hg
  simp only [not_or, Bool.not_eq_true, Bool.not_eq_false', ne_eq, Decidable.not_not] at hg
  rcases sendSession_phase c s { id := c.sid, from_ := c.node, state := .negotiating, comp := a, enc := b }
    _ .confirmed h (by intro enc; simp [stepPhase, isNegConf, stamped]) with ⟨h5, h6⟩ | ⟨h5, h6⟩
  · simp only [h5, Bool.not_true, Bool.false_eq_true, ↓reduceIte]
    have h7 := applyComp_phase c _ a .confirmed h6
    split
    · exact negdone_false c _ _ h7.1
    · have h8 := applyEnc_phase c _ b .confirmed h7.1
      refine ⟨.confirmed, h8.1, fun _ => Or.inl ⟨?_, rfl⟩⟩
      rw [h8.2, h7.2, sendSession_state]; exact hg.2
  · simp only [h5, Bool.not_false, ↓reduceIte]
    exact negdone_false c _ _ h6

theorem onSelection_phase (c : Cfg) (s : St) (co eo : List Opt) (x : Ses) (t : List Ev)
    (ht : obs s.trace = .recv (.ses x) :: t) (hpt : phaseOf c t = some (.awaitSel co eo)) :
    NegDone c (onSelection c s co eo x) := by
  have hphase : ∀ q, stepPhase c (.awaitSel co eo) (.recv (.ses x)) = some q → P c s q := by
    intro q hq; simp only [P, ht, phaseOf, hpt, Option.bind_some, hq]
  unfold onSelection
  split
  · rename_i hid
    have : validSelection c co eo x = false := by simp [validSelection, hid]
    exact negdone_of_fail c s .mustFail (hphase _ (by simp [stepPhase, this])) (mustFail_failed c s)
  · rename_i hid
    split
    · rename_i hsel
      have hid' : x.id = c.sid := by simpa using hid
      have : validSelection c co eo x = true := by
        simp only [validSelection, hid', hsel.1, hsel.2.1, hsel.2.2.1, hsel.2.2.2.1, hsel.2.2.2.2, decide_true,
          ne_eq, not_false_eq_true, Bool.and_self]
      exact confirm_phase c s _ _ (hphase _ (by simp [stepPhase, this]))
    · rename_i hsel
      have : validSelection c co eo x = false := by
        simp only [validSelection, Bool.and_eq_false_iff, decide_eq_false_iff_not, ne_eq, Decidable.not_not]
        by_cases a1 : x.state = .negotiating
        · by_cases a2 : x.comp = []
          · exact Or.inl (Or.inl (Or.inl (Or.inr a2)))
          · by_cases a3 : x.enc = []
            · exact Or.inl (Or.inl (Or.inr a3))
            · by_cases a4 : co.contains x.comp = true
              · by_cases a5 : eo.contains x.enc = true
                · exact absurd ⟨a1, a2, a3, a4, a5⟩ hsel
                · exact Or.inr (by simpa using a5)
              · exact Or.inl (Or.inr (by simpa using a4))
        · exact Or.inl (Or.inl (Or.inl (Or.inl (Or.inr a1))))
      exact negdone_of_fail c s .mustFail (hphase _ (by simp [stepPhase, this])) (mustFail_failed c s)

def negOptsSes (c : Cfg) : Ses :=
  { id := c.sid, from_ := c.node, state := .negotiating, compOpts := inter c.compOpts c.supComp, encOpts := inter c.encOpts c.supEnc }

theorem negotiate_phase (c : Cfg) (s : St) (h : P c s .gotNew) :
    NegDone c (negotiate c s (inter c.compOpts c.supComp) (inter c.encOpts c.supEnc)) := by
  unfold negotiate
  split; · exact negdone_false c s _ h
  rename_i hempty
  simp only [not_or, Bool.not_eq_true] at hempty
  split; · exact negdone_false c s _ h
  have h' : P c (setState s .negotiating) .gotNew := by simpa [P] using h
  have hstep : ∀ enc, stepPhase c .gotNew (.emit (negOptsSes c) enc) =
      some (.awaitSel (inter c.compOpts c.supComp) (inter c.encOpts c.supEnc)) := by
    intro enc
    simp [stepPhase, isNegOpts, stamped, negOptsSes, hempty.1, hempty.2]
  rcases sendSession_phase c (setState s .negotiating) (negOptsSes c) .gotNew _ h' hstep with ⟨h5, h6⟩ | ⟨h5, h6⟩
  all_goals simp only [negOptsSes] at h5 h6
  · simp only [h5, Bool.not_true, Bool.false_eq_true, ↓reduceIte]
    rcases recvSession_phase c _ _ h6 (Or.inr (Or.inl ⟨_, _, rfl⟩)) with ⟨x, t', hx, hxt, hpt', _⟩ | ⟨hnone, hq⟩
    · simp only [hx]
      exact onSelection_phase c _ _ _ x t' hxt hpt'
    · simp only [hnone]
      rcases hq with hq | hq
      · exact negdone_false c _ _ hq
      · exact negdone_false c _ _ hq
  · simp only [h5, Bool.not_false, ↓reduceIte]
    exact negdone_false c _ _ h6

theorem newBlock_phase (c : Cfg) (s : St) (h : P c s .gotNew) (hs : s.state = .new) : Done c (newBlock c s) := by
  unfold newBlock
  simp only
  by_cases hneed : needNegotiation s (inter c.compOpts c.supComp) (inter c.encOpts c.supEnc) = true
  · simp only [hneed, ↓reduceIte]
    obtain ⟨p, hp, hok⟩ := negotiate_phase c s h
    generalize negotiate c s _ _ = r at hp hok ⊢
    split
    · exact ⟨p, hp, fun hh => by cases hh⟩
    · rename_i hr
      have hr' : r.1 = true := by simpa using hr
      rcases hok hr' with ⟨hst, rfl⟩ | ⟨hst, rfl⟩
      · simp only [hst, ne_eq, reduceCtorEq, not_false_eq_true, ↓reduceIte]
        exact authenticate_phase c r.2 .confirmed (Or.inr rfl) hp
      · simp only [hst, ne_eq, not_true_eq_false, ↓reduceIte]
        exact ⟨.term, hp, fun _ => Or.inr ⟨hst, rfl⟩⟩
  · simp only [hneed, Bool.false_eq_true, ↓reduceIte, Bool.not_true, hs, ne_eq, reduceCtorEq, not_false_eq_true]
    exact authenticate_phase c s .gotNew (Or.inl rfl) h

/-- what `EstablishSession` guarantees -/
def EstDone (c : Cfg) (r : Bool × St) : Prop :=
  ∃ p, P c r.2 p ∧ (r.1 = true → r.2.state = .established → p = .established) ∧
    (r.1 = true → r.2.state = .failed → p = .term) ∧ (r.1 = true → p ≠ .ended)

theorem estdone_false (c : Cfg) (s : St) (p : Phase) (h : P c s p) : EstDone c (false, s) :=
  ⟨p, h, (fun hh => by cases hh), (fun hh => by cases hh), (fun hh => by cases hh)⟩

theorem estdone_of_done (c : Cfg) (r : Bool × St) (h : Done c r) : EstDone c r := by
  obtain ⟨p, hp, hok⟩ := h
  refine ⟨p, hp, fun h1 h2 => ?_, fun h1 h2 => ?_, fun h1 => ?_⟩
  rotate_left 2
  · rcases hok h1 with ⟨_, rfl⟩ | ⟨_, rfl⟩ <;> (intro hh; cases hh)
  · rcases hok h1 with ⟨_, rfl⟩ | ⟨h3, _⟩
    · rfl
    · rw [h3] at h2; cases h2
  · rcases hok h1 with ⟨h3, _⟩ | ⟨_, rfl⟩
    · rw [h3] at h2; cases h2
    · rfl

/-- `EstablishSession` from a fresh channel -/
theorem establish_phase (c : Cfg) (s : St) (h : s.trace = []) : EstDone c (establish c s) := by
  have h0 : P c s .start := by simp [P, h, phaseOf]
  unfold establish
  split; · exact estdone_false c s _ h0
  split; · exact estdone_false c s _ h0
  rename_i hnew
  have hnew' : s.state = .new := by simpa using hnew
  rcases recvSession_phase c s .start h0 (Or.inl rfl) with ⟨x, t', hx, hxt, hpt', hq⟩ | ⟨hnone, hq⟩
  · simp only [hx]
    have hst : (recvSession c s).2.state = .new := by simp [hnew']
    split
    · -- a first envelope with an id
      rename_i hid
      have hm : P c (recvSession c s).2 .mustFail := by
        have : stepPhase c .start (.recv (.ses x)) = some .mustFail := by simp [stepPhase, hid]
        rw [this] at hq; exact hq
      exact estdone_of_done c _ (done_of_fail c _ .mustFail hm (mustFail_failed c _))
    · rename_i hid
      have hid' : x.id = [] := by simpa using hid
      by_cases hxs : x.state = .new
      · simp only [hxs, ↓reduceIte]
        have hg : P c (recvSession c s).2 .gotNew := by
          have : stepPhase c .start (.recv (.ses x)) = some .gotNew := by simp [stepPhase, hxs, hid']
          rw [this] at hq; exact hq
        have hd := newBlock_phase c _ hg hst
        generalize newBlock c (recvSession c s).2 = r at hd ⊢
        obtain ⟨p, hp, hok⟩ := hd
        split
        · exact estdone_false c _ _ hp
        · rename_i hr
          have hr' : r.1 = true := by simpa using hr
          rcases hok hr' with ⟨h3, rfl⟩ | ⟨h3, rfl⟩
          · simp only [h3, ne_eq, not_true_eq_false, false_and, ↓reduceIte]
            exact ⟨_, hp, (fun _ _ => rfl), (fun _ h2 => by rw [h3] at h2; cases h2), (fun _ hh => by cases hh)⟩
          · simp only [h3, ne_eq, reduceCtorEq, not_false_eq_true, not_true_eq_false, false_and, and_false, ↓reduceIte]
            exact ⟨_, hp, (fun _ h2 => by rw [h3] at h2; cases h2), (fun _ _ => rfl), (fun _ hh => by cases hh)⟩
      · simp only [hxs, ↓reduceIte, Bool.not_true, Bool.false_eq_true, hst, ne_eq, reduceCtorEq, not_false_eq_true,
          true_and]
        have hm : P c (recvSession c s).2 .mustFail := by
          have : stepPhase c .start (.recv (.ses x)) = some .mustFail := by simp [stepPhase, hxs]
          rw [this] at hq; exact hq
        split
        · exact estdone_of_done c _ (done_of_fail c _ .mustFail hm (mustFail_failed c _))
        · exact ⟨_, hm, (fun _ h2 => by rw [hst] at h2; cases h2), (fun _ h2 => by rw [hst] at h2; cases h2), (fun _ hh => by cases hh)⟩
  · simp only [hnone]
    rcases hq with hq | hq
    · exact estdone_false c _ _ hq
    · exact estdone_false c _ _ hq

/-- **C07 (and C09, server half)**: for every configuration, client script, callback outcome
sequence, pattern of failing sends, `SetEncryption` outcome and initial encryption, the observable
trace of the server handshake is a word of the protocol automaton: session envelopes appear in
protocol order, each stamped with the session id and the server's node; the offered options are
exactly the configured options the connection supports; only an offered compression/encryption
pair is confirmed; every violation by the client (first envelope not a fresh `new`, wrong id,
out-of-order state, option or scheme not offered) is answered by a `failed` session carrying a
reason, after which nothing more is emitted; `established` is emitted only after `Authenticate`
returned a known role for the client's latest envelope and `Register` supplied the announced node. -/
theorem emission_order (c : Cfg) (recvs : List Recv) (auths : List AuthOut) (regs : List (Option Node))
    (sendOk : List Bool) (setEncOk : Bool) (enc0 : Opt) :
    orderRev c (obs (run c recvs auths regs sendOk setEncOk enc0).trace.reverse) = true := by
  unfold run orderRev
  simp only [List.reverse_reverse]
  obtain ⟨p, hp, _⟩ := establish_phase c { recvs, auths, regs, sendOk, setEncOk, enc := enc0 } rfl
  rw [hp]; rfl

/-- a successful `EstablishSession` ends either established (phase `established`: the established
envelope was the last thing sent) or failed (phase `term`: the `failed` envelope was) -/
theorem success_is_terminal (c : Cfg) (recvs : List Recv) (auths : List AuthOut) (regs : List (Option Node))
    (sendOk : List Bool) (setEncOk : Bool) (enc0 : Opt) :
    let r := run c recvs auths regs sendOk setEncOk enc0
    (r.ok = true → r.final.state = .established → phaseOf c (obs r.trace.reverse) = some .established) ∧
    (r.ok = true → r.final.state = .failed → phaseOf c (obs r.trace.reverse) = some .term) := by
  unfold run
  simp only [List.reverse_reverse]
  obtain ⟨p, hp, h1, h2, _⟩ := establish_phase c { recvs, auths, regs, sendOk, setEncOk, enc := enc0 } rfl
  exact ⟨fun a b => by rw [hp, h1 a b], fun a b => by rw [hp, h2 a b]⟩

end Props.C07
