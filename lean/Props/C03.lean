import LimeModel.Lemmas.ServerHs
/-!
# C03 — no session is established without successful authentication

For every configuration, every client script of any length, every outcome sequence of the
`Authenticate` and `Register` callbacks, every pattern of failing sends and every `SetEncryption`
outcome: each `established` envelope in the trace of `ServerHs.run` is licensed as `okRev` demands.
-/
namespace Props.C03
open LimeModel LimeModel.ServerHs LimeModel.ServerSpec

abbrev Ok (c : Cfg) (s : St) : Prop := okRev c (obs s.trace) = true

theorem sendSession_ok (c : Cfg) (s : St) (e : Ses) (he : e.state ≠ .established) (h : Ok c s) :
    Ok c (sendSession s e).2 := by
  rcases sendSession_cases s e with ⟨_, ht, _⟩ | ⟨_, ht⟩
  · simp only [Ok, ht, obs_emit, okRev, he, ↓reduceIte, Bool.true_and]; exact h
  · simp only [Ok, ht]; exact h

theorem setState_ok (c : Cfg) (s : St) (x : SState) (h : Ok c s) : Ok c (setState s x) := by
  simpa [Ok] using h

theorem closeT_ok (c : Cfg) (s : St) (h : Ok c s) : Ok c (closeT s) := by simpa [Ok] using h

theorem failSession_ok (c : Cfg) (s : St) (h : Ok c s) : Ok c (failSession c s).2 := by
  unfold failSession
  split
  · exact h
  · have h1 := sendSession_ok c s { id := c.sid, from_ := c.node, to := s.remote, state := .failed, hasReason := true }
      (by simp) h
    have h2 := setState_ok c _ .failed h1
    exact closeT_ok c _ h2

theorem recvSession_ok (c : Cfg) (s : St) (h : Ok c s) : Ok c (recvSession c s).2 := by
  rcases recvSession_cases c s with ⟨x, _, ht⟩ | ⟨_, ht | ⟨r, _, ht⟩⟩
  · simp only [Ok, ht, obs_recv, okRev]; exact h
  · simp only [Ok, ht]; exact h
  · simp only [Ok, ht, obs_recv, okRev]; exact h

/-- the licensing shape: the newest observable events are the register call, the authenticate
call and the client envelope they were made for -/
theorem sendEstablished_ok (c : Cfg) (s : St) (ses : Ses) (n : Node) (t : List Ev) (e : Opt)
    (hsch : c.schemeOpts.contains ses.scheme = true) (hid : ses.id = c.sid) (hst : ses.state = .authenticating)
    (ht : obs s.trace = .regCall ses.from_ (some n) ::
      .authCall ses.from_.name ses.from_.domain ses.scheme ses.auth e .role :: .recv (.ses ses) :: t)
    (h : Ok c s) : Ok c (sendEstablished c s n).2 := by
  have ht' : okRev c t = true := by
    have := h; simp only [Ok, ht, okRev] at this; exact this
  unfold sendEstablished
  split
  · exact h
  · split
    · exact h
    · rcases sendSession_cases (setRemote (setState s .established) n)
        { id := c.sid, from_ := c.node, to := n, state := .established } with ⟨_, hq, _⟩ | ⟨_, hq⟩
      · simp only [Ok, hq, obs_emit, setRemote_trace, setState_trace, obs_setState, ht, okRev, ↓reduceIte,
          decide_true, Bool.true_and, hsch, hid, hst, and_self, ht', Bool.and_self]
      · simp only [Ok, hq, setRemote_trace, setState_trace, obs_setState]; exact h

theorem sendEstablished_state (c : Cfg) (s : St) (n : Node) (h : (sendEstablished c s n).1 = true) :
    (sendEstablished c s n).2.state = .established := by
  unfold sendEstablished at h ⊢
  split
  · rename_i hc; simp [hc] at h
  · split
    · rename_i _ hs; simp [hs] at h
    · simp

theorem authLoop_ok (c : Cfg) (fuel : Nat) : ∀ (s : St) (ses : Ses), Ok c s →
    (s.state = .authenticating → ∃ t, obs s.trace = .recv (.ses ses) :: t) →
    Ok c (authLoop c s ses fuel).2 := by
  induction fuel with
  | zero => intro s ses h _; simpa [authLoop] using h
  | succ n ih =>
    intro s ses h hshape
    unfold authLoop
    split; · exact h
    rename_i hstate
    have hstate' : s.state = .authenticating := by simpa using hstate
    obtain ⟨t, ht⟩ := hshape hstate'
    split; · exact failSession_ok c s h
    rename_i hses
    split; · exact failSession_ok c s h
    rename_i hid
    split; · exact failSession_ok c s h
    rename_i hsch
    have hsch' : c.schemeOpts.contains ses.scheme = true := by simpa using hsch
    have hid' : ses.id = c.sid := by simpa using hid
    have hses' : ses.state = .authenticating := by simpa using hses
    split
    · exact h
    · simpa [Ok, okRev] using h
    · -- known role
      simp only
      split
      · simpa [Ok, okRev] using h
      · simpa [Ok, okRev] using h
      · rename_i nn _
        have hb := sendEstablished_ok c (callReg (callAuth s ses .role) ses (some nn)) ses nn t s.enc hsch' hid' hses'
          (by simp [ht]) (by simpa [Ok, okRev] using h)
        split
        · rename_i hsent
          refine ih _ ses hb ?_
          intro hcontra
          have := sendEstablished_state c _ nn hsent
          rw [this] at hcontra; cases hcontra
        · exact hb
    · -- round trip
      rename_i d _
      simp only
      split
      · simpa [Ok, okRev] using h
      · have h0 : Ok c (callAuth s ses (.roundTrip d)) := by simpa [Ok, okRev] using h
        have h1 := sendSession_ok c (callAuth s ses (.roundTrip d))
          { id := c.sid, from_ := c.node, state := .authenticating, auth := some d } (by simp) h0
        split
        · exact h1
        · have h2 := recvSession_ok c _ h1
          split
          · exact h2
          · rename_i ses' hrecv
            refine ih _ ses' h2 ?_
            intro _
            rcases recvSession_cases c (sendSession (callAuth s ses (.roundTrip d))
              { id := c.sid, from_ := c.node, state := .authenticating, auth := some d }).2 with ⟨x, hx, hxt⟩ | ⟨hnone, _⟩
            · rw [hrecv] at hx; cases hx
              exact ⟨_, by rw [hxt, obs_recv]⟩
            · rw [hrecv] at hnone; cases hnone
    · -- unknown role
      simp only
      have h1 := failSession_ok c (callAuth s ses .unknown) (by simpa [Ok, okRev] using h)
      split
      · rename_i hf
        refine ih _ ses h1 ?_
        intro hcontra
        have := failSession_state c _ hf
        rw [this] at hcontra; cases hcontra
      · exact h1

theorem authenticate_ok (c : Cfg) (s : St) (h : Ok c s) : Ok c (authenticate c s).2 := by
  unfold authenticate
  split; · exact h
  split; · exact h
  split; · exact h
  have h1 := sendSession_ok c (setState s .authenticating)
    { id := c.sid, from_ := c.node, state := .authenticating, schemeOpts := c.schemeOpts } (by simp) (setState_ok c s _ h)
  simp only
  split
  · exact h1
  · have h2 := recvSession_ok c _ h1
    split
    · exact h2
    · rename_i ses hrecv
      refine authLoop_ok c _ _ ses h2 ?_
      intro _
      rcases recvSession_cases c (sendSession (setState s .authenticating)
        { id := c.sid, from_ := c.node, state := .authenticating, schemeOpts := c.schemeOpts }).2 with ⟨x, hx, hxt⟩ | ⟨hnone, _⟩
      · rw [hrecv] at hx; cases hx
        exact ⟨_, by rw [hxt, obs_recv]⟩
      · rw [hrecv] at hnone; cases hnone

theorem applyEnc_ok (c : Cfg) (s : St) (e : Opt) (h : Ok c s) : Ok c (applyEnc s e).2 := by
  unfold applyEnc; split
  · split <;> simpa [Ok] using h
  · exact h

theorem applyComp_ok (c : Cfg) (s : St) (e : Opt) (h : Ok c s) : Ok c (applyComp s e).2 := by
  unfold applyComp; split
  · simpa [Ok] using h
  · exact h

theorem confirm_ok (c : Cfg) (s : St) (a b : Opt) (h : Ok c s) : Ok c (confirm c s a b).2 := by
  unfold confirm
  split; · exact h
  have h3 := sendSession_ok c s { id := c.sid, from_ := c.node, state := .negotiating, comp := a, enc := b } (by simp) h
  simp only
  split
  · exact h3
  · have h4 := applyComp_ok c _ a h3
    split
    · exact h4
    · exact applyEnc_ok c _ _ h4

theorem onSelection_ok (c : Cfg) (s : St) (co eo ses) (h : Ok c s) : Ok c (onSelection c s co eo ses).2 := by
  unfold onSelection
  split; · exact failSession_ok c _ h
  split
  · exact confirm_ok c _ _ _ h
  · exact failSession_ok c _ h

theorem negotiate_ok (c : Cfg) (s : St) (co eo : List Opt) (h : Ok c s) : Ok c (negotiate c s co eo).2 := by
  unfold negotiate
  split; · exact h
  split; · exact h
  have h1 := sendSession_ok c (setState s .negotiating)
    { id := c.sid, from_ := c.node, state := .negotiating, compOpts := co, encOpts := eo } (by simp) (setState_ok c s _ h)
  simp only
  split
  · exact h1
  · have h2 := recvSession_ok c _ h1
    split
    · exact h2
    · exact onSelection_ok c _ _ _ _ h2

theorem newBlock_ok (c : Cfg) (s : St) (h : Ok c s) : Ok c (newBlock c s).2 := by
  unfold newBlock
  simp only
  have hr : Ok c (if needNegotiation s (inter c.compOpts c.supComp) (inter c.encOpts c.supEnc) = true
      then negotiate c s (inter c.compOpts c.supComp) (inter c.encOpts c.supEnc) else (true, s)).2 := by
    split
    · exact negotiate_ok c s _ _ h
    · exact h
  generalize (if needNegotiation s (inter c.compOpts c.supComp) (inter c.encOpts c.supEnc) = true
      then negotiate c s (inter c.compOpts c.supComp) (inter c.encOpts c.supEnc) else (true, s)) = r at hr ⊢
  split
  · exact hr
  · split
    · exact authenticate_ok c _ hr
    · exact hr

theorem establish_ok (c : Cfg) (s : St) (h : Ok c s) : Ok c (establish c s).2 := by
  unfold establish
  split; · exact h
  split; · exact h
  have hq := recvSession_ok c s h
  simp only
  split
  · exact hq
  · rename_i ses _
    split
    · exact failSession_ok c _ hq
    · have hr : Ok c (if ses.state = .new then newBlock c (recvSession c s).2 else (true, (recvSession c s).2)).2 := by
        split
        · exact newBlock_ok c _ hq
        · exact hq
      generalize (if ses.state = .new then newBlock c (recvSession c s).2 else (true, (recvSession c s).2)) = r at hr ⊢
      split
      · exact hr
      · split
        · exact failSession_ok c _ hr
        · exact hr

/-- **C03**: in every run — any configuration, client script, callback outcomes, send failures,
`SetEncryption` outcome, initial encryption — every `established` envelope is licensed: the
`Authenticate` callback returned a known role for exactly the identity, scheme and credentials of
the client's latest envelope, that scheme is offered, that envelope bears the session id, the
`Register` callback then supplied the node, and the established envelope announces exactly that
node under the session id; nothing lies between the three events (no riding on a rejected attempt). -/
theorem established_requires_auth (c : Cfg) (recvs : List Recv) (auths : List AuthOut)
    (regs : List (Option Node)) (sendOk : List Bool) (setEncOk : Bool) (enc0 : Opt) :
    okRev c (obs (run c recvs auths regs sendOk setEncOk enc0).trace.reverse) = true := by
  unfold run
  simp only [List.reverse_reverse]
  exact establish_ok c _ (by simp [Ok, okRev])

/-- Non-vacuity: a cooperative guest client is established, and its trace contains the licensed
`established` envelope. -/
def demoCfg : Cfg :=
  { sid := cs!"S", node := ⟨cs!"postmaster", cs!"d", cs!"s"⟩, compOpts := [cs!"none"], encOpts := [cs!"none"], schemeOpts := [cs!"guest"], supComp := [cs!"none"], supEnc := [cs!"none", cs!"tls"] }

def demoRun : Result :=
  run demoCfg [.ses { state := .new }, .ses { id := cs!"S", from_ := ⟨cs!"u", cs!"d", cs!"i"⟩, state := .authenticating, scheme := cs!"guest", auth := some .guest }] [.role] [some ⟨cs!"u", cs!"d", cs!"x"⟩] [] true

example : demoRun.ok = true ∧ demoRun.final.state = .established ∧
    demoRun.trace.any (fun e => match e with | .emit s _ => s.state == .established | _ => false) = true := by
  decide

end Props.C03
