import Props.C08
/-!
# C08 (the client's state never moves backwards)

In every run of the client handshake — whatever the server sends, regressions included — the sequence
of values given to `setState` is non-decreasing in the `SessionState.Step` order and the channel's
state is at least every value ever set: the guard of `setStateWLock` (a panic before the repair) is
never reached with a regressing value, and a client that has seen `established` / `finished` /
`failed` never shows an earlier state again.
-/
namespace Props.C08
open LimeModel LimeModel.ClientHs LimeModel.ClientSpec
open LimeModel.ServerHs (SState Ses Recv Opt)

/-- newest-first trace: every `setState` is at least every earlier one -/
def cliMonoRev : List Ev → Bool
  | [] => true
  | .setState x :: rest =>
    rest.all (fun e => match e with | .setState y => decide (y.step ≤ x.step) | _ => true) && cliMonoRev rest
  | _ :: rest => cliMonoRev rest

def Mono (s : St) : Prop :=
  cliMonoRev s.trace = true ∧ ∀ y, Ev.setState y ∈ s.trace → y.step ≤ s.state.step

theorem mono_frame (s s' : St) (ht : s'.trace = s.trace) (hs : s'.state = s.state) (h : Mono s) : Mono s' := by
  unfold Mono at *; rw [ht, hs]; exact h

theorem mono_log (s : St) (e : Ev) (he : ∀ y, e ≠ .setState y) (h : Mono s) : Mono (s.log e) := by
  refine ⟨?_, ?_⟩
  · have h1 := h.1
    cases e <;> simp_all [cliMonoRev, St.log]
  · intro y hy
    simp only [St.log, List.mem_cons] at hy
    rcases hy with rfl | hy
    · exact absurd rfl (he y)
    · exact h.2 y hy

theorem mono_setState (s : St) (x : SState) (hx : s.state.step ≤ x.step) (h : Mono s) : Mono (setState s x) := by
  refine ⟨?_, ?_⟩
  · simp only [setState, St.log, cliMonoRev, Bool.and_eq_true, List.all_eq_true]
    refine ⟨?_, h.1⟩
    intro e he
    cases e with
    | setState y => have := h.2 y he; simp; omega
    | _ => simp
  · intro y hy
    simp only [setState, St.log, List.mem_cons, Ev.setState.injEq] at hy
    have hst : (setState s x).state = x := rfl
    rw [hst]
    rcases hy with rfl | hy
    · exact Nat.le_refl _
    · have := h.2 y hy; omega

theorem markEof_mono (c : Cfg) (s : St) (h : Mono s) : Mono (markEof c s) :=
  mono_frame _ _ (markEof_trace c s) (by unfold markEof; split <;> rfl) h

theorem sendSession_mono (s : St) (e : Ses) (h : Mono s) : Mono (sendSession s e).2 := by
  unfold sendSession
  split
  · exact h
  · split
    · exact h
    · split
      · exact mono_log s _ (by intro y hh; cases hh) h
      · exact mono_log { s with sendOk := _ } _ (by intro y hh; cases hh) (mono_frame s _ rfl rfl h)
      · exact mono_frame s _ rfl rfl h

theorem nextItem_mono (c : Cfg) (s : St) (h : Mono s) : Mono (nextItem c s).2 := by
  unfold nextItem
  split
  · exact markEof_mono c s h
  · exact markEof_mono c _ (mono_log { s with recvs := _ } _ (by intro y hh; cases hh) (mono_frame s _ rfl rfl h))
  · exact mono_log { s with recvs := _, connected := false } _ (by intro y hh; cases hh) (mono_frame s _ rfl rfl h)
  · exact mono_log { s with recvs := _ } _ (by intro y hh; cases hh) (mono_frame s _ rfl rfl h)

theorem stopsEstablished_mono (s : St) (h : Mono s) : Mono (stopsEstablished s) :=
  mono_frame _ _ (by simp) (by simp) h

theorem recvViaReceiver_mono (c : Cfg) (fuel : Nat) : ∀ s, Mono s → Mono (recvViaReceiver c fuel s).2 := by
  induction fuel with
  | zero => intro s h; exact h
  | succ n ih =>
    intro s h
    have hn := nextItem_mono c s h
    unfold recvViaReceiver
    simp only
    split
    · exact hn
    · split
      · rename_i hacc
        exact stopsEstablished_mono _ (mono_setState _ _ (by simpa [stateAccepted] using hacc) hn)
      · split
        · exact hn
        · exact stopsEstablished_mono _ hn
    · exact ih _ hn
    · exact mono_frame _ _ rfl rfl hn
    · exact hn

theorem receiveSession_mono (c : Cfg) (s : St) (h : Mono s) : Mono (receiveSession c s).2 := by
  unfold receiveSession
  split
  · exact h
  · split
    · exact recvViaReceiver_mono c _ s h
    · split
      · exact h
      · have hn := nextItem_mono c s h
        simp only
        split <;> exact hn

theorem adopt_mono (s : St) (ses : Ses) (hacc : stateAccepted s ses.state = true) (h : Mono s) : Mono (adopt s ses) := by
  have hx : s.state.step ≤ ses.state.step := by simpa [stateAccepted] using hacc
  unfold adopt
  split
  · exact mono_setState { s with localNode := ses.to, remoteNode := ses.from_, sid := ses.id } _ hx (mono_frame s _ rfl rfl h)
  · exact mono_setState { s with sid := ses.id } _ hx (mono_frame s _ rfl rfl h)

theorem closeT_mono (s : St) (h : Mono s) : Mono (closeT s) :=
  mono_log { s with connected := false } _ (by intro y hh; cases hh) (mono_frame s _ rfl rfl h)

theorem finishRecv_mono (s : St) (ses : Ses) (h : Mono s) : Mono (finishRecv s ses).2 := by
  unfold finishRecv
  split
  · split
    · exact closeT_mono s h
    · exact h
  · exact h

theorem recvFromServer_mono (c : Cfg) (s : St) (h : Mono s) : Mono (recvFromServer c s).2 := by
  have hr := receiveSession_mono c s h
  unfold recvFromServer
  simp only
  split
  · exact hr
  · exact hr
  · split
    · unfold refuse; split <;> exact hr
    · rename_i hacc
      exact finishRecv_mono _ _ (adopt_mono _ _ (by simpa using hacc) hr)

theorem authLoop_mono (c : Cfg) (fuel : Nat) : ∀ s ses rt, Mono s → Mono (authLoop c fuel s ses rt).2 := by
  induction fuel with
  | zero => intro s ses rt h; exact h
  | succ n ih =>
    intro s ses rt h
    unfold authLoop
    split
    · exact h
    · have h1 : Mono (({ s with auths := s.auths.tail } : St).log (.authCall ses.schemeOpts rt)) :=
        mono_log _ _ (by intro y hh; cases hh) (mono_frame s _ rfl rfl h)
      simp only
      split
      · exact h1
      · have h2 := sendSession_mono _ { id := s.sid, from_ := ⟨c.identity.name, c.identity.domain, c.inst⟩, state := .authenticating, scheme := (s.auths.headD .guest).scheme, auth := some (s.auths.headD .guest) } h1
        split
        · exact h2
        · have h3 := recvFromServer_mono c _ h2
          split
          · exact h3
          · exact h3
          · exact ih _ _ _ h3

theorem applyEnc_mono (s : St) (e : Opt) (h : Mono s) : Mono (applyEnc s e).2 := by
  unfold applyEnc
  split
  · split
    · exact mono_log { s with enc := e } _ (by intro y hh; cases hh) (mono_frame s _ rfl rfl h)
    · exact mono_log s _ (by intro y hh; cases hh) h
  · exact h

theorem applyComp_mono (s : St) (x : Opt) (h : Mono s) : Mono (applyComp s x).2 := by
  unfold applyComp
  split
  · exact mono_log s _ (by intro y hh; cases hh) h
  · exact h

theorem applyConfirmed_mono (s : St) (conf : Ses) (h : Mono s) : Mono (applyConfirmed s conf).2 := by
  unfold applyConfirmed
  split
  · have h1 := mono_log s (.confirmed conf.comp conf.enc) (by intro y hh; cases hh) h
    have h2 := applyComp_mono _ conf.comp h1
    simp only
    split
    · exact h2
    · exact applyEnc_mono _ _ h2
  · exact h

theorem negotiateBlock_mono (c : Cfg) (s : St) (ses : Ses) (h : Mono s) : Mono (negotiateBlock c s ses).2 := by
  have h1 := mono_log s (.selCall ses.compOpts ses.encOpts) (by intro y hh; cases hh) h
  unfold negotiateBlock
  simp only
  split
  · exact h1
  · have h2 := sendSession_mono (s.log (.selCall ses.compOpts ses.encOpts)) { id := s.sid, state := .negotiating, comp := c.compSel ses.compOpts, enc := c.encSel ses.encOpts } h1
    split
    · exact h2
    · have h3 := recvFromServer_mono c _ h2
      split
      · exact h3
      · exact h3
      · rename_i conf _
        have h4 := applyConfirmed_mono _ conf h3
        split
        · exact h4
        · exact recvFromServer_mono c _ h4

theorem establish_mono (c : Cfg) (s : St) (h : Mono s) : Mono (establish c s).2 := by
  unfold establish
  split
  · exact h
  · have h2 := sendSession_mono s { state := .new } h
    simp only
    split
    · exact h2
    · have h3 := recvFromServer_mono c _ h2
      split
      · exact h3
      · exact h3
      · rename_i ses _
        have h4 : Mono (if ses.state = .negotiating then negotiateBlock c (recvFromServer c (sendSession s { state := .new }).2).2 ses
            else (RecvRes.got ses, (recvFromServer c (sendSession s { state := .new }).2).2)).2 := by
          split
          · exact negotiateBlock_mono c _ _ h3
          · exact h3
        split
        · exact h4
        · exact h4
        · exact authLoop_mono c _ _ _ _ h4

/-- **C08 (no regression)**: in every run the values given to `setState` never decrease, and the
state the channel ends in is at least every state it was ever given. -/
theorem client_state_monotone (c : Cfg) (recvs : List Recv) (auths : List Auth) (sendOk : List Bool)
    (setEncOk : Bool) (enc0 : Opt) :
    let r := run c recvs auths sendOk setEncOk enc0
    cliMonoRev r.trace.reverse = true ∧ ∀ y, Ev.setState y ∈ r.trace → y.step ≤ r.final.state.step := by
  unfold run
  simp only [List.reverse_reverse, List.mem_reverse]
  exact establish_mono c { recvs, auths, sendOk, setEncOk, enc := enc0 } ⟨rfl, by intro y hy; cases hy⟩

/-- non-vacuity: a regressing server (authenticating, then negotiating) is refused and the state stays -/
example : (run demoCfg [.ses { id := cs!"S", state := .authenticating, schemeOpts := [cs!"guest"] },
    .ses { id := cs!"S", state := .negotiating }] [.guest] [] true).final.state = .authenticating := by decide

end Props.C08
