import Props.C16
/-!
# C16 across the receives of one connection: "no matter how much data preceded it"

`Props/C16.lean` proves the statement for one `Receive` that starts with the full budget. Here the
budget is a field of the connection that is renewed according to a policy, and the statement is about
whole streams in which documents may be taken off the stream and refused.
-/
namespace Props.C16
open LimeModel.ReadLimit

/-- what a successful receive leaves: the frame is gone from buffer + stream, nothing else -/
theorem recvLoop_conserves (f : Nat) : ∀ fuel s N reads used s' c,
    recvLoop f fuel s N reads used = .ok s' c → s'.buf + s'.avail + f = s.buf + s.avail := by
  intro fuel
  induction fuel with
  | zero => intro s N reads used s' c h; simp [recvLoop] at h
  | succ n ih =>
    intro s N reads used s' c h
    simp only [recvLoop] at h
    split at h
    · rename_i hf; cases h; simp; omega
    · split at h
      · cases h
      · split at h
        · cases h
        · rename_i hN ha
          have hk := k_bounds (reads.headD 1) N s.avail hN ha
          have := ih _ _ _ _ _ _ h
          simp at this
          omega

/-- the invariant of a healthy connection under the repaired policy -/
def Healthy (L : Nat) (c : Conn) (docs : List (Nat × DocKind × List Nat)) : Prop :=
  c.N = L ∧ (docs.map (·.1)).sum ≤ c.rs.buf + c.rs.avail

/-- **C16 (any position, any predecessors)**: under the policy that renews the budget for every value
taken off the stream, on a connection that carries the whole stream, every document within the limit
— envelope or refused — is taken off the stream, whatever the reads do. In particular an envelope
within the limit is accepted after any amount of data, accepted or refused. -/
theorem stream_all_taken (L : Nat) : ∀ (docs : List (Nat × DocKind × List Nat)) (c : Conn),
    Healthy L c docs → (∀ d ∈ docs, d.1 ≤ L) → ∀ b ∈ runC .onValue L c docs, b = true := by
  intro docs
  induction docs with
  | nil => intro c _ _ b hb; simp [runC] at hb
  | cons d rest ih =>
    intro c hc hl b hb
    obtain ⟨f, k, reads⟩ := d
    obtain ⟨hN, hsum⟩ := hc
    have hf : f ≤ L := hl (f, k, reads) (List.mem_cons_self ..)
    simp only [List.map_cons, List.sum_cons] at hsum
    obtain ⟨s', used, hok⟩ := recvLoop_accepts f (f + 1) c.rs c.N reads 0 (by omega) (by omega) (by omega)
    have hcons := recvLoop_conserves f _ _ _ _ _ _ _ hok
    simp only [runC, recvC, hok, Policy.renews, if_true] at hb
    cases hb with
    | head => rfl
    | tail _ hb' =>
      refine ih { rs := s', N := L } ⟨rfl, ?_⟩ (fun d hd => hl d (List.mem_cons_of_mem _ hd)) b hb'
      simp only
      omega

/-- the code as it was before the repair: two refused documents of 40 bytes use up a 64-byte budget
and the 10-byte envelope behind them is refused -/
theorem unrepaired_refuses_small_envelope :
    runC .onDecodeOk 64 { rs := { buf := 0, avail := 90 }, N := 64 }
      [(40, .refusedByDecode, [40]), (40, .refusedByDecode, [40]), (10, .envelope, [10])] = [true, false, false] := by
  decide

/-- the same stream under the repaired policy -/
example : runC .onValue 64 { rs := { buf := 0, avail := 90 }, N := 64 }
      [(40, .refusedByDecode, [40]), (40, .refusedByDecode, [40]), (10, .envelope, [10])] = [true, true, true] := by
  decide

/-- and a policy that renews only for envelopes fails on documents refused after decoding as well -/
example : runC .onEnvelope 64 { rs := { buf := 0, avail := 90 }, N := 64 }
      [(40, .refusedByConvert, [40]), (40, .refusedByConvert, [40]), (10, .envelope, [10])] = [true, false, false] := by
  decide

/-- the policy read from the source on this run is the repaired one -/
theorem policy_tie : policy = .onValue := by decide

/-- the statement for the policy the source has -/
theorem stream_all_taken_code (L : Nat) (docs : List (Nat × DocKind × List Nat)) (c : Conn)
    (hc : Healthy L c docs) (hl : ∀ d ∈ docs, d.1 ≤ L) : ∀ b ∈ runC policy L c docs, b = true := by
  rw [policy_tie]; exact stream_all_taken L docs c hc hl

end Props.C16
