import LimeModel.Lemmas.ServerHs
import LimeModel.ClientSpec
import Props.C07
import Props.C08
/-!
# C09 — only offered transport options are negotiated and both ends apply them

* server, offer and confirmation: `Props.C07.emission_order` (the automaton's `isNegOpts` demands
  that the offer is exactly `configured ∩ supported`, `validSelection` that only an offered,
  non-empty pair is confirmed, anything else leads to `failed`);
* server applies the confirmed encryption before any authentication data: `server_applies_before_auth`;
* client applies it before it sends credentials: `client_applies_before_credentials`;
* both ends agree: `ends_agree`, for any pair of runs linked by the connection (the client's
  confirmation is the envelope the server emitted).
-/
namespace Props.C09
open LimeModel

section Server
open LimeModel.ServerHs LimeModel.ServerSpec

/-- invariant of the authentication stage: checker fine, transport on the confirmed encryption -/
def A (s : St) : Prop := appliedRev s.trace = true ∧ ∀ b, confirmedEnc s.trace = some b → s.enc = b

theorem A_log (s : St) (e : Ev) (h : A s) (he : ∀ x y, e ≠ .emit x y) (ha : ∀ a b c d f g, e ≠ .authCall a b c d f g) :
    A (s.log e) := by
  refine ⟨?_, ?_⟩
  · cases e with
    | emit x y => exact absurd rfl (he x y)
    | authCall a b c d f g => exact absurd rfl (ha a b c d f g)
    | _ => simpa [appliedRev] using h.1
  · intro b hb
    have : confirmedEnc (e :: s.trace) = confirmedEnc s.trace := by
      cases e with
      | emit x y => exact absurd rfl (he x y)
      | _ => rfl
    simp only [log_trace, this] at hb
    exact h.2 b hb

theorem A_emit (s : St) (e : Ses) (h : A s) (hs : e.state ≠ .negotiating) : A (s.log (.emit e s.enc)) := by
  refine ⟨?_, ?_⟩
  · simp only [log_trace, appliedRev, h.1, Bool.and_true]
    split
    · cases hc : confirmedEnc s.trace with
      | none => rfl
      | some b => simp [h.2 b hc]
    · rfl
  · intro b hb
    simp only [log_trace, confirmedEnc, hs, false_and, ↓reduceIte] at hb
    exact h.2 b hb

theorem A_same (s s' : St) (ht : s'.trace = s.trace) (he : s'.enc = s.enc) (h : A s) : A s' := by
  unfold A at *; rw [ht, he]; exact h

theorem sendSession_A (s : St) (e : Ses) (h : A s) (hs : e.state ≠ .negotiating) : A (sendSession s e).2 := by
  rcases sendSession_cases s e with ⟨_, ht, _⟩ | ⟨_, ht⟩
  · exact A_same (s.log (.emit e s.enc)) _ (by rw [ht]; rfl) (by simp) (A_emit s e h hs)
  · exact A_same s _ ht (by simp) h

theorem setState_A (s : St) (x : SState) (h : A s) : A (setState s x) :=
  A_same (s.log (.setState x)) _ rfl rfl (A_log s _ h (by intros; simp) (by intros; simp))

theorem recvSession_A (c : Cfg) (s : St) (h : A s) : A (recvSession c s).2 := by
  rcases recvSession_cases c s with ⟨x, _, ht⟩ | ⟨_, ht | ⟨r, _, ht⟩⟩
  · exact A_same (s.log (.recv (.ses x))) _ (by rw [ht]; rfl) (by simp) (A_log s _ h (by intros; simp) (by intros; simp))
  · exact A_same s _ ht (by simp) h
  · exact A_same (s.log (.recv r)) _ (by rw [ht]; rfl) (by simp) (A_log s _ h (by intros; simp) (by intros; simp))

theorem failSession_A (c : Cfg) (s : St) (h : A s) : A (failSession c s).2 := by
  unfold failSession
  split
  · exact h
  · have h1 := sendSession_A s { id := c.sid, from_ := c.node, to := s.remote, state := .failed, hasReason := true } h (by simp)
    have h2 := setState_A _ .failed h1
    exact A_same ((setState _ .failed).log .close) _ rfl rfl (A_log _ _ h2 (by intros; simp) (by intros; simp))

theorem callAuth_A (s : St) (ses : Ses) (out : AuthOut) (h : A s) : A (callAuth s ses out) := by
  refine ⟨?_, ?_⟩
  · simp only [callAuth_trace, appliedRev, h.1, Bool.and_true]
    cases hc : confirmedEnc s.trace with
    | none => rfl
    | some b => simp [h.2 b hc]
  · intro b hb
    simp only [callAuth_trace, confirmedEnc] at hb
    simpa using h.2 b hb

theorem callReg_A (s : St) (ses : Ses) (res : Option Node) (h : A s) : A (callReg s ses res) :=
  A_same (s.log (.regCall ses.from_ res)) _ rfl rfl (A_log s _ h (by intros; simp) (by intros; simp))

theorem sendEstablished_A (c : Cfg) (s : St) (n : Node) (h : A s) : A (sendEstablished c s n).2 := by
  unfold sendEstablished
  split
  · exact h
  · split
    · exact h
    · exact sendSession_A _ _ (A_same (setState s .established) _ rfl rfl (setState_A s _ h)) (by simp)

theorem authLoop_A (c : Cfg) (fuel : Nat) : ∀ (s : St) (ses : Ses), A s → A (authLoop c s ses fuel).2 := by
  induction fuel with
  | zero => intro s ses h; simpa [authLoop] using h
  | succ n ih =>
    intro s ses h
    unfold authLoop
    split; · exact h
    split; · exact failSession_A c s h
    split; · exact failSession_A c s h
    split; · exact failSession_A c s h
    split
    · exact h
    · exact callAuth_A _ _ _ h
    · simp only
      split
      · exact callReg_A _ _ _ (callAuth_A _ _ _ h)
      · exact callReg_A _ _ _ (callAuth_A _ _ _ h)
      · rename_i nn _
        have hb := sendEstablished_A c _ nn (callReg_A _ ses (some nn) (callAuth_A s ses .role h))
        split
        · exact ih _ ses hb
        · exact hb
    · rename_i d _
      simp only
      split
      · exact callAuth_A _ _ _ h
      · have h1 := sendSession_A _ { id := c.sid, from_ := c.node, state := .authenticating, auth := some d }
          (callAuth_A s ses (.roundTrip d) h) (by simp)
        split
        · exact h1
        · have h2 := recvSession_A c _ h1
          split
          · exact h2
          · exact ih _ _ h2
    · simp only
      have h1 := failSession_A c _ (callAuth_A s ses .unknown h)
      split
      · exact ih _ ses h1
      · exact h1

theorem authenticate_A (c : Cfg) (s : St) (h : A s) : A (authenticate c s).2 := by
  unfold authenticate
  split; · exact h
  split; · exact h
  split; · exact h
  have h1 := sendSession_A _ { id := c.sid, from_ := c.node, state := .authenticating, schemeOpts := c.schemeOpts }
    (setState_A s .authenticating h) (by simp)
  simp only
  split
  · exact h1
  · have h2 := recvSession_A c _ h1
    split
    · exact h2
    · exact authLoop_A c _ _ _ h2

/-- during negotiation nothing the checker looks at happens -/
def N (s : St) : Prop := appliedRev s.trace = true

theorem N_log (s : St) (e : Ev) (h : N s)
    (he : ∀ x y, e = .emit x y → x.state ≠ .authenticating ∧ x.state ≠ .established)
    (ha : ∀ a b c d f g, e ≠ .authCall a b c d f g) : N (s.log e) := by
  unfold N at *
  cases e with
  | emit x y =>
    have := he x y rfl
    simp [appliedRev, this.1, this.2, h]
  | authCall a b c d f g => exact absurd rfl (ha a b c d f g)
  | _ => simpa [appliedRev] using h

theorem sendSession_N (s : St) (e : Ses) (h : N s) (hs : e.state ≠ .authenticating ∧ e.state ≠ .established) :
    N (sendSession s e).2 := by
  rcases sendSession_cases s e with ⟨_, ht, _⟩ | ⟨_, ht⟩
  · have := N_log s (.emit e s.enc) h (by intro x y hxy; cases hxy; exact hs) (by intros; simp)
    unfold N at *; rw [ht]; exact this
  · unfold N at *; rw [ht]; exact h

theorem recvSession_N (c : Cfg) (s : St) (h : N s) : N (recvSession c s).2 := by
  rcases recvSession_cases c s with ⟨x, _, ht⟩ | ⟨_, ht | ⟨r, _, ht⟩⟩
  · unfold N at *; rw [ht]; simpa [appliedRev] using h
  · unfold N at *; rw [ht]; exact h
  · unfold N at *; rw [ht]; simpa [appliedRev] using h

theorem failSession_N (c : Cfg) (s : St) (h : N s) : N (failSession c s).2 := by
  unfold failSession
  split
  · exact h
  · have h1 := sendSession_N s { id := c.sid, from_ := c.node, to := s.remote, state := .failed, hasReason := true } h (by simp)
    unfold N at *; simpa [appliedRev] using h1

/-- a successful confirmation leaves the transport on the confirmed encryption, and that
confirmation is the newest one in the trace -/
theorem confirm_post (c : Cfg) (s : St) (a b : Opt) (hb : b ≠ []) (h : N s) :
    N (confirm c s a b).2 ∧ ((confirm c s a b).1 = true → A (confirm c s a b).2) := by
  unfold confirm
  split; · exact ⟨h, fun hh => by cases hh⟩
  rcases sendSession_cases s { id := c.sid, from_ := c.node, state := .negotiating, comp := a, enc := b } with
    ⟨h1, ht, _⟩ | ⟨h1, ht⟩
  · have hn : N (sendSession s { id := c.sid, from_ := c.node, state := .negotiating, comp := a, enc := b }).2 :=
      sendSession_N s _ h (by simp)
    have hconf : confirmedEnc (sendSession s { id := c.sid, from_ := c.node, state := .negotiating, comp := a, enc := b }).2.trace
        = some b := by rw [ht]; simp [confirmedEnc, hb]
    simp only [h1, Bool.not_true, Bool.false_eq_true, ↓reduceIte]
    -- SetCompression
    unfold applyComp
    split
    · simp only [Bool.not_false, ↓reduceIte]
      exact ⟨by unfold N at *; simpa [appliedRev] using hn, fun hh => by cases hh⟩
    · simp only [Bool.not_true, Bool.false_eq_true, ↓reduceIte]
      -- SetEncryption
      unfold applyEnc
      split
      · split
        · refine ⟨by unfold N at *; simpa [appliedRev] using hn, fun _ => ⟨by unfold N at hn; simpa [appliedRev] using hn, ?_⟩⟩
          intro b' hb'
          simp only [log_trace, confirmedEnc] at hb'
          rw [hconf] at hb'; cases hb'; rfl
        · exact ⟨by unfold N at *; simpa [appliedRev] using hn, fun hh => by cases hh⟩
      · rename_i heq
        simp only [ne_eq, Decidable.not_not] at heq
        refine ⟨hn, fun _ => ⟨hn, ?_⟩⟩
        intro b' hb'
        rw [hconf] at hb'; cases hb'; exact heq
  · simp only [h1, Bool.not_false, ↓reduceIte]
    exact ⟨by unfold N at *; rw [ht]; exact h, fun hh => by cases hh⟩

theorem negotiate_post (c : Cfg) (s : St) (co eo : List Opt) (h : N s) :
    N (negotiate c s co eo).2 ∧
    ((negotiate c s co eo).1 = true → (negotiate c s co eo).2.state = .failed ∨ A (negotiate c s co eo).2) := by
  unfold negotiate
  split; · exact ⟨h, fun hh => by cases hh⟩
  split; · exact ⟨h, fun hh => by cases hh⟩
  have h0 : N (setState s .negotiating) := by unfold N at *; simpa [appliedRev] using h
  have h1 := sendSession_N (setState s .negotiating)
    { id := c.sid, from_ := c.node, state := .negotiating, compOpts := co, encOpts := eo } h0 (by simp)
  simp only
  split
  · exact ⟨h1, fun hh => by cases hh⟩
  · have h2 := recvSession_N c _ h1
    split
    · exact ⟨h2, fun hh => by cases hh⟩
    · rename_i ses _
      unfold onSelection
      split
      · exact ⟨failSession_N c _ h2, fun hh => Or.inl (failSession_state c _ hh)⟩
      · split
        · rename_i hsel
          have hp := confirm_post c _ ses.comp ses.enc hsel.2.2.1 h2
          exact ⟨hp.1, fun hh => Or.inr (hp.2 hh)⟩
        · exact ⟨failSession_N c _ h2, fun hh => Or.inl (failSession_state c _ hh)⟩

theorem newBlock_N (c : Cfg) (s : St) (h : N s) (hc : confirmedEnc s.trace = none) : N (newBlock c s).2 := by
  unfold newBlock
  simp only
  by_cases hneed : needNegotiation s (inter c.compOpts c.supComp) (inter c.encOpts c.supEnc) = true
  · simp only [hneed, ↓reduceIte]
    have hp := negotiate_post c s (inter c.compOpts c.supComp) (inter c.encOpts c.supEnc) h
    generalize negotiate c s _ _ = r at hp ⊢
    split
    · exact hp.1
    · rename_i hok
      split
      · rename_i hst
        rcases hp.2 (by simpa using hok) with hf | ha
        · exact absurd hf hst
        · exact (authenticate_A c _ ha).1
      · exact hp.1
  · simp only [hneed, Bool.false_eq_true, ↓reduceIte, Bool.not_true]
    split
    · exact (authenticate_A c s ⟨h, fun b hb => by rw [hc] at hb; cases hb⟩).1
    · exact h

theorem establish_N (c : Cfg) (s : St) (h : s.trace = []) : N (establish c s).2 := by
  have h0 : N s := by unfold N; rw [h]; rfl
  unfold establish
  split; · exact h0
  split; · exact h0
  have hq := recvSession_N c s h0
  have hcq : confirmedEnc (recvSession c s).2.trace = none := by
    rcases recvSession_cases c s with ⟨x, _, ht⟩ | ⟨_, ht | ⟨r, _, ht⟩⟩ <;> rw [ht, h] <;> rfl
  simp only
  split
  · exact hq
  · rename_i ses _
    split
    · exact failSession_N c _ hq
    · have hr : N (if ses.state = .new then newBlock c (recvSession c s).2 else (true, (recvSession c s).2)).2 := by
        split
        · exact newBlock_N c _ hq hcq
        · exact hq
      generalize (if ses.state = .new then newBlock c (recvSession c s).2 else (true, (recvSession c s).2)) = r at hr ⊢
      split
      · exact hr
      · split
        · exact failSession_N c _ hr
        · exact hr

/-- **C09 (server applies before authenticating)**: in every run, once the server confirmed a
negotiated encryption, every authentication request, every `Authenticate` call and the
`established` envelope happen with the server's transport on exactly that encryption. -/
theorem server_applies_before_auth (c : Cfg) (recvs : List Recv) (auths : List AuthOut)
    (regs : List (Option Node)) (sendOk : List Bool) (setEncOk : Bool) (enc0 : Opt) :
    appliedRev (run c recvs auths regs sendOk setEncOk enc0).trace.reverse = true := by
  unfold run
  simp only [List.reverse_reverse]
  exact establish_N c _ rfl

end Server

section Client
open LimeModel.ClientHs LimeModel.ClientSpec
open LimeModel.ServerHs (SState Ses Recv Opt)
open Props.C08 (nextItem_cases adopt_trace sendSession_cases markEof_trace)

/-- client invariant once the confirmation (if any) has been dealt with: checker fine, transport on
the confirmed encryption -/
def CA (s : St) : Prop := cliAppliedRev s.trace = true ∧ ∀ b, confirmedByServer s.trace = some b → s.enc = b

theorem CA_step (s s' : St) (e : Ev) (ht : s'.trace = e :: s.trace) (he : s'.enc = s.enc) (h : CA s)
    (h1 : ∀ a b, e ≠ .confirmed a b) (h2 : ∀ x y, e = .emit x y → x.auth = none ∨ y = s.enc) : CA s' := by
  refine ⟨?_, ?_⟩
  · rw [ht]
    cases e with
    | emit x y =>
      simp only [cliAppliedRev, h.1, Bool.and_true]
      rcases h2 x y rfl with hn | hy
      · simp [hn]
      · split
        · cases hc : confirmedByServer s.trace with
          | none => rfl
          | some b => simp [hy, h.2 b hc]
        · rfl
    | _ => simpa [cliAppliedRev] using h.1
  · intro b hb
    rw [ht] at hb
    have : confirmedByServer (e :: s.trace) = confirmedByServer s.trace := by
      cases e with
      | confirmed a b' => exact absurd rfl (h1 a b')
      | _ => rfl
    rw [this] at hb; rw [he]; exact h.2 b hb

theorem CA_same (s s' : St) (ht : s'.trace = s.trace) (he : s'.enc = s.enc) (h : CA s) : CA s' := by
  unfold CA at *; rw [ht, he]; exact h

theorem markEof_enc (c : Cfg) (s : St) : (markEof c s).enc = s.enc := by unfold markEof; split <;> rfl

theorem nextItem_enc (c : Cfg) (s : St) : (nextItem c s).2.enc = s.enc := by
  unfold nextItem
  cases s.recvs with
  | nil => exact markEof_enc c s
  | cons x r =>
    cases x with
    | ses y => rfl
    | sesGone y => rfl
    | other => rfl
    | fail b => cases b with
      | true => simp [markEof_enc, St.log]
      | false => rfl

theorem nextItem_CA (c : Cfg) (s : St) (h : CA s) : CA (nextItem c s).2 := by
  rcases nextItem_cases c s with ⟨_, ht⟩ | ⟨r, _, ht⟩
  · exact CA_same s _ ht (nextItem_enc c s) h
  · exact CA_step s _ (.recv r) ht (nextItem_enc c s) h (by intros; simp) (by intro x y hxy; cases hxy)

theorem setState_CA (s : St) (x : SState) (h : CA s) : CA (setState s x) :=
  CA_step s _ (.setState x) rfl rfl h (by intros; simp) (by intro a b hab; cases hab)

theorem recvViaReceiver_CA (c : Cfg) (fuel : Nat) : ∀ s, CA s → CA (recvViaReceiver c fuel s).2 := by
  induction fuel with
  | zero => intro s h; exact h
  | succ n ih =>
    intro s h
    unfold recvViaReceiver
    simp only
    have hq := nextItem_CA c s h
    have stop : ∀ s' : St, CA s' → CA (stopsEstablished s') := fun s' h' => CA_same s' _ (by simp) (by simp) h'
    split
    · exact hq
    · split
      · exact stop _ (setState_CA _ _ hq)
      · split
        · exact hq
        · exact stop _ hq
    · exact ih _ hq
    · exact hq
    · exact hq

theorem receiveSession_CA (c : Cfg) (s : St) (h : CA s) : CA (receiveSession c s).2 := by
  unfold receiveSession
  split; · exact h
  split; · exact recvViaReceiver_CA c _ s h
  split; · exact h
  simp only
  split <;> exact nextItem_CA c s h

theorem adopt_enc (s : St) (ses : Ses) : (adopt s ses).enc = s.enc := by unfold adopt; split <;> rfl

theorem recvFromServer_CA (c : Cfg) (s : St) (h : CA s) : CA (recvFromServer c s).2 := by
  have hq := receiveSession_CA c s h
  unfold recvFromServer
  simp only
  split
  · exact hq
  · exact hq
  · rename_i ses _
    split
    · unfold refuse; split <;> exact hq
    · have ha : CA (adopt (receiveSession c s).2 ses) :=
        CA_step _ _ (.setState ses.state) (adopt_trace _ _) (adopt_enc _ _) hq (by intros; simp)
          (by intro a b hab; cases hab)
      unfold finishRecv
      split
      · split
        · exact CA_step _ _ .close rfl rfl ha (by intros; simp) (by intro a b hab; cases hab)
        · exact ha
      · exact ha

theorem sendSession_enc (s : St) (e : Ses) : (sendSession s e).2.enc = s.enc := by
  unfold sendSession; split
  · rfl
  · split
    · rfl
    · split <;> rfl

theorem sendSession_CA (s : St) (e : Ses) (h : CA s) : CA (sendSession s e).2 := by
  rcases sendSession_cases s e with ⟨_, ht⟩ | ⟨_, ht⟩
  · exact CA_step s _ (.emit e s.enc) ht (sendSession_enc s e) h (by intros; simp)
      (by intro x y hxy; cases hxy; exact Or.inr rfl)
  · exact CA_same s _ ht (sendSession_enc s e) h

/-- the credentials envelope of `authenticateSession` -/
def credSes (c : Cfg) (s : St) : Ses :=
  { id := s.sid, from_ := ⟨c.identity.name, c.identity.domain, c.inst⟩, state := .authenticating, scheme := (s.auths.headD .guest).scheme, auth := some (s.auths.headD .guest) }

theorem authLoop_CA (c : Cfg) (fuel : Nat) : ∀ s ses rt, CA s → CA (authLoop c fuel s ses rt).2 := by
  induction fuel with
  | zero => intro s ses rt h; exact h
  | succ n ih =>
    intro s ses rt h
    unfold authLoop
    split; · exact h
    simp only
    have h0 : CA (St.log { s with auths := s.auths.tail } (.authCall ses.schemeOpts rt)) :=
      CA_step s _ (.authCall ses.schemeOpts rt) rfl rfl h (by intros; simp) (by intro a b hab; cases hab)
    split; · exact h0
    have h1 := sendSession_CA _ (credSes c s) h0
    simp only [credSes] at h1
    split; · exact h1
    have h2 := recvFromServer_CA c _ h1
    split
    · exact h2
    · exact h2
    · exact ih _ _ _ h2

/-- the confirmation step: the ghost event is logged and the named options are applied -/
theorem applyConfirmed_CA (s : St) (conf : Ses) (h : cliAppliedRev s.trace = true)
    (hn : confirmedByServer s.trace = none) :
    cliAppliedRev (applyConfirmed s conf).2.trace = true ∧
    ((applyConfirmed s conf).1 = true → CA (applyConfirmed s conf).2) := by
  unfold applyConfirmed
  split
  · simp only
    have h0 : cliAppliedRev (s.log (.confirmed conf.comp conf.enc)).trace = true := by simpa [cliAppliedRev] using h
    have hc : confirmedByServer (s.log (.confirmed conf.comp conf.enc)).trace =
        if conf.enc ≠ [] then some conf.enc else none := by
      simp only [C08.log_trace, confirmedByServer, hn]
    unfold applyComp
    split
    · simp only [Bool.not_false, ↓reduceIte]
      exact ⟨by simpa [cliAppliedRev] using h0, fun hh => by cases hh⟩
    · simp only [Bool.not_true, Bool.false_eq_true, ↓reduceIte]
      unfold applyEnc
      split
      · rename_i hne
        split
        · refine ⟨by simpa [cliAppliedRev] using h0, fun _ => ⟨by simpa [cliAppliedRev] using h0, ?_⟩⟩
          intro b hb
          have hb' : confirmedByServer (s.log (.confirmed conf.comp conf.enc)).trace = some b := hb
          rw [hc] at hb'
          simp only [hne.1, ne_eq, not_false_eq_true, ↓reduceIte, Option.some.injEq] at hb'
          subst hb'; rfl
        · exact ⟨by simpa [cliAppliedRev] using h0, fun hh => by cases hh⟩
      · rename_i hne
        refine ⟨h0, fun _ => ⟨h0, ?_⟩⟩
        intro b hb
        rw [hc] at hb
        by_cases he : conf.enc = []
        · simp [he] at hb
        · simp only [he, ne_eq, not_false_eq_true, ↓reduceIte, Option.some.injEq] at hb
          subst hb
          simp only [ne_eq, not_and, Decidable.not_not] at hne
          exact (hne he).symm
  · exact ⟨h, fun _ => ⟨h, fun b hb => by rw [hn] at hb; cases hb⟩⟩

/-- before any confirmation: the checker is fine and nothing is confirmed -/
def NC (s : St) : Prop := cliAppliedRev s.trace = true ∧ confirmedByServer s.trace = none

theorem NC_to_CA (s : St) (h : NC s) : CA s := ⟨h.1, fun b hb => by rw [h.2] at hb; cases hb⟩

theorem NC_step (s s' : St) (e : Ev) (ht : s'.trace = e :: s.trace) (h : NC s)
    (h1 : ∀ a b, e ≠ .confirmed a b) (h2 : ∀ x y, e = .emit x y → x.auth = none) : NC s' := by
  refine ⟨?_, ?_⟩
  · rw [ht]
    cases e with
    | emit x y => simp [cliAppliedRev, h2 x y rfl, h.1]
    | _ => simpa [cliAppliedRev] using h.1
  · rw [ht]
    cases e with
    | confirmed a b => exact absurd rfl (h1 a b)
    | _ => exact h.2

theorem NC_same (s s' : St) (ht : s'.trace = s.trace) (h : NC s) : NC s' := by unfold NC at *; rw [ht]; exact h

theorem nextItem_NC (c : Cfg) (s : St) (h : NC s) : NC (nextItem c s).2 := by
  rcases nextItem_cases c s with ⟨_, ht⟩ | ⟨r, _, ht⟩
  · exact NC_same s _ ht h
  · exact NC_step s _ (.recv r) ht h (by intros; simp) (by intro x y hxy; cases hxy)

theorem recvViaReceiver_NC (c : Cfg) (fuel : Nat) : ∀ s, NC s → NC (recvViaReceiver c fuel s).2 := by
  induction fuel with
  | zero => intro s h; exact h
  | succ n ih =>
    intro s h
    unfold recvViaReceiver
    simp only
    have hq := nextItem_NC c s h
    have stop : ∀ s' : St, NC s' → NC (stopsEstablished s') := fun s' h' => NC_same s' _ (by simp) h'
    split
    · exact hq
    · split
      · exact stop _ (NC_step _ _ (.setState _) rfl hq (by intros; simp) (by intro a b hab; cases hab))
      · split
        · exact hq
        · exact stop _ hq
    · exact ih _ hq
    · exact hq
    · exact hq

theorem recvFromServer_NC (c : Cfg) (s : St) (h : NC s) : NC (recvFromServer c s).2 := by
  have hq : NC (receiveSession c s).2 := by
    unfold receiveSession
    split; · exact h
    split; · exact recvViaReceiver_NC c _ s h
    split; · exact h
    simp only
    split <;> exact nextItem_NC c s h
  unfold recvFromServer
  simp only
  split
  · exact hq
  · exact hq
  · rename_i ses _
    split
    · unfold refuse; split <;> exact hq
    · have ha : NC (adopt (receiveSession c s).2 ses) :=
        NC_step _ _ (.setState ses.state) (adopt_trace _ _) hq (by intros; simp) (by intro a b hab; cases hab)
      unfold finishRecv
      split
      · split
        · exact NC_step _ _ .close rfl ha (by intros; simp) (by intro a b hab; cases hab)
        · exact ha
      · exact ha

theorem sendSession_NC (s : St) (e : Ses) (h : NC s) (he : e.auth = none) : NC (sendSession s e).2 := by
  rcases sendSession_cases s e with ⟨_, ht⟩ | ⟨_, ht⟩
  · exact NC_step s _ (.emit e s.enc) ht h (by intros; simp) (by intro x y hxy; cases hxy; exact he)
  · exact NC_same s _ ht h

theorem negotiateBlock_post (c : Cfg) (s : St) (ses : Ses) (h : NC s) :
    cliAppliedRev (negotiateBlock c s ses).2.trace = true ∧
    (∀ x, (negotiateBlock c s ses).1 = .got x → CA (negotiateBlock c s ses).2) := by
  unfold negotiateBlock
  simp only
  have h0 : NC (s.log (.selCall ses.compOpts ses.encOpts)) :=
    NC_step s _ (.selCall ses.compOpts ses.encOpts) rfl h (by intros; simp) (by intro a b hab; cases hab)
  split; · exact ⟨h0.1, fun x hx => by cases hx⟩
  have h1 := sendSession_NC _ { id := s.sid, state := .negotiating, comp := c.compSel ses.compOpts, enc := c.encSel ses.encOpts } h0 rfl
  split; · exact ⟨h1.1, fun x hx => by cases hx⟩
  have h2 := recvFromServer_NC c _ h1
  split
  · exact ⟨h2.1, fun x hx => by cases hx⟩
  · exact ⟨h2.1, fun x hx => by cases hx⟩
  · rename_i conf _
    obtain ⟨g1, g2⟩ := applyConfirmed_CA _ conf h2.1 h2.2
    split
    · exact ⟨g1, fun x hx => by cases hx⟩
    · rename_i hok
      have hca := recvFromServer_CA c _ (g2 (by simpa using hok))
      exact ⟨hca.1, fun _ _ => hca⟩

theorem establish_applied (c : Cfg) (s : St) (h : s.trace = []) : cliAppliedRev (establish c s).2.trace = true := by
  have h0 : NC s := by unfold NC; rw [h]; exact ⟨rfl, rfl⟩
  unfold establish
  split; · exact h0.1
  have h1 := sendSession_NC s { state := .new } h0 rfl
  simp only
  split; · exact h1.1
  have h2 := recvFromServer_NC c _ h1
  split
  · exact h2.1
  · exact h2.1
  · rename_i ses _
    by_cases hneg : ses.state = .negotiating
    · simp only [hneg, ↓reduceIte]
      obtain ⟨g1, g2⟩ := negotiateBlock_post c _ ses h2
      split
      · exact g1
      · exact g1
      · rename_i ses2 hn
        exact (authLoop_CA c _ _ ses2 _ (g2 ses2 hn)).1
    · simp only [hneg, ↓reduceIte]
      exact (authLoop_CA c _ _ ses _ (NC_to_CA _ h2)).1

/-- **C09 (client applies before credentials)**: in every run, once the server confirmed a
negotiated encryption (its `negotiating` reply to the client's selection names one), every client
envelope that carries credentials is written with the client's transport on exactly that
encryption. -/
theorem client_applies_before_credentials (c : Cfg) (recvs : List Recv) (auths : List Auth)
    (sendOk : List Bool) (setEncOk : Bool) (enc0 : Opt) :
    cliAppliedRev (ClientHs.run c recvs auths sendOk setEncOk enc0).trace.reverse = true := by
  unfold ClientHs.run
  simp only [List.reverse_reverse]
  exact establish_applied c _ rfl

end Client

/-- **C09 (both ends agree)**: take any point of a server run where authentication data is
exchanged (an authentication request, or the established envelope, written with the server's
transport on `x`) and any point of a client run where credentials are written (with the client's
transport on `y`); if the newest confirmation the server had emitted and the confirmation the
client had received name the same encryption `b` — which is the case when the client's
confirmation *is* the server's envelope, delivered intact by the connection — then `x = y = b`:
the two ends run the same, confirmed, encryption whenever authentication data crosses. -/
theorem ends_agree (ts : List ServerHs.Ev) (tc : List ClientHs.Ev) (s cs : ServerHs.Ses) (x y b : ServerHs.Opt)
    (hs : ServerSpec.appliedRev (.emit s x :: ts) = true)
    (hst : s.state = .authenticating ∨ s.state = .established)
    (hb : ServerSpec.confirmedEnc ts = some b)
    (hc : ClientSpec.cliAppliedRev (.emit cs y :: tc) = true)
    (hauth : cs.auth.isSome = true)
    (hb' : ClientSpec.confirmedByServer tc = some b) : x = b ∧ y = b := by
  constructor
  · simp only [ServerSpec.appliedRev, hst, ↓reduceIte, hb, Bool.and_eq_true, decide_eq_true_eq] at hs
    exact hs.1
  · simp only [ClientSpec.cliAppliedRev, hauth, ↓reduceIte, hb', Bool.and_eq_true, decide_eq_true_eq] at hc
    exact hc.1

/-- the checkers are suffix closed, so `ends_agree` applies at every position of a run's trace -/
theorem appliedRev_tail (e : ServerHs.Ev) (t : List ServerHs.Ev) (h : ServerSpec.appliedRev (e :: t) = true) :
    ServerSpec.appliedRev t = true := by
  cases e <;> simp_all [ServerSpec.appliedRev]

theorem cliAppliedRev_tail (e : ClientHs.Ev) (t : List ClientHs.Ev) (h : ClientSpec.cliAppliedRev (e :: t) = true) :
    ClientSpec.cliAppliedRev t = true := by
  cases e <;> simp_all [ClientSpec.cliAppliedRev]

end Props.C09
