import LimeModel.Mux
/-!
# C20 — each inbound envelope is dispatched to exactly the first matching handler

All statements quantify over every handler table (any number of handlers, any predicates,
`none` predicates anywhere), every envelope and every handler outcome.
-/
namespace Props.C20
open LimeModel.Mux

variable {ε : Type}

/-- invocations recorded in a log -/
def invocations : List Ev → List (Nat × Bool)
  | [] => []
  | .invoke i e :: t => (i, e) :: invocations t
  | .consult _ _ :: t => invocations t

/-- predicate consultations recorded in a log -/
def consulted : List Ev → List Nat
  | [] => []
  | .consult i _ :: t => i :: consulted t
  | .invoke _ _ :: t => consulted t

theorem firstMatch_ge (e : ε) (hs : List (Handler ε)) (i j : Nat)
    (h : firstMatch e hs i = some j) : i ≤ j := by
  induction hs generalizing i with
  | nil => simp [firstMatch] at h
  | cons a t ih =>
    unfold firstMatch at h
    split at h
    · cases h; omega
    · have := ih (i + 1) h; omega

theorem scan_invocations (e : ε) (hs : List (Handler ε)) (i : Nat) :
    invocations (scan e hs i) =
      match firstMatch e hs i with
      | none => []
      | some j => [(j, ((hs.drop (j - i)).head?.map (·.fails e)).getD false)] := by
  induction hs generalizing i with
  | nil => simp [scan, firstMatch, invocations]
  | cons h t ih =>
    unfold scan firstMatch
    by_cases hm : h.matches e = true
    · simp [hm, invocations]
    · simp only [hm, Bool.false_eq_true, ↓reduceIte, invocations]
      rw [ih (i + 1)]
      cases hf : firstMatch e t (i + 1) with
      | none => rfl
      | some j =>
        have hj := firstMatch_ge e t (i + 1) j hf
        have : j - i = (j - (i + 1)) + 1 := by omega
        simp [this]

/-- firstMatch returns an index inside the table, whose handler matches, and no earlier one does. -/
theorem firstMatch_spec (e : ε) (hs : List (Handler ε)) (i j : Nat)
    (h : firstMatch e hs i = some j) :
    i ≤ j ∧ j - i < hs.length ∧
    (∃ hd, hs[j - i]? = some hd ∧ hd.matches e = true) ∧
    ∀ k, k < j - i → ∃ hk, hs[k]? = some hk ∧ hk.matches e = false := by
  induction hs generalizing i with
  | nil => simp [firstMatch] at h
  | cons a t ih =>
    unfold firstMatch at h
    by_cases hm : a.matches e = true
    · simp [hm] at h; subst h; simp [hm]
    · simp only [hm, Bool.false_eq_true, ↓reduceIte] at h
      obtain ⟨h1, h2, ⟨hd, h3, h4⟩, h5⟩ := ih (i + 1) h
      have e1 : j - i = (j - (i + 1)) + 1 := by omega
      refine ⟨by omega, by simp; omega, ⟨hd, by rw [e1]; simpa using h3, h4⟩, ?_⟩
      intro k hk
      cases k with
      | zero => exact ⟨a, by simp, by simpa using hm⟩
      | succ k => simpa using h5 k (by omega)

theorem firstMatch_none (e : ε) (hs : List (Handler ε)) (i : Nat)
    (h : firstMatch e hs i = none) : ∀ hd ∈ hs, hd.matches e = false := by
  induction hs generalizing i with
  | nil => simp
  | cons a t ih =>
    unfold firstMatch at h
    by_cases hm : a.matches e = true
    · simp [hm] at h
    · simp only [hm, Bool.false_eq_true, ↓reduceIte] at h
      intro hd hmem
      cases hmem with
      | head => simpa using hm
      | tail _ hx => exact ih (i + 1) h hd hx

/-- **C20 (exactly once)**: one dispatch invokes at most one handler, and invokes one exactly
when some handler of the kind matches. -/
theorem exactly_once (hs : List (Handler ε)) (e : ε) :
    (invocations (dispatch hs e).1).length ≤ 1 ∧
    ((invocations (dispatch hs e).1).length = 1 ↔ ∃ h ∈ hs, h.matches e = true) := by
  unfold dispatch
  simp only [scan_invocations]
  cases hf : firstMatch e hs 0 with
  | none =>
    have := firstMatch_none e hs 0 hf
    simp
    intro h hh; simpa using this h hh
  | some j =>
    obtain ⟨_, _, ⟨hd, h3, h4⟩, _⟩ := firstMatch_spec e hs 0 j hf
    simp
    exact ⟨hd, List.mem_of_getElem? h3, h4⟩

/-- **C20 (first match)**: the invoked handler is the earliest registered one whose predicate
accepts the envelope (a missing predicate accepts everything), and the error flag of the dispatch
is that handler's outcome. -/
theorem dispatch_first_match (hs : List (Handler ε)) (e : ε) (j : Nat) (err : Bool)
    (h : (j, err) ∈ invocations (dispatch hs e).1) :
    (∃ hd, hs[j]? = some hd ∧ hd.matches e = true ∧ hd.fails e = err) ∧
    ∀ k, k < j → ∃ hk, hs[k]? = some hk ∧ hk.matches e = false := by
  unfold dispatch at h
  simp only [scan_invocations] at h
  cases hf : firstMatch e hs 0 with
  | none => simp [hf] at h
  | some j' =>
    simp [hf] at h
    obtain ⟨rfl, herr⟩ := h
    obtain ⟨_, _, ⟨hd, h3, h4⟩, h5⟩ := firstMatch_spec e hs 0 j hf
    simp only [Nat.sub_zero] at h3 h5
    refine ⟨⟨hd, h3, h4, ?_⟩, fun k hk => h5 k hk⟩
    rw [h3] at herr
    simpa using herr.symm

/-- **C20 (scan stops)**: predicates of handlers registered after the invoked one are not
consulted, and every consulted predicate is consulted once, in registration order. -/
theorem scan_consulted (e : ε) (hs : List (Handler ε)) (i : Nat) :
    consulted (scan e hs i) =
      match firstMatch e hs i with
      | none => (List.range hs.length).map (· + i)
      | some j => (List.range (j + 1 - i)).map (· + i) := by
  induction hs generalizing i with
  | nil => simp [scan, firstMatch, consulted]
  | cons a t ih =>
    unfold scan firstMatch
    by_cases hm : a.matches e = true
    · simp [hm, consulted]
    · simp only [hm, Bool.false_eq_true, ↓reduceIte, consulted]
      rw [ih (i + 1)]
      cases hf : firstMatch e t (i + 1) with
      | none =>
        simp only [List.length_cons, List.range_succ_eq_map, List.map_cons, Nat.zero_add,
          List.map_map, List.cons.injEq, true_and]
        apply List.map_congr_left; intro x _; simp; omega
      | some j =>
        have hj := firstMatch_ge e t (i + 1) j hf
        have : j + 1 - i = (j + 1 - (i + 1)) + 1 := by omega
        simp only [this, List.range_succ_eq_map, List.map_cons, Nat.zero_add, List.map_map,
          List.cons.injEq, true_and]
        apply List.map_congr_left; intro x _; simp; omega

theorem scan_stops (hs : List (Handler ε)) (e : ε) :
    consulted (dispatch hs e).1 =
      match firstMatch e hs 0 with
      | none => List.range hs.length
      | some j => List.range (j + 1) := by
  unfold dispatch
  simp only [scan_consulted]
  cases firstMatch e hs 0 <;> simp

/-- **C20 (no match drops and continues)**: when no handler of the kind matches, nothing is
invoked and the dispatch reports no error, so the listen loop goes on. -/
theorem no_match_drops (hs : List (Handler ε)) (e : ε)
    (h : ∀ hd ∈ hs, hd.matches e = false) :
    invocations (dispatch hs e).1 = [] ∧ (dispatch hs e).2 = false := by
  have hn : firstMatch e hs 0 = none := by
    cases hf : firstMatch e hs 0 with
    | none => rfl
    | some j =>
      obtain ⟨_, _, ⟨hd, h3, h4⟩, _⟩ := firstMatch_spec e hs 0 j hf
      have := h hd (List.mem_of_getElem? h3); simp [this] at h4
  have hi : invocations (dispatch hs e).1 = [] := by
    unfold dispatch; simp [scan_invocations, hn]
  refine ⟨hi, ?_⟩
  unfold dispatch at hi ⊢
  simp only at hi ⊢
  generalize scan e hs 0 = l at hi
  induction l with
  | nil => rfl
  | cons a t ih =>
    cases a with
    | consult i r => simpa [invocations] using ih (by simpa [invocations] using hi)
    | invoke i r => simp [invocations] at hi

/-- the error flag of a dispatch is the outcome of the (single) invoked handler -/
theorem dispatch_err_iff (hs : List (Handler ε)) (e : ε) :
    (dispatch hs e).2 = true ↔ ∃ i, (i, true) ∈ invocations (dispatch hs e).1 := by
  unfold dispatch
  simp only
  generalize scan e hs 0 = l
  induction l with
  | nil => simp [invocations]
  | cons a t ih =>
    cases a with
    | consult i r => simpa [invocations] using ih
    | invoke i r =>
      cases r <;> simp [invocations] at ih ⊢
      · exact ih

/-- **C20 (handler error stops the loop)**: the listen loop processes envelopes in order,
reports an error exactly when some dispatched handler failed, and the failing dispatch is the last
one in its log: nothing after it is dispatched. -/
theorem handler_error_stops_loop (t : Table ε) (envs : List (Kind × ε)) :
    let r := listen t envs
    (r.2 = true → ∃ k l, r.1.getLast? = some (k, l) ∧ ∃ i, (i, true) ∈ invocations l) ∧
    (∀ k l, (k, l) ∈ r.1.dropLast → ∀ i, (i, true) ∉ invocations l) ∧
    (r.2 = false → r.1.length = envs.length ∧ ∀ k l, (k, l) ∈ r.1 → ∀ i, (i, true) ∉ invocations l) ∧
    r.1.length ≤ envs.length := by
  induction envs with
  | nil => simp [listen]
  | cons a rest ih =>
    obtain ⟨k, e⟩ := a
    unfold listen
    by_cases hd : (dispatch (t.get k) e).2 = true
    · simp only [hd, ↓reduceIte]
      refine ⟨fun _ => ⟨k, _, rfl, (dispatch_err_iff _ _).1 hd⟩, by simp, by simp, by simp⟩
    · simp only [hd, Bool.false_eq_true, ↓reduceIte]
      obtain ⟨ih1, ih2, ih3, ih4⟩ := ih
      have hno : ∀ i, (i, true) ∉ invocations (dispatch (t.get k) e).1 := by
        intro i hi; exact hd ((dispatch_err_iff _ _).2 ⟨i, hi⟩)
      refine ⟨?_, ?_, ?_, by simp; omega⟩
      · intro hr
        obtain ⟨k', l', hl, hx⟩ := ih1 hr
        refine ⟨k', l', ?_, hx⟩
        rw [List.getLast?_cons]; simp [hl]
      · intro k' l' hmem i
        cases hrest : (listen t rest).1 with
        | nil => simp [hrest] at hmem
        | cons b bs =>
          rw [hrest, List.dropLast_cons_cons] at hmem
          cases hmem with
          | head => exact hno i
          | tail _ hx => exact ih2 k' l' (by rw [hrest]; exact hx) i
      · intro hr
        obtain ⟨hl, hall⟩ := ih3 hr
        refine ⟨by simp [hl], ?_⟩
        intro k' l' hmem i
        cases hmem with
        | head => exact hno i
        | tail _ hx => exact hall k' l' hx i

/-- Non-vacuity: a table with a non-matching handler, a `nil`-predicate handler and a later
catch-all; the second is invoked, the third is never consulted. -/
example :
    let hs : List (Handler Nat) :=
      [⟨some (· == 7), fun _ => false⟩, ⟨none, fun _ => true⟩, ⟨some (fun _ => true), fun _ => false⟩]
    dispatch hs 3 = ([.consult 0 false, .consult 1 true, .invoke 1 true], true) := by decide

end Props.C20
