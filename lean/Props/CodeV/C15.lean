import Props.TieS.WsInterrupts
import Props.C15
/-! The headline theorem of C15 for the variant of the model that the source has on this run (DESIGN.md 2.2). -/
namespace Props.Code
open LimeModel

/-- C15: the WebSocket helper pattern of the code returns when its context ends -/
theorem c15_helper_prompt (c : Timed.Ctx) (e : Nat) (now : Nat) (readyAt : Option Nat) (he : c.endTime = some e)
    (hr : ∀ r, readyAt = some r → max now e ≤ max now r) :
    Timed.helperOp Timed.wsInterrupts c readyAt now = some (max now e, .ctxErr) := by
  rw [TieStruct.ws_interrupts]
  exact C15.helper_prompt c e now readyAt he hr

end Props.Code
