import Props.TieS.Finish
import Props.C13
/-! The headline theorem of C13 for the variant of the model that the source has on this run (DESIGN.md 2.2). -/
namespace Props.Code
open LimeModel

/-- C13: the finishing caller of the model the code has never reports a failure -/
theorem c13_finish_never_fails (ls : List Finish.Lbl) (s : Finish.FS)
    (hr : Finish.runL Finish.repaired {} ls = some s) : s.cpc ≠ .failed := by
  rw [TieStruct.finish_repaired] at hr
  exact C13.finish_never_fails ls s hr

end Props.Code
