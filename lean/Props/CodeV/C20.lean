import Props.TieS.Mux
import Props.C20
/-! The headline theorems of C20 for the variant of the dispatch loop that the source has on this run (DESIGN.md 2.2). -/
namespace Props.Code
open LimeModel LimeModel.Mux

variable {ε : Type}

/-- C20: one dispatch of the loop the code has invokes at most one handler, and one exactly when some handler matches -/
theorem c20_exactly_once (hs : List (Handler ε)) (e : ε) :
    (C20.invocations (dispatchCode hs e).1).length ≤ 1 ∧
    ((C20.invocations (dispatchCode hs e).1).length = 1 ↔ ∃ h ∈ hs, h.matches e = true) := by
  rw [TieStruct.dispatchCode_eq]
  exact C20.exactly_once hs e

/-- C20: the handler the code's loop invokes is the earliest registered one that matches -/
theorem c20_first_match (hs : List (Handler ε)) (e : ε) (j : Nat) (err : Bool)
    (h : (j, err) ∈ C20.invocations (dispatchCode hs e).1) :
    (∃ hd, hs[j]? = some hd ∧ hd.matches e = true ∧ hd.fails e = err) ∧
    ∀ k, k < j → ∃ hk, hs[k]? = some hk ∧ hk.matches e = false := by
  rw [TieStruct.dispatchCode_eq] at h
  exact C20.dispatch_first_match hs e j err h

/-- the switches matter: without the `break` two matching handlers are both invoked -/
example : (scanV false true (0 : Nat) [⟨none, fun _ => false⟩, ⟨none, fun _ => false⟩] 0).length = 4 := by decide

end Props.Code
