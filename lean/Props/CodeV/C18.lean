import Props.TieS.ServerLife
import Props.C18
/-! The headline theorem of C18 for the variant of the model that the source has on this run (DESIGN.md 2.2). -/
namespace Props.Code
open LimeModel

/-- C18: `ListenAndServe` of the model the code has returns the server-closed error after `Close` -/
theorem c18_serve_returns_closed_error (s s' : ServerLife.St)
    (h : ServerLife.step ServerLife.repaired s .ret = some s') (hc : s.cancelled = true) :
    s'.returned = some .serverClosed := by
  rw [TieStruct.serverlife_repaired] at h
  exact C18.serve_returns_closed_error s s' h hc

end Props.Code
