import Props.TieS.ClientLife
import Props.C19
/-! The headline theorem of C19 for the variant of the model that the source has on this run (DESIGN.md 2.2). -/
namespace Props.Code
open LimeModel

/-- C19: no sequence of faults and operations wedges the client of the model the code has -/
theorem c19_never_wedged (ops : List ClientLife.Op) : (ClientLife.run ClientLife.repaired ops).wedged = false := by
  rw [TieStruct.clientlife_repaired]
  exact C19.never_wedged ops

end Props.Code
