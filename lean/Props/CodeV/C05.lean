import Props.TieS.Pending
import Props.C05
/-! The headline theorem of C05 for the variant of the model that the source has on this run (DESIGN.md 2.2). -/
namespace Props.Code
open LimeModel

/-- C05: in every reachable state of the table model the code has, a call that was completed with a
response was completed with a response to its own request -/
theorem c05_own (inc : List Pending.Resp) (ls : List Pending.Lbl) (s : Pending.S)
    (hr : Pending.runL Pending.repaired (Pending.init inc) ls = some s)
    (i : Nat) (r : Pending.Resp) (hd : (s.caller i).pc = .done (.resp r)) : r.id = (s.caller i).id := by
  rw [TieStruct.pending_repaired] at hr
  exact C05.c05_own inc ls s hr i r hd

end Props.Code
