import Props.C17
/-!
# C17 (non-interference lifted to whole runs)

From any state in which connection `i` has session `ss`, after *any* sequence of operations of *all*
connections (accepts, envelopes on other sessions, envelopes on this one, in any interleaving), the
events of connection `i` are exactly those determined by `ss`, the handler table and connection
`i`'s own inputs; its session record is unchanged. Nothing another session does adds to, removes
from, or alters what connection `i` sees.
-/
namespace Props.C17
open LimeModel.Mux (Kind Table Handler)
open LimeModel.Sessions

/-- the events that connection `i`'s own inputs (newest first) produce -/
def viewOf (t : Table Nat) (i : Nat) (ss : Sess) : List (Kind × Nat) → List Ev
  | [] => []
  | (k, e) :: rest =>
    match invokedHandler t k e with
    | none => viewOf t i ss rest
    | some h => .invoked i k h ss.id ss.loc ss.rem i e :: viewOf t i ss rest

theorem viewOf_append (t : Table Nat) (i : Nat) (ss : Sess) (a b : List (Kind × Nat)) :
    viewOf t i ss (a ++ b) = viewOf t i ss a ++ viewOf t i ss b := by
  induction a with
  | nil => rfl
  | cons x rest ih =>
    obtain ⟨k, e⟩ := x
    simp only [List.cons_append, viewOf]
    cases hh : invokedHandler t k e <;> simp [ih]

/-- the model's `expected` is the announcement followed by the view -/
theorem expected_eq (t : Table Nat) (i : Nat) (ss : Sess) (l : List (Kind × Nat)) :
    expected t i ss l = viewOf t i ss l ++ [.announced i ss.id ss.rem] := by
  induction l with
  | nil => rfl
  | cons x rest ih =>
    obtain ⟨k, e⟩ := x
    simp only [expected, viewOf]
    cases hh : invokedHandler t k e <;> simp [ih]

theorem step_keeps_session (t : Table Nat) (s : St) (o : Op) (i : Nat) (ss : Sess)
    (h : s.sessions[i]? = some ss) : (step t s o).sessions[i]? = some ss := by
  cases o with
  | accept reg =>
    simp only [step]
    split
    · exact h
    · simp only
      have hi : i < s.sessions.length := by
        rcases Nat.lt_or_ge i s.sessions.length with hlt | hge
        · exact hlt
        · rw [List.getElem?_eq_none hge] at h; cases h
      rw [List.getElem?_append_left hi]; exact h
  | recv j k e =>
    simp only [step]
    split
    · exact h
    · split <;> exact h

/-- **C17 (whole-run non-interference)** -/
theorem session_view_determined (t : Table Nat) (i : Nat) (ss : Sess) :
    ∀ (ops : List Op) (s : St), s.sessions[i]? = some ss →
      (ops.foldl (step t) s).sessions[i]? = some ss ∧
      proj i (ops.foldl (step t) s).trace = viewOf t i ss (inputsOf i ops) ++ proj i s.trace := by
  intro ops
  induction ops with
  | nil => intro s h; exact ⟨h, rfl⟩
  | cons o rest ih =>
    intro s h
    have hk := step_keeps_session t s o i ss h
    obtain ⟨h1, h2⟩ := ih (step t s o) hk
    refine ⟨h1, ?_⟩
    simp only [List.foldl_cons]
    rw [h2]
    have hi : i < s.sessions.length := by
      rcases Nat.lt_or_ge i s.sessions.length with hlt | hge
      · exact hlt
      · rw [List.getElem?_eq_none hge] at h; cases h
    cases o with
    | accept reg =>
      have : ¬ concerns i s (.accept reg) := by simp only [concerns]; omega
      rw [other_steps_invisible t s _ i this]
      simp [inputsOf]
    | recv j k e =>
      by_cases hj : j = i
      · subst hj
        simp only [inputsOf, ↓reduceIte, viewOf_append, List.append_assoc]
        congr 1
        simp only [step, h, viewOf]
        cases hh : invokedHandler t k e <;> simp [proj]
      · have : ¬ concerns i s (.recv j k e) := hj
        rw [other_steps_invisible t s _ i this]
        simp [inputsOf, hj]

/-- for a connection that has just been announced and nothing else, the whole view is the model's
`expected` list over its own inputs -/
theorem fresh_session_view (t : Table Nat) (i : Nat) (ss : Sess) (ops : List Op) (s : St)
    (h : s.sessions[i]? = some ss) (hf : proj i s.trace = [.announced i ss.id ss.rem]) :
    proj i (ops.foldl (step t) s).trace = expected t i ss (inputsOf i ops) := by
  rw [(session_view_determined t i ss ops s h).2, hf, expected_eq]

/-- non-vacuity: connection 0 among interleaved traffic of connection 1 -/
example :
    let t : Table Nat := { msg := [⟨none, fun _ => false⟩], ntf := [], req := [], resp := [] }
    let s := run t 9 [41, 42, 43] [.accept 5, .accept 6]
    s.sessions[0]? = some ⟨41, 9, 5⟩ ∧
    proj 0 ([Op.recv 1 .msg 7, .recv 0 .msg 8, .accept 4, .recv 1 .msg 3].foldl (step t) s).trace =
      [.invoked 0 .msg 0 41 9 5 0 8, .announced 0 41 5] := by
  decide

end Props.C17
