import Props.C01
/-!
# C11 — replies built from an envelope are correctly correlated and addressed, and valid

For every request command and every message (any id, any from / pp / to combination, method,
resource, reason, event) and every builder.
-/
namespace Props.C11
open LimeModel LimeModel.Json Props.C01

/-- the sender of an envelope: the delegating node when present, otherwise `from` -/
def senderOf (e : Env) : Node := if e.pp.isZero then e.from_ else e.pp

/-- **C11 (correlation, responses)**: the three response builders copy the request's id and
method, address the reply to the request's sender, use the request's destination as origin, and
carry the requested status, reason and resource. -/
theorem response_correlated (c : RequestCommand) (reason : Option Reason) (d : Doc) :
    (c.successResponse.cmd.env.id = c.cmd.env.id ∧ c.successResponse.cmd.method = c.cmd.method ∧
      c.successResponse.cmd.env.to = senderOf c.cmd.env ∧ c.successResponse.cmd.env.from_ = c.cmd.env.to ∧
      c.successResponse.status = cs!"success" ∧ c.successResponse.cmd.resource = none) ∧
    ((c.failureResponse reason).cmd.env.id = c.cmd.env.id ∧ (c.failureResponse reason).cmd.method = c.cmd.method ∧
      (c.failureResponse reason).cmd.env.to = senderOf c.cmd.env ∧
      (c.failureResponse reason).cmd.env.from_ = c.cmd.env.to ∧
      (c.failureResponse reason).status = cs!"failure" ∧ (c.failureResponse reason).reason = reason) ∧
    ((c.successResponseWithResource d).cmd.env.id = c.cmd.env.id ∧
      (c.successResponseWithResource d).cmd.method = c.cmd.method ∧
      (c.successResponseWithResource d).cmd.env.to = senderOf c.cmd.env ∧
      (c.successResponseWithResource d).cmd.env.from_ = c.cmd.env.to ∧
      (c.successResponseWithResource d).status = cs!"success" ∧
      (c.successResponseWithResource d).cmd.resource = some d ∧
      (c.successResponseWithResource d).cmd.type = some d.mt) := by
  simp [RequestCommand.successResponse, RequestCommand.failureResponse,
    RequestCommand.successResponseWithResource, Env.sender, senderOf]

/-- **C11 (correlation, notifications)** -/
theorem notification_correlated (m : Message) (event : Str) (reason : Option Reason) :
    ((m.notification event).env.id = m.env.id ∧ (m.notification event).event = event ∧
      (m.notification event).env.to = senderOf m.env ∧ (m.notification event).env.from_ = m.env.to) ∧
    ((m.failedNotification reason).env.id = m.env.id ∧ (m.failedNotification reason).event = cs!"failed" ∧
      (m.failedNotification reason).reason = reason ∧
      (m.failedNotification reason).env.to = senderOf m.env ∧ (m.failedNotification reason).env.from_ = m.env.to) := by
  simp [Message.notification, Message.failedNotification, Env.sender, senderOf]

theorem sender_wf (e : Env) (hf : e.from_.wf = true) (hp : e.pp.wf = true) : (senderOf e).wf = true := by
  unfold senderOf; split <;> assumption

theorem reply_env_wf (id : Str) (a b : Node) (ha : a.wf = true) (hb : b.wf = true) :
    ({ id := id, from_ := a, to := b } : Env).wf = true := by
  simp only [Env.wf, ha, hb, Bool.and_self, Bool.and_true]
  decide

/-- the media type every built-in document kind reports for itself is well-formed, and selects
that kind's factory -/
theorem doc_mt_wf (d : Doc) : d.mt.wf = true ∧ factoryFor d.mt = d.kind := by
  cases d <;> simp only [Doc.mt, Doc.kind] <;> exact ⟨by decide, by decide⟩

/-- **C11 (validity)**: for a request whose addresses are in the grammar and whose method is a
protocol method, every built response is a well-formed envelope — in particular a resource always
comes with its type — hence (C01) survives the wire with status, reason, resource and resource
type intact. -/
theorem response_wellformed (U : Str → Option Str) (c : RequestCommand)
    (hf : c.cmd.env.from_.wf = true) (hp : c.cmd.env.pp.wf = true) (ht : c.cmd.env.to.wf = true)
    (hm : commandMethods.contains c.cmd.method = true)
    (reason : Option Reason) (hr : optWf Reason.wf reason = true)
    (d : Doc) (hd : Doc.wf d.mt d = true) :
    (Envelope.response c.successResponse).wf U = true ∧
    (Envelope.response (c.failureResponse reason)).wf U = true ∧
    (Envelope.response (c.successResponseWithResource d)).wf U = true := by
  have hs := sender_wf c.cmd.env hf hp
  have henv := reply_env_wf c.cmd.env.id c.cmd.env.to (senderOf c.cmd.env) ht hs
  have hsnd : c.cmd.env.sender = senderOf c.cmd.env := rfl
  refine ⟨?_, ?_, ?_⟩
  · simp only [Envelope.wf, RequestCommand.successResponse, hsnd, henv, hm, optWf, Bool.and_self, Bool.true_and]
    decide
  · simp only [Envelope.wf, RequestCommand.failureResponse, hsnd, henv, hm, hr, Bool.and_self, Bool.true_and,
      Bool.and_true]
    decide
  · simp only [Envelope.wf, RequestCommand.successResponseWithResource, RequestCommand.successResponse, hsnd,
      henv, hm, optWf, (doc_mt_wf d).1, hd, Bool.and_self, Bool.true_and]
    decide

/-- **C11 (wire)**: the built responses encode, and a transport's receive path gives them back. -/
theorem response_survives_wire (U : Str → Option Str) (c : RequestCommand)
    (hf : c.cmd.env.from_.wf = true) (hp : c.cmd.env.pp.wf = true) (ht : c.cmd.env.to.wf = true)
    (hm : commandMethods.contains c.cmd.method = true)
    (reason : Option Reason) (hr : optWf Reason.wf reason = true)
    (d : Doc) (hd : Doc.wf d.mt d = true) :
    (∃ j, (Envelope.response c.successResponse).encode = .ok j ∧
        decodeAny U j = .ok (.response c.successResponse)) ∧
    (∃ j, (Envelope.response (c.failureResponse reason)).encode = .ok j ∧
        decodeAny U j = .ok (.response (c.failureResponse reason))) ∧
    (∃ j, (Envelope.response (c.successResponseWithResource d)).encode = .ok j ∧
        decodeAny U j = .ok (.response (c.successResponseWithResource d))) := by
  obtain ⟨h1, h2, h3⟩ := response_wellformed U c hf hp ht hm reason hr d hd
  obtain ⟨j1, e1, _, a1⟩ := envelope_roundtrip U _ h1
  obtain ⟨j2, e2, _, a2⟩ := envelope_roundtrip U _ h2
  obtain ⟨j3, e3, _, a3⟩ := envelope_roundtrip U _ h3
  exact ⟨⟨j1, e1, a1⟩, ⟨j2, e2, a2⟩, ⟨j3, e3, a3⟩⟩

/-- **C11 (notifications are valid)** -/
theorem notification_wellformed (U : Str → Option Str) (m : Message)
    (hf : m.env.from_.wf = true) (hp : m.env.pp.wf = true) (ht : m.env.to.wf = true)
    (event : Str) (he : notificationEvents.contains event = true)
    (reason : Option Reason) (hr : optWf Reason.wf reason = true) :
    (Envelope.notification (m.notification event)).wf U = true ∧
    (Envelope.notification (m.failedNotification reason)).wf U = true := by
  have hs := sender_wf m.env hf hp
  have henv := reply_env_wf m.env.id m.env.to (senderOf m.env) ht hs
  have hsnd : m.env.sender = senderOf m.env := rfl
  refine ⟨?_, ?_⟩
  · simp only [Envelope.wf, Message.notification, hsnd, henv, he, optWf, Bool.and_self]
  · simp only [Envelope.wf, Message.failedNotification, Message.notification, hsnd, henv, hr, Bool.and_true,
      Bool.true_and]
    decide

/-- **C11 (ping)**: the built-in ping auto-reply is `successResponseWithResource ping`: a success
response carrying the ping document together with the ping media type. -/
theorem ping_autoreply (c : RequestCommand) :
    (c.successResponseWithResource .ping).cmd.resource = some .ping ∧
    (c.successResponseWithResource .ping).cmd.type = some mtPing ∧
    (c.successResponseWithResource .ping).status = cs!"success" ∧
    (c.successResponseWithResource .ping).cmd.env.id = c.cmd.env.id := by
  simp [RequestCommand.successResponseWithResource, RequestCommand.successResponse, Doc.mt]

/-- Non-vacuity: a delegated `get /ping` request satisfies the hypotheses. -/
example :
    let c : RequestCommand := { cmd := { env := { id := cs!"1", from_ := ⟨cs!"a", cs!"b", cs!"c"⟩, pp := ⟨cs!"p", cs!"q", []⟩, to := ⟨cs!"postmaster", cs!"d", []⟩ }, method := cs!"get", type := none, resource := none }, uri := some cs!"/ping" }
    c.cmd.env.from_.wf = true ∧ c.cmd.env.pp.wf = true ∧ c.cmd.env.to.wf = true ∧
      commandMethods.contains c.cmd.method = true ∧ Doc.wf Doc.ping.mt Doc.ping = true ∧
      (c.successResponse.cmd.env.to = ⟨cs!"p", cs!"q", []⟩) := by decide

end Props.C11
