import LimeModel.Sessions
/-!
# C17 — concurrent sessions are isolated and handlers see their own session

For any number of connections, any interleaving of their traffic, any handler table and any nodes
assigned by the registration callback (equal ones included):
* `handler_sees_own_session` — every handler invocation for an envelope that arrived on connection
  `i` carries the id, local node and remote node of connection `i`'s session and has connection `i`
  as its sender; every announced id is the id of the session it was announced on;
* `ids_distinct` — given an id supply without repetitions (the UUID generator, trusted), the ids of
  all sessions are pairwise distinct;
* non-interference in unwinding form: `other_steps_invisible` (a step of another connection does
  not change what connection `i` sees) and `own_step_local` (what a step of connection `i` adds
  depends only on connection `i`'s session, the envelope and the shared handler table).
-/
namespace Props.C17
open LimeModel.Mux (Kind Table Handler)
open LimeModel.Sessions

/-- every event is consistent with the session of the connection it belongs to -/
def EvOk (sessions : List Sess) : Ev → Prop
  | .announced i id r => ∃ ss, sessions[i]? = some ss ∧ ss.id = id ∧ ss.rem = r
  | .invoked i _ _ a b c snd _ => ∃ ss, sessions[i]? = some ss ∧ a = ss.id ∧ b = ss.loc ∧ c = ss.rem ∧ snd = i

theorem evOk_append (l : List Sess) (x : Sess) (e : Ev) (h : EvOk l e) : EvOk (l ++ [x]) e := by
  cases e with
  | announced i id r =>
    obtain ⟨ss, h1, h2⟩ := h
    have hi : i < l.length := by
      rcases Nat.lt_or_ge i l.length with h | h
      · exact h
      · rw [List.getElem?_eq_none h] at h1; cases h1
    exact ⟨ss, by rw [List.getElem?_append_left hi]; exact h1, h2⟩
  | invoked i k hh a b c snd e =>
    obtain ⟨ss, h1, h2⟩ := h
    have hi : i < l.length := by
      rcases Nat.lt_or_ge i l.length with h | h
      · exact h
      · rw [List.getElem?_eq_none h] at h1; cases h1
    exact ⟨ss, by rw [List.getElem?_append_left hi]; exact h1, h2⟩

def Inv (s : St) : Prop :=
  (∀ ev ∈ s.trace, EvOk s.sessions ev) ∧ (∀ ss ∈ s.sessions, ss.loc = s.node) ∧
  (s.sessions.map (·.id) ++ s.supply).Nodup

theorem step_inv (t : Table Nat) (s : St) (o : Op) (h : Inv s) : Inv (step t s o) := by
  obtain ⟨h1, h2, h3⟩ := h
  cases o with
  | accept reg =>
    simp only [step]
    cases hs : s.supply with
    | nil => simp only; exact ⟨h1, h2, h3⟩
    | cons id rest =>
      simp only
      refine ⟨?_, ?_, ?_⟩
      · intro ev hev
        simp only [List.mem_cons] at hev
        rcases hev with rfl | hev
        · exact ⟨⟨id, s.node, reg⟩, by simp, rfl, rfl⟩
        · exact evOk_append _ _ _ (h1 ev hev)
      · intro ss hss
        simp only [List.mem_append, List.mem_singleton] at hss
        rcases hss with hss | rfl
        · exact h2 ss hss
        · rfl
      · rw [hs] at h3
        simpa [List.map_append, List.append_assoc] using h3
  | recv i k e =>
    simp only [step]
    cases hi : s.sessions[i]? with
    | none => exact ⟨h1, h2, h3⟩
    | some ss =>
      simp only
      cases hh : invokedHandler t k e with
      | none => exact ⟨h1, h2, h3⟩
      | some hd =>
        refine ⟨?_, h2, h3⟩
        intro ev hev
        simp only [List.mem_cons] at hev
        rcases hev with rfl | hev
        · exact ⟨ss, hi, rfl, rfl, rfl, rfl⟩
        · exact h1 ev hev

theorem run_inv (t : Table Nat) (node : Nat) (supply : List Nat) (hn : supply.Nodup) (ops : List Op) :
    Inv (run t node supply ops) := by
  have key : ∀ (ops : List Op) (s : St), Inv s → Inv (ops.foldl (step t) s) := by
    intro ops
    induction ops with
    | nil => intro s h; exact h
    | cons o r ih => intro s h; exact ih _ (step_inv t s o h)
  exact key ops _ ⟨(fun ev h => by cases h), (fun ss h => by cases h), (by simpa using hn)⟩

/-- **C17 (own session)** -/
theorem handler_sees_own_session (t : Table Nat) (node : Nat) (supply : List Nat) (hn : supply.Nodup)
    (ops : List Op) (i : Nat) (k : Kind) (h a b c snd e : Nat)
    (hev : Ev.invoked i k h a b c snd e ∈ (run t node supply ops).trace) :
    ∃ ss, (run t node supply ops).sessions[i]? = some ss ∧ a = ss.id ∧ b = node ∧ c = ss.rem ∧ snd = i := by
  obtain ⟨h1, h2, _⟩ := run_inv t node supply hn ops
  obtain ⟨ss, hs, ha, hb, hc, hsnd⟩ := h1 _ hev
  have hnode : (run t node supply ops).node = node := by
    have key : ∀ (ops : List Op) (s : St), (ops.foldl (step t) s).node = s.node := by
      intro ops
      induction ops with
      | nil => intro s; rfl
      | cons o r ih =>
        intro s
        simp only [List.foldl_cons]
        rw [ih]
        cases o with
        | accept reg => simp only [step]; split <;> rfl
        | recv i k e => simp only [step]; split <;> (try rfl); split <;> rfl
    exact key ops _
  exact ⟨ss, hs, ha, by rw [hb, h2 ss (List.mem_of_getElem? hs), hnode], hc, hsnd⟩

/-- **C17 (announced id)**: the id announced on a connection is the id of that connection's session. -/
theorem announced_is_own (t : Table Nat) (node : Nat) (supply : List Nat) (hn : supply.Nodup)
    (ops : List Op) (i id r : Nat) (hev : Ev.announced i id r ∈ (run t node supply ops).trace) :
    ∃ ss, (run t node supply ops).sessions[i]? = some ss ∧ ss.id = id ∧ ss.rem = r :=
  (run_inv t node supply hn ops).1 _ hev

/-- **C17 (distinct ids)** -/
theorem ids_distinct (t : Table Nat) (node : Nat) (supply : List Nat) (hn : supply.Nodup) (ops : List Op) :
    ((run t node supply ops).sessions.map (·.id)).Nodup :=
  (List.nodup_append.mp (run_inv t node supply hn ops).2.2).1

/-- an operation concerns connection `i` -/
def concerns (i : Nat) (s : St) : Op → Prop
  | .accept _ => s.sessions.length = i
  | .recv j _ _ => j = i

/-- **C17 (non-interference, step consistency)**: steps of other connections are invisible. -/
theorem other_steps_invisible (t : Table Nat) (s : St) (o : Op) (i : Nat) (h : ¬ concerns i s o) :
    proj i (step t s o).trace = proj i s.trace := by
  cases o with
  | accept reg =>
    simp only [step]
    cases hs : s.supply with
    | nil => rfl
    | cons id rest =>
      simp only [proj]
      have : ¬ s.sessions.length = i := h
      simp [this]
  | recv j k e =>
    simp only [step]
    cases hj : s.sessions[j]? with
    | none => rfl
    | some ss =>
      simp only
      cases hh : invokedHandler t k e with
      | none => rfl
      | some hd =>
        simp only [proj]
        have : ¬ j = i := h
        simp [this]

/-- **C17 (non-interference, output consistency)**: what a step of connection `i` adds depends only
on connection `i`'s session, the envelope and the handler table. -/
theorem own_step_local (t : Table Nat) (s1 s2 : St) (i : Nat) (k : Kind) (e : Nat)
    (h : s1.sessions[i]? = s2.sessions[i]?) :
    ∃ evs, (step t s1 (.recv i k e)).trace = evs ++ s1.trace ∧ (step t s2 (.recv i k e)).trace = evs ++ s2.trace := by
  simp only [step, ← h]
  cases hi : s1.sessions[i]? with
  | none => exact ⟨[], rfl, rfl⟩
  | some ss =>
    simp only
    cases hh : invokedHandler t k e with
    | none => exact ⟨[], rfl, rfl⟩
    | some hd => exact ⟨[.invoked i k hd ss.id ss.loc ss.rem i e], rfl, rfl⟩

/-- Non-vacuity: two connections whose registration returned the same node. -/
example :
    let t : Table Nat := { msg := [⟨none, fun _ => false⟩], ntf := [], req := [], resp := [] }
    (run t 9 [41, 42, 43] [.accept 5, .accept 5, .recv 1 .msg 7, .recv 0 .msg 8]).trace =
      [.invoked 0 .msg 0 41 9 5 0 8, .invoked 1 .msg 0 42 9 5 1 7, .announced 1 42 5, .announced 0 41 5] := by
  decide

end Props.C17
