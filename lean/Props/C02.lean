import LimeModel.Lemmas.RawRoundtrip
/-!
# C02 — decoding untrusted input never panics

`decodeTyped` and `decodeAny` are total functions of the JSON tree (their definitions were accepted
by Lean with a termination proof: decoding terminates on every input), and on *no* tree, for no
kind and no URL library behaviour, is their outcome `panic`: every dereference of the Go decode
path that the model marks as a potential panic is guarded.
-/
namespace Props.C02
open LimeModel LimeModel.Json

theorem foldVals_no_panic {α} (assign : α → Json → Outcome α) (h : ∀ a v, assign a v ≠ .panic)
    (a : α) (vals : List Json) : foldVals assign a vals ≠ .panic := by
  induction vals generalizing a with
  | nil => simp [foldVals]
  | cons v t ih =>
    simp only [foldVals]
    have := h a v
    cases hav : assign a v with
    | ok a' => simpa [Outcome.bind] using ih a'
    | err => simp [Outcome.bind]
    | panic => exact absurd hav this

theorem intoString_no_panic (c : Str) (v : Json) : intoString c v ≠ .panic := by
  cases v <;> simp [intoString]

theorem intoInt_no_panic (c : Int) (v : Json) : intoInt c v ≠ .panic := by
  cases v with
  | num n => cases n <;> simp [intoInt]; split <;> simp
  | _ => simp [intoInt]

theorem ptrText_no_panic {α} (p : Str → Option α) (c : Option α) (v : Json) : ptrText p c v ≠ .panic := by
  cases v <;> simp [ptrText]
  split <;> simp

theorem ptrString_no_panic (c : Option Str) (v : Json) : ptrString c v ≠ .panic := by
  cases v <;> simp [ptrString]

theorem elemsOver_no_panic (old : List Str) (l : List Json) : elemsOver old l ≠ .panic := by
  induction l generalizing old with
  | nil => simp [elemsOver]
  | cons v t ih =>
    simp only [elemsOver]
    cases h1 : intoString (old.headD []) v with
    | ok s =>
      simp only [Outcome.bind]
      cases h2 : elemsOver old.tail t with
      | ok r => simp
      | err => simp
      | panic => exact absurd h2 (ih _)
    | err => simp [Outcome.bind]
    | panic => exact absurd h1 (intoString_no_panic _ _)

theorem sliceString_no_panic (c : Option (List Str)) (v : Json) : sliceString c v ≠ .panic := by
  cases v <;> simp [sliceString]
  rename_i l
  cases h : elemsOver (c.getD []) l with
  | ok r => simp [Outcome.bind]
  | err => simp [Outcome.bind]
  | panic => exact absurd h (elemsOver_no_panic _ _)

theorem metaElems_no_panic (kvs : List (Str × Json)) : metaElems kvs ≠ .panic := by
  induction kvs with
  | nil => simp [metaElems]
  | cons a t ih =>
    obtain ⟨k, v⟩ := a
    simp only [metaElems]
    cases v <;> simp [elemString] <;>
      (cases h : metaElems t <;> simp_all [Outcome.bind])

theorem assignMeta_no_panic (c : Option (List (Str × Str))) (v : Json) : assignMeta c v ≠ .panic := by
  cases v <;> simp [assignMeta]
  rename_i kvs
  cases h : metaElems kvs with
  | ok r => simp [Outcome.bind]
  | err => simp [Outcome.bind]
  | panic => exact absurd h (metaElems_no_panic _)

theorem assignReason_no_panic (c : Option Reason) (v : Json) : assignReason c v ≠ .panic := by
  cases v <;> simp [assignReason]
  rename_i kvs
  cases h1 : foldVals intoInt (c.getD ⟨0, []⟩).code (fieldVals cs!"code" kvs) with
  | ok code =>
    simp only [Outcome.bind]
    cases h2 : foldVals intoString (c.getD ⟨0, []⟩).desc (fieldVals cs!"description" kvs) with
    | ok d => simp
    | err => simp
    | panic => exact absurd h2 (foldVals_no_panic _ intoString_no_panic _ _)
  | err => simp [Outcome.bind]
  | panic => exact absurd h1 (foldVals_no_panic _ intoInt_no_panic _ _)

theorem sizeOf_json_pos (j : Json) : 0 < sizeOf j := by cases j <;> simp <;> omega

theorem nilRawDeref_no_panic {α} : (nilRawDeref : Outcome α) ≠ .panic := by simp [nilRawDeref]

/-- documents: by strong induction on the size of the tree -/
theorem dec_no_panic_aux (n : Nat) :
    (∀ j t, sizeOf j ≤ n → Doc.dec j t ≠ .panic) ∧ (∀ js t, sizeOf js ≤ n → Doc.decList js t ≠ .panic) := by
  induction n with
  | zero =>
    refine ⟨fun j t h => ?_, fun js t h => ?_⟩
    · have := sizeOf_json_pos j; omega
    · cases js <;> simp at h
  | succ n ih =>
    obtain ⟨ihd, ihl⟩ := ih
    refine ⟨fun j t h => ?_, fun js t h => ?_⟩
    · rw [Doc.dec.eq_def]
      split
      · split <;> simp
      · split <;> simp
      · split <;> simp
      · -- container
        split
        · rename_i kvs
          split
          · simp
          · rename_i hp; exact absurd hp (foldVals_no_panic _ (ptrText_no_panic _) _ _)
          · simp
          · split
            · exact nilRawDeref_no_panic
            · rename_i t' _ v hv
              have hlt : sizeOf v < sizeOf kvs := sizeOf_lt_of_rawLast hv
              have hsz : sizeOf v ≤ n := by simp at h; omega
              have := ihd v t' hsz
              split <;> simp_all
        · simp
      · -- collection
        split
        · rename_i kvs
          split
          · simp
          · rename_i hp; exact absurd hp (foldVals_no_panic _ intoInt_no_panic _ _)
          · split
            · simp
            · rename_i hp; exact absurd hp (foldVals_no_panic _ (ptrText_no_panic _) _ _)
            · split
              · simp
              · rename_i hp
                unfold itemsField at hp
                refine absurd hp (foldVals_no_panic _ ?_ _ _)
                intro a v; cases v <;> simp
              · rename_i items hi
                split
                · simp
                · split
                  · simp
                  · split
                    · simp
                    · simp
                    · rename_i heq
                      refine absurd heq (ihl _ _ ?_)
                      have hlt := itemsField_sizeOf (kvs := kvs) (by assumption)
                      simp at h; omega
        · simp
    · rw [Doc.decList.eq_def]
      split
      · simp
      · exact nilRawDeref_no_panic
      · rename_i j rest _
        have h1 : sizeOf j ≤ n := by simp at h; omega
        have h2 : sizeOf rest ≤ n := by simp at h; omega
        have a1 := ihd j t h1
        have a2 := ihl rest t h2
        split
        · split <;> simp_all
        · simp
        · simp_all

theorem Doc.dec_no_panic (j : Json) (t : MT) : Doc.dec j t ≠ .panic :=
  (dec_no_panic_aux (sizeOf j)).1 j t (Nat.le_refl _)

theorem bind_no_panic {α β} (x : Outcome α) (f : α → Outcome β)
    (hx : x ≠ .panic) (hf : ∀ a, f a ≠ .panic) : x.bind f ≠ .panic := by
  cases x <;> simp_all [Outcome.bind]

theorem Raw.ofJson_no_panic (U : Str → Option Str) (j : Json) : Raw.ofJson U j ≠ .panic := by
  unfold Raw.ofJson
  cases j <;> simp only [ne_eq, reduceCtorEq, not_false_eq_true]
  simp only [bind, pure]
  repeat' (first
    | (intro h; cases h)
    | refine bind_no_panic _ _ (foldVals_no_panic _ intoString_no_panic _ _) (fun _ => ?_)
    | refine bind_no_panic _ _ (foldVals_no_panic _ (ptrText_no_panic _) _ _) (fun _ => ?_)
    | refine bind_no_panic _ _ (foldVals_no_panic _ assignMeta_no_panic _ _) (fun _ => ?_)
    | refine bind_no_panic _ _ (foldVals_no_panic _ assignReason_no_panic _ _) (fun _ => ?_)
    | refine bind_no_panic _ _ (foldVals_no_panic _ ptrString_no_panic _ _) (fun _ => ?_)
    | refine bind_no_panic _ _ (foldVals_no_panic _ sliceString_no_panic _ _) (fun _ => ?_))

theorem Auth.ofJson_no_panic (s : Str) (j : Json) : Auth.ofJson s j ≠ .panic := by
  unfold Auth.ofJson
  repeat' split
  all_goals first
    | (intro h; cases h)
    | (refine bind_no_panic _ _ (foldVals_no_panic _ intoString_no_panic _ _) (fun _ => ?_)
       first
        | (intro h; cases h)
        | (refine bind_no_panic _ _ (foldVals_no_panic _ intoString_no_panic _ _) (fun _ => ?_)
           (intro h; cases h)))

theorem Command.ofRaw_no_panic (r : Raw) : Command.ofRaw r ≠ .panic := by
  unfold Command.ofRaw
  refine bind_no_panic _ _ ?_ (fun p => ?_)
  · split
    · simp
    · split
      · simp
      · refine bind_no_panic _ _ (Doc.dec_no_panic _ _) (fun _ => by simp)
  · split <;> simp

theorem populate_no_panic (k : Kind) (r : Raw) : populate k r ≠ .panic := by
  cases k <;> simp only [populate]
  · refine bind_no_panic _ _ ?_ (fun _ => by simp)
    unfold Message.ofRaw
    split
    · simp
    · split
      · simp
      · exact bind_no_panic _ _ (Doc.dec_no_panic _ _) (fun _ => by simp)
  · refine bind_no_panic _ _ ?_ (fun _ => by simp)
    unfold Notification.ofRaw
    split <;> simp
  · refine bind_no_panic _ _ ?_ (fun _ => by simp)
    unfold RequestCommand.ofRaw
    exact bind_no_panic _ _ (Command.ofRaw_no_panic r) (fun _ => by simp)
  · refine bind_no_panic _ _ ?_ (fun _ => by simp)
    unfold ResponseCommand.ofRaw
    refine bind_no_panic _ _ (Command.ofRaw_no_panic r) (fun _ => ?_)
    split <;> simp
  · refine bind_no_panic _ _ ?_ (fun _ => by simp)
    unfold Session.ofRaw
    refine bind_no_panic _ _ ?_ (fun _ => ?_)
    · split
      · simp
      · split
        · simp
        · exact bind_no_panic _ _ (Auth.ofJson_no_panic _ _) (fun _ => by simp)
    · split <;> simp

theorem Raw.kind_no_panic (r : Raw) : r.kind ≠ .panic := by
  unfold Raw.kind
  repeat' split
  all_goals simp

/-- **C02 (never panics)**: for every JSON tree, every envelope kind and every behaviour of the URL
library, neither the typed decoders nor the transport receive path panic. -/
theorem decode_never_panics (U : Str → Option Str) (k : Kind) (j : Json) :
    decodeTyped U k j ≠ .panic ∧ decodeAny U j ≠ .panic := by
  constructor
  · exact bind_no_panic _ _ (Raw.ofJson_no_panic U j) (fun r => populate_no_panic k r)
  · refine bind_no_panic _ _ (Raw.ofJson_no_panic U j) (fun r => ?_)
    exact bind_no_panic _ _ (Raw.kind_no_panic r) (fun k => populate_no_panic k r)

/-- The inputs that crashed the decoders before the repair (container without / with a null
value, collection with a null item) are now answered with an error. -/
example : Doc.dec (.obj [(cs!"type", .str cs!"text/plain")]) mtContainer = .err := by
  rw [Doc.dec.eq_def]; simp [factoryFor, mtContainer, mtTextPlain, mtAppJson, fieldVals, keyMatch, foldKey,
    foldChar, ptrText, parseMT, splitOn, rawLast, lastVal, nilRawDeref]

end Props.C02
