import Props.C01
import Props.C02
/-!
# C02, second half — whatever the receive path accepts can be encoded again, and that encoding
decodes to the same envelope
-/
namespace Props.C02
open LimeModel LimeModel.Json

/-! ## the parsers only produce values in the grammar -/

theorem mem_splitOn_no_sep (sep : Char) (s : Str) : ∀ p ∈ splitOn sep s, sep ∉ p := by
  induction s with
  | nil => intro p hp; simp [splitOn] at hp; subst hp; simp
  | cons c t ih =>
    intro p hp
    by_cases hc : c = sep
    · subst hc
      rw [splitOn_cons_eq] at hp
      cases hp with
      | head => simp
      | tail _ h => exact ih p h
    · have hne := splitOn_ne_nil sep t
      cases hs : splitOn sep t with
      | nil => exact absurd hs hne
      | cons h r =>
        simp only [splitOn, hc, if_false, hs] at hp
        rw [hs] at ih
        cases hp with
        | head =>
          have := ih h (List.mem_cons_self ..)
          intro hm; cases hm with
          | head => exact hc rfl
          | tail _ hm' => exact this hm'
        | tail _ hp' => exact ih p (List.mem_cons_of_mem _ hp')

theorem mem_splitOn_no_other (sep c : Char) (s : Str) (hc : c ∉ s) : ∀ p ∈ splitOn sep s, c ∉ p := by
  induction s with
  | nil => intro p hp; simp [splitOn] at hp; subst hp; simp
  | cons d t ih =>
    have hdt : c ∉ t := fun h => hc (List.mem_cons_of_mem _ h)
    have hcd : c ≠ d := fun h => hc (h ▸ List.mem_cons_self ..)
    intro p hp
    by_cases hd : d = sep
    · subst hd
      rw [splitOn_cons_eq] at hp
      cases hp with
      | head => simp
      | tail _ h => exact ih hdt p h
    · have hne := splitOn_ne_nil sep t
      cases hs : splitOn sep t with
      | nil => exact absurd hs hne
      | cons h r =>
        simp only [splitOn, hd, if_false, hs] at hp
        have ih' := ih hdt
        rw [hs] at ih'
        cases hp with
        | head =>
          have := ih' h (List.mem_cons_self ..)
          intro hm; cases hm with
          | head => exact hcd rfl
          | tail _ hm' => exact this hm'
        | tail _ hp' => exact ih' p (List.mem_cons_of_mem _ hp')

theorem headD_mem_or_nil {α} (l : List (List α)) : l.headD [] ∈ l ∨ l.headD [] = [] := by
  cases l <;> simp

theorem getD_mem_or_nil {α} (l : List (List α)) (i : Nat) : l.getD i [] ∈ l ∨ l.getD i [] = [] := by
  by_cases h : i < l.length
  · left; simp [List.getD, h]
  · right; simp [List.getD, h]

/-- a piece of a split (or the empty default) -/
def Piece (sep : Char) (s p : Str) : Prop := p ∈ splitOn sep s ∨ p = []

theorem Piece.no_sep {sep : Char} {s p : Str} (h : Piece sep s p) : sep ∉ p := by
  cases h with
  | inl h => exact mem_splitOn_no_sep sep s p h
  | inr h => subst h; simp

theorem Piece.no_other {sep c : Char} {s p : Str} (h : Piece sep s p) (hc : c ∉ s) : c ∉ p := by
  cases h with
  | inl h => exact mem_splitOn_no_other sep c s hc p h
  | inr h => subst h; simp

theorem piece_head (sep : Char) (s : Str) : Piece sep s ((splitOn sep s).headD []) := headD_mem_or_nil _
theorem piece_get (sep : Char) (s : Str) (i : Nat) : Piece sep s ((splitOn sep s).getD i []) := getD_mem_or_nil _ i
theorem piece_ite (sep : Char) (s : Str) (c : Prop) [Decidable c] (i : Nat) :
    Piece sep s (if c then (splitOn sep s).getD i [] else []) := by
  split
  · exact piece_get sep s i
  · right; rfl

theorem noSep_of_not_mem {seps : List Char} {s : Str} (h : ∀ c ∈ seps, c ∉ s) : noSep seps s = true := by
  simp only [noSep, List.all_eq_true]
  intro c hc
  cases hcs : seps.contains c with
  | false => rfl
  | true => exact absurd hc (h c (by simpa using hcs))

theorem parseIdentity_parts (s : Str) : Piece '@' s (parseIdentity s).name ∧ Piece '@' s (parseIdentity s).domain :=
  ⟨piece_head '@' s, piece_ite '@' s _ 1⟩

theorem parseNode_wf (s : Str) : (parseNode s).wf = true := by
  have hh := piece_head '/' s
  have hi := piece_ite '/' s ((splitOn '/' s).length > 1) 1
  obtain ⟨hn, hd⟩ := parseIdentity_parts ((splitOn '/' s).headD [])
  have hslash := hh.no_sep
  simp only [Node.wf, parseNode, Bool.and_eq_true]
  refine ⟨⟨noSep_of_not_mem ?_, noSep_of_not_mem ?_⟩, noSep_of_not_mem ?_⟩
  · intro c hc
    simp at hc
    rcases hc with rfl | rfl
    · exact hn.no_sep
    · exact hn.no_other hslash
  · intro c hc
    simp at hc
    rcases hc with rfl | rfl
    · exact hd.no_sep
    · exact hd.no_other hslash
  · intro c hc
    simp at hc
    subst hc
    exact hi.no_sep

theorem parseMT_wf (s : Str) (m : MT) (h : parseMT s = some m) : m.wf = true := by
  unfold parseMT at h
  simp only at h
  split at h
  · cases h
  · rename_i hcond
    cases h
    have hv := piece_head '+' s
    have hsuf := piece_ite '+' s ((splitOn '+' s).length > 1) 1
    have hplus := hv.no_sep
    have ht := piece_head '/' ((splitOn '+' s).headD [])
    have hst := piece_get '/' ((splitOn '+' s).headD []) 1
    simp only [not_or] at hcond
    simp only [MT.wf, Bool.and_eq_true]
    refine ⟨⟨⟨⟨?_, ?_⟩, noSep_of_not_mem ?_⟩, noSep_of_not_mem ?_⟩, noSep_of_not_mem ?_⟩
    · simpa using hcond.2.1
    · simpa using hcond.2.2
    · intro c hc
      simp at hc
      rcases hc with rfl | rfl
      · exact ht.no_sep
      · exact ht.no_other hplus
    · intro c hc
      simp at hc
      rcases hc with rfl | rfl
      · exact hst.no_sep
      · exact hst.no_other hplus
    · intro c hc
      simp at hc
      subst hc
      exact hsuf.no_sep

/-! ## post-conditions of the field decoders -/

theorem bind_ok_inv {α β} {x : Outcome α} {f : α → Outcome β} {b : β} (h : x.bind f = .ok b) :
    ∃ a, x = .ok a ∧ f a = .ok b := by
  cases x <;> simp_all [Outcome.bind]

/-- what every accepted assignment establishes is established by the fold over all occurrences -/
theorem foldVals_post {α} (P : α → Prop) (assign : α → Json → Outcome α)
    (hstep : ∀ a v a', P a → assign a v = .ok a' → P a') :
    ∀ (vals : List Json) (init a : α), P init → foldVals assign init vals = .ok a → P a := by
  intro vals
  induction vals with
  | nil => intro init a hi h; simp at h; exact h ▸ hi
  | cons v t ih =>
    intro init a hi h
    simp only [foldVals] at h
    obtain ⟨a', h1, h2⟩ := bind_ok_inv h
    exact ih a' a (hstep init v a' hi h1) h2

/-- `P` of the pointee, vacuous for nil -/
def OptP {α} (P : α → Prop) (o : Option α) : Prop := ∀ a, o = some a → P a

theorem ptrText_post {α} (P : α → Prop) (parse : Str → Option α) (hp : ∀ s a, parse s = some a → P a)
    (vals : List Json) (o : Option α) (h : foldVals (ptrText parse) none vals = .ok o) : OptP P o := by
  refine foldVals_post (OptP P) _ ?_ vals none o (by intro _ h; cases h) h
  intro cur v a' _ hv
  cases v <;> simp only [ptrText] at hv <;> try cases hv
  · intro _ h; cases h
  · rename_i s
    split at hv
    · rename_i a hpa; cases hv; intro b hb; cases hb; exact hp s a hpa
    · cases hv

theorem keysDistinct_dedupKeys {α} (kvs : List (Str × α)) : keysDistinct (dedupKeys kvs) = true := by
  induction kvs with
  | nil => rfl
  | cons a t ih =>
    obtain ⟨k, v⟩ := a
    simp only [dedupKeys]
    split
    · exact ih
    · rename_i hk
      simp only [keysDistinct, Bool.and_eq_true, Bool.not_eq_true']
      refine ⟨?_, ih⟩
      -- no key of the deduplicated tail is k
      have sub : ∀ (l : List (Str × α)) (p : Str × α), p ∈ dedupKeys l → p ∈ l := by
        intro l
        induction l with
        | nil => intro p hp; simp [dedupKeys] at hp
        | cons b r ihr =>
          obtain ⟨k', v'⟩ := b
          intro p hp
          simp only [dedupKeys] at hp
          split at hp
          · exact List.mem_cons_of_mem _ (ihr p hp)
          · cases hp with
            | head => exact List.mem_cons_self ..
            | tail _ h => exact List.mem_cons_of_mem _ (ihr p h)
      cases hany : (dedupKeys t).any (fun p => p.1 == k) with
      | false => rfl
      | true =>
        obtain ⟨p, hp, hpk⟩ := List.any_eq_true.mp hany
        exact absurd (List.any_eq_true.mpr ⟨p, sub t p hp, hpk⟩) hk

theorem mem_dedupKeys {α} : ∀ (l : List (Str × α)) (p : Str × α), p ∈ dedupKeys l → p ∈ l := by
  intro l
  induction l with
  | nil => intro p hp; simp [dedupKeys] at hp
  | cons b r ihr =>
    obtain ⟨k', v'⟩ := b
    intro p hp
    simp only [dedupKeys] at hp
    split at hp
    · exact List.mem_cons_of_mem _ (ihr p hp)
    · cases hp with
      | head => exact List.mem_cons_self ..
      | tail _ h => exact List.mem_cons_of_mem _ (ihr p h)

theorem isNormKvs_iff (kvs : List (Str × Json)) :
    Json.isNormKvs kvs = true ↔ ∀ p ∈ kvs, Json.isNorm p.2 = true := by
  induction kvs with
  | nil => simp [Json.isNormKvs]
  | cons a t ih => obtain ⟨k, v⟩ := a; simp [Json.isNormKvs, ih]

theorem isNormKvs_dedupKeys (kvs : List (Str × Json)) (h : Json.isNormKvs kvs = true) :
    Json.isNormKvs (dedupKeys kvs) = true := by
  rw [isNormKvs_iff] at *
  exact fun p hp => h p (mem_dedupKeys kvs p hp)

mutual
theorem isNorm_norm : (j : Json) → Json.isNorm (Json.norm j) = true
  | .null => rfl
  | .bool _ => rfl
  | .num _ => rfl
  | .str _ => rfl
  | .arr l => by simp only [Json.norm, Json.isNorm]; exact isNormList_normList l
  | .obj kvs => by
    simp only [Json.norm, Json.isNorm, Bool.and_eq_true]
    exact ⟨keysDistinct_dedupKeys _, isNormKvs_dedupKeys _ (isNormKvs_normKvs kvs)⟩
theorem isNormList_normList : (l : List Json) → Json.isNormList (Json.normList l) = true
  | [] => rfl
  | j :: t => by simp only [Json.normList, Json.isNormList, Bool.and_eq_true]; exact ⟨isNorm_norm j, isNormList_normList t⟩
theorem isNormKvs_normKvs : (kvs : List (Str × Json)) → Json.isNormKvs (Json.normKvs kvs) = true
  | [] => rfl
  | (k, v) :: t => by simp only [Json.normKvs, Json.isNormKvs, Bool.and_eq_true]; exact ⟨isNorm_norm v, isNormKvs_normKvs t⟩
end

theorem intoInt_post (vals : List Json) (init a : Int) (hi : int64 init = true)
    (h : foldVals intoInt init vals = .ok a) : int64 a = true := by
  refine foldVals_post (fun i => int64 i = true) _ ?_ vals init a hi h
  intro cur v a' hc hv
  cases v <;> simp only [intoInt] at hv <;> try cases hv
  · exact hc
  · rename_i n
    cases n with
    | int i =>
      simp only at hv
      split at hv
      · rename_i hr; cases hv; simp [int64, hr.1, hr.2]
      · cases hv
    | other _ => simp at hv

/-! ## accepted documents are well-formed under the media type they were decoded with -/

theorem parseMT_post (vals : List Json) (o : Option MT)
    (h : foldVals (ptrText parseMT) none vals = .ok o) : OptP (fun m => m.wf = true) o :=
  ptrText_post _ parseMT parseMT_wf vals o h

theorem dec_wf_aux (n : Nat) :
    (∀ j t d, sizeOf j ≤ n → Doc.dec j t = .ok d → Doc.wf t d = true) ∧
    (∀ js t ds, sizeOf js ≤ n → Doc.decList js t = .ok ds → Doc.wfList t ds = true) := by
  induction n with
  | zero =>
    refine ⟨fun j t d h => ?_, fun js t ds h => ?_⟩
    · have := sizeOf_json_pos j; omega
    · cases js <;> simp at h
  | succ n ih =>
    obtain ⟨ihd, ihl⟩ := ih
    refine ⟨fun j t d hsz h => ?_, fun js t ds hsz h => ?_⟩
    · rw [Doc.dec.eq_def] at h
      split at h
      · rename_i hf
        split at h
        · cases h; simp [Doc.wf, hf]
        · cases h
      · rename_i hf
        split at h
        · cases h
          simp [Doc.wf, hf, keysDistinct_dedupKeys, isNormKvs_dedupKeys _ (isNormKvs_normKvs _)]
        · cases h
      · rename_i hf
        split at h
        · cases h; simp [Doc.wf, hf]
        · cases h
      · -- container
        rename_i hf
        split at h
        · rename_i kvs
          split at h
          · cases h
          · cases h
          · cases h
          · rename_i t' ht'
            have htw : t'.wf = true := parseMT_post _ _ ht' t' rfl
            split at h
            · simp [nilRawDeref] at h
            · rename_i v hv
              have hlt : sizeOf v < sizeOf kvs := sizeOf_lt_of_rawLast hv
              split at h
              · rename_i d' hd'
                cases h
                have := ihd v t' d' (by simp at hsz; omega) hd'
                simp [Doc.wf, hf, htw, this]
              · cases h
              · cases h
        · cases h
      · -- collection
        rename_i hf
        split at h
        · rename_i kvs
          split at h
          · cases h
          · cases h
          · rename_i total htot
            have htw : int64 total = true := intoInt_post _ 0 total (by decide) htot
            split at h
            · cases h
            · cases h
            · rename_i oit hit
              split at h
              · cases h
              · cases h
              · rename_i items hitems
                split at h
                · cases h
                · rename_i it
                  have hitw : it.wf = true := parseMT_post _ _ hit it rfl
                  split at h
                  · cases h; simp [Doc.wf, Doc.wfItems, hf, htw, hitw]
                  · rename_i l hl
                    have hlt : sizeOf l < sizeOf kvs := itemsField_sizeOf hl
                    split at h
                    · rename_i ds hds
                      cases h
                      have := ihl l it ds (by simp at hsz; omega) hds
                      simp [Doc.wf, Doc.wfItems, hf, htw, hitw, this]
                    · cases h
                    · cases h
        · cases h
    · rw [Doc.decList.eq_def] at h
      split at h
      · cases h; rfl
      · simp [nilRawDeref] at h
      · rename_i j rest _
        split at h
        · rename_i d hd
          split at h
          · rename_i ds' hds
            cases h
            have h1 := ihd j t d (by simp at hsz; omega) hd
            have h2 := ihl rest t ds' (by simp at hsz; omega) hds
            simp [Doc.wfList, h1, h2]
          · cases h
          · cases h
        · cases h
        · cases h

theorem Doc.dec_wf (j : Json) (t : MT) (d : Doc) (h : Doc.dec j t = .ok d) : Doc.wf t d = true :=
  (dec_wf_aux (sizeOf j)).1 j t d (Nat.le_refl _) h

/-! ## the raw struct the receive path fills is in the grammar, member by member -/

/-- the URL library's parse-then-print is idempotent: what it printed it parses back to the same text -/
def UIdem (U : Str → Option Str) : Prop := ∀ s u, U s = some u → U u = some u

structure RawGood (U : Str → Option Str) (r : Raw) : Prop where
  from_ : OptP (fun n => n.wf = true) r.from_
  pp : OptP (fun n => n.wf = true) r.pp
  to : OptP (fun n => n.wf = true) r.to
  metadata : OptP (fun kvs => keysDistinct kvs = true) r.metadata
  reason : OptP (fun x => int64 x.code = true) r.reason
  type : OptP (fun m => m.wf = true) r.type
  event : OptP (fun s => notificationEvents.contains s = true) r.event
  method : OptP (fun s => commandMethods.contains s = true) r.method
  state : OptP (fun s => sessionStates.contains s = true) r.state
  uri : OptP (fun u => U u = some u) r.uri

theorem parseEnum_post (members : List Str) (vals : List Json) (o : Option Str)
    (h : foldVals (ptrText (parseEnum members)) none vals = .ok o) :
    OptP (fun s => members.contains s = true) o := by
  refine ptrText_post _ _ ?_ vals o h
  intro s a hp
  unfold parseEnum at hp
  split at hp
  · cases hp; assumption
  · cases hp

theorem parseNode_post (vals : List Json) (o : Option Node)
    (h : foldVals (ptrText parseNodeSome) none vals = .ok o) : OptP (fun n => n.wf = true) o := by
  refine ptrText_post _ _ ?_ vals o h
  intro s a hp
  simp only [parseNodeSome, Option.some.injEq] at hp
  subst hp
  exact parseNode_wf s

theorem assignMeta_post (vals : List Json) (o : Option (List (Str × Str)))
    (h : foldVals assignMeta none vals = .ok o) : OptP (fun kvs => keysDistinct kvs = true) o := by
  refine foldVals_post (OptP _) _ ?_ vals none o (by intro _ h; cases h) h
  intro cur v a' _ hv
  cases v <;> simp only [assignMeta] at hv <;> try cases hv
  · intro _ h; cases h
  · obtain ⟨es, _, h2⟩ := bind_ok_inv hv
    cases h2
    intro kvs hk; cases hk
    exact keysDistinct_dedupKeys _

theorem assignReason_post (vals : List Json) (o : Option Reason)
    (h : foldVals assignReason none vals = .ok o) : OptP (fun x => int64 x.code = true) o := by
  refine foldVals_post (OptP _) _ ?_ vals none o (by intro _ h; cases h) h
  intro cur v a' hc hv
  cases v <;> simp only [assignReason] at hv <;> try cases hv
  · intro _ h; cases h
  · obtain ⟨code, h1, h2⟩ := bind_ok_inv hv
    obtain ⟨desc, _, h4⟩ := bind_ok_inv h2
    cases h4
    intro x hx; cases hx
    refine intoInt_post _ _ code ?_ h1
    cases cur with
    | none => decide
    | some c => exact hc c rfl

theorem Raw.ofJson_good (U : Str → Option Str) (hU : UIdem U) (j : Json) (r : Raw)
    (h : Raw.ofJson U j = .ok r) : RawGood U r := by
  unfold Raw.ofJson at h
  cases j <;> simp only [reduceCtorEq] at h
  · cases h
    constructor <;> (intro _ h; cases h)
  · simp only [bind, pure] at h
    obtain ⟨id, _, h⟩ := bind_ok_inv h
    obtain ⟨from_, hfrom, h⟩ := bind_ok_inv h
    obtain ⟨pp, hpp, h⟩ := bind_ok_inv h
    obtain ⟨to, hto, h⟩ := bind_ok_inv h
    obtain ⟨metadata, hmeta, h⟩ := bind_ok_inv h
    obtain ⟨reason, hreason, h⟩ := bind_ok_inv h
    obtain ⟨type, htype, h⟩ := bind_ok_inv h
    obtain ⟨event, hevent, h⟩ := bind_ok_inv h
    obtain ⟨method, hmethod, h⟩ := bind_ok_inv h
    obtain ⟨uri, huri, h⟩ := bind_ok_inv h
    obtain ⟨status, _, h⟩ := bind_ok_inv h
    obtain ⟨state, hstate, h⟩ := bind_ok_inv h
    obtain ⟨encOpts, _, h⟩ := bind_ok_inv h
    obtain ⟨enc, _, h⟩ := bind_ok_inv h
    obtain ⟨compOpts, _, h⟩ := bind_ok_inv h
    obtain ⟨comp, _, h⟩ := bind_ok_inv h
    obtain ⟨schemeOpts, _, h⟩ := bind_ok_inv h
    obtain ⟨scheme, _, h⟩ := bind_ok_inv h
    cases h
    exact {
      from_ := parseNode_post _ _ hfrom
      pp := parseNode_post _ _ hpp
      to := parseNode_post _ _ hto
      metadata := assignMeta_post _ _ hmeta
      reason := assignReason_post _ _ hreason
      type := parseMT_post _ _ htype
      event := parseEnum_post _ _ _ hevent
      method := parseEnum_post _ _ _ hmethod
      state := parseEnum_post _ _ _ hstate
      uri := ptrText_post _ U hU _ _ huri }

/-! ## the normal form encodes the same -/

@[simp] theorem metaJson_norm (m : Option (List (Str × Str))) : metaJson (normMeta m) = metaJson m := by
  cases m with
  | none => rfl
  | some l => cases l <;> rfl

@[simp] theorem sliceJson_norm (o : Option (List Str)) : sliceJson (normOpts o) = sliceJson o := by
  cases o with
  | none => rfl
  | some l => cases l <;> rfl

theorem Raw.members_normR (r : Raw) (ev me st : Option Json) : r.normR.members ev me st = r.members ev me st := by
  have e_id : r.normR.id = r.id := rfl
  have e_from_ : r.normR.from_ = r.from_ := rfl
  have e_pp : r.normR.pp = r.pp := rfl
  have e_to : r.normR.to = r.to := rfl
  have e_reason : r.normR.reason = r.reason := rfl
  have e_type : r.normR.type = r.type := rfl
  have e_content : r.normR.content = r.content := rfl
  have e_resource : r.normR.resource = r.resource := rfl
  have e_uri : r.normR.uri = r.uri := rfl
  have e_status : r.normR.status = r.status := rfl
  have e_enc : r.normR.enc = r.enc := rfl
  have e_comp : r.normR.comp = r.comp := rfl
  have e_scheme : r.normR.scheme = r.scheme := rfl
  have e_auth : r.normR.auth = r.auth := rfl
  have e_metadata : r.normR.metadata = normMeta r.metadata := rfl
  have e_encOpts : r.normR.encOpts = normOpts r.encOpts := rfl
  have e_compOpts : r.normR.compOpts = normOpts r.compOpts := rfl
  have e_schemeOpts : r.normR.schemeOpts = normOpts r.schemeOpts := rfl
  unfold Raw.members
  rw [e_id, e_from_, e_pp, e_to, e_reason, e_type, e_content, e_resource, e_uri, e_status, e_enc, e_comp, e_scheme, e_auth, e_metadata, e_encOpts, e_compOpts, e_schemeOpts,
      metaJson_norm, sliceJson_norm, sliceJson_norm, sliceJson_norm]

theorem Raw.toJson_normR (r : Raw) : r.normR.toJson = r.toJson := by
  have h1 : r.normR.event = r.event := rfl
  have h2 : r.normR.method = r.method := rfl
  have h3 : r.normR.state = r.state := rfl
  simp only [Raw.toJson, h1, h2, h3, Raw.members_normR]

theorem toRaw_norm (e : Envelope) : e.norm.toRaw = e.toRaw.bind (fun r => .ok r.normR) := by
  cases e with
  | message m =>
    obtain ⟨env, t, c⟩ := m
    cases c <;> rfl
  | notification n => rfl
  | request c =>
    obtain ⟨⟨env, me, t, res⟩, uri⟩ := c
    cases res <;> rfl
  | response c =>
    obtain ⟨⟨env, me, t, res⟩, st, re⟩ := c
    cases res <;> rfl
  | session s => rfl

theorem encode_norm (e : Envelope) : e.norm.encode = e.encode := by
  simp only [Envelope.encode, toRaw_norm]
  cases e.toRaw with
  | ok r => exact Raw.toJson_normR r
  | err => rfl
  | panic => rfl

theorem kind_norm (e : Envelope) : e.norm.kind = e.kind := by cases e <;> rfl

@[simp] theorem normMeta_idem (m : Option (List (Str × Str))) : normMeta (normMeta m) = normMeta m := by
  cases m with
  | none => rfl
  | some l => cases l <;> rfl

@[simp] theorem normOpts_idem (o : Option (List Str)) : normOpts (normOpts o) = normOpts o := by
  cases o with
  | none => rfl
  | some l => cases l <;> rfl

theorem norm_idem (e : Envelope) : e.norm.norm = e.norm := by
  cases e <;> simp [Envelope.norm, Env.norm, Command.norm]

/-! ## what the receive path accepts is well-formed once normalised -/

theorem node_getD_wf (o : Option Node) (h : OptP (fun n => n.wf = true) o) : (o.getD Node.zero).wf = true := by
  cases o with
  | none => decide
  | some n => exact h n rfl

theorem env_norm_wf {U : Str → Option Str} {r : Raw} (g : RawGood U r) : (Env.ofRaw r).norm.wf = true := by
  simp only [Env.wf, Env.norm, Env.ofRaw, Bool.and_eq_true]
  refine ⟨⟨⟨node_getD_wf _ g.from_, node_getD_wf _ g.pp⟩, node_getD_wf _ g.to⟩, ?_⟩
  have gm := g.metadata
  cases hm : r.metadata with
  | none => rfl
  | some kvs =>
    cases kvs with
    | nil => rfl
    | cons a t => exact gm _ hm

theorem reason_optWf {o : Option Reason} (h : OptP (fun x => int64 x.code = true) o) : optWf Reason.wf o = true := by
  cases o with
  | none => rfl
  | some x => exact h x rfl

theorem optsWf_norm (o : Option (List Str)) : optsWf (normOpts o) = true := by
  cases o with
  | none => rfl
  | some l => cases l <;> rfl

theorem command_ofRaw_post {U : Str → Option Str} {r : Raw} (g : RawGood U r) {c : Command}
    (h : Command.ofRaw r = .ok c) :
    c.env = Env.ofRaw r ∧ commandMethods.contains c.method = true ∧
      (match c.resource, c.type with
       | none, none => true
       | some d, some t => t.wf && Doc.wf t d
       | _, _ => false) = true := by
  unfold Command.ofRaw at h
  obtain ⟨p, h1, h2⟩ := bind_ok_inv h
  split at h2
  · cases h2
  · rename_i m hm
    cases h2
    refine ⟨rfl, g.method m hm, ?_⟩
    split at h1
    · cases h1; rfl
    · rename_i j _
      split at h1
      · cases h1
      · rename_i t ht
        obtain ⟨d, hd, h3⟩ := bind_ok_inv h1
        cases h3
        simp only [Bool.and_eq_true]
        exact ⟨g.type t ht, Doc.dec_wf j t d hd⟩

theorem auth_scheme_of_ofJson (sch : Str) (j : Json) (a : Auth) (h : Auth.ofJson sch j = .ok a) :
    a.scheme = sch := by
  unfold Auth.ofJson at h
  split at h
  · rename_i hs; split at h <;> cases h; exact hs.symm
  split at h
  · rename_i hs; split at h <;> cases h; exact hs.symm
  split at h
  · rename_i hs
    split at h
    · obtain ⟨_, _, h2⟩ := bind_ok_inv h; cases h2; exact hs.symm
    · cases h
  split at h
  · rename_i hs
    split at h
    · obtain ⟨_, _, h2⟩ := bind_ok_inv h; cases h2; exact hs.symm
    · cases h
  split at h
  · rename_i hs
    split at h
    · obtain ⟨_, _, h2⟩ := bind_ok_inv h
      obtain ⟨_, _, h3⟩ := bind_ok_inv h2
      cases h3; exact hs.symm
    · cases h
  · cases h

theorem kind_request {r : Raw} (h : r.kind = .ok .request) : r.uri.isSome = true := by
  unfold Raw.kind at h
  split at h
  · rename_i hc; exact hc.2
  repeat' split at h
  all_goals cases h

theorem kind_response {r : Raw} (h : r.kind = .ok .response) : r.status.isSome = true := by
  unfold Raw.kind at h
  split at h
  · cases h
  split at h
  · rename_i hc; exact hc.2
  repeat' split at h
  all_goals cases h

/-- every envelope the receive path accepts is, in normal form, inside the grammar of `Envelope.wf` -/
theorem decodeAny_wf (U : Str → Option Str) (hU : UIdem U) (j : Json) (e : Envelope)
    (h : decodeAny U j = .ok e) : e.norm.wf U = true := by
  unfold decodeAny at h
  obtain ⟨r, hr, h⟩ := bind_ok_inv h
  obtain ⟨k, hk, h⟩ := bind_ok_inv h
  have g := Raw.ofJson_good U hU j r hr
  cases k with
  | message =>
    simp only [populate] at h
    obtain ⟨m, hm, h⟩ := bind_ok_inv h
    cases h
    unfold Message.ofRaw at hm
    split at hm
    · cases hm
    · rename_i t ht
      split at hm
      · cases hm
      · rename_i c _
        obtain ⟨d, hd, h3⟩ := bind_ok_inv hm
        cases h3
        simp only [Envelope.norm, Envelope.wf, Bool.and_eq_true]
        exact ⟨⟨env_norm_wf g, g.type t ht⟩, Doc.dec_wf c t d hd⟩
  | notification =>
    simp only [populate] at h
    obtain ⟨n, hn, h⟩ := bind_ok_inv h
    cases h
    unfold Notification.ofRaw at hn
    split at hn
    · cases hn
    · rename_i ev hev
      cases hn
      simp only [Envelope.norm, Envelope.wf, Bool.and_eq_true]
      exact ⟨⟨env_norm_wf g, g.event ev hev⟩, reason_optWf g.reason⟩
  | request =>
    simp only [populate] at h
    obtain ⟨c, hc, h⟩ := bind_ok_inv h
    cases h
    unfold RequestCommand.ofRaw at hc
    obtain ⟨cmd, hcmd, h3⟩ := bind_ok_inv hc
    cases h3
    obtain ⟨henv, hmeth, hres⟩ := command_ofRaw_post g hcmd
    have huri := kind_request hk
    cases hu : r.uri with
    | none => rw [hu] at huri; cases huri
    | some u =>
      simp only [Envelope.norm, Envelope.wf, Command.norm, Bool.and_eq_true, henv]
      refine ⟨⟨⟨env_norm_wf g, hmeth⟩, hres⟩, ?_⟩
      simp [g.uri u hu]
  | response =>
    simp only [populate] at h
    obtain ⟨c, hc, h⟩ := bind_ok_inv h
    cases h
    unfold ResponseCommand.ofRaw at hc
    obtain ⟨cmd, hcmd, h3⟩ := bind_ok_inv hc
    obtain ⟨henv, hmeth, hres⟩ := command_ofRaw_post g hcmd
    have hst := kind_response hk
    split at h3
    · cases h3
    · rename_i hne
      cases h3
      cases hs : r.status with
      | none => rw [hs] at hst; cases hst
      | some s =>
        have hs' : s ≠ [] := fun h0 => hne (by rw [hs, h0])
        simp only [Envelope.norm, Envelope.wf, Command.norm, Bool.and_eq_true, henv, Option.getD_some]
        refine ⟨⟨⟨⟨env_norm_wf g, hmeth⟩, hres⟩, ?_⟩, reason_optWf g.reason⟩
        cases s with
        | nil => exact absurd rfl hs'
        | cons _ _ => rfl
  | session =>
    simp only [populate] at h
    obtain ⟨s, hs, h⟩ := bind_ok_inv h
    cases h
    unfold Session.ofRaw at hs
    obtain ⟨auth, hauth, h3⟩ := bind_ok_inv hs
    split at h3
    · cases h3
    · rename_i st hst
      cases h3
      simp only [Envelope.norm, Envelope.wf, Bool.and_eq_true]
      refine ⟨⟨⟨⟨⟨⟨env_norm_wf g, g.state st hst⟩, optsWf_norm _⟩, optsWf_norm _⟩, optsWf_norm _⟩,
        reason_optWf g.reason⟩, ?_⟩
      split at hauth
      · cases hauth; rfl
      · rename_i ja _
        split at hauth
        · cases hauth
        · rename_i sch hsch
          obtain ⟨a, ha, h4⟩ := bind_ok_inv hauth
          cases h4
          have := auth_scheme_of_ofJson sch ja a ha
          simp [hsch, this]

/-! ## the property -/

/-- **C02 (stable under re-encoding)**: whatever a transport's receive path accepts — from any JSON
tree at all — can be encoded again; decoding that encoding (by the receive path and by the typed
decoder of the envelope's kind) is accepted and yields the same envelope in normal form, i.e. equal
up to nil-versus-empty of the metadata map and the three option slices, which no encoding can tell
apart; and the envelope it yields encodes to the very same tree, so forwarding is stable from the
first hop on. `U` is the URL library's parse-then-print, assumed idempotent. -/
theorem accepted_reencodes (U : Str → Option Str) (hU : UIdem U) (j : Json) (e : Envelope)
    (h : decodeAny U j = .ok e) :
    ∃ j', e.encode = .ok j' ∧ decodeAny U j' = .ok e.norm ∧ decodeTyped U e.kind j' = .ok e.norm ∧
      e.norm.encode = .ok j' := by
  obtain ⟨j', h1, h2, h3⟩ := Props.C01.envelope_roundtrip U e.norm (decodeAny_wf U hU j e h)
  rw [kind_norm] at h2
  exact ⟨j', by rw [← encode_norm]; exact h1, h3, h2, h1⟩

/-- an accepted envelope without an empty non-nil map or slice comes back exactly -/
theorem accepted_reencodes_exact (U : Str → Option Str) (hU : UIdem U) (j : Json) (e : Envelope)
    (h : decodeAny U j = .ok e) (hn : e.norm = e) :
    ∃ j', e.encode = .ok j' ∧ decodeAny U j' = .ok e := by
  obtain ⟨j', h1, h2, _⟩ := accepted_reencodes U hU j e h
  exact ⟨j', h1, by rw [hn] at h2; exact h2⟩

/-! Non-vacuity and necessity. -/

/-- the identity URL library is idempotent -/
theorem uidem_id : UIdem (fun s => some s) := by intro s u h; cases h; rfl

/-- a notification with duplicate members, a `null` that resets one, an alien member and an empty
metadata object is accepted … -/
def oddNotification : Json :=
  .obj [(cs!"id", .str cs!"1"), (cs!"event", .str cs!"failed"), (cs!"EVENT", .str cs!"received"),
        (cs!"alien", .arr [.null]), (cs!"from", .str cs!"a@b/c@d"), (cs!"metadata", .obj []),
        (cs!"reason", .obj [(cs!"code", .num (.int 7))]), (cs!"to", .null)]

example : ∃ e, decodeAny (fun s => some s) oddNotification = .ok e ∧ e.norm ≠ e := by
  refine ⟨.notification { env := { id := cs!"1", from_ := ⟨cs!"a", cs!"b", cs!"c@d"⟩, metadata := some [] },
                          event := cs!"received", reason := some ⟨7, []⟩ }, by rfl, ?_⟩
  intro h
  simp [Envelope.norm, Env.norm, normMeta] at h

/-- … and the normal form is needed: its re-encoding decodes to the envelope with a nil map, which
differs from the accepted one only there -/
example : ∃ e j', decodeAny (fun s => some s) oddNotification = .ok e ∧ e.encode = .ok j' ∧
    decodeAny (fun s => some s) j' = .ok e.norm := by
  obtain ⟨e, he⟩ : ∃ e, decodeAny (fun s => some s) oddNotification = .ok e :=
    ⟨_, rfl⟩
  obtain ⟨j', h1, h2, _⟩ := accepted_reencodes _ uidem_id _ e he
  exact ⟨e, j', he, h1, h2⟩

end Props.C02
