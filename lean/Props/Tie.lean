import LimeModel.Generated
import LimeModel.Envelope
import LimeModel.ServerHs
/-!
# Tie theorems: the tables and constants the model is written with equal the ones regenerated
from the lime-go sources on this run (`LimeModel/Generated.lean`, written by `harness/cmd/facts`).

If the code changes a JSON member name, an `omitempty` flag, an enum member, the order of the
kind discrimination or a separator, the corresponding theorem stops checking, and `./check`
reports a broken proof obligation for every property that depends on it.
-/
namespace Props.Tie
open LimeModel

def strs (l : List String) : List Str := l.map String.toList

theorem sessionStates_tie : sessionStates = strs Generated.sessionStates := by decide
theorem notificationEvents_tie : notificationEvents = strs Generated.notificationEvents := by decide
theorem commandMethods_tie : commandMethods = strs Generated.commandMethods := by decide

/-- every authentication scheme constant of the code has a factory in the model, and vice versa -/
theorem authSchemes_tie :
    authSchemes.all (fun s => (strs Generated.authenticationSchemes).contains s) = true ∧
    (strs Generated.authenticationSchemes).all (fun s => authSchemes.contains s) = true := by decide

/-- a raw struct with every member present -/
def fullRaw : Raw :=
  { id := ['x'], from_ := some Node.zero, pp := some Node.zero, to := some Node.zero, metadata := some [(['k'], ['v'])], reason := some ⟨1, []⟩, type := some ⟨[], [], []⟩, content := some .null, event := some [], method := some [], resource := some .null, uri := some [], status := some [], state := some [], encOpts := some [[]], enc := some [], compOpts := some [[]], comp := some [], schemeOpts := some [[]], scheme := some [], auth := some .null }

/-- member names and their order in the wire object are those of the `rawEnvelope` struct tags -/
theorem rawEnvelope_names_tie :
    (fullRaw.members (some .null) (some .null) (some .null)).map (·.1) =
      Generated.rawEnvelopeFields.map (fun f => f.2.1.toList) := by decide

/-- every member of `rawEnvelope` has `omitempty` (the model leaves out every empty member) -/
theorem rawEnvelope_omitempty_tie : Generated.rawEnvelopeFields.all (fun f => f.2.2.1) = true := by decide

/-- which members are plain values, pointers, slices and maps (decides how `null` and absence
decode in the model) -/
theorem rawEnvelope_shapes_tie :
    Generated.rawEnvelopeFields.map (fun f => f.2.2.2) =
      ["value", "ptr", "ptr", "ptr", "map", "ptr", "ptr", "ptr", "ptr", "ptr", "ptr", "ptr", "ptr", "ptr",
       "slice", "ptr", "slice", "ptr", "slice", "ptr", "ptr"] := by decide

theorem container_fields_tie :
    Generated.rawContainerFields = [("Type", "type", false, "ptr"), ("Value", "value", false, "ptr")] := by decide

theorem collection_fields_tie :
    Generated.rawCollectionFields =
      [("Total", "total", true, "value"), ("ItemType", "itemType", false, "ptr"), ("Items", "items", false, "slice")] := by
  decide

theorem reason_fields_tie :
    Generated.reasonFields = [("Code", "code", true, "value"), ("Description", "description", true, "value")] := by
  decide

theorem auth_fields_tie :
    Generated.plainAuthFields = [("Password", "password", false, "value")] ∧
    Generated.keyAuthFields = [("Key", "key", false, "value")] ∧
    Generated.externalAuthFields = [("Token", "token", false, "value"), ("Issuer", "issuer", false, "value")] := by
  decide

/-- the order in which `rawEnvelope.envelopeType` discriminates the kinds (mirrored by `Raw.kind`) -/
theorem envelopeType_order_tie :
    Generated.envelopeTypeOrder =
      [(["Method", "URI"], "RequestCommand"), (["Method", "Status"], "ResponseCommand"),
       (["Event"], "Notification"), (["Content"], "Message"), (["State"], "Session")] := by decide

/-- the separators of the three text grammars (mirrored by `parseIdentity`, `parseNode`, `parseMT`) -/
theorem separators_tie :
    Generated.identitySeps = ["@"] ∧ Generated.nodeSeps = ["/"] ∧ Generated.mediaTypeSeps = ["+", "/"] := by decide

open LimeModel.ServerHs in
/-- `SessionState.Step`: the model's order of the session states is the source's -/
theorem step_tie :
    [SState.new, .negotiating, .authenticating, .established, .finishing, .finished, .failed].map
        (fun s => (s.name, (s.step : Int))) =
      Generated.sessionStateStep.map (fun p => (p.1.toList, p.2)) := by decide

end Props.Tie
