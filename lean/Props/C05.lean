import LimeModel.Pending
/-!
# C05 — command responses are matched to their requests

For every set of `ProcessCommand` calls, every sequence of incoming responses (duplicates, unknown
ids, late answers) and **every interleaving** of the lock regions of callers and receiver:
* `own_response_only` — a call that returns a response returns one bearing its own id;
* `unmatched_to_stream` — a response is put on the response stream only if no call with that id is
  still waiting for its answer, and is always put there when no call is registered under its id;
* `duplicate_id_rejected`, `id_reusable_after_completion`, `table_empty_at_quiescence`;
* `waiting_call_reachable` — a registered or waiting call stays reachable (table entry, or its answer
  already in its reply channel or in the receiver's hand): no lost response.
The witness `r2` shows that the tree before the repair violated the second and fourth.
-/
namespace Props.C05
open LimeModel.Pending

-- the R2 schedule exhibited on the real code with a temporary gate ----------------------------
def r2 : List Lbl := [.spawn 0 7, .register 0, .send 0 true, .rcvLookup, .cancel 0, .cleanup 0,
  .spawn 1 7, .register 1, .send 1 true, .rcvDelete, .rcvHandoff, .rcvLookup]
def r2in : List Resp := [⟨7, 100⟩, ⟨7, 200⟩]     -- late answer to call 0, then the answer to call 1

-- unchanged tree: call 1 is still waiting, its own answer (tag 200) went to the stream
example : ((runL false (init r2in) r2).map fun s => (s.stream, (s.caller 1).pc)) = some ([⟨7, 200⟩], .waiting) := by decide
-- repaired: the same schedule is not even executable (no separate rcvDelete step) ...
example : ((runL true (init r2in) r2).map fun s => s.stream) = none := by decide
-- ... and the corresponding repaired schedule hands 200 to call 1
def r2' : List Lbl := [.spawn 0 7, .register 0, .send 0 true, .rcvLookup, .cancel 0, .cleanup 0,
  .spawn 1 7, .register 1, .send 1 true, .rcvHandoff, .rcvLookup, .rcvHandoff, .take 1]
example : ((runL true (init r2in) r2').map fun s => (s.stream, (s.caller 1).pc)) = some ([], .cleanup (.resp ⟨7, 200⟩)) := by decide

/-- repaired-model invariant: the table points only at live callers of that id, a caller's
    channel only ever holds a response with the caller's id, and so does the receiver's hand. -/
structure PInv (s : S) : Prop where
  tbl : ∀ id i, s.table id = some i → (s.caller i).id = id ∧ ((s.caller i).pc = .registered ∨ (s.caller i).pc = .waiting ∨ ∃ r, (s.caller i).pc = .cleanup r)
  chn : ∀ i r, s.chan i = some r → r.id = (s.caller i).id ∧ (s.caller i).pc ≠ .absent ∧ (s.caller i).pc ≠ .start
  hand : ∀ r ch, (s.rcv = .lookedUp r ch ∨ s.rcv = .deleted r ch) → r.id = (s.caller ch).id ∧ (s.caller ch).pc ≠ .absent ∧ (s.caller ch).pc ≠ .start
  res : ∀ i r, ((s.caller i).pc = .cleanup (.resp r) ∨ (s.caller i).pc = .done (.resp r)) → r.id = (s.caller i).id
  nolook : ∀ r ch, s.rcv ≠ .lookedUp r ch
  /-- a registered or waiting call is still reachable through the table unless its answer is already on its way to it -/
  own : ∀ i, ((s.caller i).pc = .registered ∨ (s.caller i).pc = .waiting) →
    s.table (s.caller i).id = some i ∨ (∃ r, s.chan i = some r) ∨ (∃ r, s.rcv = .deleted r i)

theorem inv_init (inc) : PInv (init inc) := by
  constructor <;> simp [init]

theorem upd_same {α} (f : Nat → α) (k v) : upd f k v k = v := by simp [upd]
theorem upd_other {α} (f : Nat → α) (k v x) (h : x ≠ k) : upd f k v x = f x := by simp [upd, h]

theorem own_response_only (s : S) (h : PInv s) (i r) (hd : (s.caller i).pc = .done (.resp r)) :
    r.id = (s.caller i).id := h.res i r (Or.inr hd)

theorem inv_step (s s' : S) (l : Lbl) (h : PInv s) (hs : step true s l = some s') : PInv s' := by
  obtain ⟨h1, h2, h3, h4, h0, h5⟩ := h
  cases l <;> simp only [step] at hs <;> (repeat' split at hs) <;> (try cases hs) <;>
    (constructor <;> intros <;> simp only [upd, setPC] at * <;> grind)

/-- every reachable state of the repaired model satisfies the invariant -/
theorem inv_run (ls : List Lbl) : ∀ s s', PInv s → runL true s ls = some s' → PInv s' := by
  induction ls with
  | nil => intro s s' h hr; simp [runL] at hr; exact hr ▸ h
  | cons l ls ih =>
    intro s s' h hr
    simp only [runL] at hr
    split at hr
    · rename_i s1 hs; exact ih s1 s' (inv_step s s1 l h hs) hr
    · cases hr

/-- C05 own_response_only: whatever the schedule, the responses and their order. -/
theorem c05_own (inc : List Resp) (ls : List Lbl) (s : S) (hr : runL true (init inc) ls = some s)
    (i : Nat) (r : Resp) (hd : (s.caller i).pc = .done (.resp r)) : r.id = (s.caller i).id :=
  own_response_only s (inv_run ls _ _ (inv_init inc) hr) i r hd


/-- C05 unmatched_to_stream, contrapositive form: a response is put on the stream only when no
    registered/waiting call with that id is still waiting for its answer. -/
theorem c05_stream (s s' : S) (h : PInv s) (r rest) (hi : s.incoming = r :: rest) (hidle : s.rcv = .idle)
    (hs : step true s .rcvLookup = some s') (hst : s'.stream = s.stream ++ [r]) :
    ∀ i, (s.caller i).id = r.id → ((s.caller i).pc = .registered ∨ (s.caller i).pc = .waiting) → ∃ r', s.chan i = some r' := by
  intro i hid hpc
  have := h.own i hpc
  simp only [step, hidle, hi] at hs
  rcases this with ht | hc | hd
  · rw [hid] at ht; simp [ht] at hs; cases hs; simp at hst
  · exact hc
  · obtain ⟨r', hr'⟩ := hd; rw [hidle] at hr'; cases hr'

/-- **C05 (no lost response)**: in every reachable state a registered or waiting call is reachable
through the table, or its answer is already in its reply channel or in the receiver's hand. -/
theorem waiting_call_reachable (inc : List Resp) (ls : List Lbl) (s : S) (hr : runL true (init inc) ls = some s)
    (i : Nat) (h : (s.caller i).pc = .registered ∨ (s.caller i).pc = .waiting) :
    s.table (s.caller i).id = some i ∨ (∃ r, s.chan i = some r) ∨ (∃ r, s.rcv = .deleted r i) :=
  (inv_run ls _ _ (inv_init inc) hr).own i h

/-- a response whose id has no registration goes to the stream -/
theorem unregistered_to_stream (s : S) (r : Resp) (rest : List Resp) (hi : s.incoming = r :: rest)
    (hidle : s.rcv = .idle) (ht : s.table r.id = none) :
    step true s .rcvLookup = some { s with incoming := rest, stream := s.stream ++ [r] } := by
  simp [step, hidle, hi, ht]

/-- **C05 (duplicate id)**: registering an id that is registered is rejected and leaves the table
and every other call untouched. -/
theorem duplicate_id_rejected (s : S) (i j : Nat) (hs : (s.caller i).pc = .start)
    (ht : s.table (s.caller i).id = some j) :
    step true s (.register i) = some (setPC s i (.done .rejected)) ∧
    (setPC s i (.done .rejected)).table = s.table ∧ (setPC s i (.done .rejected)).chan = s.chan := by
  simp [step, hs, ht, setPC]

/-- **C05 (no leak)**: when every call has returned (or was never started) the table is empty. -/
theorem table_empty_at_quiescence (inc : List Resp) (ls : List Lbl) (s : S)
    (hr : runL true (init inc) ls = some s)
    (hq : ∀ i, (s.caller i).pc = .absent ∨ (s.caller i).pc = .start ∨ ∃ res, (s.caller i).pc = .done res) :
    ∀ id, s.table id = none := by
  intro id
  have hI := inv_run ls _ _ (inv_init inc) hr
  cases ht : s.table id with
  | none => rfl
  | some i =>
    obtain ⟨_, hp⟩ := hI.tbl id i ht
    rcases hq i with h | h | ⟨res, h⟩ <;> rcases hp with hp | hp | ⟨r, hp⟩ <;> rw [h] at hp <;> cases hp

/-- **C05 (identifiers are reusable)**: once no call under an id is between registration and
clean-up, a new call under that id registers successfully. -/
theorem id_reusable_after_completion (inc : List Resp) (ls : List Lbl) (s : S)
    (hr : runL true (init inc) ls = some s) (i : Nat) (hs : (s.caller i).pc = .start)
    (hfree : ∀ j, (s.caller j).id = (s.caller i).id →
      (s.caller j).pc = .absent ∨ (s.caller j).pc = .start ∨ ∃ res, (s.caller j).pc = .done res) :
    step true s (.register i) =
      some (setPC { s with table := upd s.table (s.caller i).id (some i) } i .registered) := by
  have hI := inv_run ls _ _ (inv_init inc) hr
  have ht : s.table (s.caller i).id = none := by
    cases ht : s.table (s.caller i).id with
    | none => rfl
    | some j =>
      obtain ⟨hid, hp⟩ := hI.tbl _ j ht
      rcases hfree j hid with h | h | ⟨res, h⟩ <;> rcases hp with hp | hp | ⟨r, hp⟩ <;> rw [h] at hp <;> cases hp
  simp [step, hs, ht]

end Props.C05
