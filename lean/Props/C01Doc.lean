import LimeModel.Lemmas.Doc
import LimeModel.Lemmas.Text
/-!
# C01 (documents): every well-formed document, nested to any depth, decodes back from its encoding
-/
namespace Props.C01
open LimeModel LimeModel.Json

theorem fieldVals_type_container (t : MT) (j : Json) :
    fieldVals cs!"type" [(cs!"type", .str (printMT t)), (cs!"value", j)] = [.str (printMT t)] := by
  simp [fieldVals, keyMatch, foldKey, foldChar]

theorem rawLast_value_container (t : MT) (j : Json) (hj : j ≠ .null) :
    rawLast cs!"value" [(cs!"type", .str (printMT t)), (cs!"value", j)] = some j := by
  have : fieldVals cs!"value" [(cs!"type", .str (printMT t)), (cs!"value", j)] = [j] := by
    simp [fieldVals, keyMatch, foldKey, foldChar]
  unfold rawLast lastVal
  rw [this]
  cases j <;> simp_all

theorem fieldVals_collection_total (total : Int) (a b : Json) :
    fieldVals cs!"total" (totalField total ++ [(cs!"itemType", a), (cs!"items", b)]) =
      if total = 0 then [] else [.num (.int total)] := by
  unfold totalField
  split <;> simp [fieldVals, keyMatch, foldKey, foldChar]

theorem fieldVals_collection_itemType (total : Int) (a b : Json) :
    fieldVals cs!"itemType" (totalField total ++ [(cs!"itemType", a), (cs!"items", b)]) = [a] := by
  unfold totalField
  split <;> simp [fieldVals, keyMatch, foldKey, foldChar]

theorem fieldVals_collection_items (total : Int) (a b : Json) :
    fieldVals cs!"items" (totalField total ++ [(cs!"itemType", a), (cs!"items", b)]) = [b] := by
  unfold totalField
  split <;> simp [fieldVals, keyMatch, foldKey, foldChar]

theorem total_decodes (total : Int) (h : int64 total = true) :
    foldVals intoInt 0 (if total = 0 then [] else [Json.num (.int total)]) = .ok total := by
  simp only [int64, Bool.and_eq_true, decide_eq_true_eq] at h
  split
  · rename_i h0; simp [h0]
  · simp [intoInt, h.1, h.2]

mutual
theorem doc_roundtrip : (t : MT) → (d : Doc) → Doc.wf t d = true → Doc.dec (Doc.enc d) t = .ok d
  | t, .text s, h => by
    simp only [Doc.wf, beq_iff_eq] at h
    rw [Doc.enc, Doc.dec]; simp [h]
  | t, .json kvs, h => by
    simp only [Doc.wf, Bool.and_eq_true, beq_iff_eq] at h
    rw [Doc.enc, Doc.dec]
    simp [h.1.1, Json.normKvs_of_isNorm kvs h.2, dedupKeys_of_distinct kvs h.1.2]
  | t, .ping, h => by
    simp only [Doc.wf, beq_iff_eq] at h
    rw [Doc.enc, Doc.dec]; simp [h]
  | t, .container t' v, h => by
    simp only [Doc.wf, Bool.and_eq_true, beq_iff_eq] at h
    obtain ⟨⟨hf, ht'⟩, hv⟩ := h
    have ih := doc_roundtrip t' v hv
    rw [Doc.enc, Doc.dec]
    simp only [hf, fieldVals_type_container, foldVals_single, ptrText, parse_print_mt t' ht']
    split
    · rename_i heq; rw [rawLast_value_container t' _ (Doc.enc_ne_null v)] at heq; cases heq
    · rename_i w heq
      rw [rawLast_value_container t' _ (Doc.enc_ne_null v)] at heq
      cases heq
      simp [ih]
  | t, .collection total it items, h => by
    simp only [Doc.wf, Bool.and_eq_true, beq_iff_eq] at h
    obtain ⟨⟨⟨hf, htot⟩, hit⟩, hitems⟩ := h
    rw [Doc.enc, Doc.dec]
    simp only [hf, fieldVals_collection_total, fieldVals_collection_itemType, total_decodes total htot,
      foldVals_single, ptrText, parse_print_mt it hit]
    cases items with
    | none =>
      have hi : itemsField (totalField total ++ [(cs!"itemType", .str (printMT it)), (cs!"items", Doc.encItems none)])
          = .ok none := by
        unfold itemsField; rw [fieldVals_collection_items]; simp [Doc.encItems]
      split
      · rename_i heq; rw [hi] at heq; cases heq
      · rename_i heq; rw [hi] at heq; cases heq
      · rename_i x heq; rw [hi] at heq; cases heq; rfl
    | some l =>
      rw [Doc.wfItems] at hitems
      have ih := docList_roundtrip it l hitems
      have hi : itemsField (totalField total ++ [(cs!"itemType", .str (printMT it)), (cs!"items", Doc.encItems (some l))])
          = .ok (some (Doc.encList l)) := by
        unfold itemsField; rw [fieldVals_collection_items]; simp [Doc.encItems]
      split
      · rename_i heq; rw [hi] at heq; cases heq
      · rename_i heq; rw [hi] at heq; cases heq
      · rename_i x heq; rw [hi] at heq; cases heq; simp [ih]
theorem docList_roundtrip : (t : MT) → (l : List Doc) → Doc.wfList t l = true →
    Doc.decList (Doc.encList l) t = .ok l
  | _, [], _ => by rw [Doc.encList, Doc.decList]
  | t, d :: r, h => by
    simp only [Doc.wfList, Bool.and_eq_true] at h
    have ih1 := doc_roundtrip t d h.1
    have ih2 := docList_roundtrip t r h.2
    rw [Doc.encList, Doc.decList]
    · simp [ih1, ih2]
    · exact Doc.enc_ne_null d
end

end Props.C01
