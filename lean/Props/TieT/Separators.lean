import Props.TieT.Common
/-! Tie theorem (DESIGN.md 2.2): a table or constant the model is written with equals the one regenerated from the
lime-go sources on this run (`LimeModel/Generated.lean`). One module per theorem, so that a changed fact breaks
the obligations of the properties that rest on it and of no other. -/
namespace Props.Tie
open LimeModel

/-- the separators of the three text grammars (mirrored by `parseIdentity`, `parseNode`, `parseMT`) -/
theorem separators_tie :
    Generated.identitySeps = ["@"] ∧ Generated.nodeSeps = ["/"] ∧ Generated.mediaTypeSeps = ["+", "/"] := by decide

end Props.Tie
