import Props.TieT.Common
/-! Tie theorem (DESIGN.md 2.2): a table or constant the model is written with equals the one regenerated from the
lime-go sources on this run (`LimeModel/Generated.lean`). One module per theorem, so that a changed fact breaks
the obligations of the properties that rest on it and of no other. -/
namespace Props.Tie
open LimeModel

open LimeModel.ServerHs in
/-- `SessionState.Step`: the model's order of the session states is the source's -/
theorem step_tie :
    [SState.new, .negotiating, .authenticating, .established, .finishing, .finished, .failed].map
        (fun s => (s.name, (s.step : Int))) =
      Generated.sessionStateStep.map (fun p => (p.1.toList, p.2)) := by decide

end Props.Tie
