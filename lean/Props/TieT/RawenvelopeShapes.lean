import Props.TieT.Common
/-! Tie theorem (DESIGN.md 2.2): a table or constant the model is written with equals the one regenerated from the
lime-go sources on this run (`LimeModel/Generated.lean`). One module per theorem, so that a changed fact breaks
the obligations of the properties that rest on it and of no other. -/
namespace Props.Tie
open LimeModel

/-- which members are plain values, pointers, slices and maps (decides how `null` and absence
decode in the model) -/
theorem rawEnvelope_shapes_tie :
    Generated.rawEnvelopeFields.map (fun f => f.2.2.2) =
      ["value", "ptr", "ptr", "ptr", "map", "ptr", "ptr", "ptr", "ptr", "ptr", "ptr", "ptr", "ptr", "ptr",
       "slice", "ptr", "slice", "ptr", "slice", "ptr", "ptr"] := by decide

end Props.Tie
