import LimeModel.Generated
import LimeModel.Envelope
import LimeModel.ServerHs
/-! Shared definitions of the tie theorems (`Props/TieT/*.lean`). -/
namespace Props.Tie
open LimeModel

def strs (l : List String) : List Str := l.map String.toList

/-- a raw struct with every member present -/
def fullRaw : Raw :=
  { id := ['x'], from_ := some Node.zero, pp := some Node.zero, to := some Node.zero, metadata := some [(['k'], ['v'])], reason := some ⟨1, []⟩, type := some ⟨[], [], []⟩, content := some .null, event := some [], method := some [], resource := some .null, uri := some [], status := some [], state := some [], encOpts := some [[]], enc := some [], compOpts := some [[]], comp := some [], schemeOpts := some [[]], scheme := some [], auth := some .null }

end Props.Tie
