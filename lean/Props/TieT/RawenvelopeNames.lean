import Props.TieT.Common
/-! Tie theorem (DESIGN.md 2.2): a table or constant the model is written with equals the one regenerated from the
lime-go sources on this run (`LimeModel/Generated.lean`). One module per theorem, so that a changed fact breaks
the obligations of the properties that rest on it and of no other. -/
namespace Props.Tie
open LimeModel

/-- member names and their order in the wire object are those of the `rawEnvelope` struct tags -/
theorem rawEnvelope_names_tie :
    (fullRaw.members (some .null) (some .null) (some .null)).map (·.1) =
      Generated.rawEnvelopeFields.map (fun f => f.2.1.toList) := by decide

end Props.Tie
