import Props.TieT.Common
/-! Tie theorem (DESIGN.md 2.2): a table or constant the model is written with equals the one regenerated from the
lime-go sources on this run (`LimeModel/Generated.lean`). One module per theorem, so that a changed fact breaks
the obligations of the properties that rest on it and of no other. -/
namespace Props.Tie
open LimeModel

/-- every member of `rawEnvelope` has `omitempty` (the model leaves out every empty member) -/
theorem rawEnvelope_omitempty_tie : Generated.rawEnvelopeFields.all (fun f => f.2.2.1) = true := by decide

end Props.Tie
