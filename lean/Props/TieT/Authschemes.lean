import Props.TieT.Common
/-! Tie theorem (DESIGN.md 2.2): a table or constant the model is written with equals the one regenerated from the
lime-go sources on this run (`LimeModel/Generated.lean`). One module per theorem, so that a changed fact breaks
the obligations of the properties that rest on it and of no other. -/
namespace Props.Tie
open LimeModel

/-- every authentication scheme constant of the code has a factory in the model, and vice versa -/
theorem authSchemes_tie :
    authSchemes.all (fun s => (strs Generated.authenticationSchemes).contains s) = true ∧
    (strs Generated.authenticationSchemes).all (fun s => authSchemes.contains s) = true := by decide

end Props.Tie
