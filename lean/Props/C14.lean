import LimeModel.Lemmas.ServerHs
import Props.C07
/-!
# C14 — every connection that fails to establish is released

`handleChannel` = the handshake followed by the serving layer's decision. For every configuration,
client script, callback outcome sequence, send failure pattern and `SetEncryption` outcome: unless
the handshake ended with an established session on a connected transport, the local end of the
connection has been closed when `handleChannel` returns, and neither callback was invoked.
-/
namespace Props.C14
open LimeModel LimeModel.ServerHs LimeModel.ServerSpec

theorem channelClose_held (s : St) : (channelClose s).held = false := by
  unfold channelClose; split
  · rfl
  · rename_i h; simpa using h

/-- **C14 (released, no callbacks)** -/
theorem failed_handshake_released (c : Cfg) (s : St) :
    let r := establish c s
    let h := handleChannel c s
    ¬(r.1 = true ∧ r.2.state = .established ∧ r.2.connected = true) →
      h.2.held = false ∧ h.1 = [] := by
  intro r h hne
  simp only [h, handleChannel]
  by_cases h1 : (establish c s).1 = true
  · simp only [h1, Bool.not_true, Bool.false_eq_true, ↓reduceIte]
    have h2 : ¬((establish c s).2.state = .established ∧ (establish c s).2.connected = true) := by
      intro hh; exact hne ⟨h1, hh⟩
    have hc : (!decide ((establish c s).2.state = .established ∧ (establish c s).2.connected = true)) = true := by
      simp only [h2, decide_false, Bool.not_false]
    rw [if_pos hc]
    exact ⟨channelClose_held _, rfl⟩
  · have : (establish c s).1 = false := by simpa using h1
    rw [if_pos (by simp [this])]
    exact ⟨channelClose_held _, rfl⟩

/-- **C14 (callbacks only for established sessions)**: the `Established` and `Finished` callbacks
run only when the handshake ended established on a connected transport — and then the observable
trace ends with the `established` envelope (C07 `success_is_terminal`). -/
theorem callbacks_only_when_established (c : Cfg) (s : St) (hcb : (handleChannel c s).1 ≠ []) :
    (establish c s).1 = true ∧ (establish c s).2.state = .established ∧ (establish c s).2.connected = true := by
  unfold handleChannel at hcb
  simp only at hcb
  by_cases h1 : (establish c s).1 = true
  · simp only [h1, Bool.not_true, Bool.false_eq_true, ↓reduceIte] at hcb
    by_cases h2 : (establish c s).2.state = .established ∧ (establish c s).2.connected = true
    · exact ⟨h1, h2⟩
    · simp [h2] at hcb
  · have : (establish c s).1 = false := by simpa using h1
    simp [this] at hcb

/-- Non-vacuity: a rejected guest (unknown role) ends failed: released, no callbacks. -/
def demoCfg : Cfg :=
  { sid := cs!"S", node := ⟨cs!"postmaster", cs!"d", cs!"s"⟩, compOpts := [cs!"none"], encOpts := [cs!"none"], schemeOpts := [cs!"guest"], supComp := [cs!"none"], supEnc := [cs!"none", cs!"tls"] }

example :
    let s : St := { recvs := [.ses { state := .new }, .ses { id := cs!"S", from_ := ⟨cs!"u", cs!"d", cs!"i"⟩, state := .authenticating, scheme := cs!"guest", auth := some .guest }], auths := [.unknown], regs := [], sendOk := [] }
    (handleChannel demoCfg s).1 = [] ∧ (handleChannel demoCfg s).2.held = false ∧
      (handleChannel demoCfg s).2.state = .failed := by decide

/-- Non-vacuity: a peer that sends a message instead of a session: error return, released. -/
example :
    let s : St := { recvs := [.other], auths := [], regs := [], sendOk := [] }
    (establish demoCfg s).1 = false ∧ (handleChannel demoCfg s).2.held = false := by decide

end Props.C14
