import LimeModel.Lemmas.ServerHs
/-!
# C10 — a server that does not offer cleartext never authenticates over cleartext

If `none` is not among the configured encryption options and the connection supports at least one
of them, then in every run — any client script, any callback outcomes, any send failures, any
`SetEncryption` outcome, any encryption initially in force — every authentication request, every
`Authenticate` call and every `established` envelope happens while the transport runs a configured
encryption.
-/
namespace Props.C10
open LimeModel LimeModel.ServerHs LimeModel.ServerSpec

abbrev Ok (c : Cfg) (s : St) : Prop := encRev c s.trace = true

/-- the checker looks at observable events only -/
theorem encRev_obs (c : Cfg) (tr : List Ev) : encRev c (obs tr) = encRev c tr := by
  induction tr with
  | nil => rfl
  | cons e t ih =>
    cases e with
    | recv r => simp only [obs_recv, encRev, ih]
    | emit s e => simp only [obs_emit, encRev, ih]
    | authCall a b c' d e f => simp only [obs_auth, encRev, ih]
    | regCall a b => simp only [obs_reg, encRev, ih]
    | setState x => simp only [obs_setState, encRev, ih]
    | setEnc x y => simp only [obs_setEnc, encRev, ih]
    | setComp x y => simp only [obs_setComp, encRev, ih]
    | close => simp only [obs_close, encRev, ih]

theorem sendSession_ok (c : Cfg) (s : St) (e : Ses)
    (he : (e.state = .authenticating ∨ e.state = .established) → c.encOpts.contains s.enc = true)
    (h : Ok c s) : Ok c (sendSession s e).2 := by
  rcases sendSession_cases s e with ⟨_, ht, _⟩ | ⟨_, ht⟩
  · simp only [Ok, ht, encRev, h, Bool.and_true]
    split
    · rename_i hs; exact he hs
    · rfl
  · simp only [Ok, ht]; exact h

theorem failSession_ok (c : Cfg) (s : St) (h : Ok c s) : Ok c (failSession c s).2 := by
  unfold failSession
  split
  · exact h
  · have h1 := sendSession_ok c s { id := c.sid, from_ := c.node, to := s.remote, state := .failed, hasReason := true }
      (by simp) h
    simpa [Ok, encRev] using h1

theorem recvSession_ok (c : Cfg) (s : St) (h : Ok c s) : Ok c (recvSession c s).2 := by
  rcases recvSession_cases c s with ⟨x, _, ht⟩ | ⟨_, ht | ⟨r, _, ht⟩⟩
  · simp only [Ok, ht, encRev]; exact h
  · simp only [Ok, ht]; exact h
  · simp only [Ok, ht, encRev]; exact h

theorem sendEstablished_ok (c : Cfg) (s : St) (n : Node) (hg : c.encOpts.contains s.enc = true)
    (h : Ok c s) : Ok c (sendEstablished c s n).2 := by
  unfold sendEstablished
  split
  · exact h
  · split
    · exact h
    · exact sendSession_ok c _ _ (by intro _; simpa using hg) (by simpa [Ok, encRev] using h)

@[simp] theorem sendEstablished_enc (c : Cfg) (s : St) (n : Node) : (sendEstablished c s n).2.enc = s.enc := by
  unfold sendEstablished; split
  · rfl
  · split <;> simp

theorem authLoop_ok (c : Cfg) (fuel : Nat) : ∀ (s : St) (ses : Ses), c.encOpts.contains s.enc = true →
    Ok c s → Ok c (authLoop c s ses fuel).2 := by
  induction fuel with
  | zero => intro s ses _ h; simpa [authLoop] using h
  | succ n ih =>
    intro s ses hg h
    unfold authLoop
    split; · exact h
    split; · exact failSession_ok c s h
    split; · exact failSession_ok c s h
    split; · exact failSession_ok c s h
    have hcall : ∀ out, Ok c (callAuth s ses out) := by
      intro out; simp only [Ok, callAuth_trace, encRev, hg, Bool.true_and]; exact h
    split
    · exact h
    · exact hcall _
    · simp only
      split
      · simpa [Ok, encRev] using hcall .role
      · simpa [Ok, encRev] using hcall .role
      · rename_i nn _
        have hb := sendEstablished_ok c (callReg (callAuth s ses .role) ses (some nn)) nn (by simpa using hg)
          (by simpa [Ok, encRev] using hcall .role)
        split
        · exact ih _ ses (by simpa using hg) hb
        · exact hb
    · rename_i d _
      simp only
      split
      · exact hcall _
      · have h1 := sendSession_ok c (callAuth s ses (.roundTrip d))
          { id := c.sid, from_ := c.node, state := .authenticating, auth := some d } (by intro _; simpa using hg) (hcall _)
        split
        · exact h1
        · have h2 := recvSession_ok c _ h1
          split
          · exact h2
          · exact ih _ _ (by simpa using hg) h2
    · simp only
      have h1 := failSession_ok c _ (hcall .unknown)
      split
      · exact ih _ ses (by simpa using hg) h1
      · exact h1

theorem authenticate_ok (c : Cfg) (s : St) (hg : c.encOpts.contains s.enc = true) (h : Ok c s) :
    Ok c (authenticate c s).2 := by
  unfold authenticate
  split; · exact h
  split; · exact h
  split; · exact h
  have h1 := sendSession_ok c (setState s .authenticating)
    { id := c.sid, from_ := c.node, state := .authenticating, schemeOpts := c.schemeOpts }
    (by intro _; simpa using hg) (by simpa [Ok, encRev] using h)
  simp only
  split
  · exact h1
  · have h2 := recvSession_ok c _ h1
    split
    · exact h2
    · exact authLoop_ok c _ _ _ (by simpa using hg) h2

theorem applyComp_post (c : Cfg) (s : St) (x : Opt) (h : Ok c s) :
    Ok c (applyComp s x).2 ∧ (applyComp s x).2.enc = s.enc ∧ (applyComp s x).2.state = s.state := by
  unfold applyComp; split <;> simp [Ok, encRev] <;> exact h

theorem applyEnc_post (c : Cfg) (s : St) (e : Opt) (h : Ok c s) :
    Ok c (applyEnc s e).2 ∧ ((applyEnc s e).1 = true → (applyEnc s e).2.enc = e) := by
  unfold applyEnc
  split
  · split
    · exact ⟨by simpa [Ok, encRev] using h, fun _ => rfl⟩
    · exact ⟨by simpa [Ok, encRev] using h, fun hh => by cases hh⟩
  · rename_i heq
    simp only [ne_eq, Decidable.not_not] at heq
    exact ⟨h, fun _ => heq⟩

/-- a successful confirmation leaves the transport on the confirmed encryption -/
theorem confirm_post (c : Cfg) (s : St) (a b : Opt) (h : Ok c s) :
    Ok c (confirm c s a b).2 ∧ ((confirm c s a b).1 = true → (confirm c s a b).2.enc = b) := by
  unfold confirm
  split; · exact ⟨h, fun hh => by cases hh⟩
  have h3 := sendSession_ok c s { id := c.sid, from_ := c.node, state := .negotiating, comp := a, enc := b } (by simp) h
  simp only
  split
  · exact ⟨h3, fun hh => by cases hh⟩
  · have h4 := applyComp_post c _ a h3
    split
    · exact ⟨h4.1, fun hh => by cases hh⟩
    · exact applyEnc_post c _ b h4.1

theorem onSelection_post (c : Cfg) (s : St) (co eo : List Opt) (ses : Ses) (h : Ok c s) :
    Ok c (onSelection c s co eo ses).2 ∧
    ((onSelection c s co eo ses).1 = true →
      (onSelection c s co eo ses).2.state = .failed ∨ eo.contains (onSelection c s co eo ses).2.enc = true) := by
  unfold onSelection
  split
  · exact ⟨failSession_ok c _ h, fun hh => Or.inl (failSession_state c _ hh)⟩
  · split
    · rename_i hsel
      have hp := confirm_post c s ses.comp ses.enc h
      exact ⟨hp.1, fun hh => Or.inr (by rw [hp.2 hh]; exact hsel.2.2.2.2)⟩
    · exact ⟨failSession_ok c _ h, fun hh => Or.inl (failSession_state c _ hh)⟩

/-- what a successful negotiation guarantees: failed, or the transport runs an offered option -/
theorem negotiate_post (c : Cfg) (s : St) (co eo : List Opt) (h : Ok c s) :
    Ok c (negotiate c s co eo).2 ∧
    ((negotiate c s co eo).1 = true →
      (negotiate c s co eo).2.state = .failed ∨ eo.contains (negotiate c s co eo).2.enc = true) := by
  unfold negotiate
  split; · exact ⟨h, fun hh => by cases hh⟩
  split; · exact ⟨h, fun hh => by cases hh⟩
  have h1 := sendSession_ok c (setState s .negotiating)
    { id := c.sid, from_ := c.node, state := .negotiating, compOpts := co, encOpts := eo } (by simp)
    (by simpa [Ok, encRev] using h)
  simp only
  split
  · exact ⟨h1, fun hh => by cases hh⟩
  · have h2 := recvSession_ok c _ h1
    split
    · exact ⟨h2, fun hh => by cases hh⟩
    · exact onSelection_post c _ co eo _ h2

theorem inter_sub (a b : List Opt) (x : Opt) (h : (inter a b).contains x = true) : a.contains x = true := by
  simp [inter] at h ⊢; exact h.1

theorem newBlock_ok (c : Cfg) (s : St) (hne : inter c.encOpts c.supEnc ≠ []) (h : Ok c s) :
    Ok c (newBlock c s).2 := by
  unfold newBlock
  simp only
  by_cases hneed : needNegotiation s (inter c.compOpts c.supComp) (inter c.encOpts c.supEnc) = true
  · simp only [hneed, ↓reduceIte]
    have hp := negotiate_post c s (inter c.compOpts c.supComp) (inter c.encOpts c.supEnc) h
    generalize negotiate c s _ _ = r at hp ⊢
    split
    · exact hp.1
    · rename_i hok
      split
      · rename_i hst
        rcases hp.2 (by simpa using hok) with hf | hg
        · exact absurd hf hst
        · exact authenticate_ok c _ (inter_sub _ _ _ hg) hp.1
      · exact hp.1
  · simp only [hneed, Bool.false_eq_true, ↓reduceIte, Bool.not_true]
    -- no negotiation: the single acceptable option is the one in force
    have hin : (inter c.encOpts c.supEnc).contains s.enc = true := by
      unfold needNegotiation at hneed
      simp only [Bool.or_eq_true, Bool.and_eq_true, decide_eq_true_eq, Bool.not_eq_true', not_or, not_and,
        Bool.not_eq_false] at hneed
      obtain ⟨⟨⟨_, h2⟩, _⟩, h4⟩ := hneed
      cases hl : inter c.encOpts c.supEnc with
      | nil => exact absurd hl hne
      | cons a t =>
        have hlen : (inter c.encOpts c.supEnc).length = 1 := by
          rw [hl] at h2 ⊢; simp at h2 ⊢; omega
        rw [← hl]; exact h4 hlen
    split
    · exact authenticate_ok c s (inter_sub _ _ _ hin) h
    · exact h

theorem establish_ok (c : Cfg) (s : St) (hne : inter c.encOpts c.supEnc ≠ []) (h : Ok c s) :
    Ok c (establish c s).2 := by
  unfold establish
  split; · exact h
  split; · exact h
  have hq := recvSession_ok c s h
  simp only
  split
  · exact hq
  · rename_i ses _
    split
    · exact failSession_ok c _ hq
    · have hr : Ok c (if ses.state = .new then newBlock c (recvSession c s).2 else (true, (recvSession c s).2)).2 := by
        split
        · exact newBlock_ok c _ hne hq
        · exact hq
      generalize (if ses.state = .new then newBlock c (recvSession c s).2 else (true, (recvSession c s).2)) = r at hr ⊢
      split
      · exact hr
      · split
        · exact failSession_ok c _ hr
        · exact hr

/-- **C10**: the connection supports a configured encryption option (`inter … ≠ []`); then every
authentication request, every `Authenticate` call and every `established` envelope in every run
happens under a *configured* encryption — so if cleartext (`none`) is not configured, never over
cleartext. -/
theorem no_cleartext_auth (c : Cfg) (recvs : List Recv) (auths : List AuthOut) (regs : List (Option Node))
    (sendOk : List Bool) (setEncOk : Bool) (enc0 : Opt)
    (hne : inter c.encOpts c.supEnc ≠ []) :
    encRev c (run c recvs auths regs sendOk setEncOk enc0).trace.reverse = true := by
  unfold run
  simp only [List.reverse_reverse]
  exact establish_ok c _ hne (by simp [Ok, encRev])

/-- The README / example configuration: `EncryptionOptions(TLS)` on a TLS-capable TCP connection.
A client that skips negotiation and presents credentials at once gets no authentication request:
the server offers negotiation, and answers the out-of-order envelope with `failed`. -/
def readmeCfg : Cfg :=
  { sid := cs!"s1", node := ⟨cs!"srv", cs!"d", cs!"i"⟩, compOpts := [cs!"none"], encOpts := [cs!"tls"], schemeOpts := [cs!"plain"], supComp := [cs!"none"], supEnc := [cs!"none", cs!"tls"] }

example : inter readmeCfg.encOpts readmeCfg.supEnc ≠ [] ∧ readmeCfg.encOpts.contains cs!"none" = false := by decide

/-- Non-vacuity: a cooperative client is taken through negotiation to TLS and established there. -/
def readmeRun : Result :=
  run readmeCfg [.ses { state := .new }, .ses { id := cs!"s1", state := .negotiating, comp := cs!"none", enc := cs!"tls" }, .ses { id := cs!"s1", from_ := ⟨cs!"u", cs!"d", cs!"i"⟩, state := .authenticating, scheme := cs!"plain", auth := some (.plain cs!"cHc=") }] [.role] [some ⟨cs!"u", cs!"d", cs!"x"⟩] [] true

example : readmeRun.final.state = .established ∧ readmeRun.final.enc = cs!"tls" := by decide

end Props.C10
