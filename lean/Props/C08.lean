import LimeModel.ClientSpec
/-!
# C08 — the client handshake tolerates any server and reports establishment truthfully

For every server script of any length (any states in any order, regressions included, any ids,
options, confirmations, scheme lists, round-trip data, non-session envelopes, undecodable input,
disconnects), every selector and authenticator behaviour, every pattern of failing sends and every
`SetEncryption` outcome.
-/
namespace Props.C08
open LimeModel LimeModel.ClientHs LimeModel.ClientSpec
open LimeModel.ServerHs (SState Ses Recv Opt)

/-! ## never panics -/

theorem recvViaReceiver_no_panic (c : Cfg) (fuel : Nat) : ∀ s, (recvViaReceiver c fuel s).1 ≠ .panic := by
  induction fuel with
  | zero => intro s; simp [recvViaReceiver]
  | succ n ih =>
    intro s
    unfold recvViaReceiver
    simp only
    split
    · simp
    · split <;> simp [regressPanics]
    · exact ih _
    · simp
    · simp

theorem receiveSession_no_panic (c : Cfg) (s : St) : (receiveSession c s).1 ≠ .panic := by
  unfold receiveSession
  split; · simp
  split; · exact recvViaReceiver_no_panic c _ s
  split; · simp
  simp only
  split <;> simp

theorem recvFromServer_no_panic (c : Cfg) (s : St) : (recvFromServer c s).1 ≠ .panic := by
  unfold recvFromServer
  simp only
  have := receiveSession_no_panic c s
  split
  · simp
  · rename_i h; exact absurd h this
  · split
    · simp [refuse, regressPanics]
    · unfold finishRecv; repeat' split
      all_goals simp

theorem authLoop_no_panic (c : Cfg) (fuel : Nat) : ∀ s ses rt, (authLoop c fuel s ses rt).1 ≠ .panic := by
  induction fuel with
  | zero => intro s ses rt; simp [authLoop]
  | succ n ih =>
    intro s ses rt
    unfold authLoop
    split; · simp
    simp only
    split; · simp
    split; · simp
    have := recvFromServer_no_panic c (sendSession (St.log { s with auths := s.auths.tail } (.authCall ses.schemeOpts rt))
      { id := s.sid, from_ := ⟨c.identity.name, c.identity.domain, c.inst⟩, state := .authenticating,
        scheme := (s.auths.headD .guest).scheme, auth := some (s.auths.headD .guest) }).2
    split
    · simp
    · rename_i h; exact absurd h this
    · exact ih _ _ _

theorem negotiateBlock_no_panic (c : Cfg) (s : St) (ses : Ses) : (negotiateBlock c s ses).1 ≠ .panic := by
  unfold negotiateBlock
  simp only
  split; · simp
  split; · simp
  split
  · simp
  · rename_i h; exact absurd h (recvFromServer_no_panic c _)
  · split
    · simp
    · exact recvFromServer_no_panic c _

/-- **C08 (never panics)**: with selector and authenticator callbacks that return normally, client
establishment returns a session or an error on every server script. -/
theorem client_never_panics (c : Cfg) (recvs : List Recv) (auths : List Auth) (sendOk : List Bool)
    (setEncOk : Bool) (enc0 : Opt) : (run c recvs auths sendOk setEncOk enc0).res ≠ .panic := by
  unfold run establish
  simp only
  split; · simp
  split; · simp
  split
  · simp
  · rename_i h; exact absurd h (recvFromServer_no_panic c _)
  · split
    · simp
    · rename_i h
      split at h
      · exact absurd h (negotiateBlock_no_panic c _ _)
      · cases h
    · exact authLoop_no_panic c _ _ _ _

/-! ## what the client sends and reports -/

@[simp] theorem log_trace (s : St) (e : Ev) : (s.log e).trace = e :: s.trace := rfl
@[simp] theorem log_sid (s : St) (e : Ev) : (s.log e).sid = s.sid := rfl
@[simp] theorem log_state (s : St) (e : Ev) : (s.log e).state = s.state := rfl
@[simp] theorem log_connected (s : St) (e : Ev) : (s.log e).connected = s.connected := rfl
@[simp] theorem log_local (s : St) (e : Ev) : (s.log e).localNode = s.localNode := rfl
@[simp] theorem log_remote (s : St) (e : Ev) : (s.log e).remoteNode = s.remoteNode := rfl

/-- the client's view after it accepted the server envelope `ses` -/
structure Post (s : St) (ses : Ses) : Prop where
  tr : cliRev s.trace = true
  latest : latestSes s.trace = some ses
  sid : s.sid = ses.id
  st : s.state = ses.state
  est : ses.state = .established → s.localNode = ses.to ∧ s.remoteNode = ses.from_
  closed : (ses.state = .finished ∨ ses.state = .failed) → s.connected = false

/-- events other than emissions do not disturb the checker; events other than server sessions do
not change the latest server session -/
theorem cliRev_nonemit (e : Ev) (t : List Ev) (he : ∀ s x, e ≠ .emit s x) : cliRev (e :: t) = cliRev t := by
  cases e <;> simp_all [cliRev]

theorem latest_nonses (e : Ev) (t : List Ev) (he : ∀ x, e ≠ .recv (.ses x)) : latestSes (e :: t) = latestSes t := by
  cases e with
  | recv r => cases r with
    | ses x => exact absurd rfl (he x)
    | sesGone x => rfl
    | other => rfl
    | fail b => rfl
  | _ => rfl

theorem markEof_trace (c : Cfg) (s : St) : (markEof c s).trace = s.trace := by unfold markEof; split <;> rfl
theorem markEof_sid (c : Cfg) (s : St) : (markEof c s).sid = s.sid := by unfold markEof; split <;> rfl

/-- what `nextItem` does to the trace -/
theorem nextItem_cases (c : Cfg) (s : St) :
    ((nextItem c s).1 = none ∧ (nextItem c s).2.trace = s.trace) ∨
    (∃ r, (nextItem c s).1 = some r ∧ (nextItem c s).2.trace = .recv r :: s.trace) := by
  unfold nextItem
  cases hr : s.recvs with
  | nil => exact Or.inl ⟨rfl, markEof_trace c s⟩
  | cons x r =>
    cases x with
    | ses y => exact Or.inr ⟨_, rfl, rfl⟩
    | sesGone y => exact Or.inr ⟨.ses y, rfl, rfl⟩
    | other => exact Or.inr ⟨_, rfl, rfl⟩
    | fail b => cases b with
      | true => exact Or.inr ⟨_, rfl, by simp [markEof_trace]⟩
      | false => exact Or.inr ⟨_, rfl, rfl⟩

/-- the receiver path hands over exactly the newest server session of the trace -/
theorem recvViaReceiver_post (c : Cfg) (fuel : Nat) : ∀ s, cliRev s.trace = true →
    cliRev (recvViaReceiver c fuel s).2.trace = true ∧
    (∀ x, (recvViaReceiver c fuel s).1 = .got x → latestSes (recvViaReceiver c fuel s).2.trace = some x) := by
  induction fuel with
  | zero => intro s h; exact ⟨h, fun x hx => by simp [recvViaReceiver] at hx⟩
  | succ n ih =>
    intro s h
    unfold recvViaReceiver
    simp only
    rcases nextItem_cases c s with ⟨h1, ht⟩ | ⟨r, h1, ht⟩
    · rw [h1]; exact ⟨by rw [ht]; exact h, fun x hx => by cases hx⟩
    · rw [h1]
      have hq : cliRev (nextItem c s).2.trace = true := by rw [ht, cliRev_nonemit _ _ (by intros; simp)]; exact h
      cases r with
      | ses x =>
        simp only
        split
        · refine ⟨by simpa [setState, cliRev] using hq, fun y hy => ?_⟩
          cases hy
          simp [setState, latestSes, ht]
        · split
          · exact ⟨hq, fun y hy => by cases hy⟩
          · refine ⟨by simpa using hq, fun y hy => ?_⟩
            cases hy; simp only [stopsEstablished_trace]; rw [ht]; rfl
      | other => exact ih _ hq
      | sesGone y => exact ⟨hq, fun x hx => by cases hx⟩
      | fail b => exact ⟨hq, fun x hx => by cases hx⟩

theorem receiveSession_post (c : Cfg) (s : St) (h : cliRev s.trace = true) :
    cliRev (receiveSession c s).2.trace = true ∧
    (∀ x, (receiveSession c s).1 = .got x → latestSes (receiveSession c s).2.trace = some x) := by
  unfold receiveSession
  split; · exact ⟨h, fun x hx => by cases hx⟩
  split; · exact recvViaReceiver_post c _ s h
  split; · exact ⟨h, fun x hx => by cases hx⟩
  simp only
  rcases nextItem_cases c s with ⟨h1, ht⟩ | ⟨r, h1, ht⟩
  · rw [h1]; exact ⟨by rw [ht]; exact h, fun x hx => by cases hx⟩
  · rw [h1]
    have hq : cliRev (nextItem c s).2.trace = true := by rw [ht, cliRev_nonemit _ _ (by intros; simp)]; exact h
    cases r with
    | ses x => exact ⟨hq, fun y hy => by cases hy; rw [ht]; rfl⟩
    | sesGone y => exact ⟨hq, fun x hx => by cases hx⟩
    | other => exact ⟨hq, fun x hx => by cases hx⟩
    | fail b => exact ⟨hq, fun x hx => by cases hx⟩

theorem adopt_trace (s : St) (ses : Ses) : (adopt s ses).trace = .setState ses.state :: s.trace := by
  unfold adopt; split <;> rfl
theorem adopt_sid (s : St) (ses : Ses) : (adopt s ses).sid = ses.id := by unfold adopt; split <;> rfl
theorem adopt_state (s : St) (ses : Ses) : (adopt s ses).state = ses.state := by unfold adopt; split <;> rfl
theorem adopt_connected (s : St) (ses : Ses) : (adopt s ses).connected = s.connected := by
  unfold adopt; split <;> rfl
theorem adopt_nodes (s : St) (ses : Ses) (h : ses.state = .established) :
    (adopt s ses).localNode = ses.to ∧ (adopt s ses).remoteNode = ses.from_ := by
  unfold adopt; simp [h, setState]

/-- `receiveSessionFromServer` -/
theorem recvFromServer_post (c : Cfg) (s : St) (h : cliRev s.trace = true) :
    cliRev (recvFromServer c s).2.trace = true ∧
    (∀ ses, (recvFromServer c s).1 = .got ses → Post (recvFromServer c s).2 ses) := by
  obtain ⟨hq, hl⟩ := receiveSession_post c s h
  unfold recvFromServer
  simp only
  split
  · exact ⟨hq, fun x hx => by cases hx⟩
  · exact ⟨hq, fun x hx => by cases hx⟩
  · rename_i ses hgot
    have hlat := hl ses hgot
    split
    · unfold refuse; split <;> exact ⟨hq, fun x hx => by cases hx⟩
    · have ha : cliRev (adopt (receiveSession c s).2 ses).trace = true := by
        rw [adopt_trace, cliRev_nonemit _ _ (by intros; simp)]; exact hq
      have hla : latestSes (adopt (receiveSession c s).2 ses).trace = some ses := by
        rw [adopt_trace, latest_nonses _ _ (by intros; simp)]; exact hlat
      unfold finishRecv
      split
      · rename_i hterm
        split
        · rename_i hconn
          refine ⟨by simpa [closeT, cliRev] using ha, fun x hx => ?_⟩
          cases hx
          refine ⟨by simpa [closeT, cliRev] using ha, ?_, ?_, ?_, ?_, ?_⟩
          · simpa [closeT, latestSes] using hla
          · simp [closeT, adopt_sid]
          · simp [closeT, adopt_state]
          · intro he; rcases hterm with h1 | h1 <;> rw [h1] at he <;> cases he
          · intro _; simp [closeT]
        · exact ⟨ha, fun x hx => by cases hx⟩
      · rename_i hterm
        refine ⟨ha, fun x hx => ?_⟩
        cases hx
        exact ⟨ha, hla, adopt_sid _ _, adopt_state _ _, adopt_nodes _ _, fun hh => absurd hh hterm⟩

theorem sendSession_cases (s : St) (e : Ses) :
    ((sendSession s e).1 = true ∧ (sendSession s e).2.trace = .emit e s.enc :: s.trace) ∨
    ((sendSession s e).1 = false ∧ (sendSession s e).2.trace = s.trace) := by
  unfold sendSession
  split
  · exact Or.inr ⟨rfl, rfl⟩
  · split
    · exact Or.inr ⟨rfl, rfl⟩
    · split
      · exact Or.inl ⟨rfl, rfl⟩
      · exact Or.inl ⟨rfl, rfl⟩
      · exact Or.inr ⟨rfl, rfl⟩

/-- an emission that echoes the latest server id (and carries credentials only after an
authentication request) keeps the checker happy -/
theorem sendSession_tr (s : St) (e : Ses) (h : cliRev s.trace = true)
    (hok : match latestSes s.trace with
      | none => e.state = .new ∧ e.id = [] ∧ e.auth = none
      | some x => e.id = x.id ∧ (e.auth = none ∨ x.state = .authenticating)) :
    cliRev (sendSession s e).2.trace = true := by
  rcases sendSession_cases s e with ⟨_, ht⟩ | ⟨_, ht⟩
  · rw [ht]
    simp only [cliRev, h, Bool.and_true]
    cases hl : latestSes s.trace with
    | none => rw [hl] at hok; simp [hok.1, hok.2.1, hok.2.2]
    | some x =>
      rw [hl] at hok
      rcases hok.2 with h2 | h2
      · simp [hok.1, h2]
      · simp [hok.1, h2]
  · rw [ht]; exact h

/-- the outcome of a handshake step: the trace is fine, and a returned session is the one the
client's view was built from -/
def Good (r : Res × St) : Prop :=
  cliRev r.2.trace = true ∧ ∀ ses, r.1 = .ok ses → Post r.2 ses

theorem authLoop_good (c : Cfg) (fuel : Nat) : ∀ s ses rt, Post s ses → Good (authLoop c fuel s ses rt) := by
  induction fuel with
  | zero => intro s ses rt hp; exact ⟨hp.tr, fun x hx => by simp [authLoop] at hx⟩
  | succ n ih =>
    intro s ses rt hp
    unfold authLoop
    split
    · exact ⟨hp.tr, fun x hx => by cases hx; exact hp⟩
    · rename_i hauth
      have hauth' : ses.state = .authenticating := by simpa using hauth
      simp only
      have htr0 : cliRev (St.log { s with auths := s.auths.tail } (.authCall ses.schemeOpts rt)).trace = true := by
        simpa [cliRev] using hp.tr
      split
      · exact ⟨htr0, fun x hx => by cases hx⟩
      · have hsend := sendSession_tr (St.log { s with auths := s.auths.tail } (.authCall ses.schemeOpts rt))
          { id := s.sid, from_ := ⟨c.identity.name, c.identity.domain, c.inst⟩, state := .authenticating,
            scheme := (s.auths.headD .guest).scheme, auth := some (s.auths.headD .guest) } htr0
          (by simp [latestSes, hp.latest, hp.sid, hauth'])
        split
        · exact ⟨hsend, fun x hx => by cases hx⟩
        · obtain ⟨h1, h2⟩ := recvFromServer_post c _ hsend
          split
          · exact ⟨h1, fun x hx => by cases hx⟩
          · exact ⟨h1, fun x hx => by cases hx⟩
          · rename_i ses' hgot
            exact ih _ ses' _ (h2 ses' hgot)

theorem applyComp_tr (s : St) (x : Opt) (h : cliRev s.trace = true) : cliRev (applyComp s x).2.trace = true := by
  unfold applyComp; split
  · simpa [cliRev] using h
  · exact h

theorem applyEnc_tr (s : St) (x : Opt) (h : cliRev s.trace = true) : cliRev (applyEnc s x).2.trace = true := by
  unfold applyEnc; split
  · split <;> simpa [cliRev] using h
  · exact h

theorem applyConfirmed_tr (s : St) (conf : Ses) (h : cliRev s.trace = true) :
    cliRev (applyConfirmed s conf).2.trace = true := by
  unfold applyConfirmed
  split
  · simp only
    have h' : cliRev (s.log (.confirmed conf.comp conf.enc)).trace = true := by simpa [cliRev] using h
    split
    · exact applyComp_tr _ _ h'
    · exact applyEnc_tr _ _ (applyComp_tr _ _ h')
  · exact h

theorem negotiateBlock_good (c : Cfg) (s : St) (ses : Ses) (hp : Post s ses) :
    cliRev (negotiateBlock c s ses).2.trace = true ∧
    ∀ x, (negotiateBlock c s ses).1 = .got x → Post (negotiateBlock c s ses).2 x := by
  unfold negotiateBlock
  simp only
  have htr0 : cliRev (s.log (.selCall ses.compOpts ses.encOpts)).trace = true := by simpa [cliRev] using hp.tr
  split; · exact ⟨htr0, fun x hx => by cases hx⟩
  have hsend := sendSession_tr (s.log (.selCall ses.compOpts ses.encOpts))
    { id := s.sid, state := .negotiating, comp := c.compSel ses.compOpts, enc := c.encSel ses.encOpts } htr0
    (by simp [latestSes, hp.latest, hp.sid])
  split; · exact ⟨hsend, fun x hx => by cases hx⟩
  obtain ⟨h1, _⟩ := recvFromServer_post c _ hsend
  split
  · exact ⟨h1, fun x hx => by cases hx⟩
  · exact ⟨h1, fun x hx => by cases hx⟩
  · rename_i conf _
    have h3 := applyConfirmed_tr _ conf h1
    split
    · exact ⟨h3, fun x hx => by cases hx⟩
    · exact recvFromServer_post c _ h3

theorem establish_good (c : Cfg) (s : St) (h : s.trace = []) : Good (establish c s) := by
  have h0 : cliRev s.trace = true := by simp [h, cliRev]
  unfold establish
  split; · exact ⟨h0, fun x hx => by cases hx⟩
  have hsend := sendSession_tr s { state := .new } h0 (by simp [h, latestSes])
  simp only
  split; · exact ⟨hsend, fun x hx => by cases hx⟩
  obtain ⟨h1, h2⟩ := recvFromServer_post c _ hsend
  split
  · exact ⟨h1, fun x hx => by cases hx⟩
  · exact ⟨h1, fun x hx => by cases hx⟩
  · rename_i ses hgot
    have hp := h2 ses hgot
    by_cases hneg : ses.state = .negotiating
    · simp only [hneg, ↓reduceIte]
      obtain ⟨g1, g2⟩ := negotiateBlock_good c _ ses hp
      split
      · exact ⟨g1, fun x hx => by cases hx⟩
      · exact ⟨g1, fun x hx => by cases hx⟩
      · rename_i ses2 hn
        exact authLoop_good c _ _ ses2 _ (g2 ses2 hn)
    · simp only [hneg, ↓reduceIte]
      exact authLoop_good c _ _ ses _ hp

/-- **C08 (what the client sends)**: in every run the first client envelope is a bare `new` session,
every later envelope echoes the id of the server's latest session envelope, and credentials are
sent only in answer to an authentication request. -/
theorem echoes_latest_id (c : Cfg) (recvs : List Recv) (auths : List Auth) (sendOk : List Bool)
    (setEncOk : Bool) (enc0 : Opt) :
    cliRev (run c recvs auths sendOk setEncOk enc0).trace.reverse = true := by
  unfold run
  simp only [List.reverse_reverse]
  exact (establish_good c _ rfl).1

/-- **C08 (what the client reports)**: a session returned by `EstablishSession` is the server's
last session envelope; when it is `established` the channel is established with exactly that
envelope's id, `to` as local node and `from` as remote node; when it is `finished` or `failed` the
client has closed its connection. -/
theorem established_truthful (c : Cfg) (recvs : List Recv) (auths : List Auth) (sendOk : List Bool)
    (setEncOk : Bool) (enc0 : Opt) :
    let r := run c recvs auths sendOk setEncOk enc0
    truthful r.res r.final r.trace.reverse = true := by
  unfold run
  simp only [List.reverse_reverse]
  have hg := establish_good c { recvs, auths, sendOk, setEncOk, enc := enc0 } rfl
  generalize establish c { recvs, auths, sendOk, setEncOk, enc := enc0 } = r at hg
  obtain ⟨res, fin⟩ := r
  cases res with
  | err => rfl
  | panic => rfl
  | ok ses =>
    have hp : Post fin ses := hg.2 ses rfl
    simp only [truthful, hp.latest, decide_true, Bool.true_and, Bool.and_eq_true]
    refine ⟨?_, ?_⟩
    · split
      · rename_i he
        have h1 : fin.state = .established := by rw [hp.st]; exact he
        simp only [h1, hp.sid, (hp.est he).1, (hp.est he).2, decide_true, Bool.and_self]
      · rfl
    · split
      · rename_i ht
        have := hp.closed ht
        simp [this]
      · rfl

/-- Non-vacuity: a cooperative server script ends with an established session that the client
reports with the server's id and nodes. -/
def demoCfg : Cfg := { identity := ⟨cs!"alice", cs!"d"⟩, inst := cs!"home", compSel := fun _ => cs!"none", encSel := fun _ => cs!"none" }

def demoRun : Result :=
  run demoCfg [.ses { id := cs!"S", from_ := ⟨cs!"srv", cs!"d", cs!"1"⟩, state := .authenticating, schemeOpts := [cs!"guest"] }, .ses { id := cs!"S", from_ := ⟨cs!"srv", cs!"d", cs!"1"⟩, to := ⟨cs!"alice", cs!"d", cs!"x"⟩, state := .established }] [.guest] [] true

example : demoRun.final.state = .established ∧ demoRun.final.sid = cs!"S" ∧
    demoRun.final.localNode = ⟨cs!"alice", cs!"d", cs!"x"⟩ := by decide

end Props.C08
