import LimeModel.Lemmas.ServerHs
/-!
# C07 (state never moves backwards)

In every run of the server handshake the sequence of values given to `setState` is non-decreasing
in the `SessionState.Step` order — so the panic in `setStateWLock` is unreachable on the server.
-/
namespace Props.C07
open LimeModel LimeModel.ServerHs LimeModel.ServerSpec

/-- every state ever set is at most the current one, and the history itself is monotone -/
def Mono (s : St) : Prop :=
  monoRev s.trace = true ∧ ∀ y, Ev.setState y ∈ s.trace → y.step ≤ s.state.step

theorem mono_log (s : St) (e : Ev) (he : ∀ y, e ≠ .setState y) (h : Mono s) : Mono (s.log e) := by
  refine ⟨?_, ?_⟩
  · cases e <;> simp_all [monoRev, Mono]
  · intro y hy
    simp only [log_trace, List.mem_cons] at hy
    rcases hy with rfl | hy
    · exact absurd rfl (he y)
    · exact h.2 y hy

theorem mono_setState (s : St) (x : SState) (hx : s.state.step ≤ x.step) (h : Mono s) : Mono (setState s x) := by
  refine ⟨?_, ?_⟩
  · simp only [setState_trace, monoRev, Bool.and_eq_true, List.all_eq_true]
    refine ⟨?_, h.1⟩
    intro e he
    cases e with
    | setState y => have := h.2 y he; simp; omega
    | _ => simp
  · intro y hy
    simp only [setState_trace, List.mem_cons, Ev.setState.injEq] at hy
    rcases hy with rfl | hy
    · simp
    · have := h.2 y hy; simp; omega

theorem mono_same_trace (s s' : St) (ht : s'.trace = s.trace) (hs : s'.state = s.state) (h : Mono s) : Mono s' := by
  unfold Mono at *; rw [ht, hs]; exact h

theorem sendSession_mono (s : St) (e : Ses) (h : Mono s) : Mono (sendSession s e).2 := by
  rcases sendSession_cases s e with ⟨_, ht, _⟩ | ⟨_, ht⟩
  · have := mono_log s (.emit e s.enc) (by intro y hh; cases hh) h
    exact mono_same_trace _ _ (by rw [ht]; rfl) (by simp) this
  · exact mono_same_trace _ _ ht (by simp) h

theorem recvSession_mono (c : Cfg) (s : St) (h : Mono s) : Mono (recvSession c s).2 := by
  rcases recvSession_cases c s with ⟨x, _, ht⟩ | ⟨_, ht | ⟨r, _, ht⟩⟩
  · have := mono_log s (.recv (.ses x)) (by intro y hh; cases hh) h
    exact mono_same_trace _ _ (by rw [ht]; rfl) (by simp) this
  · exact mono_same_trace _ _ ht (by simp) h
  · have := mono_log s (.recv r) (by intro y hh; cases hh) h
    exact mono_same_trace _ _ (by rw [ht]; rfl) (by simp) this

theorem step_le_failed (x : SState) : x.step ≤ SState.failed.step := by cases x <;> decide

theorem failSession_mono (c : Cfg) (s : St) (h : Mono s) : Mono (failSession c s).2 := by
  unfold failSession
  split
  · exact h
  · have h1 := sendSession_mono s { id := c.sid, from_ := c.node, to := s.remote, state := .failed, hasReason := true } h
    have h2 := mono_setState _ .failed (step_le_failed _) h1
    exact mono_log _ .close (by intro y hh; cases hh) h2

theorem sendEstablished_mono (c : Cfg) (s : St) (n : Node) (h : Mono s) : Mono (sendEstablished c s n).2 := by
  unfold sendEstablished
  split
  · exact h
  · split
    · exact h
    · rename_i hg
      have hx : s.state.step ≤ SState.established.step := by
        simp only [ne_eq, not_and, Decidable.not_not] at hg
        by_cases a : s.state = .new
        · rw [a]; decide
        · by_cases b : s.state = .negotiating
          · rw [b]; decide
          · rw [hg a b]; decide
      have h1 := mono_setState s .established hx h
      have h2 : Mono (setRemote (setState s .established) n) := mono_same_trace _ _ rfl rfl h1
      exact sendSession_mono _ _ h2

theorem callAuth_mono (s : St) (ses out) (h : Mono s) : Mono (callAuth s ses out) := by
  have := mono_log s (.authCall ses.from_.name ses.from_.domain ses.scheme ses.auth s.enc out) (by intro y hh; cases hh) h
  exact mono_same_trace _ _ rfl rfl this

theorem callReg_mono (s : St) (ses res) (h : Mono s) : Mono (callReg s ses res) := by
  have := mono_log s (.regCall ses.from_ res) (by intro y hh; cases hh) h
  exact mono_same_trace _ _ rfl rfl this

theorem authLoop_mono (c : Cfg) (fuel : Nat) : ∀ (s : St) (ses : Ses), Mono s → Mono (authLoop c s ses fuel).2 := by
  induction fuel with
  | zero => intro s ses h; simpa [authLoop] using h
  | succ n ih =>
    intro s ses h
    unfold authLoop
    split; · exact h
    split; · exact failSession_mono c s h
    split; · exact failSession_mono c s h
    split; · exact failSession_mono c s h
    split
    · exact h
    · exact callAuth_mono _ _ _ h
    · simp only
      split
      · exact callReg_mono _ _ _ (callAuth_mono _ _ _ h)
      · exact callReg_mono _ _ _ (callAuth_mono _ _ _ h)
      · rename_i nn _
        have hb := sendEstablished_mono c _ nn (callReg_mono _ ses (some nn) (callAuth_mono s ses .role h))
        split
        · exact ih _ ses hb
        · exact hb
    · rename_i d _
      simp only
      split
      · exact callAuth_mono _ _ _ h
      · have h1 := sendSession_mono _ { id := c.sid, from_ := c.node, state := .authenticating, auth := some d }
          (callAuth_mono s ses (.roundTrip d) h)
        split
        · exact h1
        · have h2 := recvSession_mono c _ h1
          split
          · exact h2
          · exact ih _ _ h2
    · simp only
      have h1 := failSession_mono c _ (callAuth_mono s ses .unknown h)
      split
      · exact ih _ ses h1
      · exact h1

theorem authenticate_mono (c : Cfg) (s : St) (h : Mono s) : Mono (authenticate c s).2 := by
  unfold authenticate
  split; · exact h
  split; · exact h
  split; · exact h
  rename_i hg
  have hx : s.state.step ≤ SState.authenticating.step := by
    simp only [ne_eq, not_and, Decidable.not_not] at hg
    by_cases a : s.state = .new
    · rw [a]; decide
    · rw [hg a]; decide
  have h1 := sendSession_mono _ { id := c.sid, from_ := c.node, state := .authenticating, schemeOpts := c.schemeOpts }
    (mono_setState s .authenticating hx h)
  simp only
  split
  · exact h1
  · have h2 := recvSession_mono c _ h1
    split
    · exact h2
    · exact authLoop_mono c _ _ _ h2

theorem confirm_mono (c : Cfg) (s : St) (a b : Opt) (h : Mono s) : Mono (confirm c s a b).2 := by
  unfold confirm
  split; · exact h
  have h3 := sendSession_mono s { id := c.sid, from_ := c.node, state := .negotiating, comp := a, enc := b } h
  simp only
  split
  · exact h3
  · have h4 : Mono (applyComp (sendSession s { id := c.sid, from_ := c.node, state := .negotiating, comp := a, enc := b }).2 a).2 := by
      unfold applyComp; split
      · exact mono_log _ _ (by intro y hh; cases hh) h3
      · exact h3
    split
    · exact h4
    · unfold applyEnc; split
      · split
        · exact mono_same_trace _ _ rfl rfl (mono_log _ (.setEnc b true) (by intro y hh; cases hh) h4)
        · exact mono_log _ _ (by intro y hh; cases hh) h4
      · exact h4

theorem negotiate_mono (c : Cfg) (s : St) (co eo : List Opt) (h : Mono s) : Mono (negotiate c s co eo).2 := by
  unfold negotiate
  split; · exact h
  split; · exact h
  rename_i hg
  have hx : s.state.step ≤ SState.negotiating.step := by
    simp only [not_or, ne_eq, Decidable.not_not] at hg
    rw [hg.2]; decide
  have h1 := sendSession_mono _ { id := c.sid, from_ := c.node, state := .negotiating, compOpts := co, encOpts := eo }
    (mono_setState s .negotiating hx h)
  simp only
  split
  · exact h1
  · have h2 := recvSession_mono c _ h1
    split
    · exact h2
    · unfold onSelection
      split; · exact failSession_mono c _ h2
      split
      · exact confirm_mono c _ _ _ h2
      · exact failSession_mono c _ h2

theorem establish_mono (c : Cfg) (s : St) (h : Mono s) : Mono (establish c s).2 := by
  unfold establish
  split; · exact h
  split; · exact h
  have hq := recvSession_mono c s h
  simp only
  split
  · exact hq
  · rename_i ses _
    split
    · exact failSession_mono c _ hq
    · have hr : Mono (if ses.state = .new then newBlock c (recvSession c s).2 else (true, (recvSession c s).2)).2 := by
        split
        · unfold newBlock
          simp only
          have hn : Mono (if needNegotiation (recvSession c s).2 (inter c.compOpts c.supComp) (inter c.encOpts c.supEnc) = true
              then negotiate c (recvSession c s).2 (inter c.compOpts c.supComp) (inter c.encOpts c.supEnc)
              else (true, (recvSession c s).2)).2 := by
            split
            · exact negotiate_mono c _ _ _ hq
            · exact hq
          generalize (if needNegotiation (recvSession c s).2 (inter c.compOpts c.supComp) (inter c.encOpts c.supEnc) = true
              then negotiate c (recvSession c s).2 (inter c.compOpts c.supComp) (inter c.encOpts c.supEnc)
              else (true, (recvSession c s).2)) = r at hn ⊢
          split
          · exact hn
          · split
            · exact authenticate_mono c _ hn
            · exact hn
        · exact hq
      generalize (if ses.state = .new then newBlock c (recvSession c s).2 else (true, (recvSession c s).2)) = r at hr ⊢
      split
      · exact hr
      · split
        · exact failSession_mono c _ hr
        · exact hr

/-- **C07 (state never moves backwards)**: in every run the values given to `setState` are
non-decreasing in the `Step` order. -/
theorem state_monotone (c : Cfg) (recvs : List Recv) (auths : List AuthOut) (regs : List (Option Node))
    (sendOk : List Bool) (setEncOk : Bool) (enc0 : Opt) :
    monoRev (run c recvs auths regs sendOk setEncOk enc0).trace.reverse = true := by
  unfold run
  simp only [List.reverse_reverse]
  exact (establish_mono c _ ⟨rfl, by intro y hy; cases hy⟩).1

end Props.C07
