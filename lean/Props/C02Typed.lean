import Props.C02Stable
/-!
# C02, second half, for the typed decoders

`json.Unmarshal(b, &Message{})` and its four siblings are told the kind instead of discriminating
it, so they accept two shapes the receive path rejects: a request without `uri` and a response
without `status`. `Envelope.wfT` is `Envelope.wf` relaxed by exactly these; the round trip holds
for it through the typed decoder, every typed accept lands in it, hence the typed decoders are
stable under re-encoding on every input.
-/
namespace Props.C02
open LimeModel LimeModel.Json
open Props.C01

/-- a request without `uri` goes through the typed decoder and back -/
theorem request_roundtrip_nouri (U : Str → Option Str) (cmd : Command)
    (henv : cmd.env.wf = true) (hm : commandMethods.contains cmd.method = true) (hres : cmd.resWf = true) :
    ∃ j, (Envelope.request ⟨cmd, none⟩).encode = .ok j ∧
      decodeTyped U .request j = .ok (.request ⟨cmd, none⟩) := by
  obtain ⟨hf, hp, ht, hmeta⟩ := env_parts cmd.env henv
  obtain ⟨p1, p2, p3, p4, p5, p6, p7, p8, p9, p10, p11, p12, p13, p14, p15, p16, p17, p18, p19⟩ :=
    command_parts cmd hm hres
  let r : Raw := { cmd.toRaw with uri := none }
  have hr : r.wf U = true :=
    Raw.wf_intro U r (by simp only [r, p16]; exact hf) (by simp only [r, p17]; exact hp)
      (by simp only [r, p18]; exact ht) (by simp only [r, p15]; exact hmeta)
      (by simp only [r, p9]; rfl) p1 (by simp only [r, p6]; rfl)
      (by simp only [r, p3]; exact hm) (by simp only [r, p8]; rfl) rfl
      (by simp only [r, p11]; rfl) (by simp only [r, p12]; rfl) (by simp only [r, p13]; rfl)
      (by simp only [r, p7]; rfl) p2 (by simp only [r, p10]; rfl)
  obtain ⟨j, hj, hback⟩ := Raw.roundtrip U r hr
  have hcmd : Command.ofRaw r = .ok cmd := by
    have : Command.ofRaw r = Command.ofRaw cmd.toRaw := by
      simp only [Command.ofRaw, r, Env.ofRaw]
    rw [this, p19]
  have hpop : RequestCommand.ofRaw r = .ok ⟨cmd, none⟩ := by
    unfold RequestCommand.ofRaw
    rw [hcmd]
    simp only [Outcome.bind, r]
  refine ⟨j, ?_, ?_⟩
  · simp only [Envelope.encode, Envelope.toRaw, RequestCommand.toRaw, bind, Outcome.bind]; exact hj
  · simp only [decodeTyped, hback, Outcome.bind, populate, hpop]

/-- a response without `status` goes through the typed decoder and back -/
theorem response_roundtrip_nostatus (U : Str → Option Str) (cmd : Command) (reason : Option Reason)
    (henv : cmd.env.wf = true) (hm : commandMethods.contains cmd.method = true) (hres : cmd.resWf = true)
    (hreason : optWf Reason.wf reason = true) :
    ∃ j, (Envelope.response ⟨cmd, [], reason⟩).encode = .ok j ∧
      decodeTyped U .response j = .ok (.response ⟨cmd, [], reason⟩) := by
  obtain ⟨hf, hp, ht, hmeta⟩ := env_parts cmd.env henv
  obtain ⟨p1, p2, p3, p4, p5, p6, p7, p8, p9, p10, p11, p12, p13, p14, p15, p16, p17, p18, p19⟩ :=
    command_parts cmd hm hres
  let r : Raw := { cmd.toRaw with status := none, reason := reason }
  have hr : r.wf U = true :=
    Raw.wf_intro U r (by simp only [r, p16]; exact hf) (by simp only [r, p17]; exact hp)
      (by simp only [r, p18]; exact ht) (by simp only [r, p15]; exact hmeta)
      hreason p1 (by simp only [r, p6]; rfl)
      (by simp only [r, p3]; exact hm) (by simp only [r, p8]; rfl) (by simp only [r, p4]; rfl)
      (by simp only [r, p11]; rfl) (by simp only [r, p12]; rfl) (by simp only [r, p13]; rfl)
      (by simp only [r, p7]; rfl) p2 (by simp only [r, p10]; rfl)
  obtain ⟨j, hj, hback⟩ := Raw.roundtrip U r hr
  have hcmd : Command.ofRaw r = .ok cmd := by
    have : Command.ofRaw r = Command.ofRaw cmd.toRaw := by
      simp only [Command.ofRaw, r, Env.ofRaw]
    rw [this, p19]
  have hpop : ResponseCommand.ofRaw r = .ok ⟨cmd, [], reason⟩ := by
    unfold ResponseCommand.ofRaw
    rw [hcmd]
    simp [Outcome.bind, r]
  refine ⟨j, ?_, ?_⟩
  · simp only [Envelope.encode, Envelope.toRaw, ResponseCommand.toRaw, bind, Outcome.bind, strPtr]; exact hj
  · simp only [decodeTyped, hback, Outcome.bind, populate, hpop]

/-- **C01 for the typed decoders**: every envelope in the relaxed grammar encodes and its typed decoder
gives it back -/
theorem typed_roundtrip (U : Str → Option Str) (e : Envelope) (h : e.wfT U = true) :
    ∃ j, e.encode = .ok j ∧ decodeTyped U e.kind j = .ok e := by
  cases e with
  | message m => obtain ⟨j, h1, h2, _⟩ := envelope_roundtrip U (.message m) h; exact ⟨j, h1, h2⟩
  | notification n => obtain ⟨j, h1, h2, _⟩ := envelope_roundtrip U (.notification n) h; exact ⟨j, h1, h2⟩
  | session s => obtain ⟨j, h1, h2, _⟩ := envelope_roundtrip U (.session s) h; exact ⟨j, h1, h2⟩
  | request c =>
    obtain ⟨cmd, uri⟩ := c
    simp only [Envelope.wfT, Bool.and_eq_true] at h
    obtain ⟨⟨⟨henv, hm⟩, hres⟩, huri⟩ := h
    cases uri with
    | none => exact request_roundtrip_nouri U cmd henv hm hres
    | some u =>
      have hw : (Envelope.request ⟨cmd, some u⟩).wf U = true := by
        simp only [Envelope.wf, Bool.and_eq_true]
        exact ⟨⟨⟨henv, hm⟩, hres⟩, huri⟩
      obtain ⟨j, h1, h2, _⟩ := envelope_roundtrip U _ hw
      exact ⟨j, h1, h2⟩
  | response c =>
    obtain ⟨cmd, status, reason⟩ := c
    simp only [Envelope.wfT, Bool.and_eq_true] at h
    obtain ⟨⟨⟨henv, hm⟩, hres⟩, hreason⟩ := h
    cases status with
    | nil => exact response_roundtrip_nostatus U cmd reason henv hm hres hreason
    | cons a t =>
      have hw : (Envelope.response ⟨cmd, a :: t, reason⟩).wf U = true := by
        simp only [Envelope.wf, Bool.and_eq_true]
        exact ⟨⟨⟨⟨henv, hm⟩, hres⟩, rfl⟩, hreason⟩
      obtain ⟨j, h1, h2, _⟩ := envelope_roundtrip U _ hw
      exact ⟨j, h1, h2⟩

/-- whatever a typed `populate` accepts from a raw struct that the decoder filled is, in normal form,
in the relaxed grammar -/
theorem populate_wfT (U : Str → Option Str) {r : Raw} (g : RawGood U r) (k : Kind) (e : Envelope)
    (h : populate k r = .ok e) : e.norm.wfT U = true ∧ e.kind = k := by
  cases k with
  | message =>
    simp only [populate] at h
    obtain ⟨m, hm, h⟩ := bind_ok_inv h
    cases h
    refine ⟨?_, rfl⟩
    unfold Message.ofRaw at hm
    split at hm
    · cases hm
    · rename_i t ht
      split at hm
      · cases hm
      · rename_i c _
        obtain ⟨d, hd, h3⟩ := bind_ok_inv hm
        cases h3
        simp only [Envelope.norm, Envelope.wfT, Envelope.wf, Bool.and_eq_true]
        exact ⟨⟨env_norm_wf g, g.type t ht⟩, Doc.dec_wf c t d hd⟩
  | notification =>
    simp only [populate] at h
    obtain ⟨n, hn, h⟩ := bind_ok_inv h
    cases h
    refine ⟨?_, rfl⟩
    unfold Notification.ofRaw at hn
    split at hn
    · cases hn
    · rename_i ev hev
      cases hn
      simp only [Envelope.norm, Envelope.wfT, Envelope.wf, Bool.and_eq_true]
      exact ⟨⟨env_norm_wf g, g.event ev hev⟩, reason_optWf g.reason⟩
  | request =>
    simp only [populate] at h
    obtain ⟨c, hc, h⟩ := bind_ok_inv h
    cases h
    refine ⟨?_, rfl⟩
    unfold RequestCommand.ofRaw at hc
    obtain ⟨cmd, hcmd, h3⟩ := bind_ok_inv hc
    cases h3
    obtain ⟨henv, hmeth, hres⟩ := command_ofRaw_post g hcmd
    simp only [Envelope.norm, Envelope.wfT, Command.norm, Command.resWf, Bool.and_eq_true, henv]
    refine ⟨⟨⟨env_norm_wf g, hmeth⟩, hres⟩, ?_⟩
    cases hu : r.uri with
    | none => rfl
    | some u => simp [optWf, g.uri u hu]
  | response =>
    simp only [populate] at h
    obtain ⟨c, hc, h⟩ := bind_ok_inv h
    cases h
    refine ⟨?_, rfl⟩
    unfold ResponseCommand.ofRaw at hc
    obtain ⟨cmd, hcmd, h3⟩ := bind_ok_inv hc
    obtain ⟨henv, hmeth, hres⟩ := command_ofRaw_post g hcmd
    split at h3
    · cases h3
    · cases h3
      simp only [Envelope.norm, Envelope.wfT, Command.norm, Command.resWf, Bool.and_eq_true, henv]
      exact ⟨⟨⟨env_norm_wf g, hmeth⟩, hres⟩, reason_optWf g.reason⟩
  | session =>
    simp only [populate] at h
    obtain ⟨s, hs, h⟩ := bind_ok_inv h
    cases h
    refine ⟨?_, rfl⟩
    unfold Session.ofRaw at hs
    obtain ⟨auth, hauth, h3⟩ := bind_ok_inv hs
    split at h3
    · cases h3
    · rename_i st hst
      cases h3
      simp only [Envelope.norm, Envelope.wfT, Envelope.wf, Bool.and_eq_true]
      refine ⟨⟨⟨⟨⟨⟨env_norm_wf g, g.state st hst⟩, optsWf_norm _⟩, optsWf_norm _⟩, optsWf_norm _⟩,
        reason_optWf g.reason⟩, ?_⟩
      split at hauth
      · cases hauth; rfl
      · rename_i ja _
        split at hauth
        · cases hauth
        · rename_i sch hsch
          obtain ⟨a, ha, h4⟩ := bind_ok_inv hauth
          cases h4
          have := auth_scheme_of_ofJson sch ja a ha
          simp [hsch, this]

/-- **C02 (stable under re-encoding), typed decoders**: whatever `json.Unmarshal` into one of the five
envelope types accepts — from any JSON tree — can be encoded again, and the same typed decoder accepts
that encoding and yields the same envelope in normal form, which encodes to the same tree. -/
theorem accepted_reencodes_typed (U : Str → Option Str) (hU : UIdem U) (k : Kind) (j : Json) (e : Envelope)
    (h : decodeTyped U k j = .ok e) :
    ∃ j', e.encode = .ok j' ∧ decodeTyped U k j' = .ok e.norm ∧ e.norm.encode = .ok j' := by
  unfold decodeTyped at h
  obtain ⟨r, hr, hp⟩ := bind_ok_inv h
  obtain ⟨hw, hk⟩ := populate_wfT U (Raw.ofJson_good U hU j r hr) k e hp
  obtain ⟨j', h1, h2⟩ := typed_roundtrip U e.norm hw
  rw [kind_norm, hk] at h2
  exact ⟨j', by rw [← encode_norm]; exact h1, h2, h1⟩

/-- Non-vacuity: a request without `uri` is accepted by the typed decoder only, and is covered. -/
example : decodeTyped (fun s => some s) .request (.obj [(cs!"method", .str cs!"get")]) =
      .ok (.request ⟨⟨{}, cs!"get", none, none⟩, none⟩) ∧
    decodeAny (fun s => some s) (.obj [(cs!"method", .str cs!"get")]) = .err := ⟨rfl, rfl⟩

end Props.C02
