import LimeModel.Timed
/-!
Structural tie (see DESIGN.md 2.2): the variant of the model is the one read off the syntax tree of the
source on this run (`harness/cmd/facts/structure.go` → `LimeModel/Generated.lean`). One file per fact,
so that a construct that disappears from the source breaks the obligations of the properties that
rest on it and of no other.
-/
namespace Props.TieStruct
open LimeModel

/-- C15: the WebSocket `Send` forces its context's end onto the underlying connection -/
theorem ws_interrupts : Timed.wsInterrupts = true := by decide

end Props.TieStruct
