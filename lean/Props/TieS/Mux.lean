import LimeModel.MuxCode
/-!
Structural tie (see DESIGN.md 2.2): the variant of the model is the one read off the syntax tree of the
source on this run (`harness/cmd/facts/structure.go` → `LimeModel/Generated.lean`). One file per fact,
so that a construct that disappears from the source breaks the obligations of the properties that
rest on it and of no other.
-/
namespace Props.TieStruct
open LimeModel

/-- C20: the four `handleX` loops skip non-matching handlers, return a handler's error, and `break`
after the first handler they invoke -/
theorem mux_loop_first_match_break : Mux.codeBreaks = true := by decide

/-- C20: the four built-in `Match` methods accept everything when no predicate was given -/
theorem mux_nil_predicate_matches : Mux.codeNilMatches = true := by decide

/-- hence the dispatch the source has is the dispatch the C20 theorems are about -/
theorem dispatchCode_eq {ε} (hs : List (Mux.Handler ε)) (e : ε) : Mux.dispatchCode hs e = Mux.dispatch hs e := by
  unfold Mux.dispatchCode Mux.dispatch
  rw [mux_loop_first_match_break, mux_nil_predicate_matches, Mux.scanV_true]
  simp only
  congr 2

end Props.TieStruct
