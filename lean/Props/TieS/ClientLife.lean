import LimeModel.ClientLife
/-!
Structural tie (see DESIGN.md 2.2): the variant of the model is the one read off the syntax tree of the
source on this run (`harness/cmd/facts/structure.go` → `LimeModel/Generated.lean`). One file per fact,
so that a construct that disappears from the source breaks the obligations of the properties that
rest on it and of no other.
-/
namespace Props.TieStruct
open LimeModel

/-- C19: the client's receiver closes the transport when a receive fails and when a session
envelope leaves the client established -/
theorem clientlife_repaired : ClientLife.repaired = ClientLife.Fix.all := by decide

end Props.TieStruct
