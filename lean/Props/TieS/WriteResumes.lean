import LimeModel.Generated
/-!
Structural tie (see DESIGN.md 2.2): the variant of the model is the one read off the syntax tree of the
source on this run (`harness/cmd/facts/structure.go` → `LimeModel/Generated.lean`). One file per fact,
so that a construct that disappears from the source breaks the obligations of the properties that
rest on it and of no other.
-/
namespace Props.TieStruct
open LimeModel

/-- C12 (and C04, which rests on it): `ctxConn.Write` resumes a short write with the rest of its
buffer, as `Stream.writeLoop` does with `b.drop k` -/
theorem write_resumes : Generated.writeResumesAfterShortWrite = true := by decide

end Props.TieStruct
