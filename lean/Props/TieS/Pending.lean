import LimeModel.Pending
/-!
Structural tie (see DESIGN.md 2.2): the variant of the model is the one read off the syntax tree of the
source on this run (`harness/cmd/facts/structure.go` → `LimeModel/Generated.lean`). One file per fact,
so that a construct that disappears from the source breaks the obligations of the properties that
rest on it and of no other.
-/
namespace Props.TieStruct
open LimeModel

/-- C05: `trySubmitCommandResult` looks up and deletes in one critical section and the deferred
clean-up of `processCommand` deletes only its own entry -/
theorem pending_repaired : Pending.repaired = true := by decide

end Props.TieStruct
