import LimeModel.Finish
import LimeModel.Life
/-!
# C13 — sessions end cleanly and release what waits on them

The client that finishes a session, against its own receiver goroutine (`LimeModel.Finish`), under
every interleaving:
* `finish_never_fails` — `FinishSession` never gives up on a reply that was delivered: the caller
  does not end in the error state, whichever of the receiver's "push the reply" / "adopt its state"
  steps and the caller's "read the state" / "wait" steps comes first;
* `streams_closed_once` — the inbound streams and the done signal are closed at most once, ever,
  and exactly once when everything has come to rest;
* `finish_completes` — when nothing can move any more the caller has closed the transport, the
  state is `finished`, the receiver has exited: `initiator_closes_transport`,
  `terminal_state_reached`, `no_goroutine_left` for this scenario;
* `unfixed_gives_up` — the tree before the repair: the receiver adopts `finished` first, the caller
  reads it and returns an error with the transport open.
The observer's side (receiver stopped by a terminal state, streams silent afterwards) is
`Props.C06.after_terminal_silent` over `LimeModel.Life`.
-/
namespace Props.C13
open LimeModel.Finish

structure Inv (s : FS) : Prop where
  /-- the reply is in exactly one place, or consumed by the caller, or not yet asked for -/
  early : (s.cpc = .idle) → (s.wire = false ∧ s.inSes = false ∧ s.rpc = .running ∧ s.finished = false ∧ s.closes = 0 ∧ s.cancelReq = false ∧ s.inSesClosed = false)
  pending : (s.cpc = .sent ∨ s.cpc = .readEst ∨ s.cpc = .readTerm) →
    ((s.rpc = .running ∧ s.wire = true ∧ s.inSes = false ∧ s.finished = false ∧ s.inSesClosed = false) ∨
     (s.rpc = .pushed ∧ s.wire = false ∧ s.inSes = true ∧ s.finished = false ∧ s.inSesClosed = false) ∨
     (s.rpc = .exited ∧ s.wire = false ∧ s.inSes = true ∧ s.finished = true ∧ s.inSesClosed = true)) ∧ s.cancelReq = false
  term : s.cpc = .readTerm → s.finished = true
  closesLe : s.closes = (if s.rpc = .exited then 1 else 0)
  notFailed : s.cpc ≠ .failed
  late : (s.cpc = .stopped ∨ s.cpc = .closed) → s.rpc = .exited ∧ s.finished = true
  adoptedFin : (s.cpc = .adopted) → s.finished = true ∧ s.inSes = false ∧ (s.rpc = .pushed ∨ s.rpc = .exited ∨ (s.rpc = .running ∧ s.wire = false))
  gotSt : (s.cpc = .got) → s.inSes = false ∧ s.wire = false ∧ (s.rpc = .pushed ∨ s.rpc = .exited) ∧ s.cancelReq = false
  closedT : s.tclosed = true → s.cpc = .closed
  cancelOnly : s.cancelReq = true → (s.cpc = .adopted ∨ s.cpc = .stopped ∨ s.cpc = .closed)
  closedImp : s.cpc = .closed → s.tclosed = true

theorem inv_init : Inv {} := by
  constructor <;> simp

theorem inv_step (s s' : FS) (l : Lbl) (h : Inv s) (hs : step true s l = some s') : Inv s' := by
  obtain ⟨h1, h2, h3, h4, h5, h6, h7, h8, h9, h10, h11⟩ := h
  cases l <;> simp only [step] at hs <;> (repeat' split at hs) <;> (try cases hs) <;>
    (constructor <;> intros <;> simp only at * <;> grind)

theorem inv_run (ls : List Lbl) : ∀ s s', Inv s → runL true s ls = some s' → Inv s' := by
  induction ls with
  | nil => intro s s' h hr; simp [runL] at hr; exact hr ▸ h
  | cons l ls ih =>
    intro s s' h hr
    simp only [runL] at hr
    split at hr
    · rename_i s1 hs; exact ih s1 s' (inv_step s s1 l h hs) hr
    · cases hr

/-- **C13 (the finishing client never gives up on a delivered reply)** -/
theorem finish_never_fails (ls : List Lbl) (s : FS) (hr : runL true {} ls = some s) : s.cpc ≠ .failed :=
  (inv_run ls _ _ inv_init hr).notFailed

/-- **C13 (streams closed once)**: never twice, and only by the receiver's exit. -/
theorem streams_closed_once (ls : List Lbl) (s : FS) (hr : runL true {} ls = some s) :
    s.closes ≤ 1 ∧ (s.closes = 1 ↔ s.rpc = .exited) := by
  have h := (inv_run ls _ _ inv_init hr).closesLe
  constructor
  · rw [h]; split <;> omega
  · rw [h]; split <;> simp_all

/-- **C13 (completion)**: once the client has asked for the end, a state in which nothing can move
is the state in which the caller has closed its transport, the channel is `finished`, and the
receiver goroutine is gone with the streams closed exactly once. -/
theorem finish_completes (ls : List Lbl) (s : FS) (hr : runL true {} ls = some s)
    (hstarted : s.cpc ≠ .idle) (hst : stuck true s = true) :
    s.cpc = .closed ∧ s.tclosed = true ∧ s.finished = true ∧ s.rpc = .exited ∧ s.closes = 1 := by
  have h := inv_run ls _ _ inv_init hr
  obtain ⟨h1, h2, h3, h4, h5, h6, h7, h8, h9, h10, h11⟩ := h
  simp only [stuck, allLabels, List.all_cons, List.all_nil, Bool.and_true, Bool.and_eq_true,
    Option.isNone_iff_eq_none, step] at hst
  obtain ⟨a1, a2, a3, a4, a5, a6, a7, a8, a9, a10⟩ := hst
  cases hc : s.cpc <;> simp only [hc] at * <;> grind

/-- the tree before the repair gave up: the caller ends in the error state, transport open -/
theorem unfixed_gives_up :
    (runL false {} [.callerSend, .rcvTake, .rcvAdopt, .callerRead, .callerTerminal]).map
      (fun s => (s.cpc, s.tclosed, s.inSes)) = some (.failed, false, true) := by decide

/-- the same schedule on the repaired code goes through -/
example : (runL true {} [.callerSend, .rcvTake, .rcvAdopt, .callerRead, .callerTerminal, .callerAdopt, .callerStop,
    .callerClose]).map (fun s => (s.cpc, s.tclosed, s.finished, s.closes)) = some (.closed, true, true, 1) := by decide

end Props.C13
