import LimeModel.ClientHs
/-!
# C06, receive side on the client: a non-session input before establishment aborts the handshake

`nonsession_input_aborts_client`: in every run of the client handshake model, either every input that
was not a session envelope was consumed after the channel had entered `established` (where it belongs
to the application), or `EstablishSession` returns an error and that input is the newest event of the
trace: nothing was sent, no callback ran, no state was adopted after it.
-/
namespace Props.C06.Client
open LimeModel LimeModel.ClientHs
open LimeModel.ServerHs (SState Ses Recv Opt)

def isSes : Recv → Bool
  | .ses _ => true
  | _ => false

def isSetEst : Ev → Bool
  | .setState .established => true
  | _ => false

/-- the channel has entered `established` somewhere in this (newest-first) trace -/
def estIn (t : List Ev) : Bool := t.any isSetEst

/-- every input that is not a session envelope was consumed after establishment -/
def goodRev : List Ev → Bool
  | [] => true
  | .recv r :: t => (isSes r || estIn t) && goodRev t
  | _ :: t => goodRev t

def Coh (s : St) : Prop := s.state = .established → estIn s.trace = true

/-- the trace is clean, or it ends in the offending input -/
def BadLast (t : List Ev) : Prop := ∃ r older, t = .recv r :: older ∧ isSes r = false ∧ goodRev older = true

def PostR (r : RecvRes × St) : Prop := (goodRev r.2.trace = true ∧ Coh r.2) ∨ (r.1 = .err ∧ BadLast r.2.trace)
def PostE (r : Res × St) : Prop := (goodRev r.2.trace = true ∧ Coh r.2) ∨ (r.1 = .err ∧ BadLast r.2.trace)

theorem estIn_cons (e : Ev) (t : List Ev) (h : estIn t = true) : estIn (e :: t) = true := by
  simp [estIn, List.any_cons] at *; exact Or.inr h

theorem good_log (s : St) (e : Ev) (he : ∀ r, e ≠ .recv r) (h : goodRev s.trace = true) :
    goodRev (s.log e).trace = true := by
  cases e with
  | recv r => exact absurd rfl (he r)
  | _ => simpa [St.log, goodRev] using h

theorem coh_log (s : St) (e : Ev) (h : Coh s) : Coh (s.log e) := by
  intro hs; exact estIn_cons e _ (h hs)

theorem markEof_trace (c : Cfg) (s : St) : (markEof c s).trace = s.trace := by unfold markEof; split <;> rfl
theorem markEof_state (c : Cfg) (s : St) : (markEof c s).state = s.state := by unfold markEof; split <;> rfl

theorem setState_good (s : St) (x : SState) (h : goodRev s.trace = true) : goodRev (setState s x).trace = true := by
  simpa [setState, St.log, goodRev] using h

theorem setState_coh (s : St) (x : SState) (_h : Coh s) : Coh (setState s x) := by
  intro hs
  simp only [setState, St.log] at hs ⊢
  cases x <;> simp_all [estIn, isSetEst, List.any_cons]

/-- what `nextItem` yields -/
theorem nextItem_post (c : Cfg) (s : St) (hg : goodRev s.trace = true) (hc : Coh s) :
    let q := nextItem c s
    q.2.state = s.state ∧
    ((q.1 = none ∧ goodRev q.2.trace = true ∧ Coh q.2) ∨
     (∃ x, q.1 = some (.ses x) ∧ goodRev q.2.trace = true ∧ Coh q.2) ∨
     (∃ r, q.1 = some r ∧ isSes r = false ∧ q.2.trace = .recv r :: s.trace)) := by
  unfold nextItem
  cases hr : s.recvs with
  | nil =>
    refine ⟨markEof_state c s, Or.inl ⟨rfl, by rw [markEof_trace]; exact hg, ?_⟩⟩
    intro hs; rw [markEof_trace]; exact hc (by rw [markEof_state] at hs; exact hs)
  | cons x r =>
    cases x with
    | ses y =>
      refine ⟨rfl, Or.inr (Or.inl ⟨y, rfl, by simp [St.log, goodRev, isSes, hg], ?_⟩)⟩
      intro hs; exact estIn_cons _ _ (hc hs)
    | sesGone y =>
      refine ⟨rfl, Or.inr (Or.inl ⟨y, rfl, by simp [St.log, goodRev, isSes, hg], ?_⟩)⟩
      intro hs; exact estIn_cons _ _ (hc hs)
    | other => exact ⟨rfl, Or.inr (Or.inr ⟨.other, rfl, rfl, rfl⟩)⟩
    | fail b =>
      cases b with
      | true => exact ⟨by simp [markEof_state, St.log], Or.inr (Or.inr ⟨.fail true, rfl, rfl, by simp [markEof_trace, St.log]⟩)⟩
      | false => exact ⟨rfl, Or.inr (Or.inr ⟨.fail false, rfl, rfl, rfl⟩)⟩

/-- the receiver path: the channel is established, whatever arrives is in order -/
theorem recvViaReceiver_post (c : Cfg) (fuel : Nat) : ∀ s, goodRev s.trace = true → Coh s → s.state = .established →
    goodRev (recvViaReceiver c fuel s).2.trace = true ∧ Coh (recvViaReceiver c fuel s).2 := by
  induction fuel with
  | zero => intro s hg hc _; exact ⟨hg, hc⟩
  | succ n ih =>
    intro s hg hc hs
    unfold recvViaReceiver
    simp only
    obtain ⟨hst, hcases⟩ := nextItem_post c s hg hc
    have hest : estIn s.trace = true := hc hs
    rcases hcases with ⟨h1, h2, h3⟩ | ⟨x, h1, h2, h3⟩ | ⟨r, h1, h2, h3⟩
    · rw [h1]; exact ⟨h2, h3⟩
    · rw [h1]; simp only
      have stop_ok : ∀ s' : St, goodRev s'.trace = true → Coh s' →
          goodRev (stopsEstablished s').trace = true ∧ Coh (stopsEstablished s') := by
        intro s' hg' hc'
        refine ⟨by simpa using hg', ?_⟩
        intro hs; simp only [stopsEstablished_state, stopsEstablished_trace] at hs ⊢; exact hc' hs
      split
      · exact stop_ok _ (setState_good _ _ h2) (setState_coh _ _ h3)
      · split
        · exact ⟨h2, h3⟩
        · exact stop_ok _ h2 h3
    · -- an input that is no session envelope, after establishment: clean
      have hg' : goodRev (nextItem c s).2.trace = true := by rw [h3]; simp [goodRev, hest, hg]
      have hc' : Coh (nextItem c s).2 := by intro _; rw [h3]; exact estIn_cons _ _ hest
      rw [h1]
      cases r with
      | ses x => simp [isSes] at h2
      | sesGone x => exact ⟨hg', hc'⟩
      | other => exact ih _ hg' hc' (by rw [hst]; exact hs)
      | fail b => exact ⟨hg', fun hh => by simpa using hc' hh⟩

theorem receiveSession_post (c : Cfg) (s : St) (hg : goodRev s.trace = true) (hc : Coh s) :
    PostR (receiveSession c s) := by
  unfold receiveSession
  split; · exact Or.inl ⟨hg, hc⟩
  split
  · rename_i hs
    exact Or.inl (recvViaReceiver_post c _ s hg hc hs)
  split; · exact Or.inl ⟨hg, hc⟩
  simp only
  obtain ⟨hst, hcases⟩ := nextItem_post c s hg hc
  rcases hcases with ⟨h1, h2, h3⟩ | ⟨x, h1, h2, h3⟩ | ⟨r, h1, h2, h3⟩
  · rw [h1]; exact Or.inl ⟨h2, h3⟩
  · rw [h1]; exact Or.inl ⟨h2, h3⟩
  · rw [h1]
    cases r with
    | ses x => simp [isSes] at h2
    | sesGone x => exact Or.inr ⟨rfl, .sesGone x, s.trace, h3, rfl, hg⟩
    | other => exact Or.inr ⟨rfl, .other, s.trace, h3, rfl, hg⟩
    | fail b => exact Or.inr ⟨rfl, .fail b, s.trace, h3, rfl, hg⟩

theorem adopt_good (s : St) (ses : Ses) (h : goodRev s.trace = true) : goodRev (adopt s ses).trace = true := by
  unfold adopt; split <;> exact setState_good _ _ h
theorem adopt_coh (s : St) (ses : Ses) : Coh (adopt s ses) := by
  unfold adopt
  split
  · rename_i he
    intro _; simp [setState, St.log, estIn, isSetEst, he]
  · rename_i he
    intro hs
    simp only [setState, St.log] at hs
    exact absurd hs he

theorem recvFromServer_post (c : Cfg) (s : St) (hg : goodRev s.trace = true) (hc : Coh s) :
    PostR (recvFromServer c s) := by
  unfold recvFromServer
  simp only
  have h := receiveSession_post c s hg hc
  generalize receiveSession c s = q at h
  obtain ⟨res, s1⟩ := q
  cases res with
  | err => exact h
  | panic =>
    rcases h with h | ⟨h1, _⟩
    · exact Or.inl h
    · cases h1
  | got ses =>
    rcases h with ⟨h1, h2⟩ | ⟨h1, _⟩
    · simp only
      split
      · unfold refuse; split <;> exact Or.inl ⟨h1, h2⟩
      · unfold finishRecv
        split
        · split
          · refine Or.inl ⟨?_, ?_⟩
            · simpa [closeT, St.log, goodRev] using adopt_good s1 ses h1
            · intro hs; simp only [closeT, St.log] at hs ⊢
              exact estIn_cons _ _ (adopt_coh s1 ses hs)
          · exact Or.inl ⟨adopt_good s1 ses h1, adopt_coh s1 ses⟩
        · exact Or.inl ⟨adopt_good s1 ses h1, adopt_coh s1 ses⟩
    · cases h1

theorem sendSession_good (s : St) (e : Ses) (h : goodRev s.trace = true) : goodRev (sendSession s e).2.trace = true := by
  unfold sendSession; split
  · exact h
  · split
    · exact h
    · split <;> simpa [St.log, goodRev] using h
theorem sendSession_coh (s : St) (e : Ses) (h : Coh s) : Coh (sendSession s e).2 := by
  unfold sendSession; split
  · exact h
  · split
    · exact h
    · split
      · exact coh_log _ _ h
      · intro hs; exact estIn_cons _ _ (h hs)
      · exact h

theorem postE_of_R_err (s2 : St) (h : PostR (.err, s2)) : PostE (.err, s2) := by
  rcases h with h | ⟨_, h⟩
  · exact Or.inl h
  · exact Or.inr ⟨rfl, h⟩

theorem postE_of_R_panic (s2 : St) (h : PostR (.panic, s2)) : PostE (.panic, s2) := by
  rcases h with h | ⟨h1, _⟩
  · exact Or.inl h
  · cases h1

/-- the same tail for a continuation that yields a receive result -/
theorem tailR (c : Cfg) (s1 : St) (k : Ses → St → RecvRes × St)
    (hk : ∀ ses s2, goodRev s2.trace = true → Coh s2 → PostR (k ses s2))
    (hg : goodRev s1.trace = true) (hc : Coh s1) :
    PostR (match (recvFromServer c s1).1 with
      | .err => (.err, (recvFromServer c s1).2)
      | .panic => (.panic, (recvFromServer c s1).2)
      | .got ses' => k ses' (recvFromServer c s1).2) := by
  have h := recvFromServer_post c s1 hg hc
  generalize recvFromServer c s1 = q at h
  obtain ⟨res, s2⟩ := q
  cases res with
  | err => exact h
  | panic => exact h
  | got ses' =>
    rcases h with ⟨h1, h2⟩ | ⟨h1, _⟩
    · exact hk ses' s2 h1 h2
    · cases h1

/-- the common tail "receive the server's reply, then go on with it" -/
theorem tailE (c : Cfg) (s1 : St) (k : Ses → St → Res × St)
    (hk : ∀ ses s2, goodRev s2.trace = true → Coh s2 → PostE (k ses s2))
    (hg : goodRev s1.trace = true) (hc : Coh s1) :
    PostE (match (recvFromServer c s1).1 with
      | .err => (.err, (recvFromServer c s1).2)
      | .panic => (.panic, (recvFromServer c s1).2)
      | .got ses' => k ses' (recvFromServer c s1).2) := by
  have h := recvFromServer_post c s1 hg hc
  generalize recvFromServer c s1 = q at h
  obtain ⟨res, s2⟩ := q
  cases res with
  | err => exact postE_of_R_err s2 h
  | panic => exact postE_of_R_panic s2 h
  | got ses' =>
    rcases h with ⟨h1, h2⟩ | ⟨h1, _⟩
    · exact hk ses' s2 h1 h2
    · cases h1

theorem authLoop_post (c : Cfg) (fuel : Nat) : ∀ s ses rt, goodRev s.trace = true → Coh s →
    PostE (authLoop c fuel s ses rt) := by
  induction fuel with
  | zero => intro s ses rt hg hc; exact Or.inl ⟨hg, hc⟩
  | succ n ih =>
    intro s ses rt hg hc
    unfold authLoop
    split; · exact Or.inl ⟨hg, hc⟩
    simp only
    have hg1 : goodRev (({ s with auths := s.auths.tail } : St).log (.authCall ses.schemeOpts rt)).trace = true := by
      simpa [St.log, goodRev] using hg
    have hc1 : Coh (({ s with auths := s.auths.tail } : St).log (.authCall ses.schemeOpts rt)) := by
      intro hs; exact estIn_cons _ _ (hc hs)
    split; · exact Or.inl ⟨hg1, hc1⟩
    have hg2 := fun e => sendSession_good _ e hg1
    have hc2 := fun e => sendSession_coh _ e hc1
    split; · exact Or.inl ⟨hg2 _, hc2 _⟩
    exact tailE c _ (fun ses' s2 => authLoop c n s2 ses' ses'.auth) (fun ses' s2 h1 h2 => ih s2 ses' ses'.auth h1 h2) (hg2 _) (hc2 _)

theorem applyComp_keeps (s : St) (x : Opt) (hg : goodRev s.trace = true) (hc : Coh s) :
    goodRev (applyComp s x).2.trace = true ∧ Coh (applyComp s x).2 := by
  unfold applyComp; split
  · exact ⟨by simpa [St.log, goodRev] using hg, coh_log _ _ hc⟩
  · exact ⟨hg, hc⟩

theorem applyEnc_keeps (s : St) (x : Opt) (hg : goodRev s.trace = true) (hc : Coh s) :
    goodRev (applyEnc s x).2.trace = true ∧ Coh (applyEnc s x).2 := by
  unfold applyEnc; split
  · split
    · exact ⟨by simpa [St.log, goodRev] using hg, fun hs => estIn_cons _ _ (hc hs)⟩
    · exact ⟨by simpa [St.log, goodRev] using hg, coh_log _ _ hc⟩
  · exact ⟨hg, hc⟩

theorem applyConfirmed_keeps (s : St) (conf : Ses) (hg : goodRev s.trace = true) (hc : Coh s) :
    goodRev (applyConfirmed s conf).2.trace = true ∧ Coh (applyConfirmed s conf).2 := by
  unfold applyConfirmed
  split
  · simp only
    have h0g : goodRev (s.log (.confirmed conf.comp conf.enc)).trace = true := by simpa [St.log, goodRev] using hg
    have h0c : Coh (s.log (.confirmed conf.comp conf.enc)) := coh_log _ _ hc
    have h1 := applyComp_keeps _ conf.comp h0g h0c
    split
    · exact h1
    · exact applyEnc_keeps _ conf.enc h1.1 h1.2
  · exact ⟨hg, hc⟩

theorem negotiateBlock_post (c : Cfg) (s : St) (ses : Ses) (hg : goodRev s.trace = true) (hc : Coh s) :
    PostR (negotiateBlock c s ses) := by
  unfold negotiateBlock
  simp only
  have hg1 : goodRev (s.log (.selCall ses.compOpts ses.encOpts)).trace = true := by simpa [St.log, goodRev] using hg
  have hc1 : Coh (s.log (.selCall ses.compOpts ses.encOpts)) := coh_log _ _ hc
  split; · exact Or.inl ⟨hg1, hc1⟩
  have hg2 := fun e => sendSession_good _ e hg1
  have hc2 := fun e => sendSession_coh _ e hc1
  split; · exact Or.inl ⟨hg2 _, hc2 _⟩
  refine tailR c _ (fun conf s2 =>
    if !(applyConfirmed s2 conf).1 then (.err, (applyConfirmed s2 conf).2) else recvFromServer c (applyConfirmed s2 conf).2) ?_ (hg2 _) (hc2 _)
  intro conf s2 h1 h2
  have h3 := applyConfirmed_keeps s2 conf h1 h2
  split
  · exact Or.inl h3
  · exact recvFromServer_post c _ h3.1 h3.2

theorem establish_post (c : Cfg) (s : St) (hg : goodRev s.trace = true) (hc : Coh s) : PostE (establish c s) := by
  unfold establish
  split; · exact Or.inl ⟨hg, hc⟩
  have hg2 := fun e => sendSession_good s e hg
  have hc2 := fun e => sendSession_coh s e hc
  simp only
  split; · exact Or.inl ⟨hg2 _, hc2 _⟩
  refine tailE c _ (fun ses s2 =>
    match (if ses.state = .negotiating then negotiateBlock c s2 ses else (.got ses, s2)).1 with
    | .err => (.err, (if ses.state = .negotiating then negotiateBlock c s2 ses else (.got ses, s2)).2)
    | .panic => (.panic, (if ses.state = .negotiating then negotiateBlock c s2 ses else (.got ses, s2)).2)
    | .got ses2 => authLoop c ((if ses.state = .negotiating then negotiateBlock c s2 ses else (.got ses, s2)).2.recvs.length + 2)
        (if ses.state = .negotiating then negotiateBlock c s2 ses else (.got ses, s2)).2 ses2 none) ?_ (hg2 _) (hc2 _)
  intro ses s2 h1 h2
  have hn : PostR (if ses.state = .negotiating then negotiateBlock c s2 ses else (.got ses, s2)) := by
    split
    · exact negotiateBlock_post c s2 ses h1 h2
    · exact Or.inl ⟨h1, h2⟩
  revert hn
  generalize (if ses.state = .negotiating then negotiateBlock c s2 ses else (RecvRes.got ses, s2)) = n
  intro hn
  obtain ⟨res, s3⟩ := n
  cases res with
  | err => exact postE_of_R_err s3 hn
  | panic => exact postE_of_R_panic s3 hn
  | got ses2 =>
    rcases hn with ⟨h3, h4⟩ | ⟨h3, _⟩
    · exact authLoop_post c _ s3 ses2 none h3 h4
    · cases h3

/-- **C06 (receive side, client)**: for every configuration, server script, authenticator outcome,
failing-send pattern and `SetEncryption` outcome: either every input that was not a session
envelope was consumed after the channel had entered `established`, or `EstablishSession` returns an
error and the offending input is the newest event of the trace. -/
theorem nonsession_input_aborts_client (c : Cfg) (recvs : List Recv) (auths : List Auth) (sendOk : List Bool)
    (setEncOk : Bool) (enc0 : Opt) :
    let r := run c recvs auths sendOk setEncOk enc0
    goodRev r.trace.reverse = true ∨ (r.res = .err ∧ BadLast r.trace.reverse) := by
  have h := establish_post c { recvs, auths, sendOk, setEncOk, enc := enc0 } (by rfl) (by intro hs; cases hs)
  unfold run
  simp only [List.reverse_reverse]
  rcases h with ⟨h1, _⟩ | h
  · exact Or.inl h1
  · exact Or.inr h

end Props.C06.Client
