import LimeModel.Life
import Props.C07
import Props.C03
/-!
# C06 — data envelopes flow only while the session is established

Send side and inbound streams (`LimeModel.Life`): for **every** sequence of life-cycle operations —
any interleaving of application sends and arriving envelopes with any sequence of state changes,
closes and peer-gone events, hence with every stage of either role's handshake and teardown —
* `data_only_while_established`: every data envelope written to the wire or pushed to an inbound
  stream was written / pushed while the state was `established` on a connected transport, and every
  send in any other situation returned an error and wrote nothing;
* `after_terminal_silent`: once `finished` or `failed` was entered, nothing is ever written or
  delivered again; `data_needs_established_event`: nothing before `established` was entered.

Receive side during the handshake (`LimeModel.ServerHs`):
* `nonsession_input_aborts_server`: a non-session input consumed by the server handshake is the last
  observable event of the run — nothing is emitted, no callback runs after it — and the handshake
  returns an error (so, by C14, the connection is released and no callback is invoked).
-/
namespace Props.C06
open LimeModel LimeModel.Life
open LimeModel.ServerHs (SState)

/-! ## the life-cycle model -/

def isTerminalEv : Ev → Bool
  | .setState x => terminal x
  | _ => false

/-- newest first: no data event is newer than a terminal `setState` -/
def silentRev : List Ev → Bool
  | [] => true
  | e :: t => (!isData e || !t.any isTerminalEv) && silentRev t

def Inv (s : L) : Prop :=
  s.state = stateOf s.trace ∧ s.connected = connOf s.trace ∧ okRev s.trace = true ∧
  silentRev s.trace = true ∧ (s.trace.any isTerminalEv = true → 5 ≤ s.state.step)

theorem inv_init : Inv {} := ⟨rfl, rfl, rfl, rfl, by simp⟩

theorem terminal_step (x : SState) (h : terminal x = true) : 5 ≤ x.step := by
  cases x <;> simp [terminal] at h <;> simp [SState.step]

/-- in the established state no terminal state was entered before -/
theorem no_terminal_of_est (s : L) (h : Inv s) (he : s.state = .established) :
    s.trace.any isTerminalEv = false := by
  cases hany : s.trace.any isTerminalEv with
  | false => rfl
  | true =>
    have := h.2.2.2.2 hany
    rw [he] at this
    simp [SState.step] at this

theorem setState_inv (s : L) (x : SState) (h : Inv s) : Inv (Life.setState s x) := by
  obtain ⟨h1, h2, h3, h4, h5⟩ := h
  unfold Life.setState
  split
  · exact ⟨h1, h2, h3, by simpa [L.log, silentRev, isData] using h4,
      by simpa [L.log, List.any_cons, isTerminalEv] using h5⟩
  · rename_i hge
    have key : ∀ s' : L, s'.state = x → s'.connected = s.connected → s'.trace = .setState x :: s.trace → Inv s' := by
      intro s' e1 e2 e3
      refine ⟨by rw [e1, e3]; rfl, by rw [e2, e3]; exact h2, by rw [e3]; exact h3,
        by rw [e3]; simpa [silentRev, isData] using h4, ?_⟩
      intro hany
      rw [e3] at hany
      simp only [List.any_cons, isTerminalEv, Bool.or_eq_true] at hany
      rw [e1]
      rcases hany with ht | ht
      · exact terminal_step x ht
      · have := h5 ht; omega
    simp only [L.log]
    split
    · exact key _ rfl rfl rfl
    · split <;> exact key _ rfl rfl rfl

theorem send_inv (s : L) (k : Life.Kind) (h : Inv s) : Inv (Life.send s k) := by
  have hI := h
  obtain ⟨h1, h2, h3, h4, h5⟩ := h
  unfold Life.send
  split
  · rename_i hc
    have : connOf s.trace = false := by rw [← h2]; simpa using hc
    exact ⟨h1, h2, by simp [L.log, okRev, this, h3], by simpa [L.log, silentRev, isData] using h4,
      by simpa [L.log, List.any_cons, isTerminalEv] using h5⟩
  · split
    · rename_i hs
      have : (stateOf s.trace == SState.established) = false := by rw [← h1]; simpa using hs
      exact ⟨h1, h2, by simp [L.log, okRev, this, h3], by simpa [L.log, silentRev, isData] using h4,
        by simpa [L.log, List.any_cons, isTerminalEv] using h5⟩
    · rename_i hc hs
      have e0 : s.state = .established := by simpa using hs
      have e1 : stateOf s.trace = .established := by rw [← h1]; exact e0
      have e2 : connOf s.trace = true := by rw [← h2]; simpa using hc
      have e3 := no_terminal_of_est s hI e0
      exact ⟨h1, h2, by simp [L.log, okRev, e1, e2, h3], by simp [L.log, silentRev, isData, e3, h4],
        by simpa [L.log, List.any_cons, isTerminalEv] using h5⟩

theorem receiving_est (s : L) (h : s.receiving = true) : s.state = .established ∧ s.connected = true := by
  unfold L.receiving L.established at h
  simp only [Bool.and_eq_true, beq_iff_eq] at h
  exact ⟨h.2.1, h.2.2⟩

theorem step_inv (s : L) (o : Op) (h : Inv s) : Inv (step s o) := by
  have hI := h
  obtain ⟨h1, h2, h3, h4, h5⟩ := h
  cases o with
  | setState x => exact setState_inv s x hI
  | peerGone =>
    exact ⟨h1, rfl, h3, by simpa [step, L.log, silentRev, isData] using h4,
      by simpa [step, L.log, List.any_cons, isTerminalEv] using h5⟩
  | close =>
    exact ⟨h1, rfl, h3, by simpa [step, L.log, silentRev, isData] using h4,
      by simpa [step, L.log, List.any_cons, isTerminalEv] using h5⟩
  | send k => exact send_inv s k hI
  | arrive k =>
    simp only [step]
    split
    · rename_i hr
      obtain ⟨e1, e2⟩ := receiving_est s hr
      have e3 := no_terminal_of_est s hI e1
      exact ⟨h1, h2, by simp [L.log, okRev, ← h1, ← h2, e1, e2, h3], by simp [L.log, silentRev, isData, e3, h4],
        by simpa [L.log, List.any_cons, isTerminalEv] using h5⟩
    · exact ⟨h1, h2, h3, by simpa [L.log, silentRev, isData] using h4,
        by simpa [L.log, List.any_cons, isTerminalEv] using h5⟩
  | arriveSes x cl =>
    simp only [step]
    split
    · split
      · rename_i hcl
        simp only [Bool.and_eq_true, decide_eq_true_eq] at hcl
        refine ⟨rfl, h2, h3, by simpa [L.log, silentRev, isData] using h4, ?_⟩
        intro hany
        simp only [L.log, List.any_cons, isTerminalEv, Bool.or_eq_true, Bool.false_or] at hany
        rcases hany with ht | ht
        · exact terminal_step x ht
        · have := h5 ht; have := hcl.2; show 5 ≤ x.step; omega
      · exact ⟨h1, h2, h3, by simpa [L.log, silentRev, isData] using h4,
          by simpa [L.log, List.any_cons, isTerminalEv] using h5⟩
    · exact ⟨h1, h2, h3, by simpa [L.log, silentRev, isData] using h4,
        by simpa [L.log, List.any_cons, isTerminalEv] using h5⟩

theorem run_inv (ops : List Op) (s : L) (h : Inv s) : Inv (ops.foldl step s) := by
  induction ops generalizing s with
  | nil => exact h
  | cons o t ih => exact ih _ (step_inv s o h)

/-- **C06 (send side, inbound streams)** -/
theorem data_only_while_established (ops : List Op) : okRev (run ops).trace = true :=
  (run_inv ops {} inv_init).2.2.1

/-- **C06 (after teardown)**: once `finished` or `failed` was entered nothing is written to the wire
or pushed to an inbound stream any more, whatever the application and the peer do. -/
theorem after_terminal_silent (ops : List Op) : silentRev (run ops).trace = true :=
  (run_inv ops {} inv_init).2.2.2.1

/-- a trace whose state is `established` contains the event of entering it -/
theorem est_has_event (t : List Ev) (h : stateOf t = .established) : Ev.setState .established ∈ t := by
  induction t with
  | nil => simp [stateOf] at h
  | cons e t ih =>
    cases e with
    | setState x => simp only [stateOf] at h; subst h; exact List.mem_cons_self ..
    | _ => exact List.mem_cons_of_mem _ (ih (by simpa [stateOf] using h))

/-- **C06 (before establishment)**: every data envelope written or delivered is preceded by the
event of entering `established`. -/
theorem data_needs_established_event (ops : List Op) (newer older : List Ev) (e : Ev)
    (h : (run ops).trace = newer ++ e :: older) (hd : isData e = true) : Ev.setState .established ∈ older := by
  have hok := data_only_while_established ops
  rw [h] at hok
  have drop : ∀ (n : List Ev), okRev (n ++ e :: older) = true → okRev (e :: older) = true := by
    intro n
    induction n with
    | nil => exact id
    | cons a n ih =>
      intro hh
      apply ih
      cases a <;> simp_all [okRev]
  have := drop newer hok
  cases e <;> simp [isData] at hd <;> simp [okRev] at this <;> exact est_has_event _ this.1.1

/-- **C06 (send guard)**: a send in any state other than `established`, or on a transport that is
not connected, returns an error and writes nothing. -/
theorem send_guard (s : L) (k : Life.Kind) (h : s.state ≠ .established ∨ s.connected = false) :
    (Life.send s k).trace = .sendErr k :: s.trace := by
  unfold Life.send
  rcases h with h | h
  · split
    · rfl
    · simp [L.log]
  · simp [h, L.log]

/-- and in the established state on a connected transport it writes the envelope -/
theorem send_established (s : L) (k : Life.Kind) (h1 : s.state = .established) (h2 : s.connected = true) :
    (Life.send s k).trace = .emit k :: s.trace := by
  unfold Life.send; simp [h1, h2, L.log]

/-- Non-vacuity: sends before, during and after an established session. -/
example : (run [.send .msg, .setState .authenticating, .send .req, .setState .established, .send .msg,
      .arrive .ntf, .setState .finished, .send .msg, .arrive .msg]).trace.reverse =
    [.sendErr .msg, .setState .authenticating, .sendErr .req, .setState .established, .emit .msg,
      .deliver .ntf, .setState .finished, .sendErr .msg, .held .msg] := by decide

/-! ## the receive side during the server handshake -/

namespace Server
open LimeModel.ServerHs LimeModel.ServerSpec

/-- a non-session input moves the protocol automaton to `ended`, from any phase that accepts it -/
theorem nonses_ends (c : Cfg) (r : Recv) (hr : ∀ x, r ≠ .ses x) (older : List ServerHs.Ev) (p : Phase)
    (h : phaseOf c (.recv r :: older) = some p) : p = .ended := by
  simp only [phaseOf] at h
  cases hq : phaseOf c older with
  | none => simp [hq] at h
  | some q =>
    simp only [hq, Option.bind_some] at h
    cases r with
    | ses x => exact absurd rfl (hr x)
    | sesGone x => cases q <;> simp [stepPhase] at h <;> exact h.symm
    | other => cases q <;> simp [stepPhase] at h <;> exact h.symm
    | fail b => cases q <;> simp [stepPhase] at h <;> exact h.symm

/-- nothing is accepted after `ended` -/
theorem nothing_after_ended (c : Cfg) (l : List ServerHs.Ev) (h : phaseOf c l = some .ended) :
    ∀ newer : List ServerHs.Ev, newer ≠ [] → phaseOf c (newer ++ l) = none := by
  intro newer
  induction newer with
  | nil => intro hn; exact absurd rfl hn
  | cons e n ih =>
    intro _
    simp only [List.cons_append, phaseOf]
    by_cases hn : n = []
    · subst hn; simp [h, stepPhase]
    · rw [ih hn]; rfl

/-- **C06 (receive side, server)**: if the server handshake consumes an input that is not a session
envelope (a message, notification or command smuggled in before establishment, undecodable bytes, a
dropped connection), that input is the last observable event of the run — no envelope is emitted,
no `Authenticate` / `Register` callback runs after it — and `EstablishSession` returns an error.
With C14 (`failed_handshake_released`, `callbacks_only_when_established`) the connection is then
closed and neither serving callback is invoked; the model has no inbound stream before
establishment, the receiver being started by `setState established` only (`Life`). -/
theorem nonsession_input_aborts_server (c : Cfg) (recvs : List Recv) (auths : List AuthOut)
    (regs : List (Option Node)) (sendOk : List Bool) (setEncOk : Bool) (enc0 : Opt)
    (r : Recv) (hr : ∀ x, r ≠ .ses x) (newer older : List ServerHs.Ev)
    (h : obs (ServerHs.run c recvs auths regs sendOk setEncOk enc0).trace.reverse = newer ++ .recv r :: older) :
    newer = [] ∧ (ServerHs.run c recvs auths regs sendOk setEncOk enc0).ok = false := by
  unfold ServerHs.run at h ⊢
  simp only [List.reverse_reverse] at h ⊢
  obtain ⟨p, hp, _, _, hne⟩ := Props.C07.establish_phase c { recvs, auths, regs, sendOk, setEncOk, enc := enc0 } rfl
  simp only [Props.C07.P] at hp
  rw [h] at hp
  have hnewer : newer = [] := by
    by_cases hn : newer = []
    · exact hn
    · cases hq : phaseOf c (.recv r :: older) with
      | none =>
        -- a prefix the automaton rejects cannot be extended to an accepted trace
        have : ∀ n : List ServerHs.Ev, phaseOf c (n ++ .recv r :: older) = none := by
          intro n
          induction n with
          | nil => exact hq
          | cons e n ih => simp only [List.cons_append, phaseOf, ih]; rfl
        rw [this newer] at hp; cases hp
      | some q =>
        have hq' := nonses_ends c r hr older q hq
        subst hq'
        rw [nothing_after_ended c _ hq newer hn] at hp; cases hp
  refine ⟨hnewer, ?_⟩
  subst hnewer
  simp only [List.nil_append] at hp
  have hpe := nonses_ends c r hr older p hp
  cases hok : (establish c { recvs, auths, regs, sendOk, setEncOk, enc := enc0 }).1 with
  | false => rfl
  | true => exact absurd hpe (hne hok)

/-- Non-vacuity: a message injected in place of the authentication envelope. -/
example : (ServerHs.run Props.C03.demoCfg [.ses { state := .new }, .other] [.role] [] [] true).ok = false := by
  decide

end Server

end Props.C06
