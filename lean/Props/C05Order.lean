import Props.C05Conserve
/-!
# C05: the response stream is an order-preserving selection of what arrived

Along every run of the repaired table, from every state: what the run adds to the response stream is
a sublist of the responses the run took off `incoming` — no response is surfaced that did not
arrive, none is surfaced twice, and the relative order of arrival is kept. From `init` this says the
whole stream is a sublist of the consumed prefix of the inbound sequence.
-/
namespace Props.C05
open LimeModel.Pending

theorem stream_sublist_of_taken (ls : List Lbl) : ∀ (s s' : S), runL true s ls = some s' →
    ∃ taken more, s.incoming = taken ++ s'.incoming ∧ s'.stream = s.stream ++ more ∧ more.Sublist taken := by
  induction ls with
  | nil => intro s s' h; simp [runL] at h; exact ⟨[], [], by simp [h], by simp [h], .slnil⟩
  | cons l rest ih =>
    intro s s' h
    simp only [runL] at h
    split at h
    · rename_i s1 hs1
      obtain ⟨taken, more, ht, hm, hsub⟩ := ih s1 s' h
      cases step_moves s s1 l hs1 with
      | none hin hst _ => exact ⟨taken, more, by rw [← hin, ht], by rw [hm, hst], hsub⟩
      | toStream r rest' hin hin' hst _ _ _ =>
        exact ⟨r :: taken, r :: more, by rw [hin, ← hin', ht]; rfl, by rw [hm, hst]; simp, hsub.cons_cons r⟩
      | toHand r rest' _ hin hin' hst _ _ _ =>
        exact ⟨r :: taken, more, by rw [hin, ← hin', ht]; rfl, by rw [hm, hst], hsub.cons r⟩
      | handKept _ _ _ _ hin hst => exact ⟨taken, more, by rw [← hin, ht], by rw [hm, hst], hsub⟩
      | toSlot _ _ _ _ _ _ hin hst => exact ⟨taken, more, by rw [← hin, ht], by rw [hm, hst], hsub⟩
    · cases h

/-- **C05 (stream fidelity)**: from the initial state, the stream is a sublist of the consumed prefix of
the inbound response sequence. -/
theorem c05_stream_sublist (inc : List Resp) (ls : List Lbl) (s : S) (hr : runL true (init inc) ls = some s) :
    ∃ taken, inc = taken ++ s.incoming ∧ s.stream.Sublist taken := by
  obtain ⟨taken, more, ht, hm, hsub⟩ := stream_sublist_of_taken ls (init inc) s hr
  refine ⟨taken, ht, ?_⟩
  have : s.stream = more := by rw [hm]; simp [init]
  rw [this]; exact hsub

/-- non-vacuity: a run that surfaces one unmatched response and hands one matched response to its call -/
example : ((runL true (init [⟨9, 1⟩, ⟨7, 2⟩]) [.spawn 0 7, .register 0, .send 0 true, .rcvLookup, .rcvLookup, .rcvHandoff, .take 0]).map
    fun s => (s.stream, s.incoming, (s.caller 0).pc)) = some ([⟨9, 1⟩], [], .cleanup (.resp ⟨7, 2⟩)) := by decide

end Props.C05
