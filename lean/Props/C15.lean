import LimeModel.Timed
import LimeModel.Generated
/-!
# C15 — blocking operations honour their context

For the retry loop of the TCP transport (`pollLoop`), for every poll interval `poll ≥ 1`, every
starting time, every peer behaviour (silent for ever, or ready at any moment) and enough iterations:
* `deadline_prompt` — with a deadline `d` that ends first, the call returns the context's error at
  exactly `max now d`: no later than the deadline;
* `cancel_within_poll` — cancelled at `a`, it returns the context's error no later than `a + poll`
  (and not before `a`);
* `data_wins` — if the peer is ready before the context ends the call succeeds at that moment.
For the `select`-based operations `select_prompt` (exactly at the end of the context), and for the
WebSocket helper pattern `helper_prompt` once the forced deadline reaches the operation in progress;
`helper_unfixed_blocks` is the tree before the repair. `tcp_poll_tie` instantiates the bound with the
constants regenerated from the source (five seconds).
-/
namespace Props.C15
open LimeModel.Timed

theorem done_mono (c : Ctx) (t t' : Nat) (h : t ≤ t') (hd : c.done t = true) : c.done t' = true := by
  unfold Ctx.done at *
  cases hdl : c.deadline <;> cases hca : c.cancelAt <;> simp_all <;> omega

/-- **C15 (deadline)**: peer silent (or ready only at or after the deadline), no cancellation before
the deadline: the loop returns the context's error at `max now d`. -/
theorem deadline_prompt (poll : Nat) (hp : 0 < poll) (d : Nat) (readyAt : Option Nat)
    (hr : ∀ r, readyAt = some r → d ≤ r) :
    ∀ (fuel now : Nat), d + 1 ≤ now + fuel →
      pollLoop poll { deadline := some d } readyAt fuel now = (max now d, .ctxErr) := by
  intro fuel
  induction fuel with
  | zero => intro now h; simp only [pollLoop]; congr 1; omega
  | succ n ih =>
    intro now h
    simp only [pollLoop]
    by_cases hd : d ≤ now
    · simp only [Ctx.done, hd, decide_true, Bool.or_false, ↓reduceIte]
      congr 1; omega
    · have hdn : (Ctx.done { deadline := some d } now) = false := by simp [Ctx.done, hd]
      simp only [hdn, Bool.false_eq_true, ↓reduceIte, ioDeadline]
      have hmin : min (now + poll) d ≤ d := Nat.min_le_right _ _
      have hgt : now < min (now + poll) d := by
        simp only [Nat.lt_min]; omega
      have step : pollLoop poll { deadline := some d } readyAt n (min (now + poll) d) = (max now d, .ctxErr) := by
        rw [ih (min (now + poll) d) (by omega)]
        congr 1; omega
      cases hra : readyAt with
      | none => rw [hra] at step; simpa using step
      | some r =>
        have := hr r hra
        have hnot : ¬ r < min (now + poll) d := by omega
        rw [hra] at step
        simp only [hnot, ↓reduceIte]
        exact step

/-- **C15 (cancellation)**: no deadline, cancelled at `a`, peer never ready before the return: the
loop returns the context's error at a time in `[max now a, a + poll]`. -/
theorem cancel_within_poll (poll : Nat) (hp : 0 < poll) (a : Nat) :
    ∀ (fuel now : Nat), now ≤ a → a + 2 ≤ now + fuel →
      (pollLoop poll { cancelAt := some a } none fuel now).2 = .ctxErr ∧
      a ≤ (pollLoop poll { cancelAt := some a } none fuel now).1 ∧
      (pollLoop poll { cancelAt := some a } none fuel now).1 ≤ a + poll := by
  intro fuel
  induction fuel with
  | zero => intro now h1 h2; omega
  | succ n ih =>
    intro now h1 h2
    simp only [pollLoop]
    by_cases hd : a ≤ now
    · have hdn : (Ctx.done { cancelAt := some a } now) = true := by simp [Ctx.done, hd]
      simp only [hdn, ↓reduceIte]
      exact ⟨trivial, hd, by omega⟩
    · have hdn : (Ctx.done { cancelAt := some a } now) = false := by simp [Ctx.done, hd]
      simp only [hdn, Bool.false_eq_true, ↓reduceIte, ioDeadline]
      by_cases hnext : now + poll ≤ a
      · exact ih (now + poll) hnext (by omega)
      · -- the next check of the context is past the cancellation: it returns there
        cases n with
        | zero => omega
        | succ m =>
          simp only [pollLoop]
          have hdone : (Ctx.done { cancelAt := some a } (now + poll)) = true := by
            simp [Ctx.done]; omega
          simp only [hdone, ↓reduceIte]
          exact ⟨trivial, by omega, by omega⟩

/-- **C15 (no false alarm)**: a peer that is ready before the context ends is served at that moment. -/
theorem data_wins (poll : Nat) (hp : 0 < poll) (c : Ctx) (r : Nat) :
    ∀ (fuel now : Nat), c.done (max now r) = false → max now r + 1 ≤ now + fuel →
      pollLoop poll c (some r) fuel now = (max now r, .ok) := by
  intro fuel
  induction fuel with
  | zero => intro now h1 h2; omega
  | succ n ih =>
    intro now h1 h2
    simp only [pollLoop]
    have hnow : c.done now = false := by
      cases hh : c.done now with
      | false => rfl
      | true => rw [done_mono c now (max now r) (by omega) hh] at h1; cases h1
    simp only [hnow, Bool.false_eq_true, ↓reduceIte]
    by_cases hlt : r < ioDeadline poll c now
    · simp [hlt]
    · simp only [hlt, ↓reduceIte]
      have hd : now < ioDeadline poll c now := by
        unfold ioDeadline
        cases hdl : c.deadline with
        | none => simp only; omega
        | some d =>
          simp only [Nat.lt_min]
          refine ⟨by omega, ?_⟩
          -- the deadline is after `max now r ≥ now`, since the context is not done there
          unfold Ctx.done at hnow
          simp only [hdl] at hnow
          simp at hnow; omega
      have hle : ioDeadline poll c now ≤ r := by omega
      have := ih (ioDeadline poll c now) (by
        have : max (ioDeadline poll c now) r = max now r := by omega
        rw [this]; exact h1) (by omega)
      rw [this]; congr 1; omega

/-- **C15 (`select`-based operations)**: they return exactly when the context ends, if the peer was
not ready before. -/
theorem select_prompt (c : Ctx) (e : Nat) (now : Nat) (he : c.endTime = some e) :
    selectOp c none now = some (max now e, .ctxErr) := by
  simp [selectOp, he]

/-- **C15 (WebSocket)**: with the forced deadline reaching the operation in progress, the helper
pattern returns when the context ends, whatever the peer does. -/
theorem helper_prompt (c : Ctx) (e : Nat) (now : Nat) (readyAt : Option Nat) (he : c.endTime = some e)
    (hr : ∀ r, readyAt = some r → max now e ≤ max now r) :
    helperOp true c readyAt now = some (max now e, .ctxErr) := by
  unfold helperOp selectOp
  cases hra : readyAt with
  | none => simp [he]
  | some r =>
    have := hr r hra
    simp only [he]
    have hnot : ¬ max now r < max now e := by omega
    simp [hnot]

/-- the tree before the repair: a peer that never reads blocks the sender for ever, and a slow one
holds it long past the end of its context -/
theorem helper_unfixed_blocks :
    helperOp false { deadline := some 10 } none 0 = none ∧
    helperOp false { deadline := some 10 } (some 5000) 0 = some (5000, .ctxErr) := by decide

/-- the TCP transport's poll intervals, regenerated from the source, and the resulting bound -/
theorem tcp_poll_tie : LimeModel.Generated.readPollSeconds = 5 ∧ LimeModel.Generated.writePollSeconds = 5 := by decide

theorem tcp_cancel_bound (a now fuel : Nat) (h1 : now ≤ a) (h2 : a + 2 ≤ now + fuel) :
    (pollLoop LimeModel.Generated.readPollSeconds { cancelAt := some a } none fuel now).1 ≤ a + 5 :=
  (cancel_within_poll LimeModel.Generated.readPollSeconds (by decide) a fuel now h1 h2).2.2

/-- Non-vacuity: poll 5, cancelled at 7 from 0: the loop wakes at 5 and at 10 and returns at 10. -/
example : pollLoop 5 { cancelAt := some 7 } none 10 0 = (10, .ctxErr) := by decide
example : pollLoop 5 { deadline := some 7 } none 10 0 = (7, .ctxErr) := by decide
example : pollLoop 5 { deadline := some 7 } (some 6) 10 0 = (6, .ok) := by decide

end Props.C15
