import LimeModel.ServerLife
/-!
# C18 — server start / stop is orderly under any timing

Over every interleaving of the start-up steps of `ListenAndServe`, the acceptors, the consumer, the
sub-steps of `Close`, handshakes in progress and established sessions, for any number of listeners
and sessions:
* `serve_returns_closed_error` — a `ListenAndServe` that returns after `Close` cancelled the server
  returns the server-closed error, and the return value never changes afterwards;
* `listeners_stopped` — once it has returned the server-closed error no listener is listening,
  also when `Close` overtook the start-up;
* `close_makes_serve_return` — from every reachable state in which `Close` has cancelled the server,
  `ListenAndServe` can always move and every move brings it closer to returning (a measure that
  decreases), so it returns;
* `callbacks_paired` — `Established` at most once per session and before any handler run of that
  session, `Finished` at most once, after `Established`, nothing after it, and neither for a session
  that did not establish; `all_finished_at_quiescence`.
The witnesses `unfixed_*` show what the tree before the repairs did.
-/
namespace Props.C18
open LimeModel.ServerLife

structure Inv (s : St) : Prop where
  spawned : ∀ i, i < s.started → s.acc i ≠ .notSpawned
  unspawned : ∀ i, s.started ≤ i → s.acc i = .notSpawned
  startedLe : s.started ≤ s.n
  consSpawn : s.cons ≠ .notSpawned → s.started = s.n
  ctxFirst : s.firstErr = some true → s.cancelled = true
  retClosed : s.returned = some .serverClosed → ∀ i, i < s.n → s.lst i ≠ .listening
  retDone : s.returned ≠ none → s.started = s.n
  pubCancel : s.cancelled = true → s.published = true
  grp : s.groupCancelled = true → s.firstErr ≠ none

theorem inv_init (n b : Nat) : Inv (init n b) := by
  constructor <;> simp [init]

theorem keepFirst_spec (o : Option Bool) (b : Bool) :
    (o = none ∧ keepFirst o b = some b) ∨ (∃ x, o = some x ∧ keepFirst o b = some x) := by
  cases o with
  | none => exact Or.inl ⟨rfl, rfl⟩
  | some x => exact Or.inr ⟨x, rfl, rfl⟩

theorem inv_step (s s' : St) (l : Lbl) (h : Inv s) (hs : step true s l = some s') : Inv s' := by
  obtain ⟨h1, h2, h3, h4, h5, h6, h7, h8, h9⟩ := h
  have k1 := keepFirst_spec s.firstErr true
  have k2 := keepFirst_spec s.firstErr false
  cases l <;> simp only [step] at hs <;> (repeat' split at hs) <;> (try cases hs) <;>
    (constructor <;> intros <;> simp only [upd, closeListeners, St.ctxDone] at * <;> grind)

theorem inv_run (ls : List Lbl) : ∀ s s', Inv s → runL true s ls = some s' → Inv s' := by
  induction ls with
  | nil => intro s s' h hr; simp [runL] at hr; exact hr ▸ h
  | cons l ls ih =>
    intro s s' h hr
    simp only [runL] at hr
    split at hr
    · rename_i s1 hs; exact ih s1 s' (inv_step s s1 l h hs) hr
    · cases hr

/-- **C18 (return value)**: the return step of a server that `Close` has cancelled yields the
server-closed error. -/
theorem serve_returns_closed_error (s s' : St) (h : step true s .ret = some s') (hc : s.cancelled = true) :
    s'.returned = some .serverClosed := by
  simp only [step] at h
  split at h
  · simp only [hc, ↓reduceIte] at h; cases h; rfl
  · cases h

/-- the return value is final -/
theorem returned_stable (s s' : St) (l : Lbl) (r : Ret) (h : step true s l = some s')
    (hr : s.returned = some r) : s'.returned = some r := by
  cases l <;> simp only [step] at h <;> (repeat' split at h) <;> (try cases h) <;> simp_all

/-- **C18 (listeners stopped)**: in every reachable state in which `ListenAndServe` has returned the
server-closed error no listener is listening, whatever the order of `Close` and the start-up. -/
theorem listeners_stopped (n b : Nat) (ls : List Lbl) (s : St) (hr : runL true (init n b) ls = some s)
    (hret : s.returned = some .serverClosed) : ∀ i, i < s.n → s.lst i ≠ .listening :=
  (inv_run ls _ _ (inv_init n b) hr).retClosed hret

/-! ### progress -/

def accPending (s : St) (i : Nat) : Bool := match s.acc i with | .exited _ => false | _ => true

/-- how far `ListenAndServe` is from returning -/
def measure (s : St) : Nat :=
  (s.n - s.started) + (match s.cons with | .notSpawned => 2 | .running => 1 | .exited => 0) +
  ((List.range s.n).filter (accPending s)).length + (if s.returned = none then 1 else 0)

theorem filter_flip (l : List Nat) (hn : l.Nodup) (p p' : Nat → Bool) (i : Nat) (hi : i ∈ l)
    (hp : p i = true) (hp' : p' i = false) (hsame : ∀ j, j ≠ i → p' j = p j) :
    (l.filter p').length + 1 = (l.filter p).length := by
  induction l with
  | nil => cases hi
  | cons a t ih =>
    have hnd := List.nodup_cons.mp hn
    by_cases ha : a = i
    · subst ha
      have hrest : t.filter p' = t.filter p := by
        apply List.filter_congr
        intro j hj
        exact hsame j (fun e => hnd.1 (e ▸ hj))
      simp [hp, hp', hrest]
    · have hit : i ∈ t := by
        cases hi with
        | head => exact absurd rfl ha
        | tail _ h => exact h
      have ih' := ih hnd.2 hit
      have hpa : p' a = p a := hsame a ha
      cases hq : p a with
      | true => simp [hpa, hq]; omega
      | false => simp [hpa, hq]; omega

theorem filter_same (l : List Nat) (p p' : Nat → Bool) (h : ∀ j ∈ l, p' j = p j) :
    (l.filter p').length = (l.filter p).length := by
  rw [List.filter_congr h]

theorem all_exited_of_none_pending (s : St) (h : (List.range s.n).filter (accPending s) = []) :
    allAccExited s = true := by
  simp only [allAccExited, List.all_eq_true, List.mem_range]
  intro i hi
  have : accPending s i = false := by
    cases hp : accPending s i with
    | false => rfl
    | true =>
      have : i ∈ (List.range s.n).filter (accPending s) := by simp [List.mem_filter, hi, hp]
      rw [h] at this; cases this
  unfold accPending at this
  split at this <;> simp_all

def sStart (s : St) : St := { s with lst := upd s.lst s.started Lst.listening, acc := upd s.acc s.started AccPC.accepting, started := s.started + 1 }
def sSpawn (s : St) : St := { s with cons := ConsPC.running }
def sConsExit (s : St) : St := { s with cons := ConsPC.exited }
def sRet (s : St) : St := { s with returned := some Ret.serverClosed, lst := closeListeners s }
def sAccExit (s : St) (i : Nat) : St := { s with acc := upd s.acc i (AccPC.exited true), groupCancelled := true, firstErr := keepFirst s.firstErr true }

/-- **C18 (progress)**: once `Close` has cancelled the server, `ListenAndServe` can always take a
step, and each such step brings it strictly closer to returning. -/
theorem progress (s : St) (h : Inv s) (hc : s.cancelled = true) (hr : s.returned = none) :
    ∃ l s', step true s l = some s' ∧ measure s' < measure s ∧ s'.cancelled = true := by
  have hp : s.published = true := h.pubCancel hc
  by_cases hst : s.started < s.n
  · -- a listener is still to be started
    refine ⟨.startListener, sStart s, by simp [step, sStart, hp, hst, hr], ?_, hc⟩
    have hacc : s.acc s.started = .notSpawned := h.unspawned _ (Nat.le_refl _)
    have hcons : s.cons = .notSpawned := by
      cases hcs : s.cons with
      | notSpawned => rfl
      | running => have := h.consSpawn (by simp [hcs]); omega
      | exited => have := h.consSpawn (by simp [hcs]); omega
    have hf : ((List.range s.n).filter (accPending (sStart s))).length = ((List.range s.n).filter (accPending s)).length := by
      apply filter_same
      intro j _
      simp only [accPending, sStart, upd]
      by_cases hj : j = s.started
      · subst hj; simp [hacc]
      · simp [hj]
    have e1 : (sStart s).n = s.n := rfl
    have e2 : (sStart s).started = s.started + 1 := rfl
    have e3 : (sStart s).cons = s.cons := rfl
    have e4 : (sStart s).returned = s.returned := rfl
    simp only [measure, e1, e2, e3, e4, hf, hr, hcons]
    simp; omega
  · have hst' : s.started = s.n := by have := h.startedLe; omega
    cases hcs : s.cons with
    | notSpawned =>
      refine ⟨.spawnConsumer, sSpawn s, by simp [step, sSpawn, hp, hst', hcs], ?_, hc⟩
      have hf : ((List.range s.n).filter (accPending (sSpawn s))).length = ((List.range s.n).filter (accPending s)).length := rfl
      have e1 : (sSpawn s).n = s.n := rfl
      have e2 : (sSpawn s).started = s.started := rfl
      have e3 : (sSpawn s).cons = .running := rfl
      have e4 : (sSpawn s).returned = s.returned := rfl
      simp only [measure, e1, e2, e3, e4, hf, hcs, hr]
      omega
    | running =>
      refine ⟨.consumerExit, sConsExit s, by simp [step, sConsExit, hcs, St.ctxDone, hc], ?_, hc⟩
      have hf : ((List.range s.n).filter (accPending (sConsExit s))).length = ((List.range s.n).filter (accPending s)).length := rfl
      have e1 : (sConsExit s).n = s.n := rfl
      have e2 : (sConsExit s).started = s.started := rfl
      have e3 : (sConsExit s).cons = .exited := rfl
      have e4 : (sConsExit s).returned = s.returned := rfl
      simp only [measure, e1, e2, e3, e4, hf, hcs, hr]
      omega
    | exited =>
      cases hpend : (List.range s.n).filter (accPending s) with
      | nil =>
        have hall := all_exited_of_none_pending s hpend
        refine ⟨.ret, sRet s, by simp [step, sRet, hst', hcs, hall, hr, hc], ?_, hc⟩
        have hf : ((List.range s.n).filter (accPending (sRet s))).length = ((List.range s.n).filter (accPending s)).length := rfl
        have e1 : (sRet s).n = s.n := rfl
        have e2 : (sRet s).started = s.started := rfl
        have e3 : (sRet s).cons = s.cons := rfl
        have e4 : (sRet s).returned = some .serverClosed := rfl
        simp only [measure, e1, e2, e3, e4, hf, hcs, hr]
        simp
      | cons i rest =>
        have hi : i ∈ (List.range s.n).filter (accPending s) := by rw [hpend]; exact List.mem_cons_self ..
        simp only [List.mem_filter, List.mem_range] at hi
        obtain ⟨hin, hpi⟩ := hi
        have hsp : s.acc i ≠ .notSpawned := h.spawned i (by omega)
        have hstate : s.acc i = .accepting ∨ s.acc i = .holding := by
          unfold accPending at hpi
          cases ha : s.acc i with
          | notSpawned => exact absurd ha hsp
          | accepting => exact Or.inl rfl
          | holding => exact Or.inr rfl
          | exited b => simp [ha] at hpi
        refine ⟨.accExitCtx i, sAccExit s i, by simp [step, sAccExit, hin, hstate, St.ctxDone, hc], ?_, hc⟩
        have hf := filter_flip (List.range s.n) List.nodup_range (accPending s) (accPending (sAccExit s i)) i
          (by simp [hin]) hpi (by simp [accPending, sAccExit, upd]) (by intro j hj; simp [accPending, sAccExit, upd, hj])
        have e1 : (sAccExit s i).n = s.n := rfl
        have e2 : (sAccExit s i).started = s.started := rfl
        have e3 : (sAccExit s i).cons = s.cons := rfl
        have e4 : (sAccExit s i).returned = s.returned := rfl
        simp only [measure, e1, e2, e3, e4, hcs, hr]
        omega

/-- **C18 (Close makes the serve call return)**: from every state in which `Close` has cancelled the
server and `ListenAndServe` has not returned there is a continuation — of at most `measure`
steps, all of them steps of `ListenAndServe`'s own goroutines — after which it has returned the
server-closed error. -/
theorem close_makes_serve_return : ∀ (m : Nat) (s : St), Inv s → s.cancelled = true → s.returned = none →
    measure s ≤ m → ∃ ls s', runL true s ls = some s' ∧ s'.returned = some .serverClosed := by
  intro m
  induction m with
  | zero =>
    intro s _ _ hr hm
    simp only [measure, hr] at hm
    simp at hm
  | succ m ih =>
    intro s h hc hr hm
    obtain ⟨l, s1, hs, hlt, hc1⟩ := progress s h hc hr
    have h1 := inv_step s s1 l h hs
    cases hr1 : s1.returned with
    | none =>
      obtain ⟨ls, s', hrun, hret⟩ := ih s1 h1 hc1 hr1 (by omega)
      exact ⟨l :: ls, s', by simp [runL, hs, hrun], hret⟩
    | some r =>
      refine ⟨[l], s1, by simp [runL, hs], ?_⟩
      -- the only step that sets the return value is `ret`, and it was taken with the server cancelled
      cases l <;> simp only [step] at hs <;> (repeat' split at hs) <;> (try cases hs) <;> simp_all

/-! ### callbacks -/

structure CbInv (s : St) : Prop where
  paired : pairedRev s.trace = true
  quiet : ∀ j, (s.ses j = .none ∨ s.ses j = .handshaking ∨ s.ses j = .released) →
    (Ev.est j ∉ s.trace ∧ Ev.fin j ∉ s.trace ∧ Ev.handler j ∉ s.trace)
  est : ∀ j, s.ses j = .established → (Ev.est j ∈ s.trace ∧ Ev.fin j ∉ s.trace)
  fin : ∀ j, s.ses j = .finished → (Ev.est j ∈ s.trace ∧ Ev.fin j ∈ s.trace)
  fresh : ∀ j, s.nses ≤ j → s.ses j = .none

theorem cb_init (n b : Nat) : CbInv (init n b) := by
  constructor <;> simp [init, pairedRev]

theorem ses_cases (x : SesPC) : x = .none ∨ x = .handshaking ∨ x = .released ∨ x = .established ∨ x = .finished := by
  cases x <;> simp

theorem cb_step (f : Bool) (s s' : St) (l : Lbl) (h : CbInv s) (hs : step f s l = some s') : CbInv s' := by
  obtain ⟨h1, h2, h3, h4, h5⟩ := h
  have frame : ∀ t : St, t.ses = s.ses → t.trace = s.trace → t.nses = s.nses → CbInv t := by
    intro t e1 e2 e3
    exact ⟨by rw [e2]; exact h1, by rw [e1, e2]; exact h2, by rw [e1, e2]; exact h3, by rw [e1, e2]; exact h4, by rw [e1, e3]; exact h5⟩
  cases l with
  | hsOk j =>
    simp only [step] at hs
    split at hs
    · rename_i hj
      cases hs
      obtain ⟨q1, q2, q3⟩ := h2 j (Or.inr (Or.inl hj))
      have hjn : j < s.nses := by
        rcases Nat.lt_or_ge j s.nses with h | h
        · exact h
        · rw [h5 j h] at hj; cases hj
      refine ⟨?_, ?_, ?_, ?_, (by
        intro k hk; simp only [upd]
        have hk' : s.nses ≤ k := hk
        have : k ≠ j := by omega
        simp only [this, ↓reduceIte]; exact h5 k hk)⟩
      · simp [pairedRev, h1, q1, q2, q3]
      · intro k hk
        simp only [upd] at hk
        by_cases hkj : k = j
        · subst hkj; simp at hk
        · simp only [hkj, ↓reduceIte] at hk
          obtain ⟨a, b, c⟩ := h2 k hk
          simp [a, b, c, hkj]
      · intro k hk
        simp only [upd] at hk
        by_cases hkj : k = j
        · subst hkj; simp [q2]
        · simp only [hkj, ↓reduceIte] at hk
          obtain ⟨a, b⟩ := h3 k hk
          simp [a, b]
      · intro k hk
        simp only [upd] at hk
        by_cases hkj : k = j
        · subst hkj; simp at hk
        · simp only [hkj, ↓reduceIte] at hk
          obtain ⟨a, b⟩ := h4 k hk
          simp [a, b]
    · cases hs
  | hsFail j =>
    simp only [step] at hs
    split at hs
    · rename_i hj
      cases hs
      have hjn : j < s.nses := by
        rcases Nat.lt_or_ge j s.nses with h | h
        · exact h
        · rw [h5 j h] at hj; cases hj
      refine ⟨h1, ?_, ?_, ?_, (by
        intro k hk; simp only [upd]
        have hk' : s.nses ≤ k := hk
        have : k ≠ j := by omega
        simp only [this, ↓reduceIte]; exact h5 k hk)⟩
      · intro k hk
        simp only [upd] at hk
        by_cases hkj : k = j
        · subst hkj; exact h2 k (Or.inr (Or.inl hj))
        · simp only [hkj, ↓reduceIte] at hk; exact h2 k hk
      · intro k hk
        simp only [upd] at hk
        by_cases hkj : k = j
        · subst hkj; simp at hk
        · simp only [hkj, ↓reduceIte] at hk; exact h3 k hk
      · intro k hk
        simp only [upd] at hk
        by_cases hkj : k = j
        · subst hkj; simp at hk
        · simp only [hkj, ↓reduceIte] at hk; exact h4 k hk
    · cases hs
  | handle j =>
    simp only [step] at hs
    split at hs
    · rename_i hj
      cases hs
      obtain ⟨q1, q2⟩ := h3 j hj
      refine ⟨?_, ?_, ?_, ?_, h5⟩
      · simp [pairedRev, h1, q1, q2]
      · intro k hk
        obtain ⟨a, b, c⟩ := h2 k hk
        have hkj : k ≠ j := by
          intro e; subst e; rcases hk with hk | hk | hk <;> rw [hj] at hk <;> cases hk
        simp [a, b, c, hkj]
      · intro k hk
        obtain ⟨a, b⟩ := h3 k hk
        simp [a, b]
      · intro k hk
        obtain ⟨a, b⟩ := h4 k hk
        simp [a, b]
    · cases hs
  | finish j =>
    simp only [step] at hs
    split at hs
    · rename_i hj
      cases hs
      obtain ⟨q1, q2⟩ := h3 j hj
      have hjn : j < s.nses := by
        rcases Nat.lt_or_ge j s.nses with h | h
        · exact h
        · rw [h5 j h] at hj; cases hj
      refine ⟨?_, ?_, ?_, ?_, (by
        intro k hk; simp only [upd]
        have hk' : s.nses ≤ k := hk
        have : k ≠ j := by omega
        simp only [this, ↓reduceIte]; exact h5 k hk)⟩
      · simp [pairedRev, h1, q1, q2]
      · intro k hk
        simp only [upd] at hk
        by_cases hkj : k = j
        · subst hkj; simp at hk
        · simp only [hkj, ↓reduceIte] at hk
          obtain ⟨a, b, c⟩ := h2 k hk
          simp [a, b, c, hkj]
      · intro k hk
        simp only [upd] at hk
        by_cases hkj : k = j
        · subst hkj; simp at hk
        · simp only [hkj, ↓reduceIte] at hk
          obtain ⟨a, b⟩ := h3 k hk
          simp [a, b, hkj]
      · intro k hk
        simp only [upd] at hk
        by_cases hkj : k = j
        · subst hkj; simp [q1]
        · simp only [hkj, ↓reduceIte] at hk
          obtain ⟨a, b⟩ := h4 k hk
          simp [a, b]
    · cases hs
  | take =>
    simp only [step] at hs
    split at hs
    · cases hs
      have hn : s.ses s.nses = .none := h5 _ (Nat.le_refl _)
      refine ⟨h1, ?_, ?_, ?_, ?_⟩
      · intro k hk
        simp only [upd] at hk
        by_cases hkj : k = s.nses
        · subst hkj; exact h2 _ (Or.inl hn)
        · simp only [hkj, ↓reduceIte] at hk; exact h2 k hk
      · intro k hk
        simp only [upd] at hk
        by_cases hkj : k = s.nses
        · subst hkj; simp at hk
        · simp only [hkj, ↓reduceIte] at hk; exact h3 k hk
      · intro k hk
        simp only [upd] at hk
        by_cases hkj : k = s.nses
        · subst hkj; simp at hk
        · simp only [hkj, ↓reduceIte] at hk; exact h4 k hk
      · intro k hk
        simp only [upd]
        have hk' : s.nses + 1 ≤ k := hk
        have : k ≠ s.nses := by omega
        simp only [this, ↓reduceIte]; exact h5 k (by omega)
    · cases hs
  | publish => simp only [step] at hs; split at hs <;> (try cases hs); exact frame _ rfl rfl rfl
  | startListener => simp only [step] at hs; split at hs <;> (try cases hs); exact frame _ rfl rfl rfl
  | spawnConsumer => simp only [step] at hs; split at hs <;> (try cases hs); exact frame _ rfl rfl rfl
  | connect i => simp only [step] at hs; split at hs <;> (try cases hs); exact frame _ rfl rfl rfl
  | push i => simp only [step] at hs; split at hs <;> (try cases hs); exact frame _ rfl rfl rfl
  | accExitCtx i => simp only [step] at hs; split at hs <;> (try cases hs); exact frame _ rfl rfl rfl
  | accExitLst i => simp only [step] at hs; split at hs <;> (try cases hs); exact frame _ rfl rfl rfl
  | consumerExit => simp only [step] at hs; split at hs <;> (try cases hs); exact frame _ rfl rfl rfl
  | closeCancel => simp only [step] at hs; split at hs <;> (try cases hs); exact frame _ rfl rfl rfl
  | closeLst => simp only [step] at hs; split at hs <;> (try cases hs); exact frame _ rfl rfl rfl
  | ret =>
    simp only [step] at hs
    (repeat' split at hs) <;> (try cases hs) <;> exact frame _ rfl rfl rfl

theorem cb_run (f : Bool) (ls : List Lbl) : ∀ s s', CbInv s → runL f s ls = some s' → CbInv s' := by
  induction ls with
  | nil => intro s s' h hr; simp [runL] at hr; exact hr ▸ h
  | cons l ls ih =>
    intro s s' h hr
    simp only [runL] at hr
    split at hr
    · rename_i s1 hs; exact ih s1 s' (cb_step f s s1 l h hs) hr
    · cases hr

/-- **C18 (callbacks)**: under every schedule the callbacks are paired: `Established` at most once
per session and before any handler of that session, `Finished` at most once, after `Established`,
and nothing of the session after it; no callback for a session that did not establish. -/
theorem callbacks_paired (f : Bool) (n b : Nat) (ls : List Lbl) (s : St) (hr : runL f (init n b) ls = some s) :
    pairedRev s.trace = true ∧
    (∀ j, s.ses j ≠ .established → s.ses j ≠ .finished → Ev.est j ∉ s.trace ∧ Ev.fin j ∉ s.trace ∧ Ev.handler j ∉ s.trace) := by
  have hI := cb_run f ls _ _ (cb_init n b) hr
  refine ⟨hI.paired, fun j h1 h2 => ?_⟩
  rcases ses_cases (s.ses j) with h | h | h | h | h
  · exact hI.quiet j (Or.inl h)
  · exact hI.quiet j (Or.inr (Or.inl h))
  · exact hI.quiet j (Or.inr (Or.inr h))
  · exact absurd h h1
  · exact absurd h h2

/-- **C18 (every established session is finished)**: when no session is in its handshake or still
established, every `Established` callback has its `Finished` callback. -/
theorem all_finished_at_quiescence (f : Bool) (n b : Nat) (ls : List Lbl) (s : St)
    (hr : runL f (init n b) ls = some s) (hq : ∀ j, s.ses j ≠ .handshaking ∧ s.ses j ≠ .established) :
    allFinished s.trace = true := by
  have hI := cb_run f ls _ _ (cb_init n b) hr
  simp only [allFinished, List.all_eq_true]
  intro e he
  cases e with
  | est j =>
    simp only [List.contains_iff_mem]
    rcases ses_cases (s.ses j) with h | h | h | h | h
    · exact absurd he (hI.quiet j (Or.inl h)).1
    · exact absurd h (hq j).1
    · exact absurd he (hI.quiet j (Or.inr (Or.inr h))).1
    · exact absurd h (hq j).2
    · exact (hI.fin j h).2
  | fin j => rfl
  | handler j => rfl

/-! ### what the tree before the repairs did -/

/-- an acceptor between two `Accept` calls when `Close` runs reports the closed listener's error
first: the unrepaired `ListenAndServe` returned it instead of the server-closed error -/
example : ((runL false (init 1 4) [.publish, .startListener, .spawnConsumer, .closeCancel, .closeLst, .accExitLst 0,
    .consumerExit, .ret]).map (·.returned)) = some (some .listenerErr) := by decide
example : ((runL true (init 1 4) [.publish, .startListener, .spawnConsumer, .closeCancel, .closeLst, .accExitLst 0,
    .consumerExit, .ret]).map (·.returned)) = some (some .serverClosed) := by decide

/-- a `Close` that overtakes the start-up: the listener started afterwards stayed open -/
example : ((runL false (init 1 4) [.publish, .closeCancel, .closeLst, .startListener, .spawnConsumer, .accExitCtx 0,
    .consumerExit, .ret]).map (fun s => (s.returned, s.lst 0))) = some (some .serverClosed, .listening) := by decide
example : ((runL true (init 1 4) [.publish, .closeCancel, .closeLst, .startListener, .spawnConsumer, .accExitCtx 0,
    .consumerExit, .ret]).map (fun s => (s.returned, s.lst 0))) = some (some .serverClosed, .closed) := by decide

/-- Non-vacuity of the callback theorems: two sessions, one refused. -/
example : ((runL true (init 1 4) [.publish, .startListener, .spawnConsumer, .connect 0, .push 0, .take, .connect 0, .push 0,
    .take, .hsOk 0, .hsFail 1, .handle 0, .closeCancel, .finish 0]).map (·.trace)) =
    some [.fin 0, .handler 0, .est 0] := by decide

end Props.C18
