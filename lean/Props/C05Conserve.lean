import Props.C05
/-!
# C05: no response is lost or retracted

The receiver takes responses off `incoming` one at a time. Every step of the model either leaves the
three places a response can be in on the receiver's side (`incoming`, the receiver's hand `rcv`, the
response `stream`) untouched, or moves exactly one response one place forward: from the head of
`incoming` to the end of the stream (it matched nothing) or into the receiver's hand (it matched a
pending request), and from the receiver's hand into the reply slot of the call it matched. Nothing is
dropped on the way and the stream only grows.
-/
namespace Props.C05
open LimeModel.Pending

/-- where a step moves a response -/
inductive Move (s s' : S) : Prop
  | none : s'.incoming = s.incoming → s'.stream = s.stream → s'.rcv = s.rcv → Move s s'
  | toStream (r : Resp) (rest : List Resp) :
      s.incoming = r :: rest → s'.incoming = rest → s'.stream = s.stream ++ [r] → s.rcv = .idle → s'.rcv = .idle →
      s.table r.id = Option.none → Move s s'
  | toHand (r : Resp) (rest : List Resp) (ch : Nat) :
      s.incoming = r :: rest → s'.incoming = rest → s'.stream = s.stream → s.rcv = .idle → s'.rcv = .deleted r ch →
      s.table r.id = some ch → Move s s'
  | handKept (r : Resp) (ch : Nat) :
      s.rcv = .lookedUp r ch → s'.rcv = .deleted r ch → s'.incoming = s.incoming → s'.stream = s.stream → Move s s'
  | toSlot (r : Resp) (ch : Nat) :
      s.rcv = .deleted r ch → s'.rcv = .idle → s'.chan ch = some r → s.chan ch = Option.none →
      s'.incoming = s.incoming → s'.stream = s.stream → Move s s'

/-- **C05 (nothing lost)**: every step of the repaired table is one of these moves. -/
theorem step_moves (s s' : S) (l : Lbl) (h : step true s l = some s') : Move s s' := by
  cases l with
  | spawn i id =>
    simp only [step] at h; split at h
    · cases h; exact .none rfl rfl rfl
    · cases h
  | register i =>
    simp only [step] at h; split at h
    · split at h <;> (cases h; exact .none rfl rfl rfl)
    · cases h
  | send i ok =>
    simp only [step] at h; split at h
    · cases h; exact .none rfl rfl rfl
    · cases h
  | take i =>
    simp only [step] at h; split at h
    · split at h
      · cases h; exact .none rfl rfl rfl
      · cases h
    · cases h
  | cancel i =>
    simp only [step] at h; split at h
    · cases h; exact .none rfl rfl rfl
    · cases h
  | cleanup i =>
    simp only [step] at h; split at h
    · cases h; split <;> exact .none rfl rfl rfl
    · cases h
  | rcvLookup =>
    simp only [step] at h
    split at h
    · rename_i hidle
      split at h
      · cases h
      · rename_i r rest hin
        split at h
        · rename_i htab; cases h; exact .toStream r rest hin rfl rfl hidle hidle htab
        · rename_i ch htab
          simp only [if_true] at h
          cases h
          exact .toHand r rest ch hin rfl rfl hidle rfl htab
    · cases h
  | rcvDelete =>
    simp only [step] at h; split at h
    · cases h; rename_i r ch hr
      -- not reachable in the repaired table (`lookedUp` is never entered); the step itself loses nothing
      exact .handKept r ch hr rfl rfl rfl
    · cases h
  | rcvHandoff =>
    simp only [step] at h; split at h
    · rename_i r ch hr
      split at h
      · rename_i hc; cases h
        exact .toSlot r ch hr rfl (by simp [upd]) hc rfl rfl
      · cases h
    · cases h

/-- the response stream is append-only along every run: what was surfaced stays surfaced, in order -/
theorem stream_append_only (ls : List Lbl) : ∀ (s s' : S), runL true s ls = some s' → ∃ more, s'.stream = s.stream ++ more := by
  induction ls with
  | nil => intro s s' h; simp [runL] at h; exact ⟨[], by simp [h]⟩
  | cons l rest ih =>
    intro s s' h
    simp only [runL] at h
    split at h
    · rename_i s1 hs1
      obtain ⟨more, hm⟩ := ih s1 s' h
      cases step_moves s s1 l hs1 with
      | none _ hst _ => exact ⟨more, by rw [hm, hst]⟩
      | toStream r _ _ _ hst _ _ _ => exact ⟨[r] ++ more, by rw [hm, hst]; simp⟩
      | toHand _ _ _ _ _ hst _ _ _ => exact ⟨more, by rw [hm, hst]⟩
      | handKept _ _ _ _ _ hst => exact ⟨more, by rw [hm, hst]⟩
      | toSlot _ _ _ _ _ _ _ hst => exact ⟨more, by rw [hm, hst]⟩
    · cases h

/-- responses are taken off `incoming` from the front only, one at a time -/
theorem incoming_consumed_in_order (ls : List Lbl) : ∀ (s s' : S), runL true s ls = some s' →
    ∃ taken, s.incoming = taken ++ s'.incoming := by
  induction ls with
  | nil => intro s s' h; simp [runL] at h; exact ⟨[], by simp [h]⟩
  | cons l rest ih =>
    intro s s' h
    simp only [runL] at h
    split at h
    · rename_i s1 hs1
      obtain ⟨taken, ht⟩ := ih s1 s' h
      cases step_moves s s1 l hs1 with
      | none hin _ _ => exact ⟨taken, by rw [← hin, ht]⟩
      | toStream r rest' hin hin' _ _ _ _ => exact ⟨r :: taken, by rw [hin, ← hin', ht]; rfl⟩
      | toHand r rest' _ hin hin' _ _ _ _ => exact ⟨r :: taken, by rw [hin, ← hin', ht]; rfl⟩
      | handKept _ _ _ _ hin _ => exact ⟨taken, by rw [← hin, ht]⟩
      | toSlot _ _ _ _ _ _ hin _ => exact ⟨taken, by rw [← hin, ht]⟩
    · cases h

end Props.C05
