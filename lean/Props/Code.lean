import Props.TieStruct
import Props.C05
import Props.C13
import Props.C15
import Props.C18
import Props.C19
/-!
# The headline theorems of the concurrent models, for the variant the source has on this run

`Props/C05 … C19` prove the properties of the repaired variant of each model (`fixed = true`).
`Props/TieStruct` proves that the variant computed from the syntax tree of the source is that one.
Here the two are put together, so that each statement is about `repaired` — a value that is a
function of `/repo`'s current text — and stops checking when the source loses the construct.
-/
namespace Props.Code
open LimeModel

/-- C05: in every reachable state of the table model the code has, a call that was completed with a
response was completed with a response to its own request -/
theorem c05_own (inc : List Pending.Resp) (ls : List Pending.Lbl) (s : Pending.S)
    (hr : Pending.runL Pending.repaired (Pending.init inc) ls = some s)
    (i : Nat) (r : Pending.Resp) (hd : (s.caller i).pc = .done (.resp r)) : r.id = (s.caller i).id := by
  rw [TieStruct.pending_repaired] at hr
  exact C05.c05_own inc ls s hr i r hd

/-- C13: the finishing caller of the model the code has never reports a failure -/
theorem c13_finish_never_fails (ls : List Finish.Lbl) (s : Finish.FS)
    (hr : Finish.runL Finish.repaired {} ls = some s) : s.cpc ≠ .failed := by
  rw [TieStruct.finish_repaired] at hr
  exact C13.finish_never_fails ls s hr

/-- C15: the WebSocket helper pattern of the code returns when its context ends -/
theorem c15_helper_prompt (c : Timed.Ctx) (e : Nat) (now : Nat) (readyAt : Option Nat) (he : c.endTime = some e)
    (hr : ∀ r, readyAt = some r → max now e ≤ max now r) :
    Timed.helperOp Timed.wsInterrupts c readyAt now = some (max now e, .ctxErr) := by
  rw [TieStruct.ws_interrupts]
  exact C15.helper_prompt c e now readyAt he hr

/-- C18: `ListenAndServe` of the model the code has returns the server-closed error after `Close` -/
theorem c18_serve_returns_closed_error (s s' : ServerLife.St)
    (h : ServerLife.step ServerLife.repaired s .ret = some s') (hc : s.cancelled = true) :
    s'.returned = some .serverClosed := by
  rw [TieStruct.serverlife_repaired] at h
  exact C18.serve_returns_closed_error s s' h hc

/-- C19: no sequence of faults and operations wedges the client of the model the code has -/
theorem c19_never_wedged (ops : List ClientLife.Op) : (ClientLife.run ClientLife.repaired ops).wedged = false := by
  rw [TieStruct.clientlife_repaired]
  exact C19.never_wedged ops

end Props.Code
