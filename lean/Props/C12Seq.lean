import Props.C12
/-!
# C12 over a whole sending session, failed sends included

`write_loop_exact` is about one `Send`, `stream_reassembly` about the receiving side of a stream of
frames. Here they are put together for a sender that goes on using the transport after a `Send`
reported an error: "the receiving end yields exactly the sequence of envelopes the sending end
reported as sent".
-/
namespace Props.C12
open LimeModel.Stream

/-- a session of sends on one transport: every `Send` has its envelope's bytes and its own write
script; the result is what reached the connection and what each `Send` reported -/
def sendAll : List (Bytes × List WriteEv) → Bytes × List Bool
  | [] => ([], [])
  | (b, plan) :: rest =>
    ((writeLoop b plan 0).wire ++ (sendAll rest).1, (writeLoop b plan 0).ok :: (sendAll rest).2)

/-- the envelopes whose `Send` reported success, in order -/
def reportedSent : List (Bytes × List WriteEv) → List Bytes
  | [] => []
  | (b, plan) :: rest => if (writeLoop b plan 0).ok then b :: reportedSent rest else reportedSent rest

/-- a failed `Send` left nothing on the connection (its context was over before the first write, or
the first write was refused whole) -/
def CleanFailures (sends : List (Bytes × List WriteEv)) : Prop :=
  ∀ s ∈ sends, (writeLoop s.1 s.2 0).ok = false → (writeLoop s.1 s.2 0).wire = []

theorem sendAll_wire (sends : List (Bytes × List WriteEv)) (hc : CleanFailures sends) :
    (sendAll sends).1 = (reportedSent sends).flatten := by
  induction sends with
  | nil => rfl
  | cons s rest ih =>
    obtain ⟨b, plan⟩ := s
    have hrest : CleanFailures rest := fun x hx => hc x (List.mem_cons_of_mem _ hx)
    simp only [sendAll, reportedSent]
    cases hok : (writeLoop b plan 0).ok with
    | true =>
      have := (write_loop_exact b plan 0).2.1 hok
      simp [this, ih hrest]
    | false =>
      have := hc (b, plan) (List.mem_cons_self ..) hok
      simp only at this
      simp [this, ih hrest]

theorem reportedSent_sub (sends : List (Bytes × List WriteEv)) : ∀ f ∈ reportedSent sends, ∃ s ∈ sends, s.1 = f := by
  induction sends with
  | nil => intro f hf; simp [reportedSent] at hf
  | cons s rest ih =>
    obtain ⟨b, plan⟩ := s
    intro f hf
    simp only [reportedSent] at hf
    split at hf
    · cases hf with
      | head => exact ⟨(b, plan), List.mem_cons_self .., rfl⟩
      | tail _ h => obtain ⟨s, hs, e⟩ := ih f h; exact ⟨s, List.mem_cons_of_mem _ hs, e⟩
    · obtain ⟨s, hs, e⟩ := ih f hf; exact ⟨s, List.mem_cons_of_mem _ hs, e⟩

/-- **C12 (whole session)**: a sender makes any number of `Send`s, each under any write script (short
writes, transient timeouts, hard errors, an expired context), and goes on after failures that left
nothing on the connection. Whatever the fragmentation on the receiving side, the receiver is handed
exactly the envelopes whose `Send` reported success, in order — never one that was reported as not
sent. -/
theorem session_delivers_reported (F : Framing) (sends : List (Bytes × List WriteEv))
    (hfs : ∀ s ∈ sends, F.isFrame s.1) (hc : CleanFailures sends) (plan : List Nat) :
    recvFrames F.complete (reportedSent sends).length [] (sendAll sends).1 plan =
      (reportedSent sends).map RecvOut.frame := by
  have hfr : ∀ f ∈ reportedSent sends, F.isFrame f := by
    intro f hf
    obtain ⟨s, hs, e⟩ := reportedSent_sub sends f hf
    exact e ▸ hfs s hs
  exact stream_reassembly F (reportedSent sends) hfr [] (sendAll sends).1 plan (by simp [sendAll_wire sends hc])

/-- Non-vacuity: three sends, the middle one with a context that is already over; its bytes are not on
the wire and it is not among the reported ones. -/
example : sendAll [([1, 10], []), ([2, 10], [.ctxDone]), ([3, 10], [.timeoutAfter 1])] = ([1, 10, 3, 10], [true, false, true]) ∧
    reportedSent [([1, 10], []), ([2, 10], [.ctxDone]), ([3, 10], [.timeoutAfter 1])] = [[1, 10], [3, 10]] := by
  decide

/-- and the hypothesis is needed: a send that failed after a partial write leaves a proper prefix on
the wire, and what follows is not a sequence of frames any more -/
example : (sendAll [([1, 2, 10], [.failAfter 1]), ([3, 10], [])]).1 = [1, 3, 10] := by decide

end Props.C12
