import LimeModel.ReadLimit
import LimeModel.Generated
/-!
# C16 — inbound envelope size is bounded by the read limit

For every limit `L`, every frame length, every amount already buffered or still to come, and every
read-size oracle (i.e. every fragmentation and every buffering policy of the stream decoder).
-/
namespace Props.C16
open LimeModel.ReadLimit

theorem k_bounds (r N a : Nat) (hN : N ≠ 0) (ha : a ≠ 0) :
    1 ≤ max 1 (min r (min N a)) ∧ max 1 (min r (min N a)) ≤ N ∧ max 1 (min r (min N a)) ≤ a := by
  omega

theorem recvLoop_consumed (f : Nat) : ∀ fuel s N reads used,
    (recvLoop f fuel s N reads used).consumed ≤ used + N := by
  intro fuel
  induction fuel with
  | zero => intro s N reads used; simp [recvLoop, Res.consumed]
  | succ n ih =>
    intro s N reads used
    unfold recvLoop
    split; · simp [Res.consumed]
    split; · simp [Res.consumed]
    split; · simp [Res.consumed]
    rename_i _ hN ha
    have hk := k_bounds (reads.headD 1) N s.avail hN ha
    have := ih { buf := s.buf + max 1 (min (reads.headD 1) (min N s.avail)), avail := s.avail - max 1 (min (reads.headD 1) (min N s.avail)) }
      (N - max 1 (min (reads.headD 1) (min N s.avail))) reads.tail (used + max 1 (min (reads.headD 1) (min N s.avail)))
    simp only at this ⊢
    omega

/-- **C16 (consumption bounded)**: no single receive operation consumes more than the read limit
from the connection. -/
theorem consumption_bounded (L f : Nat) (s : RS) (reads : List Nat) : (recv L f s reads).consumed ≤ L := by
  have := recvLoop_consumed f (f + 1) s L reads 0; simpa [recv] using this

theorem recvLoop_accepts (f : Nat) : ∀ fuel s N reads used,
    f - s.buf ≤ N → f - s.buf ≤ s.avail → f - s.buf < fuel →
    ∃ s' c, recvLoop f fuel s N reads used = .ok s' c := by
  intro fuel
  induction fuel with
  | zero => intro s N reads used _ _ h; omega
  | succ n ih =>
    intro s N reads used h1 h2 h3
    unfold recvLoop
    split; · exact ⟨_, _, rfl⟩
    rename_i hnc
    split; · omega
    split; · omega
    rename_i hN ha
    have hk := k_bounds (reads.headD 1) N s.avail hN ha
    apply ih <;> simp only <;> omega

/-- **C16 (within the limit: accepted)**: a frame whose wire form — JSON text plus the one separator
the sending transport writes with it — is at most `L` bytes and which is (or arrives) on the
connection is always accepted, whatever was buffered before it and however the stream is fragmented. -/
theorem within_limit_accepted (L f : Nat) (s : RS) (reads : List Nat)
    (hf : f ≤ L) (hstream : f - s.buf ≤ s.avail) : ∃ s' c, recv L f s reads = .ok s' c := by
  unfold recv; apply recvLoop_accepts <;> omega

theorem recvLoop_rejects (f : Nat) : ∀ fuel s N reads used,
    s.buf + N < f → ∃ c, recvLoop f fuel s N reads used = .err c := by
  intro fuel
  induction fuel with
  | zero => intro s N reads used _; exact ⟨_, rfl⟩
  | succ n ih =>
    intro s N reads used h
    unfold recvLoop
    split; · omega
    split; · exact ⟨_, rfl⟩
    split; · exact ⟨_, rfl⟩
    rename_i hN ha
    have hk := k_bounds (reads.headD 1) N s.avail hN ha
    apply ih; simp only; omega

/-- **C16 (oversize: rejected)**: a frame longer than twice the limit (earlier read-ahead of at most
`L` plus one full budget) is always answered with an error instead of being buffered. -/
theorem oversize_rejected (L f : Nat) (s : RS) (reads : List Nat) (hb : s.buf ≤ L) (hf : 2 * L < f) :
    ∃ c, recv L f s reads = .err c := by
  unfold recv; apply recvLoop_rejects; omega

theorem recvLoop_readahead (f L : Nat) : ∀ fuel s N reads used s' c,
    N ≤ L → (f ≤ s.buf → s.buf - f ≤ L) → recvLoop f fuel s N reads used = .ok s' c → s'.buf ≤ L := by
  intro fuel
  induction fuel with
  | zero => intro s N reads used s' c _ _ h; simp [recvLoop] at h
  | succ n ih =>
    intro s N reads used s' c hN hb h
    unfold recvLoop at h
    split at h
    · rename_i hc; cases h; simp only; exact hb hc
    rename_i hnc
    split at h; · cases h
    split at h; · cases h
    rename_i hN0 ha
    have hk := k_bounds (reads.headD 1) N s.avail hN0 ha
    refine ih _ _ _ _ _ _ (by omega) ?_ h
    simp only; omega

/-- **C16 (read-ahead bounded)**: after a successful receive the surplus left in the buffer is at
most `L`, so the hypothesis `s.buf ≤ L` of `oversize_rejected` is an invariant of the connection. -/
theorem readahead_bounded (L f : Nat) (s : RS) (reads : List Nat) (s' : RS) (c : Nat) (hb : s.buf ≤ L)
    (h : recv L f s reads = .ok s' c) : s'.buf ≤ L := by
  unfold recv at h
  exact recvLoop_readahead f L _ _ _ _ _ _ _ (Nat.le_refl L) (by omega) h

/-- the default limit of the code (regenerated from the source): `DefaultReadLimit` -/
theorem default_limit_tie : LimeModel.Generated.defaultReadLimit = 8192 * 1024 := by decide

/-- Non-vacuity and the measured boundary: with `L = 600`, a 600-byte JSON text whose separator
arrives in a read of its own is a 601-byte frame and is refused; a 599-byte one is accepted. -/
example : recv 600 601 { buf := 0, avail := 601 } [1, 512, 88] = .err 600 := by decide
example : recv 600 600 { buf := 0, avail := 600 } [512, 88] = .ok { buf := 0, avail := 0 } 600 := by decide

end Props.C16
