import LimeModel.ClientLife
/-!
# C19 — the client recovers from any unrequested loss of its session

For every sequence of faults (server finish / fail, dropped or half-closed connection, undecodable
bytes, JSON that is no envelope, oversized envelope), sends and listener iterations:
* `never_wedged` — the client never holds a channel that looks fine and has no receiver;
* `next_operation_rebuilds` — after a fault the next operation works on a fresh established
  session (the session counter grows), and that session has a live receiver;
* `listener_progress` — every iteration of the listener goroutine ends blocked on a live receiver
  (no busy loop), having rebuilt the channel if it had to;
* `unfixed_wedges` — the tree before the repair: after undecodable input the client is deaf and its
  listener spins, for ever.
-/
namespace Props.C19
open LimeModel.ClientLife

/-- a channel that looks fine has its receiver -/
def Inv (s : CL) : Prop := s.channelOK = true → s.receiverAlive = true

theorem inv_step (s : CL) (o : Op) (h : Inv s) : Inv (step Fix.all s o) := by
  unfold Inv at *
  cases o with
  | fault f => cases f <;> simp [step, fault, CL.channelOK]
  | send =>
    simp only [step, getOrBuild]
    split
    · exact h
    · intro _; rfl
  | listen =>
    simp only [step, listenerIter, getOrBuild]
    split
    · exact h
    · intro _; rfl

theorem inv_run (ops : List Op) : Inv (run Fix.all ops) := by
  have key : ∀ (ops : List Op) (s : CL), Inv s → Inv (ops.foldl (step Fix.all) s) := by
    intro ops
    induction ops with
    | nil => intro s h; exact h
    | cons o r ih => intro s h; exact ih _ (inv_step s o h)
  exact key ops {} (by intro _; rfl)

/-- **C19 (never wedged)** -/
theorem never_wedged (ops : List Op) : (run Fix.all ops).wedged = false := by
  have h := inv_run ops
  unfold Inv at h
  unfold CL.wedged
  cases hc : (run Fix.all ops).channelOK with
  | false => rfl
  | true => simp [h hc]

/-- **C19 (recovery)**: whatever happened before, a fault followed by any operation leaves the
client on an established, connected channel with a live receiver, and that channel is a fresh one. -/
theorem next_operation_rebuilds (ops : List Op) (f : Fault) :
    let before := run Fix.all ops
    let after := getOrBuild (fault Fix.all before f)
    after.channelOK = true ∧ after.receiverAlive = true ∧ after.sessions = before.sessions + 1 := by
  cases f <;> simp [fault, getOrBuild, CL.channelOK]

/-- **C19 (the listener does not spin)**: every iteration ends blocked on a live receiver. -/
theorem listener_progress (ops : List Op) : (listenerIter (run Fix.all ops)).1 = true := by
  have h := inv_run ops
  unfold Inv at h
  simp only [listenerIter, getOrBuild]
  split
  · rename_i hc; exact h hc
  · rfl

/-- the tree before the repair: deaf and spinning, and no operation ever repairs it -/
theorem unfixed_wedges (f : Fault) (hf : f = .garbage ∨ f = .notEnvelope ∨ f = .oversize ∨ f = .oddSession) (ops : List Op)
    (hops : ∀ o ∈ ops, o = .send ∨ o = .listen) :
    (run Fix.none (.fault f :: ops)).wedged = true ∧ (listenerIter (run Fix.none (.fault f :: ops))).1 = false := by
  have key : ∀ (ops : List Op) (s : CL), (∀ o ∈ ops, o = .send ∨ o = .listen) → s.wedged = true →
      (ops.foldl (step Fix.none) s).wedged = true := by
    intro ops
    induction ops with
    | nil => intro s _ h; exact h
    | cons o r ih =>
      intro s hall h
      apply ih _ (fun x hx => hall x (List.mem_cons_of_mem _ hx))
      have hok : s.channelOK = true := by
        unfold CL.wedged at h; simp at h; exact h.1
      rcases hall o (List.mem_cons_self ..) with rfl | rfl <;> simp [step, listenerIter, getOrBuild, hok, h]
  have h0 : (step Fix.none {} (.fault f)).wedged = true := by
    rcases hf with rfl | rfl | rfl | rfl <;> decide
  have hw := key ops _ hops h0
  refine ⟨hw, ?_⟩
  have hw' : (run Fix.none (.fault f :: ops)).wedged = true := hw
  unfold CL.wedged at hw'
  simp at hw'
  simp [listenerIter, getOrBuild, hw'.1, hw'.2]

/-- Non-vacuity: garbage, then a send: a second session exists. -/
example : (run Fix.all [.fault .garbage, .send]).sessions = 2 := by decide
example : (run Fix.none [.fault .garbage, .send]).sessions = 1 := by decide

end Props.C19
