#!/bin/bash
# confirm_seed.sh <dir with patch.diff, demo_test.go>  — confirms a seeded change in a scratch worktree:
# applies to /repo HEAD, compiles, existing suite passes, demo fails with it and passes without it.
set -u
D=$1
export GOFLAGS=-mod=mod GOPROXY=off GOSUMDB=off GOTOOLCHAIN=local
WT=/tmp/seedwt-$$
git -C /repo worktree add -q --detach $WT HEAD || exit 2
trap "git -C /repo worktree remove --force $WT" EXIT
cd $WT
cp $D/demo_test.go ./zz_demo_test.go
DEMO_CLEAN=$(go test -vet=off -count=1 -timeout 300s -run '^TestDemo' . 2>&1 | tail -1)
if ! git apply $D/patch.diff; then echo "RESULT apply=FAIL"; exit 1; fi
BUILD=$(go build ./... 2>&1 && echo ok)
DEMO_MUT=$(go test -vet=off -count=1 -timeout 300s -run '^TestDemo' . 2>&1 | tail -1)
rm zz_demo_test.go
SUITE=""
for i in 1 2 3; do SUITE="$SUITE $(unshare -rn sh -c 'ip link set lo up; go test -vet=off -count=1 -timeout 300s . 2>&1' | tail -1 | cut -c1-6)"; done
echo "RESULT apply=ok build=$BUILD demo_clean=[$DEMO_CLEAN] demo_mutated=[$DEMO_MUT] suite=[$SUITE]"
