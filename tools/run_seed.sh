#!/bin/bash
# run_seed.sh <patch> <check ids...> — applies a seeded change to /repo, runs the checks, reverts.
P=$1; shift
cd /verif
git -C /repo apply $P || exit 2
for id in "$@"; do echo "== $id"; ./check $id | grep -E "^(VIOLATION|OK|KNOWN)" | head -4; done
git -C /repo checkout -- .
git -C /repo status --short | head -3
