#!/usr/bin/env python3
"""splice_design_tables.py — replaces sections 0.2–0.4 of DESIGN.md by the output of gen_design_tables.py."""
import subprocess, re
t = subprocess.check_output(["python3", "/verif/tools/gen_design_tables.py"]).decode()
s = open("/verif/DESIGN.md").read()
a = s.index("### 0.2 Checks (generated from checks.json)")
b = s.index("Seeds that later repairs made moot") if "Seeds that later repairs made moot" in s else s.index("### 0.5 ")
open("/verif/DESIGN.md", "w").write(s[:a] + t.rstrip("\n") + "\n\n" + s[b:])
