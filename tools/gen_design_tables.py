#!/usr/bin/env python3
"""Prints the generated tables of DESIGN.md section 0 (checks, findings, seeded changes) as markdown."""
import json, glob, os
R='/verif'
checks=json.load(open(f'{R}/checks.json'))
props={json.loads(l)['id']:json.loads(l) for l in open(f'{R}/properties.jsonl')}
print('### 0.2 Checks (generated from checks.json)\n')
print('| Id | Lean modules | Theorems (first ones) | Harness mode(s) | Technique |')
print('|----|--------------|-----------------------|-----------------|-----------|')
for pid in sorted(checks):
    c=checks[pid]
    th=[t.split('.',2)[-1] for t in c['theorems']]
    print(f"| {pid} | {', '.join(m.replace('Props.','') for m in c['modules'])} | {', '.join(th[:4])}{' …' if len(th)>4 else ''} | {', '.join(c['modes'])} | {c['technique']} |")
print('\n### 0.3 Defects found and repaired (generated from known_findings.json)\n')
print('| Property | Commit | What failed |')
print('|----------|--------|-------------|')
for f in json.load(open(f'{R}/known_findings.json'))['findings']:
    w=f['what'].split(' ',3)[-1] if f['what'].startswith('fixed:') else f['what']
    print(f"| {f['property']} | {f.get('commit','')} ({f['status']}) | {w} |")
print('\n### 0.4 Seeded changes and the checks that catch them (generated from seeded/*/meta.json)\n')
print('| Seed | What it breaks | Caught by |')
print('|------|----------------|-----------|')
for d in sorted(glob.glob(f'{R}/seeded/*/')):
    m=json.load(open(d+'meta.json'))
    br=(m.get('breaks') or '')[:260].replace('|','/').replace('\n',' ')
    print(f"| {os.path.basename(d[:-1])} | {br}{'…' if len(m.get('breaks') or '')>260 else ''} | {(m.get('detected_by') or '').replace('|','/')} |")
