#!/usr/bin/env python3
"""keep_seed.py <property> <letter> <caught-by description> — copies a confirmed seeded change from /tmp/mut into
/verif/seeded/<property>-<letter>/ and writes meta.json (what it breaks, what it needs, what was run)."""
import json, os, shutil, subprocess, sys
prop, letter, caught = sys.argv[1], sys.argv[2], sys.argv[3]
src = "/tmp/mut/%s/%s" % (prop, letter)
dst = "/verif/seeded/%s-%s" % (prop, letter)
os.makedirs(dst, exist_ok=True)
for f in ("patch.diff", "demo_test.go"):
    shutil.copy(os.path.join(src, f), os.path.join(dst, f))
meta = json.load(open(os.path.join(src, "meta.json")))
res = subprocess.run(["/verif/tools/confirm_seed.sh", src], stdout=subprocess.PIPE, stderr=subprocess.STDOUT, text=True).stdout.strip().split("\n")[-1]
out = {"property": prop, "breaks": meta.get("summary"), "needs": meta.get("needs"),
       "agent_ran": meta.get("ran"),
       "confirmed": {"cmd": "tools/confirm_seed.sh (scratch worktree of /repo HEAD: apply, go build, existing suite x3 in a private network namespace, demo with / without the change)", "result": res},
       "detected_by": caught, "repo_head": subprocess.check_output(["git", "-C", "/repo", "rev-parse", "--short", "HEAD"]).decode().strip()}
json.dump(out, open(os.path.join(dst, "meta.json"), "w"), indent=1)
print(dst, res)
