#!/bin/bash
# revalidate_seeds.sh — applies every kept seeded change to /repo in turn, runs the check of its property,
# expects a VIOLATION, and reverts. Prints one line per seed.
cd /verif
for d in seeded/*/; do
  s=$(basename $d); id=${s%%-*}
  if ! git -C /repo apply $PWD/$d/patch.diff 2>/dev/null; then echo "$s STALE"; continue; fi
  out=$(./check $id 2>&1 | grep -E "^(VIOLATION|OK)" | head -1)
  git -C /repo checkout -- . ; git -C /repo clean -fdq 2>/dev/null
  case "$out" in VIOLATION*) echo "$s caught";; *) echo "$s MISSED ($out)";; esac
done
git -C /repo status --short | head -3
