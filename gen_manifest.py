#!/usr/bin/env python3
"""Regenerates MANIFEST.json from checks.json (the per-property registry) so the two never drift."""
import json, subprocess
checks = json.load(open('checks.json'))
props = [json.loads(l) for l in open('properties.jsonl')]
hooks = subprocess.check_output(['git', '-C', '/repo', 'log', '--format=%H %s']).decode().strip().split('\n')
hook_commits = [l.split()[0] for l in hooks if ' verif hook' in l]
m = {
 "version": 1,
 "setup_cmd": "./setup.sh",
 "hooks": {
  "guard": "verif",
  "enable": "go build -tags verif (the harness module /verif/harness replaces github.com/takenet/lime-go by /repo)",
  "baseline_off_cmd": "cd /repo && GOFLAGS=-mod=mod GOPROXY=off GOSUMDB=off GOTOOLCHAIN=local go test -vet=off -count=1 -json ./...",
  "source_commits": hook_commits,
  "add_only": True
 },
 "engines": [
  {"name": "lean-model", "path": "lean/", "serves_properties": sorted(checks.keys()),
   "kind_free_text": "Lean 4 model of lime-go (LimeModel/*), theorems per property (Props/Cxx.lean), compiled driver (limedriver) exposing the model over a JSON line protocol; LimeModel/Generated.lean is regenerated from /repo's sources by harness/cmd/facts on every run"},
  {"name": "go-harness", "path": "harness/", "serves_properties": sorted(checks.keys()),
   "kind_free_text": "Go module limeverif (replace => /repo, built with -tags verif on every run): drives the real code and the Lean driver on the same cases, diffs canonical observations, evaluates each property's predicate on the implementation"}
 ],
 "checks": [],
 "not_applicable": [],
 "notes": "Technique family: machine-checked proof in Lean 4 + checked model/code tie (regenerated facts + differential correspondence). See DESIGN.md."
}
for p in props:
    pid = p['id']
    if pid in checks:
        c = checks[pid]
        m['checks'].append({
         "property_id": pid,
         "quick_cmd": "./check %s --tier quick" % pid,
         "thorough_cmd": "./check %s --tier thorough" % pid,
         "evidence_file": "evidence/%s.json" % pid,
         "replay_cmd_template": "./check %s --replay {path}" % pid,
         "engine": "lean-model",
         "level_claimed": {"category": c['level'], "text": c['level_text'], "design_ref": c.get('design_ref', 'DESIGN.md section 5, ' + pid)},
         "level_note": c['level_note'],
         "technique": c['technique'],
        })
    else:
        m['not_applicable'].append({"property_id": pid, "reason": "no check registered yet: the Lean model and correspondence mode for this property are not built in the committed tree (work in progress, see DESIGN.md section 9); the technique applies"})
json.dump(m, open('MANIFEST.json', 'w'), indent=1)
print("checks:", len(m['checks']), "not_applicable:", len(m['not_applicable']))
