#!/bin/bash
# MANIFEST.setup_cmd: build the Lean project (model, theorems, driver) and the Go harness, offline.
set -e
cd "$(dirname "$0")"
export GOFLAGS=-mod=mod GOPROXY=off GOSUMDB=off GOTOOLCHAIN=local CGO_ENABLED=0
mkdir -p evidence replays harness/bin
cp /repo/go.sum harness/go.sum
(cd harness && go build -o bin/facts ./cmd/facts && ./bin/facts -repo /repo -out ../lean/LimeModel/Generated.lean)
(cd lean && lake build)
(cd harness && go build -tags verif -o bin/hx ./cmd/hx)
echo "setup done"
