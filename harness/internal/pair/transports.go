package pair

import (
	"context"
	"crypto/tls"
	"fmt"
	"net"
	"time"

	lime "github.com/takenet/lime-go"
)

// Transports returns a connected (client, server) transport pair of the given kind:
// inproc | pipe | pipe-tls | tcp | tcp-tls | ws | wss. TLS kinds are already upgraded.
func Transports(kind string, readLimit int64, inprocBuf int) (ct, st lime.Transport, cleanup func(), err error) {
	cleanup = func() {}
	ctx, cancel := context.WithTimeout(context.Background(), 20*time.Second)
	defer cancel()
	upgrade := func() error {
		errc := make(chan error, 1)
		go func() { errc <- st.SetEncryption(ctx, lime.SessionEncryptionTLS) }()
		cerr := ct.SetEncryption(ctx, lime.SessionEncryptionTLS)
		serr := <-errc
		if cerr != nil || serr != nil {
			return fmt.Errorf("tls upgrade: %v / %v", cerr, serr)
		}
		return nil
	}
	switch kind {
	case "inproc":
		ct, st, err = InProc(inprocBuf)
	case "pipe", "pipe-tls":
		scfg, ccfg := &lime.TCPConfig{ReadLimit: readLimit}, &lime.TCPConfig{ReadLimit: readLimit}
		if kind == "pipe-tls" {
			scfg.TLSConfig, ccfg.TLSConfig = TLSConfigs()
		}
		a, b := NewBufConnPair()
		ct, st = lime.NewTCPTransportFromConn(a, false, ccfg), lime.NewTCPTransportFromConn(b, true, scfg)
		cleanup = func() { a.Close(); b.Close() }
		if kind == "pipe-tls" {
			err = upgrade()
		}
	case "tcp", "tcp-tls":
		scfg, ccfg := &lime.TCPConfig{ReadLimit: readLimit}, &lime.TCPConfig{ReadLimit: readLimit}
		if kind == "tcp-tls" {
			scfg.TLSConfig, ccfg.TLSConfig = TLSConfigs()
		}
		l := lime.NewTCPTransportListener(scfg)
		ln, lerr := net.Listen("tcp", "127.0.0.1:0")
		if lerr != nil {
			return nil, nil, cleanup, lerr
		}
		addr := ln.Addr().(*net.TCPAddr)
		ln.Close()
		if err = l.Listen(ctx, addr); err != nil {
			return nil, nil, cleanup, err
		}
		cleanup = func() { l.Close() }
		if ct, err = lime.DialTcp(ctx, addr, ccfg); err != nil {
			return nil, nil, cleanup, err
		}
		if st, err = l.Accept(ctx); err != nil {
			return nil, nil, cleanup, err
		}
		if kind == "tcp-tls" {
			err = upgrade()
		}
	case "ws", "wss":
		var tlsS, tlsC *tls.Config
		scheme := "ws"
		if kind == "wss" {
			tlsS, tlsC = TLSConfigs()
			scheme = "wss"
		}
		l := lime.NewWebsocketTransportListener(&lime.WebsocketConfig{TLSConfig: tlsS})
		ln, lerr := net.Listen("tcp", "127.0.0.1:0")
		if lerr != nil {
			return nil, nil, cleanup, lerr
		}
		addr := ln.Addr().(*net.TCPAddr)
		ln.Close()
		if err = l.Listen(ctx, addr); err != nil {
			return nil, nil, cleanup, err
		}
		cleanup = func() { l.Close() }
		acc := make(chan lime.Transport, 1)
		go func() {
			t, aerr := l.Accept(ctx)
			if aerr == nil {
				acc <- t
			} else {
				close(acc)
			}
		}()
		for i := 0; i < 100; i++ {
			ct, err = lime.DialWebsocket(ctx, fmt.Sprintf("%s://%s", scheme, addr.String()), nil, tlsC)
			if err == nil {
				break
			}
			time.Sleep(5 * time.Millisecond)
		}
		if err != nil {
			return nil, nil, cleanup, fmt.Errorf("ws dial: %w", err)
		}
		var ok bool
		if st, ok = <-acc; !ok {
			return nil, nil, cleanup, fmt.Errorf("ws accept failed")
		}
	default:
		err = fmt.Errorf("unknown transport kind %s", kind)
	}
	return
}
