package pair

import (
	"context"
	"errors"
	"net"
	"sync"

	lime "github.com/takenet/lime-go"
)

// MemListener is a lime.TransportListener whose accepted transports are the real TCP transport
// (server role, built by the verif hook constructor) over in-memory connections handed in by the
// harness: a real Server can be driven without sockets and with the connection fully observable.
type MemListener struct {
	cfg    *lime.TCPConfig
	conns  chan net.Conn
	done   chan struct{}
	once   sync.Once
	mu     sync.Mutex
	listen bool
}

func NewMemListener(cfg *lime.TCPConfig) *MemListener {
	return &MemListener{cfg: cfg, conns: make(chan net.Conn, 64), done: make(chan struct{})}
}

type memAddr string

func (a memAddr) Network() string { return "mem" }
func (a memAddr) String() string  { return string(a) }

// Addr is the address to bind the listener to in NewBoundListener.
func (l *MemListener) Addr() net.Addr { return memAddr("mem-listener") }

func (l *MemListener) Listen(_ context.Context, _ net.Addr) error {
	l.mu.Lock()
	defer l.mu.Unlock()
	l.listen = true
	return nil
}

func (l *MemListener) Accept(ctx context.Context) (lime.Transport, error) {
	select {
	case <-ctx.Done():
		return nil, ctx.Err()
	case <-l.done:
		return nil, errors.New("mem listener closed")
	case c := <-l.conns:
		return lime.NewTCPTransportFromConn(c, true, l.cfg), nil
	}
}

func (l *MemListener) Close() error {
	l.once.Do(func() { close(l.done) })
	return nil
}

// Connect creates a connection to the listener and returns the peer's end.
func (l *MemListener) Connect() (BufConn, BufConn) {
	peer, srv := NewBufConns()
	l.conns <- srv
	return peer, srv
}
