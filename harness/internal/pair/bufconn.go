package pair

import (
	"errors"
	"io"
	"net"
	"os"
	"sync"
	"time"
)

// bufConn is one end of an in-memory full-duplex byte stream with unbounded buffering,
// read/write deadlines and close semantics close to a TCP socket (data written before the
// peer closed stays readable; reads after that return io.EOF).
type bufConn struct {
	rd, wr *half
}

type half struct {
	mu       sync.Mutex
	cond     *sync.Cond
	buf      []byte
	wclosed  bool // writer closed: reader gets EOF after draining
	rclosed  bool // reader closed: writer gets EPIPE-like error
	deadline time.Time
	timer    *time.Timer
}

func newHalf() *half { h := &half{}; h.cond = sync.NewCond(&h.mu); return h }

type timeoutErr struct{}

func (timeoutErr) Error() string   { return "i/o timeout" }
func (timeoutErr) Timeout() bool   { return true }
func (timeoutErr) Temporary() bool { return true }
func (timeoutErr) Unwrap() error   { return os.ErrDeadlineExceeded }

func NewBufConnPair() (net.Conn, net.Conn) {
	ab, ba := newHalf(), newHalf()
	return &bufConn{rd: ba, wr: ab}, &bufConn{rd: ab, wr: ba}
}

func (c *bufConn) Read(p []byte) (int, error) {
	h := c.rd
	h.mu.Lock()
	defer h.mu.Unlock()
	for {
		if h.rclosed {
			return 0, net.ErrClosed
		}
		if len(h.buf) > 0 {
			n := copy(p, h.buf)
			h.buf = h.buf[n:]
			return n, nil
		}
		if h.wclosed {
			return 0, io.EOF
		}
		if !h.deadline.IsZero() && !time.Now().Before(h.deadline) {
			return 0, timeoutErr{}
		}
		h.cond.Wait()
	}
}

func (c *bufConn) Write(p []byte) (int, error) {
	h := c.wr
	h.mu.Lock()
	defer h.mu.Unlock()
	if h.wclosed {
		return 0, net.ErrClosed
	}
	if h.rclosed {
		return 0, errors.New("write: broken pipe")
	}
	h.buf = append(h.buf, p...)
	h.cond.Broadcast()
	return len(p), nil
}

func (c *bufConn) Close() error {
	c.wr.mu.Lock()
	c.wr.wclosed = true
	c.wr.cond.Broadcast()
	c.wr.mu.Unlock()
	c.rd.mu.Lock()
	c.rd.rclosed = true
	c.rd.cond.Broadcast()
	c.rd.mu.Unlock()
	return nil
}

func (c *bufConn) setRD(t time.Time) {
	h := c.rd
	h.mu.Lock()
	h.deadline = t
	if h.timer != nil {
		h.timer.Stop()
		h.timer = nil
	}
	if !t.IsZero() {
		d := time.Until(t)
		if d < 0 {
			d = 0
		}
		h.timer = time.AfterFunc(d, func() { h.mu.Lock(); h.cond.Broadcast(); h.mu.Unlock() })
	}
	h.cond.Broadcast()
	h.mu.Unlock()
}

type addr string

func (a addr) Network() string { return "buf" }
func (a addr) String() string  { return string(a) }

func (c *bufConn) LocalAddr() net.Addr                { return addr("local") }
func (c *bufConn) RemoteAddr() net.Addr               { return addr("remote") }
func (c *bufConn) SetDeadline(t time.Time) error      { c.setRD(t); return nil }
func (c *bufConn) SetReadDeadline(t time.Time) error  { c.setRD(t); return nil }
func (c *bufConn) SetWriteDeadline(t time.Time) error { return nil }
