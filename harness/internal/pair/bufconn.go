package pair

import (
	"errors"
	"io"
	"net"
	"os"
	"sync"
	"time"
)

// bufConn is one end of an in-memory full-duplex byte stream with unbounded buffering,
// read/write deadlines and close semantics close to a TCP socket (data written before the
// peer closed stays readable; reads after that return io.EOF).
type bufConn struct {
	rd, wr *half
}

type half struct {
	mu       sync.Mutex
	cond     *sync.Cond
	buf      []byte
	waiting  int    // readers blocked on an empty buffer
	log      []byte // every byte ever written (capped)
	total    int
	wclosed  bool // writer closed: reader gets EOF after draining
	rclosed  bool // reader closed: writer gets EPIPE-like error
	deadline time.Time
	timer    *time.Timer
}

func newHalf() *half { h := &half{}; h.cond = sync.NewCond(&h.mu); return h }

type timeoutErr struct{}

func (timeoutErr) Error() string   { return "i/o timeout" }
func (timeoutErr) Timeout() bool   { return true }
func (timeoutErr) Temporary() bool { return true }
func (timeoutErr) Unwrap() error   { return os.ErrDeadlineExceeded }

func NewBufConnPair() (net.Conn, net.Conn) {
	ab, ba := newHalf(), newHalf()
	return &bufConn{rd: ba, wr: ab}, &bufConn{rd: ab, wr: ba}
}

func (c *bufConn) Read(p []byte) (int, error) {
	h := c.rd
	h.mu.Lock()
	defer h.mu.Unlock()
	for {
		if h.rclosed {
			return 0, net.ErrClosed
		}
		if len(h.buf) > 0 {
			n := copy(p, h.buf)
			h.buf = h.buf[n:]
			h.cond.Broadcast()
			return n, nil
		}
		if h.wclosed {
			return 0, io.EOF
		}
		if !h.deadline.IsZero() && !time.Now().Before(h.deadline) {
			return 0, timeoutErr{}
		}
		h.waiting++
		h.cond.Broadcast()
		h.cond.Wait()
		h.waiting--
	}
}

func (c *bufConn) Write(p []byte) (int, error) {
	h := c.wr
	h.mu.Lock()
	defer h.mu.Unlock()
	if h.wclosed {
		return 0, net.ErrClosed
	}
	if h.rclosed {
		return 0, errors.New("write: broken pipe")
	}
	h.buf = append(h.buf, p...)
	h.total += len(p)
	if len(h.log) < 1<<16 {
		h.log = append(h.log, p...)
	}
	h.cond.Broadcast()
	return len(p), nil
}

func (c *bufConn) Close() error {
	c.wr.mu.Lock()
	c.wr.wclosed = true
	c.wr.cond.Broadcast()
	c.wr.mu.Unlock()
	c.rd.mu.Lock()
	c.rd.rclosed = true
	c.rd.cond.Broadcast()
	c.rd.mu.Unlock()
	return nil
}

func (c *bufConn) setRD(t time.Time) {
	h := c.rd
	h.mu.Lock()
	h.deadline = t
	if h.timer != nil {
		h.timer.Stop()
		h.timer = nil
	}
	if !t.IsZero() {
		d := time.Until(t)
		if d < 0 {
			d = 0
		}
		h.timer = time.AfterFunc(d, func() { h.mu.Lock(); h.cond.Broadcast(); h.mu.Unlock() })
	}
	h.cond.Broadcast()
	h.mu.Unlock()
}

type addr string

func (a addr) Network() string { return "buf" }
func (a addr) String() string  { return string(a) }

func (c *bufConn) LocalAddr() net.Addr                { return addr("local") }
func (c *bufConn) RemoteAddr() net.Addr               { return addr("remote") }
func (c *bufConn) SetDeadline(t time.Time) error      { c.setRD(t); return nil }
func (c *bufConn) SetReadDeadline(t time.Time) error  { c.setRD(t); return nil }
func (c *bufConn) SetWriteDeadline(t time.Time) error { return nil }

// BufConn is the exported view of one end of an in-memory connection.
type BufConn interface {
	net.Conn
	// WaitPeerBlocked waits until the other end is blocked in Read with nothing left to read
	// (it consumed everything written so far), or the connection is closed. False on timeout.
	WaitPeerBlocked(timeout time.Duration) bool
	// Quiescent: both ends parked in Read on empty buffers, observed atomically.
	Quiescent() bool
	// Snapshot: bytes written in each direction and whether each end is parked in Read.
	Snapshot() (toPeer, fromPeer int, peerParked, selfParked bool)
	// WaitPeerDrained waits until the other end has read everything written to it so far.
	WaitPeerDrained(timeout time.Duration) bool
	// Received returns a copy of all bytes the other end has written to this end so far.
	Received() []byte
	// PeerClosed reports whether the other end closed the connection.
	PeerClosed() bool
}

func (c *bufConn) WaitPeerBlocked(timeout time.Duration) bool {
	h := c.wr
	deadline := time.Now().Add(timeout)
	t := time.AfterFunc(timeout, func() { h.mu.Lock(); h.cond.Broadcast(); h.mu.Unlock() })
	defer t.Stop()
	h.mu.Lock()
	defer h.mu.Unlock()
	for {
		if (h.waiting > 0 && len(h.buf) == 0) || h.rclosed || h.wclosed {
			return true
		}
		if !time.Now().Before(deadline) {
			return false
		}
		h.cond.Wait()
	}
}

// WaitPeerDrained waits until the other end has read everything this end wrote (and is blocked
// waiting for more, or this end has been closed for writing and nothing is left).
func (c *bufConn) WaitPeerDrained(timeout time.Duration) bool {
	h := c.wr
	deadline := time.Now().Add(timeout)
	t := time.AfterFunc(timeout, func() { h.mu.Lock(); h.cond.Broadcast(); h.mu.Unlock() })
	defer t.Stop()
	h.mu.Lock()
	defer h.mu.Unlock()
	for {
		if len(h.buf) == 0 && (h.waiting > 0 || h.wclosed || h.rclosed) {
			return true
		}
		if h.rclosed {
			return true
		}
		if !time.Now().Before(deadline) {
			return false
		}
		h.cond.Wait()
	}
}

// Quiescent reports, atomically over both directions, that each end is parked in Read on an empty
// buffer (or the connection is closed in that direction): nothing can happen without new input.
func (c *bufConn) Quiescent() bool {
	a, b := c.rd, c.wr
	a.mu.Lock()
	b.mu.Lock()
	defer a.mu.Unlock()
	defer b.mu.Unlock()
	idle := func(h *half) bool {
		return (h.waiting > 0 && len(h.buf) == 0) || h.rclosed || (h.wclosed && len(h.buf) == 0)
	}
	return idle(a) && idle(b)
}

// Snapshot returns the traffic counters and whether each end is parked in Read (atomically).
func (c *bufConn) Snapshot() (toPeer, fromPeer int, peerParked, selfParked bool) {
	a, b := c.rd, c.wr
	a.mu.Lock()
	b.mu.Lock()
	defer a.mu.Unlock()
	defer b.mu.Unlock()
	return b.total, a.total, b.waiting > 0 && len(b.buf) == 0, a.waiting > 0 && len(a.buf) == 0
}

func (c *bufConn) Received() []byte {
	h := c.rd
	h.mu.Lock()
	defer h.mu.Unlock()
	return append([]byte{}, h.log...)
}

func (c *bufConn) PeerClosed() bool {
	h := c.rd
	h.mu.Lock()
	defer h.mu.Unlock()
	return h.wclosed
}

// NewBufConns is NewBufConnPair with the richer interface.
func NewBufConns() (BufConn, BufConn) {
	a, b := NewBufConnPair()
	return a.(*bufConn), b.(*bufConn)
}
