// Package pair builds real lime-go transports and channels for the harness modes.
package pair

import (
	"context"
	"fmt"
	"net"
	"sync"
	"sync/atomic"
	"time"

	lime "github.com/takenet/lime-go"
)

var inprocMu sync.Mutex
var addrSeq int64

// ServerNode is the node every harness server uses.
var ServerNode = lime.Node{Identity: lime.Identity{Name: "postmaster", Domain: "verif.local"}, Instance: "srv"}

// InProc returns a connected in-process transport pair (client, server). Access to the
// package-level listener registry of lime-go is serialised here (it is an unsynchronised map).
func InProc(buf int) (lime.Transport, lime.Transport, error) {
	inprocMu.Lock()
	defer inprocMu.Unlock()
	addr := lime.InProcessAddr(fmt.Sprintf("verif-%d", atomic.AddInt64(&addrSeq, 1)))
	l := lime.NewInProcessTransportListener(addr)
	if err := l.Listen(context.Background(), addr); err != nil {
		return nil, nil, err
	}
	defer l.Close()
	c, err := lime.DialInProcess(addr, buf)
	if err != nil {
		return nil, nil, err
	}
	ctx, cancel := context.WithTimeout(context.Background(), 5*time.Second)
	defer cancel()
	s, err := l.Accept(ctx)
	if err != nil {
		return nil, nil, err
	}
	return c, s, nil
}

// Pipe returns the real TCP transport on both ends of a net.Pipe-like in-memory connection
// built by the hook constructor (build tag verif).
func Pipe(cfg *lime.TCPConfig) (lime.Transport, lime.Transport) {
	c, s, _ := PipeC(cfg)
	return c, s
}

// PipeC is Pipe plus a function that cuts the underlying in-memory connection in both
// directions (so that receivers blocked in the 5 s read poll of the TCP transport wake at once).
func PipeC(cfg *lime.TCPConfig) (lime.Transport, lime.Transport, func()) {
	a, b := NewBufConnPair()
	return lime.NewTCPTransportFromConn(a, false, cfg), lime.NewTCPTransportFromConn(b, true, cfg),
		func() { a.Close(); b.Close() }
}

// Loopback returns real TCP transports over a loopback socket (hook-free route).
func Loopback(cfg *lime.TCPConfig) (lime.Transport, lime.Transport, func(), error) {
	l := lime.NewTCPTransportListener(cfg)
	ln, err := net.Listen("tcp", "127.0.0.1:0")
	if err != nil {
		return nil, nil, nil, err
	}
	addr := ln.Addr().(*net.TCPAddr)
	ln.Close()
	if err := l.Listen(context.Background(), addr); err != nil {
		return nil, nil, nil, err
	}
	ctx, cancel := context.WithTimeout(context.Background(), 5*time.Second)
	defer cancel()
	c, err := lime.DialTcp(ctx, addr, cfg)
	if err != nil {
		l.Close()
		return nil, nil, nil, err
	}
	s, err := l.Accept(ctx)
	if err != nil {
		l.Close()
		return nil, nil, nil, err
	}
	return c, s, func() { l.Close() }, nil
}

// Established builds a client and a server channel over the given transports and runs the real
// guest handshake on both; the registration callback assigns `node`.
func Established(ct, st lime.Transport, buf int, sid string, node lime.Node) (*lime.ClientChannel, *lime.ServerChannel, error) {
	return EstablishedEnc(ct, st, buf, sid, node, st.Encryption())
}

// EstablishedEnc is Established for transports that already are on the given encryption.
func EstablishedEnc(ct, st lime.Transport, buf int, sid string, node lime.Node, enc lime.SessionEncryption) (*lime.ClientChannel, *lime.ServerChannel, error) {
	sc := lime.NewServerChannel(st, buf, ServerNode, sid)
	cc := lime.NewClientChannel(ct, buf)
	ctx, cancel := context.WithTimeout(context.Background(), 10*time.Second)
	defer cancel()
	errc := make(chan error, 1)
	go func() {
		errc <- sc.EstablishSession(ctx,
			[]lime.SessionCompression{lime.SessionCompressionNone},
			[]lime.SessionEncryption{enc},
			[]lime.AuthenticationScheme{lime.AuthenticationSchemeGuest},
			func(context.Context, lime.Identity, lime.Authentication) (*lime.AuthenticationResult, error) {
				return lime.MemberAuthenticationResult(), nil
			},
			func(context.Context, lime.Node, *lime.ServerChannel) (lime.Node, error) { return node, nil })
	}()
	ses, err := cc.EstablishSession(ctx, lime.NoneCompressionSelector, func([]lime.SessionEncryption) lime.SessionEncryption { return enc },
		lime.Identity{Name: node.Name, Domain: node.Domain}, lime.GuestAuthenticator, node.Instance)
	if err != nil {
		return nil, nil, fmt.Errorf("client establish: %w", err)
	}
	if err := <-errc; err != nil {
		return nil, nil, fmt.Errorf("server establish: %w", err)
	}
	if ses.State != lime.SessionStateEstablished || !sc.Established() || !cc.Established() {
		return nil, nil, fmt.Errorf("not established: %v", ses.State)
	}
	return cc, sc, nil
}
