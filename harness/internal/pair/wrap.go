package pair

import (
	"context"
	"errors"
	"net"
	"sync"

	lime "github.com/takenet/lime-go"
)

// WrapT wraps a real transport; AfterRecv runs after the inner Receive returned and before the
// wrapper returns (used to pin "the peer went away right after this envelope was taken").
type WrapT struct {
	lime.Transport
	AfterRecv func(n int, err error)
	// BeforeSend may fail a Send transiently: the error is returned and nothing is written
	BeforeSend func() error
	// AfterSend runs after the inner Send returned and before the wrapper returns (a Send that returns late:
	// the envelope is on its way while the caller has not got control back yet)
	AfterSend func()
	// OnSend sees the envelope first; an error it returns is the Send's result and nothing is written
	OnSend func(e lime.VerifEnvelope) error
	mu     sync.Mutex
	n         int
}

func (w *WrapT) Receive(ctx context.Context) (lime.VerifEnvelope, error) {
	e, err := w.Transport.Receive(ctx)
	w.mu.Lock()
	w.n++
	n := w.n
	w.mu.Unlock()
	if w.AfterRecv != nil {
		w.AfterRecv(n, err)
	}
	return e, err
}

func (w *WrapT) Send(ctx context.Context, e lime.VerifEnvelope) error {
	if f := w.BeforeSend; f != nil {
		if err := f(); err != nil {
			return err
		}
	}
	if f := w.OnSend; f != nil {
		if err := f(e); err != nil {
			return err
		}
	}
	err := w.Transport.Send(ctx, e)
	if f := w.AfterSend; f != nil {
		f()
	}
	return err
}

// QueueListener is a TransportListener that hands out the transports offered to it.
type QueueListener struct {
	ch   chan lime.Transport
	done chan struct{}
	once sync.Once
}

func NewQueueListener() *QueueListener {
	return &QueueListener{ch: make(chan lime.Transport, 16), done: make(chan struct{})}
}

func (l *QueueListener) Addr() net.Addr                             { return memAddr("queue-listener") }
func (l *QueueListener) Listen(_ context.Context, _ net.Addr) error { return nil }
func (l *QueueListener) Offer(t lime.Transport)                     { l.ch <- t }
func (l *QueueListener) Close() error                               { l.once.Do(func() { close(l.done) }); return nil }
func (l *QueueListener) Accept(ctx context.Context) (lime.Transport, error) {
	select {
	case <-ctx.Done():
		return nil, ctx.Err()
	case <-l.done:
		return nil, errors.New("queue listener closed")
	case t := <-l.ch:
		return t, nil
	}
}
