package pair

import (
	"crypto/ecdsa"
	"crypto/elliptic"
	"crypto/rand"
	"crypto/tls"
	"crypto/x509"
	"crypto/x509/pkix"
	"math/big"
	"net"
	"sync"
	"time"
)

var tlsOnce sync.Once
var srvTLS, cliTLS *tls.Config

// TLSConfigs returns a server and a client TLS configuration around a self-signed certificate
// generated at run time.
func TLSConfigs() (*tls.Config, *tls.Config) {
	tlsOnce.Do(func() {
		key, err := ecdsa.GenerateKey(elliptic.P256(), rand.Reader)
		if err != nil {
			panic(err)
		}
		tmpl := &x509.Certificate{
			SerialNumber: big.NewInt(1), Subject: pkix.Name{CommonName: "localhost"},
			NotBefore: time.Now().Add(-time.Hour), NotAfter: time.Now().Add(24 * time.Hour),
			KeyUsage: x509.KeyUsageDigitalSignature | x509.KeyUsageKeyEncipherment, ExtKeyUsage: []x509.ExtKeyUsage{x509.ExtKeyUsageServerAuth},
			DNSNames: []string{"localhost"}, IPAddresses: []net.IP{net.IPv4(127, 0, 0, 1)},
		}
		der, err := x509.CreateCertificate(rand.Reader, tmpl, tmpl, &key.PublicKey, key)
		if err != nil {
			panic(err)
		}
		cert := tls.Certificate{Certificate: [][]byte{der}, PrivateKey: key}
		srvTLS = &tls.Config{Certificates: []tls.Certificate{cert}}
		cliTLS = &tls.Config{InsecureSkipVerify: true, ServerName: "localhost"}
	})
	return srvTLS.Clone(), cliTLS.Clone()
}
