package pair

import (
	"errors"
	"io"
	"net"
	"sync"
	"time"
)

// FaultConn is a scripted net.Conn for one direction at a time: reads deliver a fixed byte
// stream in scripted pieces (with transient timeouts and stalls in between, and a cut at the end),
// writes follow a script of full / short-with-timeout / short-with-error outcomes. It follows the
// convention of net.TCPConn: a read returns data or an error, never both.
type FaultConn struct {
	mu sync.Mutex

	// read side
	In       []byte   // the stream to deliver
	pos      int
	ReadPlan []ReadEv // consumed in order; when exhausted a read returns all that fits
	EndErr   error    // what a read returns once the stream is exhausted (default io.EOF)
	Reads    []ReadRec

	// write side
	WritePlan []WriteEv // consumed in order; when exhausted a write takes everything
	Wire      []byte
	Writes    []WriteRec
	OnCancel  func() // called by a write event with Cancel set, after its bytes were taken
	OnExpire  func() // called by a read event of kind "expire" (the caller's context ends during a stall)

	closed bool
}

type ReadEv struct {
	Kind  string `json:"k"` // "data" | "timeout" | "stall" | "expire"
	N     int    `json:"n,omitempty"`
	Micro int    `json:"us,omitempty"` // stall duration before the data is returned
}

type ReadRec struct {
	Req int  `json:"req"`
	N   int  `json:"n"`
	Err bool `json:"err,omitempty"`
	TO  bool `json:"timeout,omitempty"`
}

type WriteEv struct {
	Kind   string `json:"k"` // "full" | "t" (short write + temporary timeout) | "f" (short write + error)
	N      int    `json:"n,omitempty"`
	Cancel bool   `json:"cancel,omitempty"` // end the write context right after this call
}

type WriteRec struct {
	Len int    `json:"len"`
	N   int    `json:"n"`
	Err string `json:"err,omitempty"`
}

var ErrInjected = errors.New("injected: connection reset by peer")

func (c *FaultConn) Read(p []byte) (int, error) {
	c.mu.Lock()
	defer c.mu.Unlock()
	if c.closed {
		return 0, net.ErrClosed
	}
	if len(p) == 0 {
		return 0, nil
	}
	want := len(p)
	if len(c.ReadPlan) > 0 {
		ev := c.ReadPlan[0]
		c.ReadPlan = c.ReadPlan[1:]
		switch ev.Kind {
		case "timeout":
			c.Reads = append(c.Reads, ReadRec{Req: len(p), TO: true})
			return 0, timeoutErr{}
		case "expire":
			c.Reads = append(c.Reads, ReadRec{Req: len(p), TO: true})
			if f := c.OnExpire; f != nil {
				c.mu.Unlock()
				f()
				c.mu.Lock()
			}
			return 0, timeoutErr{}
		case "stall":
			c.mu.Unlock()
			time.Sleep(time.Duration(ev.Micro) * time.Microsecond)
			c.mu.Lock()
			fallthrough
		default:
			if ev.N >= 1 && ev.N < want {
				want = ev.N
			}
		}
	}
	rest := len(c.In) - c.pos
	if rest == 0 {
		c.Reads = append(c.Reads, ReadRec{Req: len(p), Err: true})
		if c.EndErr != nil {
			return 0, c.EndErr
		}
		return 0, io.EOF
	}
	if want > rest {
		want = rest
	}
	copy(p, c.In[c.pos:c.pos+want])
	c.pos += want
	c.Reads = append(c.Reads, ReadRec{Req: len(p), N: want})
	return want, nil
}

// Consumed is the number of stream bytes handed out so far.
func (c *FaultConn) Consumed() int { c.mu.Lock(); defer c.mu.Unlock(); return c.pos }

// TakeReads returns and clears the read records.
func (c *FaultConn) TakeReads() []ReadRec {
	c.mu.Lock()
	defer c.mu.Unlock()
	r := c.Reads
	c.Reads = nil
	return r
}

func (c *FaultConn) Write(p []byte) (int, error) {
	c.mu.Lock()
	if c.closed {
		c.mu.Unlock()
		return 0, net.ErrClosed
	}
	ev := WriteEv{Kind: "full"}
	if len(c.WritePlan) > 0 {
		ev = c.WritePlan[0]
		c.WritePlan = c.WritePlan[1:]
	}
	n := len(p)
	var err error
	switch ev.Kind {
	case "t":
		if ev.N < n {
			n = ev.N
		}
		err = timeoutErr{}
	case "f":
		if ev.N < n {
			n = ev.N
		}
		err = ErrInjected
	}
	c.Wire = append(c.Wire, p[:n]...)
	rec := WriteRec{Len: len(p), N: n}
	if err != nil {
		rec.Err = err.Error()
	}
	c.Writes = append(c.Writes, rec)
	cancel := c.OnCancel
	c.mu.Unlock()
	if ev.Cancel && cancel != nil {
		cancel()
	}
	return n, err
}

// TakeWire returns and clears what was written since the last call.
func (c *FaultConn) TakeWire() ([]byte, []WriteRec) {
	c.mu.Lock()
	defer c.mu.Unlock()
	w, r := c.Wire, c.Writes
	c.Wire, c.Writes = nil, nil
	return w, r
}

func (c *FaultConn) SetWritePlan(p []WriteEv) { c.mu.Lock(); c.WritePlan = p; c.mu.Unlock() }

func (c *FaultConn) Close() error {
	c.mu.Lock()
	defer c.mu.Unlock()
	c.closed = true
	return nil
}

func (c *FaultConn) LocalAddr() net.Addr                { return addr("fault-local") }
func (c *FaultConn) RemoteAddr() net.Addr               { return addr("fault-remote") }
func (c *FaultConn) SetDeadline(t time.Time) error      { return nil }
func (c *FaultConn) SetReadDeadline(t time.Time) error  { return nil }
func (c *FaultConn) SetWriteDeadline(t time.Time) error { return nil }
