// Package codec converts between lime-go values, wire bytes and the value / tree encodings the
// Lean driver speaks, and canonicalises them for comparison.
package codec

import (
	"bytes"
	"encoding/json"
	"fmt"
	"io"
	"sort"
	"strconv"
)

// Tree is the explicit JSON tree encoding: ["z"] | ["b",bool] | ["n",lit] | ["s",str] |
// ["a",[...]] | ["o",[[k,tree]...]]. It keeps member order, duplicate keys and number literals.
type Tree = []interface{}

// ParseTree reads exactly one JSON value from b (trailing white space allowed).
func ParseTree(b []byte) (Tree, error) {
	dec := json.NewDecoder(bytes.NewReader(b))
	dec.UseNumber()
	t, err := readTree(dec)
	if err != nil {
		return nil, err
	}
	if _, err := dec.Token(); err != io.EOF {
		return nil, fmt.Errorf("trailing data")
	}
	return t, nil
}

func readTree(dec *json.Decoder) (Tree, error) {
	tok, err := dec.Token()
	if err != nil {
		return nil, err
	}
	return readAfter(dec, tok)
}

func readAfter(dec *json.Decoder, tok json.Token) (Tree, error) {
	switch v := tok.(type) {
	case nil:
		return Tree{"z"}, nil
	case bool:
		return Tree{"b", v}, nil
	case json.Number:
		return Tree{"n", string(v)}, nil
	case string:
		return Tree{"s", v}, nil
	case json.Delim:
		switch v {
		case '[':
			items := []interface{}{}
			for dec.More() {
				t, err := readTree(dec)
				if err != nil {
					return nil, err
				}
				items = append(items, t)
			}
			if _, err := dec.Token(); err != nil {
				return nil, err
			}
			return Tree{"a", items}, nil
		case '{':
			ms := []interface{}{}
			for dec.More() {
				kt, err := dec.Token()
				if err != nil {
					return nil, err
				}
				k, ok := kt.(string)
				if !ok {
					return nil, fmt.Errorf("non-string key")
				}
				t, err := readTree(dec)
				if err != nil {
					return nil, err
				}
				ms = append(ms, []interface{}{k, t})
			}
			if _, err := dec.Token(); err != nil {
				return nil, err
			}
			return Tree{"o", ms}, nil
		}
	}
	return nil, fmt.Errorf("unexpected token %v", tok)
}

// TreeBytes renders a tree as JSON text (members in order, duplicates kept).
func TreeBytes(t Tree) []byte {
	var b bytes.Buffer
	writeTree(&b, t)
	return b.Bytes()
}

func writeTree(b *bytes.Buffer, t Tree) {
	switch t[0].(string) {
	case "z":
		b.WriteString("null")
	case "b":
		if t[1].(bool) {
			b.WriteString("true")
		} else {
			b.WriteString("false")
		}
	case "n":
		b.WriteString(t[1].(string))
	case "s":
		s, _ := json.Marshal(t[1].(string))
		b.Write(s)
	case "a":
		b.WriteByte('[')
		for i, x := range t[1].([]interface{}) {
			if i > 0 {
				b.WriteByte(',')
			}
			writeTree(b, AsTree(x))
		}
		b.WriteByte(']')
	case "o":
		b.WriteByte('{')
		for i, m := range t[1].([]interface{}) {
			if i > 0 {
				b.WriteByte(',')
			}
			p := m.([]interface{})
			k, _ := json.Marshal(p[0].(string))
			b.Write(k)
			b.WriteByte(':')
			writeTree(b, AsTree(p[1]))
		}
		b.WriteByte('}')
	}
}

// AsTree converts a decoded-JSON representation of a tree ([]interface{}) to Tree.
func AsTree(x interface{}) Tree {
	if t, ok := x.(Tree); ok {
		return t
	}
	return nil
}

// NormNum gives the canonical text of a number literal (float64 semantics, as a Go map decode sees it).
func NormNum(lit string) string {
	f, err := strconv.ParseFloat(lit, 64)
	if err != nil {
		return lit
	}
	return strconv.FormatFloat(f, 'g', -1, 64)
}

// Canon renders a tree canonically: object members sorted by key (last duplicate wins),
// numbers normalised. Two trees that Go would decode to equal interface{} values have equal Canon.
func Canon(t Tree) string {
	var b bytes.Buffer
	canon(&b, t)
	return b.String()
}

func canon(b *bytes.Buffer, t Tree) {
	if t == nil {
		b.WriteString("<nil>")
		return
	}
	switch t[0].(string) {
	case "n":
		b.WriteString(NormNum(t[1].(string)))
	case "a":
		b.WriteByte('[')
		for i, x := range t[1].([]interface{}) {
			if i > 0 {
				b.WriteByte(',')
			}
			canon(b, AsTree(x))
		}
		b.WriteByte(']')
	case "o":
		last := map[string]Tree{}
		keys := []string{}
		for _, m := range t[1].([]interface{}) {
			p := m.([]interface{})
			k := p[0].(string)
			if _, ok := last[k]; !ok {
				keys = append(keys, k)
			}
			last[k] = AsTree(p[1])
		}
		sort.Strings(keys)
		b.WriteByte('{')
		for i, k := range keys {
			if i > 0 {
				b.WriteByte(',')
			}
			kk, _ := json.Marshal(k)
			b.Write(kk)
			b.WriteByte(':')
			canon(b, last[k])
		}
		b.WriteByte('}')
	default:
		writeTree(b, t)
	}
}

// TreeOfValue converts a decoded Go value (interface{} from encoding/json: map, slice, float64,
// string, bool, nil, json.Number) to a tree.
func TreeOfValue(v interface{}) Tree {
	switch x := v.(type) {
	case nil:
		return Tree{"z"}
	case bool:
		return Tree{"b", x}
	case float64:
		return Tree{"n", strconv.FormatFloat(x, 'g', -1, 64)}
	case json.Number:
		return Tree{"n", string(x)}
	case int:
		return Tree{"n", strconv.Itoa(x)}
	case string:
		return Tree{"s", x}
	case []interface{}:
		items := make([]interface{}, len(x))
		for i, e := range x {
			items[i] = TreeOfValue(e)
		}
		return Tree{"a", items}
	case map[string]interface{}:
		keys := make([]string, 0, len(x))
		for k := range x {
			keys = append(keys, k)
		}
		sort.Strings(keys)
		ms := make([]interface{}, len(keys))
		for i, k := range keys {
			ms[i] = []interface{}{k, TreeOfValue(x[k])}
		}
		return Tree{"o", ms}
	}
	return Tree{"s", fmt.Sprintf("<%T>", v)}
}

// TreeFromAny converts what json.Unmarshal produced for a tree encoding back into Tree form
// (nested []interface{} → Tree).
func TreeFromAny(x interface{}) Tree {
	a, ok := x.([]interface{})
	if !ok || len(a) == 0 {
		return nil
	}
	tag, _ := a[0].(string)
	switch tag {
	case "z":
		return Tree{"z"}
	case "b", "n", "s":
		return Tree{tag, a[1]}
	case "a":
		src, _ := a[1].([]interface{})
		items := make([]interface{}, len(src))
		for i, e := range src {
			items[i] = TreeFromAny(e)
		}
		return Tree{"a", items}
	case "o":
		src, _ := a[1].([]interface{})
		ms := make([]interface{}, len(src))
		for i, m := range src {
			p := m.([]interface{})
			ms[i] = []interface{}{p[0], TreeFromAny(p[1])}
		}
		return Tree{"o", ms}
	}
	return nil
}
