package codec

import (
	"encoding/json"
	"fmt"
	"sort"

	lime "github.com/takenet/lime-go"
)

// The value encoding shared with the Lean driver (Driver/CodecD.lean).

type VNode struct {
	N string `json:"n"`
	D string `json:"d"`
	I string `json:"i"`
}

type VMT struct {
	T string `json:"t"`
	S string `json:"s"`
	X string `json:"x"`
}

type VReason struct {
	Code int    `json:"code"`
	Desc string `json:"desc"`
}

type VDoc struct {
	K     string  `json:"k"`
	S     string  `json:"s,omitempty"`
	V     Tree    `json:"v,omitempty"`     // json: the object tree
	T     *VMT    `json:"t,omitempty"`     // container type
	D     *VDoc   `json:"d,omitempty"`     // container value
	Total int     `json:"total,omitempty"` // collection
	It    *VMT    `json:"it,omitempty"`
	Items *[]VDoc `json:"items"` // nil = Go nil slice
}

type VAuth struct {
	Scheme   string `json:"scheme"`
	Password string `json:"password,omitempty"`
	Key      string `json:"key,omitempty"`
	Token    string `json:"token,omitempty"`
	Issuer   string `json:"issuer,omitempty"`
}

type VEnv struct {
	Kind     string      `json:"kind"`
	ID       string      `json:"id"`
	From     VNode       `json:"from"`
	PP       VNode       `json:"pp"`
	To       VNode       `json:"to"`
	Metadata *[][2]string `json:"metadata"` // nil = nil map; pairs sorted by key in canonical form
	// message / command
	Type     *VMT  `json:"type"`
	Content  *VDoc `json:"content,omitempty"`
	Resource *VDoc `json:"resource,omitempty"`
	Method   string `json:"method,omitempty"`
	URI      *string `json:"uri,omitempty"`
	Status   string `json:"status,omitempty"`
	// notification
	Event  string   `json:"event,omitempty"`
	Reason *VReason `json:"reason"`
	// session
	State      string    `json:"state,omitempty"`
	EncOpts    *[]string `json:"encOpts"`
	Enc        string    `json:"enc,omitempty"`
	CompOpts   *[]string `json:"compOpts"`
	Comp       string    `json:"comp,omitempty"`
	SchemeOpts *[]string `json:"schemeOpts"`
	Scheme     string    `json:"scheme,omitempty"`
	Auth       *VAuth    `json:"auth"`
}

func toNode(v VNode) lime.Node {
	return lime.Node{Identity: lime.Identity{Name: v.N, Domain: v.D}, Instance: v.I}
}
func fromNode(n lime.Node) VNode { return VNode{n.Name, n.Domain, n.Instance} }
func toMT(v VMT) lime.MediaType  { return lime.MediaType{Type: v.T, Subtype: v.S, Suffix: v.X} }
func fromMT(m lime.MediaType) VMT { return VMT{m.Type, m.Subtype, m.Suffix} }

// ToDoc builds the lime-go document for a value.
func ToDoc(v *VDoc) lime.Document {
	if v == nil {
		return nil
	}
	switch v.K {
	case "text":
		d := lime.TextDocument(v.S)
		return &d
	case "json":
		var m map[string]interface{}
		if err := json.Unmarshal(TreeBytes(v.V), &m); err != nil {
			panic("ToDoc: json doc: " + err.Error())
		}
		d := lime.JsonDocument(m)
		return &d
	case "container":
		return &lime.DocumentContainer{Type: toMT(*v.T), Value: ToDoc(v.D)}
	case "collection":
		c := &lime.DocumentCollection{Total: v.Total, ItemType: toMT(*v.It)}
		if v.Items != nil {
			c.Items = make([]lime.Document, len(*v.Items))
			for i := range *v.Items {
				c.Items[i] = ToDoc(&(*v.Items)[i])
			}
		}
		return c
	case "ping":
		return &lime.Ping{}
	}
	panic("ToDoc: kind " + v.K)
}

// FromDoc canonicalises a lime-go document.
func FromDoc(d lime.Document) (*VDoc, error) {
	switch x := d.(type) {
	case nil:
		return nil, nil
	case *lime.TextDocument:
		if x == nil {
			return nil, fmt.Errorf("nil *TextDocument")
		}
		return &VDoc{K: "text", S: string(*x)}, nil
	case lime.TextDocument:
		return &VDoc{K: "text", S: string(x)}, nil
	case *lime.JsonDocument:
		if x == nil || *x == nil {
			return nil, fmt.Errorf("nil JsonDocument")
		}
		return &VDoc{K: "json", V: TreeOfValue(map[string]interface{}(*x))}, nil
	case *lime.DocumentContainer:
		v, err := FromDoc(x.Value)
		if err != nil {
			return nil, err
		}
		if v == nil {
			return nil, fmt.Errorf("container with nil value")
		}
		t := fromMT(x.Type)
		return &VDoc{K: "container", T: &t, D: v}, nil
	case *lime.DocumentCollection:
		it := fromMT(x.ItemType)
		out := &VDoc{K: "collection", Total: x.Total, It: &it}
		if x.Items != nil {
			items := make([]VDoc, len(x.Items))
			for i, e := range x.Items {
				v, err := FromDoc(e)
				if err != nil {
					return nil, err
				}
				if v == nil {
					return nil, fmt.Errorf("collection with nil item")
				}
				items[i] = *v
			}
			out.Items = &items
		}
		return out, nil
	case *lime.Ping:
		return &VDoc{K: "ping"}, nil
	}
	return nil, fmt.Errorf("unknown document type %T", d)
}

func toMeta(m *[][2]string) map[string]string {
	if m == nil {
		return nil
	}
	out := make(map[string]string, len(*m))
	for _, p := range *m {
		out[p[0]] = p[1]
	}
	return out
}

func fromMeta(m map[string]string) *[][2]string {
	if m == nil {
		return nil
	}
	keys := make([]string, 0, len(m))
	for k := range m {
		keys = append(keys, k)
	}
	sort.Strings(keys)
	out := make([][2]string, len(keys))
	for i, k := range keys {
		out[i] = [2]string{k, m[k]}
	}
	return &out
}

func toBase(v *VEnv) lime.Envelope {
	return lime.Envelope{ID: v.ID, From: toNode(v.From), PP: toNode(v.PP), To: toNode(v.To), Metadata: toMeta(v.Metadata)}
}

func fromBase(v *VEnv, e lime.Envelope) {
	v.ID, v.From, v.PP, v.To, v.Metadata = e.ID, fromNode(e.From), fromNode(e.PP), fromNode(e.To), fromMeta(e.Metadata)
}

func toReason(r *VReason) *lime.Reason {
	if r == nil {
		return nil
	}
	return &lime.Reason{Code: r.Code, Description: r.Desc}
}

func fromReason(r *lime.Reason) *VReason {
	if r == nil {
		return nil
	}
	return &VReason{r.Code, r.Description}
}

func strs(p *[]string) []string {
	if p == nil {
		return nil
	}
	return *p
}

// ToEnvelope builds the lime-go envelope (pointer to the concrete kind) for a value.
// uriParse supplies ParseLimeURI.
func ToEnvelope(v *VEnv) (interface{}, error) {
	switch v.Kind {
	case "message":
		m := &lime.Message{Envelope: toBase(v), Content: ToDoc(v.Content)}
		if v.Type != nil {
			m.Type = toMT(*v.Type)
		}
		return m, nil
	case "notification":
		return &lime.Notification{Envelope: toBase(v), Event: lime.NotificationEvent(v.Event), Reason: toReason(v.Reason)}, nil
	case "request", "response":
		c := lime.Command{Envelope: toBase(v), Method: lime.CommandMethod(v.Method), Resource: ToDoc(v.Resource)}
		if v.Type != nil {
			t := toMT(*v.Type)
			c.Type = &t
		}
		if v.Kind == "request" {
			r := &lime.RequestCommand{Command: c}
			if v.URI != nil {
				u, err := lime.ParseLimeURI(*v.URI)
				if err != nil {
					return nil, fmt.Errorf("generator produced an unparsable URI %q: %v", *v.URI, err)
				}
				r.URI = u
			}
			return r, nil
		}
		return &lime.ResponseCommand{Command: c, Status: lime.CommandStatus(v.Status), Reason: toReason(v.Reason)}, nil
	case "session":
		s := &lime.Session{Envelope: toBase(v), State: lime.SessionState(v.State), Reason: toReason(v.Reason),
			Encryption: lime.SessionEncryption(v.Enc), Compression: lime.SessionCompression(v.Comp), Scheme: lime.AuthenticationScheme(v.Scheme)}
		if v.EncOpts != nil {
			s.EncryptionOptions = make([]lime.SessionEncryption, len(*v.EncOpts))
			for i, x := range *v.EncOpts {
				s.EncryptionOptions[i] = lime.SessionEncryption(x)
			}
		}
		if v.CompOpts != nil {
			s.CompressionOptions = make([]lime.SessionCompression, len(*v.CompOpts))
			for i, x := range *v.CompOpts {
				s.CompressionOptions[i] = lime.SessionCompression(x)
			}
		}
		if v.SchemeOpts != nil {
			s.SchemeOptions = make([]lime.AuthenticationScheme, len(*v.SchemeOpts))
			for i, x := range *v.SchemeOpts {
				s.SchemeOptions[i] = lime.AuthenticationScheme(x)
			}
		}
		if v.Auth != nil {
			switch v.Auth.Scheme {
			case "guest":
				s.Authentication = &lime.GuestAuthentication{}
			case "transport":
				s.Authentication = &lime.TransportAuthentication{}
			case "plain":
				s.Authentication = &lime.PlainAuthentication{Password: v.Auth.Password}
			case "key":
				s.Authentication = &lime.KeyAuthentication{Key: v.Auth.Key}
			case "external":
				s.Authentication = &lime.ExternalAuthentication{Token: v.Auth.Token, Issuer: v.Auth.Issuer}
			}
		}
		return s, nil
	}
	return nil, fmt.Errorf("kind %s", v.Kind)
}

// FromEnvelope canonicalises a lime-go envelope value.
func FromEnvelope(e interface{}) (*VEnv, error) {
	v := &VEnv{}
	switch x := e.(type) {
	case *lime.Message:
		v.Kind = "message"
		fromBase(v, x.Envelope)
		t := fromMT(x.Type)
		v.Type = &t
		d, err := FromDoc(x.Content)
		if err != nil {
			return nil, err
		}
		v.Content = d
	case *lime.Notification:
		v.Kind = "notification"
		fromBase(v, x.Envelope)
		v.Event = string(x.Event)
		v.Reason = fromReason(x.Reason)
	case *lime.RequestCommand:
		v.Kind = "request"
		if err := fromCommand(v, &x.Command); err != nil {
			return nil, err
		}
		if x.URI != nil {
			s := x.URI.String()
			v.URI = &s
		}
	case *lime.ResponseCommand:
		v.Kind = "response"
		if err := fromCommand(v, &x.Command); err != nil {
			return nil, err
		}
		v.Status = string(x.Status)
		v.Reason = fromReason(x.Reason)
	case *lime.Session:
		v.Kind = "session"
		fromBase(v, x.Envelope)
		v.State = string(x.State)
		v.Enc, v.Comp, v.Scheme = string(x.Encryption), string(x.Compression), string(x.Scheme)
		v.Reason = fromReason(x.Reason)
		if x.EncryptionOptions != nil {
			l := make([]string, len(x.EncryptionOptions))
			for i, o := range x.EncryptionOptions {
				l[i] = string(o)
			}
			v.EncOpts = &l
		}
		if x.CompressionOptions != nil {
			l := make([]string, len(x.CompressionOptions))
			for i, o := range x.CompressionOptions {
				l[i] = string(o)
			}
			v.CompOpts = &l
		}
		if x.SchemeOptions != nil {
			l := make([]string, len(x.SchemeOptions))
			for i, o := range x.SchemeOptions {
				l[i] = string(o)
			}
			v.SchemeOpts = &l
		}
		switch a := x.Authentication.(type) {
		case nil:
		case *lime.GuestAuthentication:
			v.Auth = &VAuth{Scheme: "guest"}
		case *lime.TransportAuthentication:
			v.Auth = &VAuth{Scheme: "transport"}
		case *lime.PlainAuthentication:
			v.Auth = &VAuth{Scheme: "plain", Password: a.Password}
		case *lime.KeyAuthentication:
			v.Auth = &VAuth{Scheme: "key", Key: a.Key}
		case *lime.ExternalAuthentication:
			v.Auth = &VAuth{Scheme: "external", Token: a.Token, Issuer: a.Issuer}
		default:
			return nil, fmt.Errorf("unknown authentication %T", a)
		}
	default:
		return nil, fmt.Errorf("unknown envelope %T", e)
	}
	return v, nil
}

func fromCommand(v *VEnv, c *lime.Command) error {
	fromBase(v, c.Envelope)
	v.Method = string(c.Method)
	if c.Type != nil {
		t := fromMT(*c.Type)
		v.Type = &t
	}
	d, err := FromDoc(c.Resource)
	if err != nil {
		return err
	}
	v.Resource = d
	return nil
}

// CanonValue renders a value (or the driver's rendering of one) canonically for comparison:
// metadata sorted, JSON document trees canonical, everything else as is.
func CanonValue(raw []byte) (string, error) {
	var x interface{}
	if err := json.Unmarshal(raw, &x); err != nil {
		return "", err
	}
	x = canonWalk(x)
	b, err := json.Marshal(x) // map keys are sorted by encoding/json
	return string(b), err
}

// CanonValueLoose additionally identifies an empty non-nil map / option slice with a nil one
// (both are "no metadata" / "no options"; the wire form cannot tell them apart).
func CanonValueLoose(raw []byte) (string, error) {
	var x interface{}
	if err := json.Unmarshal(raw, &x); err != nil {
		return "", err
	}
	if m, ok := x.(map[string]interface{}); ok {
		for _, k := range []string{"metadata", "encOpts", "compOpts", "schemeOpts"} {
			if a, ok := m[k].([]interface{}); ok && len(a) == 0 {
				delete(m, k)
			}
		}
	}
	x = canonWalk(x)
	b, err := json.Marshal(x)
	return string(b), err
}

func canonWalk(x interface{}) interface{} {
	switch v := x.(type) {
	case map[string]interface{}:
		out := map[string]interface{}{}
		for k, e := range v {
			if e == nil || e == "" {
				continue // absent, null and zero text are the same thing in the value encoding
			}
			if f, ok := e.(float64); ok && f == 0 {
				continue
			}
			if k == "v" { // JSON document tree
				out[k] = Canon(TreeFromAny(e))
				continue
			}
			if k == "metadata" {
				if a, ok := e.([]interface{}); ok {
					last := map[string]interface{}{}
					for _, p := range a {
						q := p.([]interface{})
						last[q[0].(string)] = q[1]
					}
					out[k] = last // an (empty) map is kept distinct from null
					continue
				}
			}
			if m, ok := e.(map[string]interface{}); ok && (k == "from" || k == "pp" || k == "to") {
				if m["n"] == "" && m["d"] == "" && m["i"] == "" {
					continue
				}
			}
			out[k] = canonWalk(e)
		}
		return out
	case []interface{}:
		out := make([]interface{}, len(v))
		for i, e := range v {
			out[i] = canonWalk(e)
		}
		return out
	}
	return x
}
