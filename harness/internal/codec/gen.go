package codec

import (
	"fmt"
	"math/rand"

	lime "github.com/takenet/lime-go"
)

// Gen produces structured, mostly well-formed envelope values; Wild raises the share of
// deliberately ill-formed field values (reserved separators in addresses, unknown enum members,
// mismatching document types, missing required members).
type Gen struct {
	R     *rand.Rand
	Depth int     // maximal document nesting
	Wild  float64 // probability of an ill-formed choice at each opportunity
}

var plainStrings = []string{"a", "bob", "x1", "Ünï", "日本", "user.name", "a b", "q\"uo\\te", "tab\there", "nl\nline", "😀", "<&>", "é", "null", "0",
	// characters on which Go string syntax and JSON string syntax differ, and the edges of Unicode
	"bel\a", "vt\v", "esc\x1b[0m", "nul\x00", "del\x7f", "tag\U000E0001", "max\U0010FFFF", "ls\u2028ps\u2029", "bom\ufeff", "pua\U000F0000"}
var sepStrings = []string{"a@b", "a/b", "a+b", "@", "/", "+", "a@b@c", "x/y/z", "@/", ""}

func (g *Gen) wild() bool { return g.R.Float64() < g.Wild }

func (g *Gen) pick(l []string) string { return l[g.R.Intn(len(l))] }

func (g *Gen) plain() string { return g.pick(plainStrings) }

func (g *Gen) text() string {
	switch g.R.Intn(8) {
	case 0:
		return ""
	case 1:
		return g.pick(sepStrings)
	case 2:
		return g.plain() + " " + g.plain()
	}
	return g.plain()
}

func (g *Gen) part() string {
	if g.wild() {
		return g.pick(sepStrings)
	}
	return g.plain()
}

func (g *Gen) Node() VNode {
	switch g.R.Intn(6) {
	case 0:
		return VNode{}
	case 1:
		return VNode{N: g.part(), D: g.part()}
	case 2:
		return VNode{N: g.part()}
	case 3:
		if g.wild() {
			return VNode{D: g.part(), I: g.part()}
		}
	}
	return VNode{N: g.part(), D: g.part(), I: g.part()}
}

func (g *Gen) Meta() *[][2]string {
	switch g.R.Intn(4) {
	case 0:
		return nil
	case 1:
		if g.wild() {
			return &[][2]string{}
		}
		return nil
	}
	n := 1 + g.R.Intn(3)
	seen := map[string]bool{}
	out := [][2]string{}
	for i := 0; i < n; i++ {
		k := g.text()
		if seen[k] {
			continue
		}
		seen[k] = true
		out = append(out, [2]string{k, g.text()})
	}
	// canonical order: sorted by key
	for i := range out {
		for j := i + 1; j < len(out); j++ {
			if out[j][0] < out[i][0] {
				out[i], out[j] = out[j], out[i]
			}
		}
	}
	return &out
}

func (g *Gen) Reason() *VReason {
	switch g.R.Intn(4) {
	case 0:
		return nil
	case 1:
		return &VReason{Code: g.R.Intn(100)}
	case 2:
		return &VReason{Desc: g.text()}
	}
	return &VReason{Code: g.R.Intn(1000) - 20, Desc: g.text()}
}

var otherTextTypes = []VMT{{"image", "png", ""}, {"text", "x-custom", ""}, {"application", "octet-stream", ""}, {"text", "plain", "xml"}, {"a", "b", "c/d"}}
var otherJSONTypes = []VMT{{"application", "x-foo", "json"}, {"application", "vnd.lime.unknown", "json"}, {"text", "weird", "json"}}
var badTypes = []VMT{{}, {"", "x", ""}, {"x", "", ""}, {"a/b", "c", ""}, {"a", "b+c", ""}, {"a", "b", "c+d"}, {"a+b", "c", ""}}

func mtOf(m lime.MediaType) VMT { return fromMT(m) }

func (g *Gen) jsonValue(depth int) interface{} {
	k := g.R.Intn(9)
	if depth <= 0 && k >= 7 {
		k = g.R.Intn(7)
	}
	switch k {
	case 0:
		return nil
	case 1:
		return g.R.Intn(2) == 0
	case 2:
		return float64(g.R.Intn(2000) - 1000)
	case 3:
		return []float64{0.5, -1.25, 1e21, 1e-7, 3.141592653589793, 1 << 53, -0.0}[g.R.Intn(7)]
	case 4, 5, 6:
		return g.text()
	case 7:
		n := g.R.Intn(3)
		a := make([]interface{}, n)
		for i := range a {
			a[i] = g.jsonValue(depth - 1)
		}
		return a
	}
	return g.jsonMap(depth - 1)
}

func (g *Gen) jsonMap(depth int) map[string]interface{} {
	n := g.R.Intn(4)
	m := map[string]interface{}{}
	for i := 0; i < n; i++ {
		m[g.text()] = g.jsonValue(depth)
	}
	return m
}

// Doc returns a document and the media type it should travel under.
func (g *Gen) Doc(depth int) (*VDoc, VMT) {
	k := g.R.Intn(10)
	if depth <= 0 && k >= 6 {
		k = g.R.Intn(6)
	}
	switch {
	case k <= 1:
		d := &VDoc{K: "text", S: g.text()}
		t := VMT{"text", "plain", ""}
		if g.R.Intn(4) == 0 {
			t = otherTextTypes[g.R.Intn(len(otherTextTypes))]
		}
		return d, t
	case k <= 4:
		d := &VDoc{K: "json", V: TreeOfValue(g.jsonMap(2))}
		t := VMT{"application", "json", ""}
		if g.R.Intn(3) == 0 {
			t = otherJSONTypes[g.R.Intn(len(otherJSONTypes))]
		}
		return d, t
	case k == 5:
		return &VDoc{K: "ping"}, VMT{"application", "vnd.lime.ping", "json"}
	case k <= 7:
		inner, it := g.Doc(depth - 1)
		if g.wild() {
			it = g.wrongType()
		}
		return &VDoc{K: "container", T: &it, D: inner}, VMT{"application", "vnd.lime.container", "json"}
	}
	// collection: all items share one item type
	first, it := g.Doc(depth - 1)
	var items *[]VDoc
	switch g.R.Intn(5) {
	case 0:
		items = nil
	case 1:
		items = &[]VDoc{}
	default:
		l := []VDoc{*first}
		n := g.R.Intn(3)
		for i := 0; i < n; i++ {
			l = append(l, *g.docOfKind(first, depth-1))
		}
		items = &l
	}
	total := 0
	if items != nil {
		total = len(*items)
	}
	if g.R.Intn(4) == 0 {
		total = g.R.Intn(1000)
	}
	if g.wild() {
		it = g.wrongType()
	}
	return &VDoc{K: "collection", Total: total, It: &it, Items: items}, VMT{"application", "vnd.lime.collection", "json"}
}

// docOfKind returns another document of the same kind (and same nested types) as like.
func (g *Gen) docOfKind(like *VDoc, depth int) *VDoc {
	switch like.K {
	case "text":
		return &VDoc{K: "text", S: g.text()}
	case "json":
		return &VDoc{K: "json", V: TreeOfValue(g.jsonMap(1))}
	case "ping":
		return &VDoc{K: "ping"}
	case "container":
		// keep the contained type: a fresh value of the same inner kind
		t := *like.T
		return &VDoc{K: "container", T: &t, D: g.docOfKind(like.D, depth-1)}
	case "collection":
		it := *like.It
		out := &VDoc{K: "collection", Total: like.Total, It: &it}
		if like.Items != nil {
			l := []VDoc{}
			for i := range *like.Items {
				l = append(l, *g.docOfKind(&(*like.Items)[i], depth-1))
			}
			out.Items = &l
		}
		return out
	}
	return like
}

func (g *Gen) wrongType() VMT {
	if g.R.Intn(2) == 0 {
		return badTypes[g.R.Intn(len(badTypes))]
	}
	all := append(append([]VMT{}, otherTextTypes...), otherJSONTypes...)
	all = append(all, VMT{"text", "plain", ""}, VMT{"application", "json", ""}, VMT{"application", "vnd.lime.container", "json"},
		VMT{"application", "vnd.lime.collection", "json"}, VMT{"application", "vnd.lime.ping", "json"})
	return all[g.R.Intn(len(all))]
}

var uriPool = []string{"/ping", "/presence", "/contacts?$skip=0&$take=10", "lime://user@domain.com/contacts", "/a%20b", "/résumé", "lime://postmaster@msging.net/sessions/1", "", "relative/path", "//host/x", "/x#frag"}

// NormURI is ParseLimeURI followed by String (nil result = not parsable).
func NormURI(s string) *string {
	u, err := lime.ParseLimeURI(s)
	if err != nil {
		return nil
	}
	t := u.String()
	return &t
}

var events = []string{"accepted", "dispatched", "received", "consumed", "failed"}
var methods = []string{"get", "set", "delete", "subscribe", "unsubscribe", "observe", "merge"}
var states = []string{"new", "negotiating", "authenticating", "established", "finishing", "finished", "failed"}
var schemes = []string{"guest", "plain", "key", "transport", "external"}

func (g *Gen) enum(members []string) string {
	if g.wild() {
		return []string{"", "bogus", "Get", "NEW", " failed"}[g.R.Intn(5)]
	}
	return g.pick(members)
}

func (g *Gen) opts(members []string) *[]string {
	switch g.R.Intn(4) {
	case 0:
		return nil
	case 1:
		if g.wild() {
			return &[]string{}
		}
		return nil
	}
	n := 1 + g.R.Intn(3)
	l := make([]string, n)
	for i := range l {
		l[i] = g.pick(members)
		if g.wild() {
			l[i] = g.text()
		}
	}
	return &l
}

func (g *Gen) auth() *VAuth {
	switch g.R.Intn(5) {
	case 0:
		return &VAuth{Scheme: "guest"}
	case 1:
		return &VAuth{Scheme: "transport"}
	case 2:
		return &VAuth{Scheme: "plain", Password: g.text()}
	case 3:
		return &VAuth{Scheme: "key", Key: g.text()}
	}
	return &VAuth{Scheme: "external", Token: g.text(), Issuer: g.text()}
}

// Envelope generates one envelope value. The optional members are chosen through a mask drawn
// uniformly over all masks, so that rare combinations are as likely as common ones.
func (g *Gen) Envelope() *VEnv {
	kinds := []string{"message", "notification", "request", "response", "session"}
	v := &VEnv{Kind: kinds[g.R.Intn(5)]}
	mask := g.R.Intn(1 << 12)
	bit := func(i int) bool { return mask&(1<<uint(i)) != 0 }
	if bit(0) {
		v.ID = g.text()
		if v.ID == "" {
			v.ID = "id-1"
		}
	}
	if bit(1) {
		v.From = g.Node()
	}
	if bit(2) {
		v.PP = g.Node()
	}
	if bit(3) {
		v.To = g.Node()
	}
	if bit(4) {
		v.Metadata = g.Meta()
	}
	switch v.Kind {
	case "message":
		d, t := g.Doc(g.Depth)
		v.Content, v.Type = d, &t
		if g.wild() {
			switch g.R.Intn(3) {
			case 0:
				v.Content = nil
			case 1:
				w := g.wrongType()
				v.Type = &w
			case 2:
				v.Type = &VMT{}
			}
		}
	case "notification":
		v.Event = g.enum(events)
		if bit(5) {
			v.Reason = g.Reason()
		}
	case "request", "response":
		v.Method = g.enum(methods)
		if bit(6) {
			d, t := g.Doc(g.Depth)
			v.Resource, v.Type = d, &t
			if g.wild() {
				switch g.R.Intn(3) {
				case 0:
					v.Type = nil
				case 1:
					w := g.wrongType()
					v.Type = &w
				case 2:
					v.Resource = nil // type without resource
				}
			}
		}
		if v.Kind == "request" {
			if !g.wild() || bit(7) {
				v.URI = NormURI(g.pick(uriPool))
			}
		} else {
			v.Status = []string{"success", "failure"}[g.R.Intn(2)]
			if g.wild() {
				v.Status = []string{"", "weird"}[g.R.Intn(2)]
			}
			if bit(5) {
				v.Reason = g.Reason()
			}
		}
	case "session":
		v.State = g.enum(states)
		if bit(5) {
			v.Reason = g.Reason()
		}
		if bit(6) {
			v.EncOpts = g.opts([]string{"none", "tls"})
		}
		if bit(7) {
			v.Enc = g.pick([]string{"none", "tls"})
		}
		if bit(8) {
			v.CompOpts = g.opts([]string{"none", "gzip"})
		}
		if bit(9) {
			v.Comp = g.pick([]string{"none", "gzip"})
		}
		if bit(10) {
			v.SchemeOpts = g.opts(schemes)
		}
		if bit(11) {
			v.Auth = g.auth()
			v.Scheme = v.Auth.Scheme
			if g.wild() {
				v.Scheme = []string{"", "bogus", "plain", "guest"}[g.R.Intn(4)]
			}
		} else if g.R.Intn(4) == 0 {
			v.Scheme = g.pick(schemes)
		}
	}
	return v
}

func (v *VEnv) String() string { return fmt.Sprintf("%s id=%q", v.Kind, v.ID) }
