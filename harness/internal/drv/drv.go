// Package drv talks to the compiled Lean model (limedriver) over its line protocol.
package drv

import (
	"bufio"
	"encoding/json"
	"fmt"
	"io"
	"os"
	"os/exec"
	"sync"
)

type Driver struct {
	cmd *exec.Cmd
	in  io.WriteCloser
	out *bufio.Reader
	mu  sync.Mutex
	N   int
}

// Path returns the driver binary location (VERIF_DRIVER or the default lake output).
func Path() string {
	if p := os.Getenv("VERIF_DRIVER"); p != "" {
		return p
	}
	return "/verif/lean/.lake/build/bin/limedriver"
}

func Start() (*Driver, error) {
	cmd := exec.Command(Path())
	in, err := cmd.StdinPipe()
	if err != nil {
		return nil, err
	}
	out, err := cmd.StdoutPipe()
	if err != nil {
		return nil, err
	}
	cmd.Stderr = os.Stderr
	if err := cmd.Start(); err != nil {
		return nil, err
	}
	return &Driver{cmd: cmd, in: in, out: bufio.NewReaderSize(out, 1<<20)}, nil
}

// Call sends one request object and decodes the one-line answer into resp.
func (d *Driver) Call(req interface{}, resp interface{}) error {
	b, err := json.Marshal(req)
	if err != nil {
		return err
	}
	raw, err := d.CallRaw(b)
	if err != nil {
		return err
	}
	var probe struct {
		Error *string `json:"error"`
	}
	if json.Unmarshal(raw, &probe) == nil && probe.Error != nil {
		return fmt.Errorf("driver: %s", *probe.Error)
	}
	return json.Unmarshal(raw, resp)
}

func (d *Driver) CallRaw(line []byte) ([]byte, error) {
	d.mu.Lock()
	defer d.mu.Unlock()
	d.N++
	if _, err := d.in.Write(append(line, '\n')); err != nil {
		return nil, err
	}
	out, err := d.out.ReadBytes('\n')
	if err != nil {
		return nil, fmt.Errorf("driver read: %w", err)
	}
	return out, nil
}

func (d *Driver) Close() {
	d.in.Close()
	d.cmd.Wait()
}
