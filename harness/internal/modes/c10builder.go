package modes

import (
	"bufio"
	"context"
	"crypto/tls"
	"encoding/json"
	"fmt"
	"net"
	"strings"
	"sync/atomic"
	"time"

	lime "github.com/takenet/lime-go"

	"limeverif/internal/pair"
)

// c10BuilderCases: the documented configuration — ServerBuilder.EncryptionOptions(TLS) on a
// TLS-capable TCP listener — against raw clients that skip, refuse or accept the negotiation.
// Everything the server writes before a TLS handshake is cleartext and is read as such.
func c10BuilderCases(e *Env) error {
	for _, behaviour := range []string{"skip-to-credentials", "select-none", "select-tls", "library-none-selector",
		// the selection and the credentials in one cleartext write, then the TLS handshake and silence: what the
		// server had read ahead before the upgrade was not protected by it and must not be used
		"select-tls-pipelined",
		// a second, in-process listener whose connections cannot provide TLS is served first: what was decided
		// for that connection must not carry over to the TLS-capable one
		"inproc-first-skip-to-credentials", "inproc-first-select-tls"} {
		e.Rep.Eval()
		e.Rep.Count("builder-case=" + behaviour)
		msg, err := c10BuilderCase(behaviour)
		if err != nil {
			return err
		}
		e.Rep.Nontrivial("builder:" + behaviour)
		if msg != "" {
			e.Rep.Violate("impl", "c10-builder-cleartext", "ServerBuilder.EncryptionOptions(TLS) on a TLS-capable TCP listener, client "+behaviour+": "+msg,
				map[string]interface{}{"builder_case": behaviour})
		}
	}
	return nil
}

func c10BuilderCase(behaviour string) (string, error) {
	srvTLS, cliTLS := pair.TLSConfigs()
	addr, err := freePort()
	if err != nil {
		return "", err
	}
	authCalls := make(chan string, 8)
	b := lime.NewServerBuilder().Name("postmaster").Domain("verif.local").Instance("s").
		EncryptionOptions(lime.SessionEncryptionTLS).
		EnablePlainAuthentication(func(_ context.Context, _ lime.Identity, _ string) (*lime.AuthenticationResult, error) {
			authCalls <- "plain"
			return lime.MemberAuthenticationResult(), nil
		}).
		Register(func(_ context.Context, n lime.Node, _ *lime.ServerChannel) (lime.Node, error) { return n, nil }).
		ListenTCP(addr, &lime.TCPConfig{TLSConfig: srvTLS})
	inprocFirst := strings.HasPrefix(behaviour, "inproc-first-")
	inAddr := lime.InProcessAddr(fmt.Sprintf("verif-c10-%d", atomic.AddInt64(&srvSeq, 1)))
	if inprocFirst {
		behaviour = strings.TrimPrefix(behaviour, "inproc-first-")
		b.ListenInProcess(inAddr)
	}
	srv := b.Build()
	done := make(chan error, 1)
	go func() { done <- srv.ListenAndServe() }()
	defer func() {
		srv.Close()
		select {
		case <-done:
		case <-time.After(10 * time.Second):
		}
	}()
	var conn net.Conn
	for i := 0; i < 200; i++ {
		conn, err = net.DialTimeout("tcp", addr.String(), time.Second)
		if err == nil {
			break
		}
		time.Sleep(5 * time.Millisecond)
	}
	if err != nil {
		return "", fmt.Errorf("c10 builder case: dial: %w", err)
	}
	defer conn.Close()
	if inprocFirst {
		// the first connection the server ever handles is an in-process one
		var it lime.Transport
		for i := 0; i < 200; i++ {
			it, err = lime.DialInProcess(inAddr, 1)
			if err == nil {
				break
			}
			time.Sleep(5 * time.Millisecond)
		}
		if err != nil {
			return "", fmt.Errorf("c10 builder case: in-process dial: %w", err)
		}
		ic := lime.NewClientChannel(it, 1)
		ictx, icancel := context.WithTimeout(context.Background(), 3*time.Second)
		_, _ = ic.EstablishSession(ictx, lime.NoneCompressionSelector, lime.NoneEncryptionSelector,
			lime.Identity{Name: "bob", Domain: "verif.local"},
			func([]lime.AuthenticationScheme, lime.Authentication) lime.Authentication {
				return &lime.PlainAuthentication{Password: "cHc="}
			}, "home")
		icancel()
		go ic.Close()
		// its authentication, if any, is not the TCP client's
		for len(authCalls) > 0 {
			<-authCalls
		}
	}
	if behaviour == "library-none-selector" {
		ct := lime.NewTCPTransportFromConn(conn, false, &lime.TCPConfig{TLSConfig: cliTLS})
		cc := lime.NewClientChannel(ct, 1)
		ctx, cancel := context.WithTimeout(context.Background(), 8*time.Second)
		defer cancel()
		ses, err := cc.EstablishSession(ctx, lime.NoneCompressionSelector, lime.NoneEncryptionSelector,
			lime.Identity{Name: "alice", Domain: "verif.local"},
			func([]lime.AuthenticationScheme, lime.Authentication) lime.Authentication {
				return &lime.PlainAuthentication{Password: "cHc="}
			}, "home")
		if err == nil && ses != nil && ses.State == lime.SessionStateEstablished && ct.Encryption() != lime.SessionEncryptionTLS {
			return "a library client that prefers cleartext was established with encryption " + string(ct.Encryption()), nil
		}
		select {
		case <-authCalls:
			if ct.Encryption() != lime.SessionEncryptionTLS {
				return "the authenticator was called for a client whose connection is not encrypted", nil
			}
		default:
		}
		return "", nil
	}
	conn.SetDeadline(time.Now().Add(8 * time.Second))
	rd := bufio.NewReader(conn)
	send := func(v string) { conn.Write([]byte(v + "\n")) }
	readSes := func() (map[string]interface{}, error) {
		line, err := rd.ReadBytes('\n')
		if err != nil {
			return nil, err
		}
		var m map[string]interface{}
		if err := json.Unmarshal(line, &m); err != nil {
			return nil, fmt.Errorf("non-JSON (encrypted?) data")
		}
		return m, nil
	}
	cleartextSeen := []string{}
	check := func(m map[string]interface{}) string {
		st, _ := m["state"].(string)
		cleartextSeen = append(cleartextSeen, st)
		if st == "authenticating" || st == "established" {
			return "the server sent a " + st + " session in cleartext (" + strings.Join(cleartextSeen, ",") + ")"
		}
		return ""
	}
	send(`{"state":"new"}`)
	m, err := readSes()
	if err != nil {
		return "", nil // the server went away: fail closed
	}
	if msg := check(m); msg != "" {
		return msg, nil
	}
	if opts, ok := m["encryptionOptions"].([]interface{}); ok {
		for _, o := range opts {
			if o == "none" {
				return "the server offers 'none' although only TLS is configured: " + fmt.Sprint(opts), nil
			}
		}
	}
	id, _ := m["id"].(string)
	switch behaviour {
	case "skip-to-credentials":
		send(fmt.Sprintf(`{"id":%q,"from":"alice@verif.local/home","state":"authenticating","scheme":"plain","authentication":{"password":"cHc="}}`, id))
	case "select-none":
		send(fmt.Sprintf(`{"id":%q,"state":"negotiating","compression":"none","encryption":"none"}`, id))
	case "select-tls":
		send(fmt.Sprintf(`{"id":%q,"state":"negotiating","compression":"none","encryption":"tls"}`, id))
	case "select-tls-pipelined":
		send(fmt.Sprintf(`{"id":%q,"state":"negotiating","compression":"none","encryption":"tls"}`, id) + "\n" +
			fmt.Sprintf(`{"id":%q,"from":"alice@verif.local/home","state":"authenticating","scheme":"plain","authentication":{"password":"cHc="}}`, id))
	}
	for i := 0; i < 4; i++ {
		m, err = readSes()
		if err != nil {
			break // closed, or TLS bytes: nothing more in cleartext
		}
		if msg := check(m); msg != "" {
			return msg, nil
		}
		if st, _ := m["state"].(string); st == "failed" {
			break
		}
		if behaviour == "select-tls" {
			break // the confirmation; what follows is the TLS handshake
		}
		if behaviour == "select-tls-pipelined" {
			// the confirmation: the client does its TLS handshake and then says nothing more
			conn.SetDeadline(time.Now().Add(5 * time.Second))
			tc := tls.Client(conn, cliTLS)
			if herr := tc.Handshake(); herr != nil {
				return "", nil // no TLS, no session: fail closed
			}
			select {
			case <-authCalls:
				return "the authenticator was called with credentials that were sent in cleartext, before the TLS handshake (the client sent nothing over TLS)", nil
			case <-time.After(500 * time.Millisecond):
			}
			return "", nil
		}
	}
	select {
	case <-authCalls:
		return "the authenticator was called although the connection never left cleartext", nil
	case <-time.After(50 * time.Millisecond):
	}
	return "", nil
}
