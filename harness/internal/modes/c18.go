package modes

import (
	"context"
	"net"
	"encoding/json"
	"errors"
	"fmt"
	"runtime"
	"strings"
	"sync"
	"sync/atomic"
	"time"

	lime "github.com/takenet/lime-go"
)

// ---- C18: server start/stop under any timing -------------------------------------------------

type c18Case struct {
	Listeners []string `json:"listeners"` // inproc | tcp | ws
	Clients   []string `json:"clients"`   // est (full handshake) | half (sends new, then waits) | dial (connects only) | bad (handshake that is refused)
	CloseAt   string   `json:"close_at"`  // start (no wait after calling ListenAndServe) | ready | storm | clients
	JitterUs  int      `json:"jitter_us"`
	Storm     int      `json:"storm"` // dial attempts racing with Close
}

type c18Res struct {
	ServeErr     string   `json:"serve_err"`
	ServeClosed  bool     `json:"serve_closed"` // errors.Is(err, ErrServerClosed)
	ServeTimeout bool     `json:"serve_timeout"`
	CloseErr     string   `json:"close_err"`
	Problems     []string `json:"problems"`
	Established  int      `json:"established"`
	Leaked       []string `json:"leaked,omitempty"`
	Events       []string `json:"events,omitempty"` // callback / handler log, oldest first: E:<sid> F:<sid> H:<sid>
}

const guestUUID = "7b2f3a52-9f0d-4c0b-8d5e-0a4d4f1f2c11"

type cbLog struct {
	mu     sync.Mutex
	events []string // "E:<sid>", "F:<sid>", "H:<sid>"
}

func (l *cbLog) add(s string) { l.mu.Lock(); l.events = append(l.events, s); l.mu.Unlock() }

func limeGoroutines() []string {
	buf := make([]byte, 1<<20)
	n := runtime.Stack(buf, true)
	out := []string{}
	for _, g := range strings.Split(string(buf[:n]), "\n\n") {
		if strings.Contains(g, "takenet/lime-go.") && !strings.Contains(g, "limeverif/") {
			// first lime-go frame
			for _, l := range strings.Split(g, "\n") {
				if strings.Contains(l, "takenet/lime-go.") {
					out = append(out, strings.TrimSpace(l))
					break
				}
			}
		}
	}
	return out
}

func runC18Case(c *c18Case) c18Res {
	if c.CloseAt == "during-listen" {
		return runC18Gate(c)
	}
	res := c18Res{Problems: []string{}}
	cb := &cbLog{}
	var srvRef atomic.Value // *lime.Server, for the authenticator that closes the server from inside the handshake
	b := lime.NewServerBuilder().Name("postmaster").Domain("verif.local").Instance("s").
		EnableGuestAuthentication().
		EnablePlainAuthentication(func(_ context.Context, _ lime.Identity, pwd string) (*lime.AuthenticationResult, error) {
			if pwd == "close-now" {
				if s, ok := srvRef.Load().(*lime.Server); ok {
					_ = s.Close()
				}
			}
			return lime.MemberAuthenticationResult(), nil
		}).
		Register(func(_ context.Context, cand lime.Node, _ *lime.ServerChannel) (lime.Node, error) {
			return lime.Node{Identity: lime.Identity{Name: cand.Name, Domain: "verif.local"}, Instance: "x"}, nil
		}).
		Established(func(id string, _ *lime.ServerChannel) { cb.add("E:" + id) }).
		Finished(func(id string) { cb.add("F:" + id) }).
		MessagesHandlerFunc(func(ctx context.Context, m *lime.Message, _ lime.Sender) error {
			id, _ := lime.ContextSessionID(ctx)
			cb.add("H:" + id)
			return nil
		})
	hasFlood := false
	for _, k := range c.Clients {
		if k == "est-flood" {
			hasFlood = true
		}
	}
	if hasFlood {
		// a session whose notifications are not being consumed: a one-slot buffer and a handler that
		// holds on to the first notification until its context ends
		b.ChannelBufferSize(1).NotificationsHandlerFunc(func(ctx context.Context, _ *lime.Notification) error {
			<-ctx.Done()
			return nil
		})
	}
	dials := []func() (lime.Transport, error){}
	rawDials := []func() (net.Conn, error){} // ws listeners only: a bare TCP connection to the HTTP server
	for _, l := range c.Listeners {
		switch l {
		case "inproc":
			addr := lime.InProcessAddr(fmt.Sprintf("verif-c18-%d", atomic.AddInt64(&srvSeq, 1)))
			b.ListenInProcess(addr)
			dials = append(dials, func() (lime.Transport, error) { return lime.DialInProcess(addr, 4) })
		case "tcp":
			a, err := freePort()
			if err != nil {
				res.Problems = append(res.Problems, "harness: "+err.Error())
				return res
			}
			b.ListenTCP(a, nil)
			dials = append(dials, func() (lime.Transport, error) {
				ctx, cl := context.WithTimeout(context.Background(), 2*time.Second)
				defer cl()
				return lime.DialTcp(ctx, a, nil)
			})
		case "ws":
			a, err := freePort()
			if err != nil {
				res.Problems = append(res.Problems, "harness: "+err.Error())
				return res
			}
			b.ListenWebsocket(a, nil)
			rawDials = append(rawDials, func() (net.Conn, error) { return net.DialTimeout("tcp", a.String(), 2*time.Second) })
			dials = append(dials, func() (lime.Transport, error) {
				ctx, cl := context.WithTimeout(context.Background(), 2*time.Second)
				defer cl()
				return lime.DialWebsocket(ctx, "ws://"+a.String(), nil, nil)
			})
		}
	}
	srv := b.Build()
	srvRef.Store(srv)
	serveDone := make(chan error, 1)
	go func() { serveDone <- srv.ListenAndServe() }()

	waitReady := func() bool {
		deadline := time.Now().Add(5 * time.Second)
		for _, d := range dials {
			for {
				t, err := d()
				if err == nil {
					t.Close()
					break
				}
				if time.Now().After(deadline) {
					return false
				}
				time.Sleep(time.Millisecond)
			}
		}
		return true
	}
	type cli struct {
		kind string
		ch   *lime.ClientChannel
		est     bool
		dropped bool // the client closed its own connection: it does not wait for a finished session
		sid     string
	}
	clis := []*cli{}
	pending := []net.Conn{}
	if c.CloseAt != "start" {
		if !waitReady() {
			res.Problems = append(res.Problems, "harness: server did not become ready")
		}
		for i, k := range c.Clients {
			if k == "half-upgrade" {
				// a connection in the middle of its WebSocket upgrade request when the server is closed
				if len(rawDials) == 0 {
					continue
				}
				rc, err := rawDials[i%len(rawDials)]()
				if err != nil {
					res.Problems = append(res.Problems, "harness: raw dial: "+err.Error())
					continue
				}
				_, _ = rc.Write([]byte("GET / HTTP/1.1\r\nHost: verif\r\nUpgrade: websocket\r\nConnection: Upg"))
				pending = append(pending, rc)
				continue
			}
			t, err := dials[i%len(dials)]()
			if err != nil {
				res.Problems = append(res.Problems, "harness: dial: "+err.Error())
				continue
			}
			cl := &cli{kind: k, ch: lime.NewClientChannel(t, 4)}
			clis = append(clis, cl)
			ctx, cancel := context.WithTimeout(context.Background(), 5*time.Second)
			switch k {
			case "est-flood":
				ses, err := cl.ch.EstablishSession(ctx, lime.NoneCompressionSelector, lime.NoneEncryptionSelector,
					lime.Identity{Name: guestUUID, Domain: "verif.local"}, lime.GuestAuthenticator, "i")
				if err == nil && ses.State == lime.SessionStateEstablished {
					cl.est = true
					cl.sid = ses.ID
					res.Established++
					for j := 0; j < 6; j++ {
						n := &lime.Notification{Event: lime.NotificationEventReceived}
						n.ID = fmt.Sprintf("n%d", j)
						sctx, sc := context.WithTimeout(context.Background(), time.Second)
						_ = cl.ch.SendNotification(sctx, n)
						sc()
					}
					time.Sleep(50 * time.Millisecond) // let the server's receiver run into the full buffer
				} else {
					res.Problems = append(res.Problems, fmt.Sprintf("harness: establish failed: %v", err))
				}
			case "est-drop":
				// established, then the client's connection is gone without a word: the session did reach the
				// established state, so both callbacks are due — Finished too
				ses, err := cl.ch.EstablishSession(ctx, lime.NoneCompressionSelector, lime.NoneEncryptionSelector,
					lime.Identity{Name: guestUUID, Domain: "verif.local"}, lime.GuestAuthenticator, "i")
				if err == nil && ses.State == lime.SessionStateEstablished {
					cl.est = true
					cl.dropped = true
					cl.sid = ses.ID
					res.Established++
					_ = t.Close()
					time.Sleep(30 * time.Millisecond)
				} else {
					res.Problems = append(res.Problems, fmt.Sprintf("harness: establish failed: %v", err))
				}
			case "est":
				ses, err := cl.ch.EstablishSession(ctx, lime.NoneCompressionSelector, lime.NoneEncryptionSelector,
					lime.Identity{Name: guestUUID, Domain: "verif.local"}, lime.GuestAuthenticator, "i")
				if err == nil && ses.State == lime.SessionStateEstablished {
					cl.est = true
					cl.sid = ses.ID
					res.Established++
					m := &lime.Message{}
					m.SetContent(lime.TextDocument("hello"))
					_ = cl.ch.SendMessage(ctx, m)
				} else {
					res.Problems = append(res.Problems, fmt.Sprintf("harness: establish failed: %v", err))
				}
			case "est-closing":
				// the server is closed from inside this client's Authenticate callback: the handshake
				// may still complete, and then the session is a session like any other
				ses, err := cl.ch.EstablishSession(ctx, lime.NoneCompressionSelector, lime.NoneEncryptionSelector,
					lime.Identity{Name: "closer", Domain: "verif.local"},
					func([]lime.AuthenticationScheme, lime.Authentication) lime.Authentication {
						a := &lime.PlainAuthentication{}
						a.SetPasswordAsBase64("close-now")
						return a
					}, "i")
				if err == nil && ses.State == lime.SessionStateEstablished {
					cl.est = true
					cl.sid = ses.ID
					res.Established++
				}
			case "bad":
				// guest with a non-UUID name is refused by the built-in authenticator
				_, _ = cl.ch.EstablishSession(ctx, lime.NoneCompressionSelector, lime.NoneEncryptionSelector,
					lime.Identity{Name: "not-a-uuid", Domain: "verif.local"}, lime.GuestAuthenticator, "i")
			case "half":
				_ = t.Send(ctx, &lime.Session{State: lime.SessionStateNew})
			}
			cancel()
		}
	}
	stormDone := make(chan struct{})
	if c.CloseAt == "storm" {
		go func() {
			defer close(stormDone)
			var wg sync.WaitGroup
			for i := 0; i < c.Storm; i++ {
				wg.Add(1)
				go func(i int) {
					defer wg.Done()
					t, err := dials[i%len(dials)]()
					if err == nil {
						time.Sleep(time.Duration(i%3) * 50 * time.Microsecond)
						t.Close()
					}
				}(i)
			}
			wg.Wait()
		}()
	} else {
		close(stormDone)
	}
	if c.JitterUs > 0 {
		time.Sleep(time.Duration(c.JitterUs) * time.Microsecond)
	}
	var cerr error
	if c.CloseAt == "start" {
		// Close is only meaningful once ListenAndServe has started; retry while it reports
		// that the server is not listening yet.
		deadline := time.Now().Add(3 * time.Second)
		for {
			cerr = srv.Close()
			if cerr == nil || !strings.Contains(cerr.Error(), "not listening") || time.Now().After(deadline) {
				break
			}
			runtime.Gosched()
		}
	} else {
		cerr = srv.Close()
	}
	if cerr != nil && c.CloseAt == "in-auth" && strings.Contains(cerr.Error(), "not listening") {
		cerr = nil // the server was closed from inside the handshake already
	}
	if cerr != nil {
		res.CloseErr = cerr.Error()
	}
	select {
	case err := <-serveDone:
		if err != nil {
			res.ServeErr = err.Error()
		}
		res.ServeClosed = errors.Is(err, lime.ErrServerClosed)
	case <-time.After(15 * time.Second):
		res.ServeTimeout = true
	}
	<-stormDone
	// listeners stopped
	for i, d := range dials {
		if t, err := d(); err == nil {
			res.Problems = append(res.Problems, fmt.Sprintf("listener %s still accepts connections after Close and the return of ListenAndServe", c.Listeners[i]))
			// a tcp/ws dial may still connect to a backlog; it must not be served
			ctx, cancel := context.WithTimeout(context.Background(), 300*time.Millisecond)
			_ = t.Send(ctx, &lime.Session{State: lime.SessionStateNew})
			env, rerr := t.Receive(ctx)
			cancel()
			if rerr == nil && env != nil {
				res.Problems = append(res.Problems, fmt.Sprintf("listener %s still serves connections after Close", c.Listeners[i]))
			}
			t.Close()
		}
	}
	// a connection that was in the middle of its upgrade request is closed by the server, not left open
	for _, rc := range pending {
		_ = rc.SetReadDeadline(time.Now().Add(4 * time.Second))
		buf := make([]byte, 256)
		for {
			_, err := rc.Read(buf)
			if err != nil {
				if ne, ok := err.(net.Error); ok && ne.Timeout() {
					res.Problems = append(res.Problems, "a connection accepted by the ws listener before Close (upgrade request not complete) is still open 4 s after Close and the return of ListenAndServe")
				}
				break
			}
		}
		rc.Close()
	}
	// every established client observes finished
	for _, cl := range clis {
		if !cl.est || cl.dropped {
			continue
		}
		select {
		case <-cl.ch.RcvDone():
			if st := cl.ch.State(); st != lime.SessionStateFinished {
				res.Problems = append(res.Problems, fmt.Sprintf("established client observed state %v after server Close, want finished", st))
			}
		case <-time.After(12 * time.Second):
			res.Problems = append(res.Problems, "established client never observed the end of its session after server Close")
		}
	}
	for _, cl := range clis {
		go cl.ch.Close()
	}
	// callbacks: exactly E then F for established sessions, nothing for others
	time.Sleep(20 * time.Millisecond)
	deadline := time.Now().Add(8 * time.Second)
	for {
		cb.mu.Lock()
		nF := 0
		for _, e := range cb.events {
			if strings.HasPrefix(e, "F:") {
				nF++
			}
		}
		cb.mu.Unlock()
		if nF >= res.Established || time.Now().After(deadline) {
			break
		}
		time.Sleep(5 * time.Millisecond)
	}
	cb.mu.Lock()
	res.Events = append([]string{}, cb.events...)
	estSids := map[string]bool{}
	for _, cl := range clis {
		if cl.est {
			estSids[cl.sid] = true
		}
	}
	count := map[string]int{}
	pos := map[string]int{}
	for i, e := range cb.events {
		count[e]++
		if _, ok := pos[e]; !ok {
			pos[e] = i
		}
	}
	for e, n := range count {
		sid := e[2:]
		if (e[0] == 'E' || e[0] == 'F') && n != 1 {
			res.Problems = append(res.Problems, fmt.Sprintf("callback %c fired %d times for one session", e[0], n))
		}
		if (e[0] == 'E' || e[0] == 'F') && !estSids[sid] {
			res.Problems = append(res.Problems, fmt.Sprintf("callback %c fired for a session that never reached the established state", e[0]))
		}
	}
	for sid := range estSids {
		pe, okE := pos["E:"+sid]
		pf, okF := pos["F:"+sid]
		ph, okH := pos["H:"+sid]
		if !okE {
			res.Problems = append(res.Problems, "Established callback missing for an established session")
		}
		if !okF {
			res.Problems = append(res.Problems, "Finished callback missing for an established session")
		}
		if okE && okF && pf < pe {
			res.Problems = append(res.Problems, "Finished callback before Established")
		}
		if okE && okH && ph < pe {
			res.Problems = append(res.Problems, "a handler ran before the Established callback")
		}
	}
	cb.mu.Unlock()
	// goroutine census (TCP receivers wake on the 5 s poll: allow 7 s)
	deadline = time.Now().Add(7 * time.Second)
	for {
		res.Leaked = limeGoroutines()
		if len(res.Leaked) == 0 || time.Now().After(deadline) {
			break
		}
		time.Sleep(20 * time.Millisecond)
	}
	if len(res.Leaked) > 0 {
		res.Problems = append(res.Problems, fmt.Sprintf("%d goroutine(s) of the library left after Close, first at %s", len(res.Leaked), res.Leaked[0]))
	}
	if res.ServeTimeout {
		res.Problems = append(res.Problems, "ListenAndServe did not return after Close")
	} else if !res.ServeClosed {
		res.Problems = append(res.Problems, "ListenAndServe returned "+res.ServeErr+" instead of the server-closed error")
	}
	return res
}

func genC18Case(e *Env) *c18Case {
	r := e.Rng
	c := &c18Case{}
	all := []string{"inproc", "tcp", "ws"}
	n := 1 + r.Intn(2)
	for i := 0; i < n; i++ {
		c.Listeners = append(c.Listeners, all[r.Intn(3)])
	}
	ats := []string{"start", "ready", "storm", "clients", "clients", "in-auth", "during-listen"}
	c.CloseAt = ats[r.Intn(len(ats))]
	if c.CloseAt == "in-auth" {
		for i := 0; i < r.Intn(3); i++ {
			c.Clients = append(c.Clients, "est")
		}
		c.Clients = append(c.Clients, "est-closing")
	}
	if c.CloseAt == "clients" {
		kinds := []string{"est", "est", "half", "dial", "bad", "est-flood", "half-upgrade", "est-drop"}
		m := 1 + r.Intn(3)
		for i := 0; i < m; i++ {
			c.Clients = append(c.Clients, kinds[r.Intn(len(kinds))])
		}
	}
	if c.CloseAt == "storm" {
		c.Storm = 4 + r.Intn(24)
	}
	js := []int{0, 0, 10, 50, 200, 1000}
	c.JitterUs = js[r.Intn(len(js))]
	return c
}

// c18Key classifies a problem for the known-findings filter.
func c18Key(problem string) string {
	switch {
	case strings.Contains(problem, "panic"):
		return "c18-panic"
	case strings.Contains(problem, "still accepts connections") || strings.Contains(problem, "cannot be started again") || strings.Contains(problem, "is still open 4 s after Close"):
		return "c18-listener-left"
	case strings.Contains(problem, "instead of the server-closed error"):
		return "c18-serve-error"
	case strings.Contains(problem, "never reached the established state"):
		return "c18-callback-unestablished"
	case strings.Contains(problem, "goroutine"):
		return "c18-leak"
	case strings.Contains(problem, "harness:"):
		return "c18-harness"
	}
	return "c18-other"
}

func init() {
	Register("c18child", func(e *Env) error {
		ReadChildCases(func(n int, raw json.RawMessage) {
			var c c18Case
			if err := json.Unmarshal(raw, &c); err != nil {
				return
			}
			ChildBegin(n, &c)
			res := runC18Case(&c)
			ChildEnd(n, res)
		})
		return nil
	})
	Register("c18", func(e *Env) error {
		e.Rep.Rule = "real Server with 1-2 listeners (in-process, TCP, WebSocket), Close at a chosen moment (during start-up, when ready, during an accept storm, with established / half-open / refused clients, with a session whose inbound notifications are not being consumed, with a WebSocket connection in the middle of its upgrade request) with jitter; each round runs in a child process so that panics on library goroutines are observed; non-trivial = a round whose server started; distinct = distinct (case, outcome class)"
		cases := []interface{}{}
		if e.Replay != "" {
			b, err := readReplayCase(e.Replay)
			if err != nil {
				return err
			}
			var c c18Case
			var wrap struct {
				Case *c18Case `json:"case"`
			}
			if json.Unmarshal(b, &wrap) == nil && wrap.Case != nil && len(wrap.Case.Listeners) > 0 {
				c = *wrap.Case // a violation is recorded as {case, res}
			} else if err := json.Unmarshal(b, &c); err != nil {
				return err
			}
			if len(c.Listeners) == 0 {
				return fmt.Errorf("bad replay file: no listeners in the case")
			}
			for i := 0; i < 20; i++ {
				cases = append(cases, &c)
			}
		} else {
			// fixed cases first: a session whose inbound notifications are not being consumed when the server
			// is closed (one-slot buffer, handler holding on to the first), and a WebSocket connection in
			// the middle of its upgrade request at Close
			for rep := 0; rep < e.N(2, 6); rep++ {
				cases = append(cases,
					&c18Case{Listeners: []string{"inproc"}, Clients: []string{"est-flood"}, CloseAt: "clients"},
					&c18Case{Listeners: []string{"tcp"}, Clients: []string{"est-flood", "est"}, CloseAt: "clients"},
					&c18Case{Listeners: []string{"ws"}, Clients: []string{"est", "half-upgrade"}, CloseAt: "clients"},
					&c18Case{Listeners: []string{"ws", "inproc"}, Clients: []string{"half-upgrade", "est"}, CloseAt: "clients", JitterUs: 200},
					&c18Case{Listeners: []string{"inproc"}, Clients: []string{"est-drop", "est"}, CloseAt: "clients"},
					&c18Case{Listeners: []string{"tcp"}, Clients: []string{"est", "est-drop"}, CloseAt: "clients"})
			}
			n := e.N(240, 4000)
			for i := 0; i < n; i++ {
				cases = append(cases, genC18Case(e))
			}
		}
		// run in parallel children
		workers := 8
		chunks := make([][]interface{}, workers)
		for i, c := range cases {
			chunks[i%workers] = append(chunks[i%workers], c)
		}
		var wg sync.WaitGroup
		var mu sync.Mutex
		var firstErr error
		for _, ch := range chunks {
			if len(ch) == 0 {
				continue
			}
			wg.Add(1)
			go func(ch []interface{}) {
				defer wg.Done()
				rs, err := RunChild("c18child", ch, 60*time.Second)
				mu.Lock()
				defer mu.Unlock()
				if err != nil && firstErr == nil {
					firstErr = err
				}
				for _, r := range rs {
					e.Rep.Eval()
					var c c18Case
					json.Unmarshal(r.Case, &c)
					e.Rep.Count("close_at=" + c.CloseAt)
					if r.Res == nil {
						e.Rep.Count("outcome=crash")
						e.Rep.Nontrivial(string(r.Case) + "crash")
						e.Rep.Violate("impl", "c18-panic", "server process died: "+r.Crash, map[string]interface{}{"case": c, "crash": r.Crash})
						continue
					}
					var res c18Res
					json.Unmarshal(r.Res, &res)
					e.Rep.Nontrivial(string(r.Case) + fmt.Sprint(res.ServeClosed, len(res.Problems)))
					e.Rep.Sample(map[string]interface{}{"case": c, "res": res}, 3)
					if len(res.Problems) == 0 {
						e.Rep.Count("outcome=ok")
					}
					// the callback log, judged by the compiled Lean predicate as well
					if e.Drv != nil {
						idx := map[string]int{}
						log := [][]interface{}{}
						for _, ev := range res.Events {
							sid := ev[2:]
							if _, ok := idx[sid]; !ok {
								idx[sid] = len(idx)
							}
							log = append(log, []interface{}{ev[:1], idx[sid]})
						}
						var jr struct {
							Paired      bool `json:"paired"`
							AllFinished bool `json:"allFinished"`
						}
						if err := e.Drv.Call(map[string]interface{}{"m": "srvlife", "log": log}, &jr); err != nil {
							if firstErr == nil {
								firstErr = err
							}
						} else {
							goBad := false
							for _, p := range res.Problems {
								if strings.Contains(p, "callback") || strings.Contains(p, "Callback") || strings.Contains(p, "handler ran before") {
									goBad = true
								}
							}
							if (jr.Paired && jr.AllFinished) == goBad {
								e.Rep.Violate("corr", "c18-corr-judge", fmt.Sprintf("callback log %v: the Lean judge says paired=%v allFinished=%v, the harness judge found callback problems=%v", res.Events, jr.Paired, jr.AllFinished, goBad), map[string]interface{}{"case": c, "res": res})
							}
						}
					}
					for _, p := range res.Problems {
						k := c18Key(p)
						e.Rep.Count("outcome=" + k)
						if k == "c18-harness" {
							e.Rep.Note(p)
							continue
						}
						e.Rep.Violate("impl", k, p, map[string]interface{}{"case": c, "res": res})
					}
				}
			}(ch)
		}
		wg.Wait()
		return firstErr
	})
}

// gateListener is a listener whose Listen blocks until the harness lets it go: with it first in the
// list, a Close can be placed exactly between the start of ListenAndServe and the start of the
// listeners that follow.
type gateListener struct {
	entered chan struct{}
	release chan struct{}
	done    chan struct{}
	once    sync.Once
}

func (g *gateListener) Listen(context.Context, net.Addr) error {
	close(g.entered)
	<-g.release
	return nil
}
func (g *gateListener) Accept(ctx context.Context) (lime.Transport, error) {
	select {
	case <-ctx.Done():
		return nil, ctx.Err()
	case <-g.done:
		return nil, errors.New("gate listener closed")
	}
}
func (g *gateListener) Close() error { g.once.Do(func() { close(g.done) }); return nil }

type gateAddr string

func (gateAddr) Network() string { return "gate" }
func (gateAddr) String() string  { return "gate" }

// runC18Gate: Close overtakes the start-up (forced): afterwards no listener may be left, and the
// same addresses can be served again.
func runC18Gate(c *c18Case) c18Res {
	res := c18Res{Problems: []string{}}
	g := &gateListener{entered: make(chan struct{}), release: make(chan struct{}), done: make(chan struct{})}
	bound := []lime.BoundListener{lime.NewBoundListener(g, gateAddr("gate"))}
	type probe struct {
		kind  string
		dial  func() (lime.Transport, error)
		again func() error // start a fresh listener on the same address and stop it
	}
	probes := []probe{}
	for _, l := range c.Listeners {
		switch l {
		case "inproc":
			addr := lime.InProcessAddr(fmt.Sprintf("verif-c18g-%d", atomic.AddInt64(&srvSeq, 1)))
			bound = append(bound, lime.NewBoundListener(lime.NewInProcessTransportListener(addr), addr))
			probes = append(probes, probe{l, func() (lime.Transport, error) { return lime.DialInProcess(addr, 1) }, func() error {
				nl := lime.NewInProcessTransportListener(addr)
				if err := nl.Listen(context.Background(), addr); err != nil {
					return err
				}
				return nl.Close()
			}})
		case "tcp":
			a, err := freePort()
			if err != nil {
				res.Problems = append(res.Problems, "harness: "+err.Error())
				return res
			}
			bound = append(bound, lime.NewBoundListener(lime.NewTCPTransportListener(nil), a))
			probes = append(probes, probe{l, func() (lime.Transport, error) {
				ctx, cl := context.WithTimeout(context.Background(), time.Second)
				defer cl()
				return lime.DialTcp(ctx, a, nil)
			}, func() error {
				nl := lime.NewTCPTransportListener(nil)
				if err := nl.Listen(context.Background(), a); err != nil {
					return err
				}
				return nl.Close()
			}})
		case "ws":
			a, err := freePort()
			if err != nil {
				res.Problems = append(res.Problems, "harness: "+err.Error())
				return res
			}
			bound = append(bound, lime.NewBoundListener(lime.NewWebsocketTransportListener(nil), a))
			probes = append(probes, probe{l, func() (lime.Transport, error) {
				ctx, cl := context.WithTimeout(context.Background(), time.Second)
				defer cl()
				return lime.DialWebsocket(ctx, "ws://"+a.String(), nil, nil)
			}, func() error {
				nl := lime.NewWebsocketTransportListener(nil)
				if err := nl.Listen(context.Background(), a); err != nil {
					return err
				}
				return nl.Close()
			}})
		}
	}
	srv := lime.NewServer(lime.NewServerConfig(), &lime.EnvelopeMux{}, bound...)
	serveDone := make(chan error, 1)
	go func() { serveDone <- srv.ListenAndServe() }()
	select {
	case <-g.entered:
	case <-time.After(5 * time.Second):
		res.Problems = append(res.Problems, "harness: ListenAndServe never started its first listener")
		return res
	}
	if err := srv.Close(); err != nil {
		res.CloseErr = err.Error() // listeners that were not started yet say so
	}
	close(g.release)
	select {
	case err := <-serveDone:
		if err != nil {
			res.ServeErr = err.Error()
		}
		res.ServeClosed = errors.Is(err, lime.ErrServerClosed)
		if !res.ServeClosed {
			res.Problems = append(res.Problems, "ListenAndServe returned "+res.ServeErr+" instead of the server-closed error")
		}
	case <-time.After(15 * time.Second):
		res.ServeTimeout = true
		res.Problems = append(res.Problems, "ListenAndServe did not return after Close")
	}
	for _, p := range probes {
		if t, err := p.dial(); err == nil {
			res.Problems = append(res.Problems, fmt.Sprintf("listener %s still accepts connections after Close and the return of ListenAndServe", p.kind))
			t.Close()
		}
		if err := p.again(); err != nil {
			res.Problems = append(res.Problems, fmt.Sprintf("listener %s cannot be started again on its address after the server was closed: %v", p.kind, err))
		}
	}
	deadline := time.Now().Add(7 * time.Second)
	for {
		res.Leaked = limeGoroutines()
		if len(res.Leaked) == 0 || time.Now().After(deadline) {
			break
		}
		time.Sleep(20 * time.Millisecond)
	}
	if len(res.Leaked) > 0 {
		res.Problems = append(res.Problems, fmt.Sprintf("%d goroutine(s) of the library left after Close, first at %s", len(res.Leaked), res.Leaked[0]))
	}
	return res
}
