package modes

import (
	"context"
	"encoding/json"
	"fmt"
	"math/rand"
	"os"
	"path/filepath"
	"strconv"
	"strings"
	"sync"
	"syscall"
	"time"
	"unicode"

	lime "github.com/takenet/lime-go"

	"limeverif/internal/codec"
	"limeverif/internal/pair"
)

// ---- C02: decoding untrusted input never panics; accepted input re-encodes stably -----------

type path []int // child indices from the root (object member i / array element i)

func clone(t codec.Tree) codec.Tree {
	if t == nil {
		return nil
	}
	switch t[0].(string) {
	case "a":
		src := t[1].([]interface{})
		items := make([]interface{}, len(src))
		for i, x := range src {
			items[i] = clone(codec.AsTree(x))
		}
		return codec.Tree{"a", items}
	case "o":
		src := t[1].([]interface{})
		ms := make([]interface{}, len(src))
		for i, m := range src {
			p := m.([]interface{})
			ms[i] = []interface{}{p[0], clone(codec.AsTree(p[1]))}
		}
		return codec.Tree{"o", ms}
	}
	out := make(codec.Tree, len(t))
	copy(out, t)
	return out
}

// paths lists every node position (except the root).
func paths(t codec.Tree, prefix path, out *[]path) {
	switch t[0].(string) {
	case "a":
		for i, x := range t[1].([]interface{}) {
			p := append(append(path{}, prefix...), i)
			*out = append(*out, p)
			paths(codec.AsTree(x), p, out)
		}
	case "o":
		for i, m := range t[1].([]interface{}) {
			p := append(append(path{}, prefix...), i)
			*out = append(*out, p)
			paths(codec.AsTree(m.([]interface{})[1]), p, out)
		}
	}
}

func child(t codec.Tree, i int) codec.Tree {
	switch t[0].(string) {
	case "a":
		return codec.AsTree(t[1].([]interface{})[i])
	case "o":
		return codec.AsTree(t[1].([]interface{})[i].([]interface{})[1])
	}
	return nil
}

func setChild(t codec.Tree, i int, v codec.Tree) {
	switch t[0].(string) {
	case "a":
		t[1].([]interface{})[i] = v
	case "o":
		t[1].([]interface{})[i].([]interface{})[1] = v
	}
}

func parentOf(t codec.Tree, p path) (codec.Tree, int) {
	cur := t
	for _, i := range p[:len(p)-1] {
		cur = child(cur, i)
	}
	return cur, p[len(p)-1]
}

var replacements = []codec.Tree{
	{"z"}, {"s", "x"}, {"s", ""}, {"n", "7"}, {"n", "1.5"}, {"n", "-1e400"}, {"b", true},
	{"a", []interface{}{}}, {"a", []interface{}{codec.Tree{"z"}}}, {"o", []interface{}{}},
	{"o", []interface{}{[]interface{}{"type", codec.Tree{"s", "/"}}}},
	{"s", "/"}, {"s", "/+"}, {"s", "text/plain"}, {"s", "application/vnd.lime.container+json"},
	{"s", "application/vnd.lime.collection+json"}, {"n", "9223372036854775808"},
	{"n", "4611686018427387904"}, {"n", "1000000000000000000"}, {"n", "-9223372036854775808"}, {"n", "2147483648"},
	// strings at the edges of the text grammars (media type, node, identity, URI): separators in the wrong
	// order, repeated, leading, trailing
	{"s", "a+b/c"}, {"s", "+/"}, {"s", "text+x/plain"}, {"s", "a/b+c+d"}, {"s", "a//b"}, {"s", "/b"}, {"s", "a/"},
	{"s", "a/b/c"}, {"s", "a@b/c@d/e"}, {"s", "@"}, {"s", "a@"}, {"s", "%zz"}, {"s", "lime://x@y/z"},
}

const (
	mDelete = iota
	mReplace
	mAlien
	mDup
	mCase
	mSwap
	mKinds
)

// mutate applies mutation kind k at position p (variant selects the replacement / partner) and
// returns nil when the mutation does not apply there.
func mutate(t codec.Tree, p path, k, variant int, all []path) codec.Tree {
	out := clone(t)
	par, idx := parentOf(out, p)
	switch k {
	case mDelete:
		items := par[1].([]interface{})
		par[1] = append(append([]interface{}{}, items[:idx]...), items[idx+1:]...)
	case mReplace:
		setChild(par, idx, clone(replacements[variant%len(replacements)]))
	case mAlien:
		if par[0] != "o" {
			return nil
		}
		par[1] = append(par[1].([]interface{}), []interface{}{"alien", codec.Tree{"n", "1"}})
	case mDup:
		if par[0] != "o" {
			return nil
		}
		m := par[1].([]interface{})[idx].([]interface{})
		par[1] = append(par[1].([]interface{}), []interface{}{m[0], clone(replacements[variant%len(replacements)])})
	case mCase:
		if par[0] != "o" {
			return nil
		}
		m := par[1].([]interface{})[idx].([]interface{})
		key := []rune(m[0].(string))
		changed := false
		for i, r := range key {
			if unicode.IsLower(r) && r < 128 {
				key[i] = unicode.ToUpper(r)
				changed = true
				if variant%2 == 0 {
					break
				}
			}
		}
		if !changed {
			return nil
		}
		m[0] = string(key)
	case mSwap:
		q := all[variant%len(all)]
		if len(q) == 0 || isPrefix(p, q) || isPrefix(q, p) {
			return nil
		}
		par2, idx2 := parentOf(out, q)
		a, b := child(par, idx), child(par2, idx2)
		setChild(par, idx, clone(b))
		setChild(par2, idx2, clone(a))
	}
	return out
}

func isPrefix(a, b path) bool {
	if len(a) > len(b) {
		return false
	}
	for i := range a {
		if a[i] != b[i] {
			return false
		}
	}
	return true
}

// handSeeds are wire forms chosen to reach every decoder branch.
var handSeeds = []struct{ kind, wire string }{
	{"message", `{"id":"1","from":"a@b/c","to":"d@e","type":"text/plain","content":"hello","metadata":{"k":"v"}}`},
	{"message", `{"id":"2","type":"application/json","content":{"a":1,"b":[true,null,{"c":"d"}]}}`},
	{"message", `{"id":"3","type":"application/vnd.lime.container+json","content":{"type":"text/plain","value":"inner"}}`},
	{"message", `{"id":"4","type":"application/vnd.lime.collection+json","content":{"total":2,"itemType":"text/plain","items":["a","b"]}}`},
	{"message", `{"id":"5","type":"application/vnd.lime.collection+json","content":{"total":1,"itemType":"application/vnd.lime.container+json","items":[{"type":"application/vnd.lime.collection+json","value":{"itemType":"application/json","items":[{"x":1}]}}]}}`},
	{"message", `{"type":"application/vnd.lime.ping+json","content":{}}`},
	{"message", `{"type":"image/png","content":"base64data","pp":"p@q"}`},
	{"notification", `{"id":"1","from":"a@b","event":"received"}`},
	{"notification", `{"id":"1","event":"failed","reason":{"code":42,"description":"boom"}}`},
	{"request", `{"id":"1","method":"get","uri":"/ping"}`},
	{"request", `{"id":"2","to":"postmaster@msging.net","method":"set","uri":"/presence","type":"application/json","resource":{"status":"available"}}`},
	{"request", `{"id":"3","method":"merge","uri":"lime://user@domain.com/contacts","type":"application/vnd.lime.container+json","resource":{"type":"text/plain","value":"x"}}`},
	{"response", `{"id":"1","from":"postmaster@msging.net/s","method":"get","status":"success","type":"application/vnd.lime.ping+json","resource":{}}`},
	{"response", `{"id":"2","method":"set","status":"failure","reason":{"code":1,"description":"no"}}`},
	{"response", `{"id":"3","method":"get","status":"success","type":"application/vnd.lime.collection+json","resource":{"total":3,"itemType":"application/vnd.lime.account+json","items":[{"name":"a"},{"name":"b"}]}}`},
	{"session", `{"state":"new"}`},
	{"session", `{"id":"s1","from":"postmaster@msging.net/s","state":"negotiating","encryptionOptions":["none","tls"],"compressionOptions":["none"]}`},
	{"session", `{"id":"s1","state":"negotiating","encryption":"tls","compression":"none"}`},
	{"session", `{"id":"s1","from":"postmaster@msging.net/s","state":"authenticating","schemeOptions":["guest","plain","key","transport","external"]}`},
	{"session", `{"id":"s1","from":"u@d/i","state":"authenticating","scheme":"plain","authentication":{"password":"cGFzcw=="}}`},
	{"session", `{"id":"s1","from":"u@d/i","state":"authenticating","scheme":"key","authentication":{"key":"a2V5"}}`},
	{"session", `{"id":"s1","from":"u@d/i","state":"authenticating","scheme":"external","authentication":{"token":"dG9r","issuer":"iss"}}`},
	{"session", `{"id":"s1","from":"u@d/i","state":"authenticating","scheme":"guest","authentication":{}}`},
	{"session", `{"id":"s1","from":"u@d/i","state":"authenticating","scheme":"transport","authentication":{}}`},
	{"session", `{"id":"s1","from":"postmaster@msging.net/s","to":"u@d/i","state":"established"}`},
	{"session", `{"id":"s1","state":"failed","reason":{"code":13,"description":"bad"}}`},
	{"session", `{"id":"s1","state":"finishing"}`},
	{"session", `{"id":"s1","state":"finished"}`},
}

// c02Case is one wire form to decode; c02Impl is what the implementation did with it.
type c02Case struct {
	Kind   string `json:"kind"`
	Wire   string `json:"wire"`
	Origin string `json:"origin"`
}

type c02Route struct {
	Obs      decObs      `json:"obs"`
	Perr     string      `json:"perr,omitempty"`
	Verdicts []hsVerdict `json:"-"`
	VKeys    [][2]string `json:"verdicts,omitempty"` // (key, message) pairs of the impl oracle
	Extra    string      `json:"reencoded,omitempty"`
}

type c02Impl struct {
	Typed   c02Route `json:"typed"`
	Receive c02Route `json:"receive"`
}

// implDecodeBoth runs the implementation part of a decode case: typed decoder and receive path,
// and the oracle "accepted ⇒ re-encodes ⇒ decodes to an equal envelope" (runs in a child process).
func implDecodeBoth(kind string, wire []byte) c02Impl {
	var out c02Impl
	for _, route := range []string{"typed", "receive"} {
		var io decObs
		var val *codec.VEnv
		var perr string
		if route == "typed" {
			io, val, perr = implDecodeTyped(kind, wire)
		} else {
			io, val, perr = implReceive(wire)
		}
		r := c02Route{Obs: io, Perr: perr}
		add := func(k, m string) { r.VKeys = append(r.VKeys, [2]string{k, m}) }
		switch io.R {
		case "panic":
			add(panicKey(perr, string(wire)), "decoding ("+route+") panics: "+perr)
		case "ok":
			if val == nil {
				add("c02-uncanonical", "decoder accepted a value the harness cannot canonicalise: "+perr)
				break
			}
			ie, bytes2, eerr := implEncode(val)
			if ie.R != "ok" {
				add(reencodeKey(eerr), "an accepted envelope cannot be encoded again ("+ie.R+"): "+eerr)
				break
			}
			var io2 decObs
			var perr2 string
			if route == "typed" {
				io2, _, perr2 = implDecodeTyped(val.Kind, bytes2)
			} else {
				io2, _, perr2 = implReceive(bytes2)
			}
			if io2.R != "ok" {
				r.Extra = string(bytes2)
				add(reencodeKey(perr2), "the re-encoding of an accepted envelope is rejected ("+io2.R+"): "+perr2)
				break
			}
			a, _ := codec.CanonValueLoose(io.Env)
			b, _ := codec.CanonValueLoose(io2.Env)
			if a != b {
				r.Extra = string(bytes2)
				add("c02-reencode-differs", "re-encoding an accepted envelope and decoding it again gives a different envelope: "+a+" vs "+b)
			}
		}
		if route == "typed" {
			out.Typed = r
		} else {
			out.Receive = r
		}
	}
	return out
}

// judgeDecode diffs the implementation's observation with the model and records the oracle verdicts.
func judgeDecode(e *Env, c *c02Case, impl *c02Impl, crash string) error {
	e.Rep.Eval()
	t, err := codec.ParseTree([]byte(c.Wire))
	if err != nil {
		return err
	}
	if impl == nil {
		e.Rep.Violate("impl", "c02-crash", "decoding kills the process: "+crash, c)
		return nil
	}
	for _, route := range []string{"typed", "receive"} {
		r := impl.Typed
		k := c.Kind
		if route == "receive" {
			r = impl.Receive
			k = "any"
		}
		e.Rep.Count("dec-" + route + "=" + r.Obs.R)
		cc := map[string]interface{}{"kind": c.Kind, "wire": c.Wire, "route": route, "origin": c.Origin}
		if e.Drv != nil && !hugeNumber(t) {
			mo, err := e.modelDec(k, t)
			if err != nil {
				return err
			}
			if ok, why := sameDec(r.Obs, mo); !ok {
				c2 := map[string]interface{}{"kind": c.Kind, "wire": c.Wire, "route": route, "origin": c.Origin, "impl": r.Obs, "model": mo, "impl_error": r.Perr}
				e.Rep.Violate("corr", "c02-dec-corr", "model and implementation decode ("+route+") differently: "+why, c2)
			}
		}
		if r.Obs.R == "ok" {
			e.Rep.Nontrivial(route + c.Wire)
		}
		for _, v := range r.VKeys {
			if r.Extra != "" {
				cc["reencoded"] = r.Extra
			}
			e.Rep.Violate("impl", v[0], v[1], cc)
		}
	}
	return nil
}

// runDecodeCases runs the cases on the implementation in child processes (a crafted input that
// makes the decoder exhaust memory kills the process; the crashing input is then known) and judges.
func runDecodeCases(e *Env, cases []*c02Case) error {
	workers := 8
	chunks := make([][]interface{}, workers)
	for i, c := range cases {
		chunks[i%workers] = append(chunks[i%workers], c)
	}
	type one struct {
		c     *c02Case
		impl  *c02Impl
		crash string
	}
	var mu sync.Mutex
	all := []one{}
	var firstErr error
	var wg sync.WaitGroup
	for _, ch := range chunks {
		if len(ch) == 0 {
			continue
		}
		wg.Add(1)
		go func(ch []interface{}) {
			defer wg.Done()
			rs, err := RunChild("c02child", ch, 60*time.Second)
			mu.Lock()
			defer mu.Unlock()
			if err != nil && firstErr == nil {
				firstErr = err
			}
			for _, r := range rs {
				var c c02Case
				json.Unmarshal(r.Case, &c)
				if r.Res == nil {
					all = append(all, one{&c, nil, r.Crash})
					continue
				}
				var im c02Impl
				json.Unmarshal(r.Res, &im)
				all = append(all, one{&c, &im, ""})
			}
		}(ch)
	}
	wg.Wait()
	if firstErr != nil {
		return firstErr
	}
	for _, o := range all {
		if err := judgeDecode(e, o.c, o.impl, o.crash); err != nil {
			return err
		}
	}
	return nil
}

// panicKey / reencodeKey classify the known families for the findings filter.
func panicKey(perr, wire string) string {
	if strings.Contains(perr, "nil pointer dereference") {
		return "c02-panic-nil-document"
	}
	return "c02-panic"
}

// reencodeKey classifies by the reason the re-encoding is refused.
func reencodeKey(why string) string {
	switch {
	case strings.Contains(why, "invalid media type"):
		return "c02-reencode-zero-mediatype"
	case strings.Contains(why, "could not determine the envelope type"):
		return "c02-reencode-kind-lost"
	case strings.Contains(why, "is required"):
		return "c02-reencode-required-lost"
	}
	return "c02-reencode"
}

// hugeNumber reports a number literal outside float64 range somewhere in the tree; encoding/json
// rejects those when decoding into interface{} values, which the model does not represent
// (literal ↔ value is part of the trusted bytes ↔ tree layer), so such trees skip the model diff.
func hugeNumber(t codec.Tree) bool {
	switch t[0].(string) {
	case "n":
		_, err := strconv.ParseFloat(t[1].(string), 64)
		return err != nil
	case "a":
		for _, x := range t[1].([]interface{}) {
			if hugeNumber(codec.AsTree(x)) {
				return true
			}
		}
	case "o":
		for _, m := range t[1].([]interface{}) {
			if hugeNumber(codec.AsTree(m.([]interface{})[1])) {
				return true
			}
		}
	}
	return false
}

func c02Seeds(e *Env) ([]string, []codec.Tree) {
	kinds, seeds := []string{}, []codec.Tree{}
	for _, s := range handSeeds {
		t, err := codec.ParseTree([]byte(s.wire))
		if err != nil {
			panic(err)
		}
		kinds, seeds = append(kinds, s.kind), append(seeds, t)
	}
	g := &codec.Gen{R: rand.New(rand.NewSource(e.Seed + 7)), Depth: 3, Wild: 0}
	for len(seeds) < 44 {
		v := g.Envelope()
		ie, _, _ := implEncode(v)
		if ie.R == "ok" && len(codec.TreeBytes(ie.JSON)) < 700 {
			kinds, seeds = append(kinds, v.Kind), append(seeds, ie.JSON)
		}
	}
	return kinds, seeds
}

func init() {
	Register("c02child", func(e *Env) error {
		// cap the address space so that a decoder that tries to allocate an absurd amount dies at
		// once with "out of memory" instead of dragging the machine down
		var lim syscall.Rlimit
		lim.Cur, lim.Max = 6<<30, 6<<30
		syscall.Setrlimit(syscall.RLIMIT_AS, &lim)
		ReadChildCases(func(n int, raw json.RawMessage) {
			var c c02Case
			if err := json.Unmarshal(raw, &c); err != nil {
				return
			}
			ChildBegin(n, &c)
			ChildEnd(n, implDecodeBoth(c.Kind, []byte(c.Wire)))
		})
		return nil
	})
	Register("c02", func(e *Env) error {
		e.Rep.Rule = "malformed stream: for ~44 seed encodings (hand-written ones reaching every decoder branch + generated ones) every single-point structural mutation at every node (delete member, replace by null / each wrong JSON type / degenerate media types / boundary and huge numbers, alien member, duplicate key, key case change, sub-tree swap) and sampled double-point mutations (every double in thorough) go through the real typed decoders and the real TCP receive path (in child processes, so that an input that kills the process is identified) and through the model; outcome class and accepted value are diffed; impl oracle = no panic / crash and accepted => re-encodes => decodes to an equal envelope; plus rounds of 8 goroutines decoding envelopes with never-seen media types at the same time in a child process (a write to a shared decoder table is a fatal runtime error). Non-trivial = mutant accepted by a decoder; distinct by wire text."
		cases := []*c02Case{}
		addCase := func(kind string, t codec.Tree, origin string) {
			cases = append(cases, &c02Case{Kind: kind, Wire: string(codec.TreeBytes(t)), Origin: origin})
		}
		if e.Replay != "" {
			b, err := readReplayCase(e.Replay)
			if err != nil {
				return err
			}
			var cc c02ConcCase
			if json.Unmarshal(b, &cc) == nil && cc.Goroutines > 0 {
				return runConcurrentDecode(e)
			}
			var c c02Case
			if err := json.Unmarshal(b, &c); err != nil {
				return err
			}
			c.Origin = "replay"
			return runDecodeCases(e, []*c02Case{&c})
		}
		// corpus of minimised past failures runs first
		if files, _ := filepath.Glob("/verif/corpus/C02/*.json"); len(files) > 0 {
			for _, f := range files {
				b, err := os.ReadFile(f)
				if err != nil {
					return err
				}
				var cs []c02Case
				if err := json.Unmarshal(b, &cs); err != nil {
					return fmt.Errorf("corpus %s: %w", f, err)
				}
				for i := range cs {
					cs[i].Origin = fmt.Sprintf("corpus %s[%d]", filepath.Base(f), i)
					e.Rep.Count("corpus")
					cases = append(cases, &cs[i])
				}
			}
		}
		kinds, seeds := c02Seeds(e)
		doubles := e.N(3000, 150000)
		nSingles := 0
		for si, seed := range seeds {
			addCase(kinds[si], seed, fmt.Sprintf("seed %d", si))
			var ps []path
			paths(seed, nil, &ps)
			for _, p := range ps {
				for k := 0; k < mKinds; k++ {
					variants := 1
					switch k {
					case mReplace, mDup:
						variants = len(replacements)
					case mCase:
						variants = 2
					case mSwap:
						variants = 3
					}
					for v := 0; v < variants; v++ {
						vv := v
						if k == mSwap {
							vv = e.Rng.Intn(len(ps))
						}
						m := mutate(seed, p, k, vv, ps)
						if m == nil {
							continue
						}
						e.Rep.Count(fmt.Sprintf("mutation=%d", k))
						nSingles++
						addCase(kinds[si], m, fmt.Sprintf("seed %d mutation %d at %v variant %d", si, k, p, vv))
					}
				}
			}
		}
		e.Rep.Extra["single_point_mutants"] = nSingles
		for i := 0; i < doubles; i++ {
			si := e.Rng.Intn(len(seeds))
			var ps []path
			paths(seeds[si], nil, &ps)
			if len(ps) == 0 {
				continue
			}
			m := mutate(seeds[si], ps[e.Rng.Intn(len(ps))], e.Rng.Intn(mKinds), e.Rng.Intn(1000), ps)
			if m == nil {
				continue
			}
			var ps2 []path
			paths(m, nil, &ps2)
			if len(ps2) == 0 {
				continue
			}
			m2 := mutate(m, ps2[e.Rng.Intn(len(ps2))], e.Rng.Intn(mKinds), e.Rng.Intn(1000), ps2)
			if m2 == nil {
				continue
			}
			e.Rep.Count("double")
			addCase(kinds[si], m2, fmt.Sprintf("seed %d double", si))
		}
		e.Rep.Sample(map[string]interface{}{"seed_kind": kinds[0], "seed": string(codec.TreeBytes(seeds[0]))}, 3)
		if err := runConcurrentDecode(e); err != nil {
			return err
		}
		return runDecodeCases(e, cases)
	})
}

// ---- concurrent decoding -------------------------------------------------------------------------
// Several connections decode at the same time (each on its receiver goroutine). The decoders share
// package-level tables (document factories); a write to one of them during decoding is a fatal
// runtime error ("concurrent map read and map write") that no recover can catch, i.e. a crash a remote
// peer triggers with two connections. The case runs in a child process: G goroutines decode envelopes
// whose media types nobody has seen before, through the typed decoders and a real TCP receive path each.

type c02ConcCase struct {
	Goroutines int `json:"goroutines"`
	Iter       int `json:"iter"`
}

type c02ConcRes struct {
	Decoded int    `json:"decoded"`
	Panic   string `json:"panic,omitempty"`
}

func c02ConcRun(c c02ConcCase) c02ConcRes {
	var wg sync.WaitGroup
	var mu sync.Mutex
	res := c02ConcRes{}
	for g := 0; g < c.Goroutines; g++ {
		wg.Add(1)
		go func(g int) {
			defer wg.Done()
			defer func() {
				if r := recover(); r != nil {
					mu.Lock()
					res.Panic = fmt.Sprint(r)
					mu.Unlock()
				}
			}()
			a, b := pair.NewBufConnPair()
			t := lime.NewTCPTransportFromConn(b, true, nil)
			defer t.Close()
			n := 0
			for i := 0; i < c.Iter; i++ {
				mt := fmt.Sprintf("application/x-conc-%d-%d+json", g, i)
				tt := fmt.Sprintf("text/x-conc-%d-%d", g, i)
				wires := []string{
					`{"id":"1","type":"` + mt + `","content":{"k":1}}`,
					`{"id":"2","type":"` + tt + `","content":"x"}`,
					`{"id":"3","type":"application/vnd.lime.container+json","content":{"type":"` + tt + `","value":"x"}}`,
					`{"id":"4","type":"application/vnd.lime.collection+json","content":{"itemType":"` + mt + `","items":[{"a":1}]}}`,
					`{"id":"5","method":"set","uri":"/x","type":"` + mt + `","resource":{"a":1}}`,
				}
				for _, w := range wires {
					var m lime.Message
					var rc lime.RequestCommand
					_ = json.Unmarshal([]byte(w), &m)
					_ = json.Unmarshal([]byte(w), &rc)
					a.Write(append([]byte(w), '\n'))
					ctx, cancel := context.WithTimeout(context.Background(), 5*time.Second)
					_, err := t.Receive(ctx)
					cancel()
					if err == nil {
						n++
					}
				}
			}
			mu.Lock()
			res.Decoded += n
			mu.Unlock()
		}(g)
	}
	wg.Wait()
	return res
}

func runConcurrentDecode(e *Env) error {
	c := c02ConcCase{Goroutines: 8, Iter: e.N(60, 400)}
	for round := 0; round < e.N(2, 6); round++ {
		e.Rep.Eval()
		e.Rep.Count("concurrent-decode round")
		rs, err := RunChild("c02conc", []interface{}{c}, 120*time.Second)
		if err != nil {
			return err
		}
		for _, r := range rs {
			if r.Res == nil {
				e.Rep.Violate("impl", "c02-crash-concurrent", "decoding on several connections at once kills the process: "+firstLines(r.Crash, 3), c)
				continue
			}
			var cr c02ConcRes
			json.Unmarshal(r.Res, &cr)
			if cr.Panic != "" {
				e.Rep.Violate("impl", "c02-panic", "decoding on several connections at once panics: "+cr.Panic, c)
			}
			if cr.Decoded != c.Goroutines*c.Iter*5 {
				e.Rep.Violate("impl", "c02-concurrent-refused", fmt.Sprintf("concurrent decoding accepted %d of %d valid envelopes", cr.Decoded, c.Goroutines*c.Iter*5), c)
			} else {
				e.Rep.Nontrivial(fmt.Sprintf("conc %d", round))
			}
		}
	}
	return nil
}

func firstLines(s string, n int) string {
	ls := strings.Split(strings.TrimSpace(s), "\n")
	if len(ls) > n {
		ls = ls[:n]
	}
	return strings.Join(ls, " | ")
}

func init() {
	Register("c02conc", func(e *Env) error {
		ReadChildCases(func(n int, raw json.RawMessage) {
			var c c02ConcCase
			if err := json.Unmarshal(raw, &c); err != nil {
				return
			}
			ChildBegin(n, &c)
			ChildEnd(n, c02ConcRun(c))
		})
		return nil
	})
}
