package modes

import (
	"encoding/json"
	"fmt"
	"math/rand"
	"os"
	"path/filepath"
	"strconv"
	"strings"
	"unicode"

	"limeverif/internal/codec"
)

// ---- C02: decoding untrusted input never panics; accepted input re-encodes stably -----------

type path []int // child indices from the root (object member i / array element i)

func clone(t codec.Tree) codec.Tree {
	if t == nil {
		return nil
	}
	switch t[0].(string) {
	case "a":
		src := t[1].([]interface{})
		items := make([]interface{}, len(src))
		for i, x := range src {
			items[i] = clone(codec.AsTree(x))
		}
		return codec.Tree{"a", items}
	case "o":
		src := t[1].([]interface{})
		ms := make([]interface{}, len(src))
		for i, m := range src {
			p := m.([]interface{})
			ms[i] = []interface{}{p[0], clone(codec.AsTree(p[1]))}
		}
		return codec.Tree{"o", ms}
	}
	out := make(codec.Tree, len(t))
	copy(out, t)
	return out
}

// paths lists every node position (except the root).
func paths(t codec.Tree, prefix path, out *[]path) {
	switch t[0].(string) {
	case "a":
		for i, x := range t[1].([]interface{}) {
			p := append(append(path{}, prefix...), i)
			*out = append(*out, p)
			paths(codec.AsTree(x), p, out)
		}
	case "o":
		for i, m := range t[1].([]interface{}) {
			p := append(append(path{}, prefix...), i)
			*out = append(*out, p)
			paths(codec.AsTree(m.([]interface{})[1]), p, out)
		}
	}
}

func child(t codec.Tree, i int) codec.Tree {
	switch t[0].(string) {
	case "a":
		return codec.AsTree(t[1].([]interface{})[i])
	case "o":
		return codec.AsTree(t[1].([]interface{})[i].([]interface{})[1])
	}
	return nil
}

func setChild(t codec.Tree, i int, v codec.Tree) {
	switch t[0].(string) {
	case "a":
		t[1].([]interface{})[i] = v
	case "o":
		t[1].([]interface{})[i].([]interface{})[1] = v
	}
}

func parentOf(t codec.Tree, p path) (codec.Tree, int) {
	cur := t
	for _, i := range p[:len(p)-1] {
		cur = child(cur, i)
	}
	return cur, p[len(p)-1]
}

var replacements = []codec.Tree{
	{"z"}, {"s", "x"}, {"s", ""}, {"n", "7"}, {"n", "1.5"}, {"n", "-1e400"}, {"b", true},
	{"a", []interface{}{}}, {"a", []interface{}{codec.Tree{"z"}}}, {"o", []interface{}{}},
	{"o", []interface{}{[]interface{}{"type", codec.Tree{"s", "/"}}}},
	{"s", "/"}, {"s", "/+"}, {"s", "text/plain"}, {"s", "application/vnd.lime.container+json"},
	{"s", "application/vnd.lime.collection+json"}, {"n", "9223372036854775808"},
}

const (
	mDelete = iota
	mReplace
	mAlien
	mDup
	mCase
	mSwap
	mKinds
)

// mutate applies mutation kind k at position p (variant selects the replacement / partner) and
// returns nil when the mutation does not apply there.
func mutate(t codec.Tree, p path, k, variant int, all []path) codec.Tree {
	out := clone(t)
	par, idx := parentOf(out, p)
	switch k {
	case mDelete:
		items := par[1].([]interface{})
		par[1] = append(append([]interface{}{}, items[:idx]...), items[idx+1:]...)
	case mReplace:
		setChild(par, idx, clone(replacements[variant%len(replacements)]))
	case mAlien:
		if par[0] != "o" {
			return nil
		}
		par[1] = append(par[1].([]interface{}), []interface{}{"alien", codec.Tree{"n", "1"}})
	case mDup:
		if par[0] != "o" {
			return nil
		}
		m := par[1].([]interface{})[idx].([]interface{})
		par[1] = append(par[1].([]interface{}), []interface{}{m[0], clone(replacements[variant%len(replacements)])})
	case mCase:
		if par[0] != "o" {
			return nil
		}
		m := par[1].([]interface{})[idx].([]interface{})
		key := []rune(m[0].(string))
		changed := false
		for i, r := range key {
			if unicode.IsLower(r) && r < 128 {
				key[i] = unicode.ToUpper(r)
				changed = true
				if variant%2 == 0 {
					break
				}
			}
		}
		if !changed {
			return nil
		}
		m[0] = string(key)
	case mSwap:
		q := all[variant%len(all)]
		if len(q) == 0 || isPrefix(p, q) || isPrefix(q, p) {
			return nil
		}
		par2, idx2 := parentOf(out, q)
		a, b := child(par, idx), child(par2, idx2)
		setChild(par, idx, clone(b))
		setChild(par2, idx2, clone(a))
	}
	return out
}

func isPrefix(a, b path) bool {
	if len(a) > len(b) {
		return false
	}
	for i := range a {
		if a[i] != b[i] {
			return false
		}
	}
	return true
}

// handSeeds are wire forms chosen to reach every decoder branch.
var handSeeds = []struct{ kind, wire string }{
	{"message", `{"id":"1","from":"a@b/c","to":"d@e","type":"text/plain","content":"hello","metadata":{"k":"v"}}`},
	{"message", `{"id":"2","type":"application/json","content":{"a":1,"b":[true,null,{"c":"d"}]}}`},
	{"message", `{"id":"3","type":"application/vnd.lime.container+json","content":{"type":"text/plain","value":"inner"}}`},
	{"message", `{"id":"4","type":"application/vnd.lime.collection+json","content":{"total":2,"itemType":"text/plain","items":["a","b"]}}`},
	{"message", `{"id":"5","type":"application/vnd.lime.collection+json","content":{"total":1,"itemType":"application/vnd.lime.container+json","items":[{"type":"application/vnd.lime.collection+json","value":{"itemType":"application/json","items":[{"x":1}]}}]}}`},
	{"message", `{"type":"application/vnd.lime.ping+json","content":{}}`},
	{"message", `{"type":"image/png","content":"base64data","pp":"p@q"}`},
	{"notification", `{"id":"1","from":"a@b","event":"received"}`},
	{"notification", `{"id":"1","event":"failed","reason":{"code":42,"description":"boom"}}`},
	{"request", `{"id":"1","method":"get","uri":"/ping"}`},
	{"request", `{"id":"2","to":"postmaster@msging.net","method":"set","uri":"/presence","type":"application/json","resource":{"status":"available"}}`},
	{"request", `{"id":"3","method":"merge","uri":"lime://user@domain.com/contacts","type":"application/vnd.lime.container+json","resource":{"type":"text/plain","value":"x"}}`},
	{"response", `{"id":"1","from":"postmaster@msging.net/s","method":"get","status":"success","type":"application/vnd.lime.ping+json","resource":{}}`},
	{"response", `{"id":"2","method":"set","status":"failure","reason":{"code":1,"description":"no"}}`},
	{"response", `{"id":"3","method":"get","status":"success","type":"application/vnd.lime.collection+json","resource":{"total":3,"itemType":"application/vnd.lime.account+json","items":[{"name":"a"},{"name":"b"}]}}`},
	{"session", `{"state":"new"}`},
	{"session", `{"id":"s1","from":"postmaster@msging.net/s","state":"negotiating","encryptionOptions":["none","tls"],"compressionOptions":["none"]}`},
	{"session", `{"id":"s1","state":"negotiating","encryption":"tls","compression":"none"}`},
	{"session", `{"id":"s1","from":"postmaster@msging.net/s","state":"authenticating","schemeOptions":["guest","plain","key","transport","external"]}`},
	{"session", `{"id":"s1","from":"u@d/i","state":"authenticating","scheme":"plain","authentication":{"password":"cGFzcw=="}}`},
	{"session", `{"id":"s1","from":"u@d/i","state":"authenticating","scheme":"key","authentication":{"key":"a2V5"}}`},
	{"session", `{"id":"s1","from":"u@d/i","state":"authenticating","scheme":"external","authentication":{"token":"dG9r","issuer":"iss"}}`},
	{"session", `{"id":"s1","from":"u@d/i","state":"authenticating","scheme":"guest","authentication":{}}`},
	{"session", `{"id":"s1","from":"u@d/i","state":"authenticating","scheme":"transport","authentication":{}}`},
	{"session", `{"id":"s1","from":"postmaster@msging.net/s","to":"u@d/i","state":"established"}`},
	{"session", `{"id":"s1","state":"failed","reason":{"code":13,"description":"bad"}}`},
	{"session", `{"id":"s1","state":"finishing"}`},
	{"session", `{"id":"s1","state":"finished"}`},
}

// decodeCase decodes one wire form through the typed decoder of `kind` and through the receive
// path, on implementation and model; evaluates "no panic" and "accepted ⇒ re-encodes to something
// that decodes to an equal envelope" on the implementation.
func decodeCase(e *Env, kind string, t codec.Tree, origin string) error {
	e.Rep.Eval()
	wire := codec.TreeBytes(t)
	for _, route := range []string{"typed", "receive"} {
		var io decObs
		var val *codec.VEnv
		var perr string
		k := kind
		if route == "typed" {
			io, val, perr = implDecodeTyped(kind, wire)
		} else {
			io, val, perr = implReceive(wire)
			k = "any"
		}
		e.Rep.Count("dec-" + route + "=" + io.R)
		c := map[string]interface{}{"kind": kind, "wire": string(wire), "route": route, "origin": origin}
		if e.Drv != nil && !hugeNumber(t) {
			mo, err := e.modelDec(k, t)
			if err != nil {
				return err
			}
			if ok, why := sameDec(io, mo); !ok {
				c2 := map[string]interface{}{"kind": kind, "wire": string(wire), "route": route, "origin": origin, "impl": io, "model": mo, "impl_error": perr}
				e.Rep.Violate("corr", "c02-dec-corr", "model and implementation decode ("+route+") differently: "+why, c2)
			}
		}
		switch io.R {
		case "panic":
			e.Rep.Violate("impl", panicKey(perr, string(wire)), "decoding ("+route+") panics: "+perr, c)
		case "ok":
			e.Rep.Nontrivial(route + string(wire))
			if val == nil {
				e.Rep.Violate("impl", "c02-uncanonical", "decoder accepted a value the harness cannot canonicalise: "+perr, c)
				continue
			}
			// accepted ⇒ re-encode ⇒ re-decode equal
			ie, bytes2, eerr := implEncode(val)
			if ie.R != "ok" {
				e.Rep.Violate("impl", reencodeKey(eerr), "an accepted envelope cannot be encoded again ("+ie.R+"): "+eerr, c)
				continue
			}
			var io2 decObs
			if route == "typed" {
				io2, _, perr = implDecodeTyped(val.Kind, bytes2)
			} else {
				io2, _, perr = implReceive(bytes2)
			}
			if io2.R != "ok" {
				c["reencoded"] = string(bytes2)
				e.Rep.Violate("impl", reencodeKey(perr), "the re-encoding of an accepted envelope is rejected ("+io2.R+"): "+perr, c)
				continue
			}
			a, _ := codec.CanonValueLoose(io.Env)
			b, _ := codec.CanonValueLoose(io2.Env)
			if a != b {
				c["reencoded"] = string(bytes2)
				e.Rep.Violate("impl", "c02-reencode-differs", "re-encoding an accepted envelope and decoding it again gives a different envelope: "+a+" vs "+b, c)
			}
		}
	}
	return nil
}

// panicKey / reencodeKey classify the known families for the findings filter.
func panicKey(perr, wire string) string {
	if strings.Contains(perr, "nil pointer dereference") {
		return "c02-panic-nil-document"
	}
	return "c02-panic"
}

// reencodeKey classifies by the reason the re-encoding is refused.
func reencodeKey(why string) string {
	switch {
	case strings.Contains(why, "invalid media type"):
		return "c02-reencode-zero-mediatype"
	case strings.Contains(why, "could not determine the envelope type"):
		return "c02-reencode-kind-lost"
	case strings.Contains(why, "is required"):
		return "c02-reencode-required-lost"
	}
	return "c02-reencode"
}

// hugeNumber reports a number literal outside float64 range somewhere in the tree; encoding/json
// rejects those when decoding into interface{} values, which the model does not represent
// (literal ↔ value is part of the trusted bytes ↔ tree layer), so such trees skip the model diff.
func hugeNumber(t codec.Tree) bool {
	switch t[0].(string) {
	case "n":
		_, err := strconv.ParseFloat(t[1].(string), 64)
		return err != nil
	case "a":
		for _, x := range t[1].([]interface{}) {
			if hugeNumber(codec.AsTree(x)) {
				return true
			}
		}
	case "o":
		for _, m := range t[1].([]interface{}) {
			if hugeNumber(codec.AsTree(m.([]interface{})[1])) {
				return true
			}
		}
	}
	return false
}

func c02Seeds(e *Env) ([]string, []codec.Tree) {
	kinds, seeds := []string{}, []codec.Tree{}
	for _, s := range handSeeds {
		t, err := codec.ParseTree([]byte(s.wire))
		if err != nil {
			panic(err)
		}
		kinds, seeds = append(kinds, s.kind), append(seeds, t)
	}
	g := &codec.Gen{R: rand.New(rand.NewSource(e.Seed + 7)), Depth: 3, Wild: 0}
	for len(seeds) < 44 {
		v := g.Envelope()
		ie, _, _ := implEncode(v)
		if ie.R == "ok" && len(codec.TreeBytes(ie.JSON)) < 700 {
			kinds, seeds = append(kinds, v.Kind), append(seeds, ie.JSON)
		}
	}
	return kinds, seeds
}

func init() {
	Register("c02", func(e *Env) error {
		e.Rep.Rule = "malformed stream: for ~44 seed encodings (hand-written ones reaching every decoder branch + generated ones) every single-point structural mutation at every node (delete member, replace by null / each wrong JSON type / degenerate media types / out-of-range numbers, alien member, duplicate key, key case change, sub-tree swap) and sampled double-point mutations (every double in thorough) go through the real typed decoders and the real TCP receive path and through the model; outcome class and accepted value are diffed; impl oracle = no panic and accepted => re-encodes => decodes to an equal envelope. Non-trivial = mutant accepted by a decoder; distinct by wire text. Truncations and concatenations go through the stream decoder in mode c02stream."
		if e.Replay != "" {
			b, err := readReplayCase(e.Replay)
			if err != nil {
				return err
			}
			var c struct {
				Kind string `json:"kind"`
				Wire string `json:"wire"`
			}
			if err := json.Unmarshal(b, &c); err != nil {
				return err
			}
			t, err := codec.ParseTree([]byte(c.Wire))
			if err != nil {
				return err
			}
			return decodeCase(e, c.Kind, t, "replay")
		}
		// corpus of minimised past failures runs first
		if files, _ := filepath.Glob("/verif/corpus/C02/*.json"); len(files) > 0 {
			for _, f := range files {
				b, err := os.ReadFile(f)
				if err != nil {
					return err
				}
				var cs []struct {
					Kind string `json:"kind"`
					Wire string `json:"wire"`
				}
				if err := json.Unmarshal(b, &cs); err != nil {
					return fmt.Errorf("corpus %s: %w", f, err)
				}
				for i, c := range cs {
					t, err := codec.ParseTree([]byte(c.Wire))
					if err != nil {
						return fmt.Errorf("corpus %s[%d]: %w", f, i, err)
					}
					e.Rep.Count("corpus")
					if err := decodeCase(e, c.Kind, t, fmt.Sprintf("corpus %s[%d]", filepath.Base(f), i)); err != nil {
						return err
					}
				}
			}
		}
		kinds, seeds := c02Seeds(e)
		doubles := e.N(3000, 150000)
		nSingles := 0
		for si, seed := range seeds {
			if err := decodeCase(e, kinds[si], seed, fmt.Sprintf("seed %d", si)); err != nil {
				return err
			}
			var ps []path
			paths(seed, nil, &ps)
			for _, p := range ps {
				for k := 0; k < mKinds; k++ {
					variants := 1
					switch k {
					case mReplace, mDup:
						variants = len(replacements)
					case mCase:
						variants = 2
					case mSwap:
						variants = 3
					}
					for v := 0; v < variants; v++ {
						vv := v
						if k == mSwap {
							vv = e.Rng.Intn(len(ps))
						}
						m := mutate(seed, p, k, vv, ps)
						if m == nil {
							continue
						}
						e.Rep.Count(fmt.Sprintf("mutation=%d", k))
						nSingles++
						if err := decodeCase(e, kinds[si], m, fmt.Sprintf("seed %d mutation %d at %v variant %d", si, k, p, vv)); err != nil {
							return err
						}
					}
				}
			}
		}
		e.Rep.Extra["single_point_mutants"] = nSingles
		// double-point mutations
		for i := 0; i < doubles; i++ {
			si := e.Rng.Intn(len(seeds))
			var ps []path
			paths(seeds[si], nil, &ps)
			if len(ps) == 0 {
				continue
			}
			m := mutate(seeds[si], ps[e.Rng.Intn(len(ps))], e.Rng.Intn(mKinds), e.Rng.Intn(1000), ps)
			if m == nil {
				continue
			}
			var ps2 []path
			paths(m, nil, &ps2)
			if len(ps2) == 0 {
				continue
			}
			m2 := mutate(m, ps2[e.Rng.Intn(len(ps2))], e.Rng.Intn(mKinds), e.Rng.Intn(1000), ps2)
			if m2 == nil {
				continue
			}
			e.Rep.Count("double")
			if err := decodeCase(e, kinds[si], m2, fmt.Sprintf("seed %d double", si)); err != nil {
				return err
			}
		}
		e.Rep.Sample(map[string]interface{}{"seed_kind": kinds[0], "seed": string(codec.TreeBytes(seeds[0]))}, 3)
		return nil
	})
}
