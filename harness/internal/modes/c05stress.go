package modes

import (
	"context"
	"fmt"
	"strconv"
	"strings"
	"sync"
	"sync/atomic"
	"time"

	lime "github.com/takenet/lime-go"

	"limeverif/internal/pair"
)

type c05Call struct {
	ID      string `json:"id"`
	Nonce   int    `json:"nonce"`
	Patient bool   `json:"patient"` // a long deadline: must get its answer if one is sent
	Res     string `json:"res"`
}

func c05StressRound(e *Env, round int) error {
	e.Rep.Eval()
	route := []string{"pipe", "inproc"}[round%2]
	e.Rep.Count("stress route=" + route)
	var ct, st lime.Transport
	if route == "pipe" {
		ct, st = pair.Pipe(nil)
	} else {
		var err error
		ct, st, err = pair.InProc(64)
		if err != nil {
			return err
		}
	}
	cc, sc, err := pair.Established(ct, st, 256, fmt.Sprintf("stress-%d", round), lime.Node{Identity: lime.Identity{Name: "u", Domain: "d"}, Instance: "i"})
	if err != nil {
		return fmt.Errorf("harness: %v", err)
	}
	workers := 8 + e.Rng.Intn(57)
	perWorker := 3 + e.Rng.Intn(4)
	seed := e.Rng.Int63()
	var smu sync.Mutex
	stream := []string{} // id/nonce of responses surfaced on the stream
	go func() {
		for r := range cc.RespCmdChan() {
			smu.Lock()
			stream = append(stream, r.ID+"/"+r.Metadata["n"])
			smu.Unlock()
		}
	}()
	// the server answers: promptly, late, twice, never, or with an extra response nobody asked for
	var sent sync.Map // id/nonce -> number of responses sent
	var swg sync.WaitGroup
	stopSrv := make(chan struct{})
	go func() {
		k := int64(0)
		for {
			select {
			case <-stopSrv:
				return
			case req, ok := <-sc.ReqCmdChan():
				if !ok {
					return
				}
				k++
				mode := (seed + k*7919) % 10
				if mode == 9 && req.Metadata["p"] == "1" {
					mode = 0 // a call with a long deadline is always answered
				}
				swg.Add(1)
				go func(req *lime.RequestCommand, mode int64) {
					defer swg.Done()
					reply := func(id string) {
						r := &lime.ResponseCommand{Status: lime.CommandStatusSuccess}
						r.ID = id
						r.Method = req.Method
						r.SetMetadataKeyValue("n", req.Metadata["n"])
						ctx, cancel := context.WithTimeout(context.Background(), 2*time.Second)
						defer cancel()
						if sc.SendResponseCommand(ctx, r) == nil {
							key := id + "/" + req.Metadata["n"]
							v, _ := sent.LoadOrStore(key, new(int64))
							atomic.AddInt64(v.(*int64), 1)
						}
					}
					switch {
					case mode < 5:
						reply(req.ID)
					case mode < 7:
						time.Sleep(time.Duration(200+mode*300) * time.Microsecond)
						reply(req.ID)
					case mode == 7:
						reply(req.ID)
						reply(req.ID) // duplicate
					case mode == 8:
						reply("nobody-" + req.ID) // unknown id
						reply(req.ID)
					default:
						// never answered
					}
				}(req, mode)
			}
		}
	}()
	var nonce int64
	results := make([][]c05Call, workers)
	var wg sync.WaitGroup
	for w := 0; w < workers; w++ {
		wg.Add(1)
		go func(w int) {
			defer wg.Done()
			// neighbours share an id now and then: concurrent reuse must be rejected, sequential reuse must work
			id := fmt.Sprintf("s%d-%d", round, w)
			if w%5 == 4 {
				id = fmt.Sprintf("s%d-%d", round, w-1)
			}
			for j := 0; j < perWorker; j++ {
				n := int(atomic.AddInt64(&nonce, 1))
				patient := (int64(n)*31+seed)%4 != 0
				d := 4 * time.Second
				if !patient {
					d = time.Duration(100+(int64(n)*131+seed)%1500) * time.Microsecond
				}
				ctx, cancel := context.WithTimeout(context.Background(), d)
				req := &lime.RequestCommand{}
				req.ID = id
				req.Method = lime.CommandMethodGet
				req.SetURIString("/x")
				req.SetMetadataKeyValue("n", strconv.Itoa(n))
				if patient {
					req.SetMetadataKeyValue("p", "1")
				}
				resp, err := cc.ProcessCommand(ctx, req)
				cancel()
				c := c05Call{ID: id, Nonce: n, Patient: patient}
				switch {
				case err == nil && resp != nil:
					c.Res = "resp:" + resp.ID + "/" + resp.Metadata["n"]
				case strings.Contains(err.Error(), "already in use"):
					c.Res = "rejected"
				case strings.Contains(err.Error(), "deadline exceeded"):
					c.Res = "ctxErr"
				default:
					c.Res = "other:" + err.Error()
				}
				results[w] = append(results[w], c)
			}
		}(w)
	}
	done := make(chan struct{})
	go func() { wg.Wait(); close(done) }()
	select {
	case <-done:
	case <-time.After(60 * time.Second):
		e.Rep.Violate("impl", "c05-stress-hang", "ProcessCommand calls did not return within 60 s (deadlines are at most 4 s)", map[string]interface{}{"round": round, "seed": e.Seed})
		return nil
	}
	close(stopSrv)
	srvDone := make(chan struct{})
	go func() { swg.Wait(); close(srvDone) }()
	select {
	case <-srvDone:
	case <-time.After(10 * time.Second):
		e.Rep.Violate("impl", "c05-stress-hang", "responses could not be sent within 10 s after every call had returned: the receiving side no longer takes envelopes (a response was handed to a reply channel that nobody reads)", map[string]interface{}{"stress_round": round, "route": route, "seed": e.Seed})
		go cc.Close()
		go sc.Close()
		return nil
	}
	time.Sleep(2 * time.Millisecond)
	smu.Lock()
	onStream := map[string]int{}
	for _, s := range stream {
		onStream[s]++
	}
	smu.Unlock()
	info := map[string]interface{}{"stress_round": round, "route": route, "workers": workers, "per_worker": perWorker, "seed": e.Seed}
	returned := map[string]int{}
	calls := 0
	for _, rs := range results {
		for _, c := range rs {
			calls++
			e.Rep.Count("stress call: " + strings.SplitN(c.Res, ":", 2)[0])
			if strings.HasPrefix(c.Res, "resp:") {
				got := strings.TrimPrefix(c.Res, "resp:")
				returned[got]++
				if !strings.HasPrefix(got, c.ID+"/") {
					e.Rep.Violate("impl", "c05-foreign-response", fmt.Sprintf("stress: call for id %s returned response %s", c.ID, got), info)
				}
			}
			if strings.HasPrefix(c.Res, "other:") {
				e.Rep.Violate("impl", "c05-other", "stress: unexpected ProcessCommand error "+c.Res, info)
			}
			key := c.ID + "/" + strconv.Itoa(c.Nonce)
			if v, ok := sent.Load(key); ok && c.Patient && c.Res == "ctxErr" && *(v.(*int64)) > 0 {
				where := "nowhere"
				if onStream[key] > 0 {
					where = "on the response stream"
				}
				e.Rep.Violate("impl", "c05-own-response-to-stream", fmt.Sprintf("stress: call %s waited 4 s and returned its context's error although its response was sent; the response is %s", key, where), info)
			}
		}
	}
	for k, n := range returned {
		if onStream[k] > 0 {
			if v, ok := sent.Load(k); ok && int(*(v.(*int64))) < n+onStream[k] {
				e.Rep.Violate("impl", "c05-duplicated", fmt.Sprintf("stress: response %s was handed to a caller and also surfaced on the stream, but was sent only %d time(s)", k, *(v.(*int64))), info)
			}
		}
	}
	if n := cc.VerifPendingCount(); n != 0 {
		e.Rep.Violate("impl", "c05-leak", fmt.Sprintf("stress: %d registrations left in the table after every call returned", n), info)
	}
	e.Rep.Extra["stress_calls"] = asInt(e.Rep.Extra["stress_calls"]) + calls
	e.Rep.Nontrivial(fmt.Sprintf("stress %d %d %d %s", round, workers, perWorker, route))
	go cc.Close()
	go sc.Close()
	return nil
}

// c05Backlog: responses that match no pending request arrive faster than the application reads the
// response stream, whose buffer is small. "Surfaced on the response stream instead of ... lost": every
// one of them must come out of the stream, in arrival order, once the application reads — the
// receiver may make the peer wait, it may not drop. Variants: unknown ids, duplicates of an answered
// request, late answers to requests that timed out.
func c05Backlog(e *Env, buf int, variant string, route string) error {
	e.Rep.Eval()
	e.Rep.Count("backlog " + variant + " route=" + route)
	info := map[string]interface{}{"family": "backlog", "buffer": buf, "variant": variant, "route": route}
	var ct, st lime.Transport
	if route == "pipe" {
		ct, st = pair.Pipe(nil)
	} else {
		var err error
		ct, st, err = pair.InProc(64)
		if err != nil {
			return err
		}
	}
	cc, sc, err := pair.Established(ct, st, buf, "backlog-"+variant, lime.Node{Identity: lime.Identity{Name: "u", Domain: "d"}, Instance: "i"})
	if err != nil {
		return fmt.Errorf("harness: %v", err)
	}
	defer func() {
		// the property is judged; the transports are dropped without ceremony
		go func() { _ = ct.Close() }()
		go func() { _ = st.Close() }()
	}()
	n := buf + 4
	want := []string{}
	mk := func(id string) *lime.ResponseCommand {
		r := &lime.ResponseCommand{Status: lime.CommandStatusSuccess}
		r.ID = id
		r.Method = lime.CommandMethodGet
		return r
	}
	sctx, scancel := context.WithTimeout(context.Background(), 20*time.Second)
	defer scancel()
	switch variant {
	case "dup":
		// every request is answered twice, back to back: the receiver matches the first copy and removes the
		// registration in one step, so the second copy matches nothing and belongs on the stream — whatever
		// the caller is doing at that moment
		go func() {
			for req := range sc.ReqCmdChan() {
				for k := 0; k < 2; k++ {
					_ = sc.SendResponseCommand(sctx, mk(req.ID))
				}
			}
		}()
		go func() {
			for i := 0; i < n; i++ {
				req := &lime.RequestCommand{}
				req.ID = fmt.Sprintf("dup-%d", i)
				req.Method = lime.CommandMethodGet
				req.SetURIString("/x")
				ctx, cancel := context.WithTimeout(context.Background(), 3*time.Second)
				r, err := cc.ProcessCommand(ctx, req)
				cancel()
				if err != nil || r.ID != req.ID {
					e.Rep.Violate("impl", "c05-lost", fmt.Sprintf("backlog (dup): call %s answered twice returned %v, %v", req.ID, r, err), info)
					return
				}
			}
		}()
		for i := 0; i < n; i++ {
			want = append(want, fmt.Sprintf("dup-%d", i))
		}
		got := []string{}
		deadline := time.After(10 * time.Second)
	dup:
		for len(got) < len(want) {
			select {
			case r, ok := <-cc.RespCmdChan():
				if !ok {
					break dup
				}
				got = append(got, r.ID)
			case <-deadline:
				break dup
			}
		}
		info["sent"], info["surfaced"] = want, got
		if strings.Join(got, ",") != strings.Join(want, ",") {
			e.Rep.Violate("impl", "c05-unmatched-lost", fmt.Sprintf("backlog (dup): %d requests were each answered twice; of the %d second copies the stream surfaced %d: %v", n, n, len(got), got), info)
		} else {
			e.Rep.Nontrivial(fmt.Sprintf("backlog dup %d %s", buf, route))
		}
		return nil
	case "late":
		// n requests time out unanswered; their answers arrive afterwards, back to back
		go func() {
			for range sc.ReqCmdChan() {
			}
		}()
		for i := 0; i < n; i++ {
			req := &lime.RequestCommand{}
			req.ID = fmt.Sprintf("late-%d", i)
			req.Method = lime.CommandMethodGet
			req.SetURIString("/x")
			ctx, cancel := context.WithTimeout(context.Background(), 50*time.Millisecond)
			_, err := cc.ProcessCommand(ctx, req)
			cancel()
			if err == nil {
				return fmt.Errorf("harness: an unanswered request completed")
			}
			want = append(want, req.ID)
		}
	default:
		for i := 0; i < n; i++ {
			want = append(want, fmt.Sprintf("unknown-%d", i))
		}
	}
	sendErr := make(chan error, 1)
	go func() {
		for _, id := range want {
			if err := sc.SendResponseCommand(sctx, mk(id)); err != nil {
				sendErr <- err
				return
			}
		}
		sendErr <- nil
	}()
	// the application is slow to look at the stream
	time.Sleep(300 * time.Millisecond)
	got := []string{}
	deadline := time.After(10 * time.Second)
loop:
	for len(got) < len(want) {
		select {
		case r, ok := <-cc.RespCmdChan():
			if !ok {
				break loop
			}
			got = append(got, r.ID)
		case <-deadline:
			break loop
		}
	}
	if err := <-sendErr; err != nil {
		e.Rep.Note(fmt.Sprintf("backlog %s: the server's send failed: %v", variant, err))
	}
	info["sent"], info["surfaced"] = want, got
	if strings.Join(got, ",") != strings.Join(want, ",") {
		e.Rep.Violate("impl", "c05-unmatched-lost", fmt.Sprintf("backlog (%s, stream buffer %d): %d unmatched responses were sent, the stream surfaced %d: %v", variant, buf, len(want), len(got), got), info)
	} else {
		e.Rep.Nontrivial(fmt.Sprintf("backlog %s %d %s", variant, buf, route))
	}
	return nil
}

// c05AnswerThenEnd: the response to a request arrives and right behind it the session ends (the server
// finishes it, fails it, or drops the connection), while the requester has not got control back from
// its Send yet. The response was received and matched: the call completes with it, not with an error
// about the receiver or the session, whatever happens to the session afterwards.
func c05AnswerThenEnd(e *Env, how string, route string) error {
	e.Rep.Eval()
	e.Rep.Count("answer-then-end " + how + " route=" + route)
	info := map[string]interface{}{"family": "answer-then-end", "how": how, "route": route}
	lost := 0
	rounds := 12
	for round := 0; round < rounds; round++ {
		var ct, st lime.Transport
		if route == "pipe" {
			ct, st = pair.Pipe(nil)
		} else {
			var err error
			ct, st, err = pair.InProc(8)
			if err != nil {
				return err
			}
		}
		release := make(chan struct{})
		var armed int32
		wt := &pair.WrapT{Transport: ct}
		wt.AfterSend = func() {
			if atomic.LoadInt32(&armed) == 1 {
				<-release // the request is out; its sender gets control back only when told
			}
		}
		cc, sc, err := pair.Established(wt, st, 4, fmt.Sprintf("ate-%s-%d", how, round), lime.Node{Identity: lime.Identity{Name: "u", Domain: "d"}, Instance: "i"})
		if err != nil {
			return fmt.Errorf("harness: %v", err)
		}
		atomic.StoreInt32(&armed, 1)
		type res struct {
			r   *lime.ResponseCommand
			err error
		}
		done := make(chan res, 1)
		go func() {
			req := &lime.RequestCommand{}
			req.ID = fmt.Sprintf("ate-%d", round)
			req.Method = lime.CommandMethodGet
			req.SetURIString("/x")
			ctx, cancel := context.WithTimeout(context.Background(), 30*time.Second)
			defer cancel()
			r, err := cc.ProcessCommand(ctx, req)
			done <- res{r, err}
		}()
		// the server answers and ends the session at once
		sctx, scancel := context.WithTimeout(context.Background(), 3*time.Second)
		select {
		case req := <-sc.ReqCmdChan():
			_ = sc.SendResponseCommand(sctx, req.SuccessResponse())
		case <-sctx.Done():
			scancel()
			close(release)
			return fmt.Errorf("harness: the request did not reach the server")
		}
		// (ending a session on the server side may wait for the server's own receiver to notice: not waited for)
		go func() {
			defer scancel()
			switch how {
			case "finish":
				_ = sc.FinishSession(sctx)
			case "fail":
				_ = sc.FailSession(sctx, &lime.Reason{Code: 1, Description: "scripted"})
			default:
				_ = st.Close()
			}
		}()
		// the client's receiver has taken both by now: wait until it is gone, then let the requester go on
		select {
		case <-cc.RcvDone():
		case <-time.After(8 * time.Second):
		}
		close(release)
		r := <-done
		if r.err != nil || r.r == nil || r.r.ID != fmt.Sprintf("ate-%d", round) {
			lost++
			info["error"] = fmt.Sprint(r.err)
		}
		go func() { _ = ct.Close(); _ = st.Close() }()
	}
	if lost > 0 {
		e.Rep.Violate("impl", "c05-lost", fmt.Sprintf("answer-then-end (%s, %s): in %d of %d rounds the response had arrived and been matched before the session ended, and the call still returned an error: %v", how, route, lost, rounds, info["error"]), info)
	} else {
		e.Rep.Nontrivial("answer-then-end " + how + route)
	}
	return nil
}

// c05SimilarIDs: identifiers are compared exactly. Requests whose ids differ only in letter case are
// different requests: both are accepted, each gets the response bearing its own id, and a response whose
// id differs in case from every pending one matches nothing and goes to the stream.
func c05SimilarIDs(e *Env, route string) error {
	e.Rep.Eval()
	e.Rep.Count("similar-ids route=" + route)
	info := map[string]interface{}{"family": "similar-ids", "route": route}
	var ct, st lime.Transport
	if route == "pipe" {
		ct, st = pair.Pipe(nil)
	} else {
		var err error
		ct, st, err = pair.InProc(8)
		if err != nil {
			return err
		}
	}
	cc, sc, err := pair.Established(ct, st, 8, "similar-"+route, lime.Node{Identity: lime.Identity{Name: "u", Domain: "d"}, Instance: "i"})
	if err != nil {
		return fmt.Errorf("harness: %v", err)
	}
	defer func() { go func() { _ = ct.Close(); _ = st.Close() }() }()
	ids := []string{"Cmd-A1", "cmd-a1", "CMD-A1"}
	type res struct {
		id  string
		r   *lime.ResponseCommand
		err error
	}
	out := make(chan res, len(ids))
	for _, id := range ids {
		go func(id string) {
			req := &lime.RequestCommand{}
			req.ID = id
			req.Method = lime.CommandMethodGet
			req.SetURIString("/x")
			ctx, cancel := context.WithTimeout(context.Background(), 3*time.Second)
			defer cancel()
			r, err := cc.ProcessCommand(ctx, req)
			out <- res{id, r, err}
		}(id)
	}
	// the server collects the three requests, sends a response that matches none of them (another case
	// variant), then answers them in reverse order
	got := []*lime.RequestCommand{}
	sctx, scancel := context.WithTimeout(context.Background(), 5*time.Second)
	defer scancel()
	for len(got) < len(ids) {
		select {
		case r := <-sc.ReqCmdChan():
			got = append(got, r)
		case <-sctx.Done():
			e.Rep.Violate("impl", "c05-duplicate-id", fmt.Sprintf("similar-ids (%s): of three requests whose ids differ only in letter case %d reached the server; the others were not accepted", route, len(got)), info)
			return nil
		}
	}
	stray := &lime.ResponseCommand{Status: lime.CommandStatusSuccess}
	stray.ID = "cMd-a1"
	stray.Method = lime.CommandMethodGet
	_ = sc.SendResponseCommand(sctx, stray)
	for i := len(got) - 1; i >= 0; i-- {
		_ = sc.SendResponseCommand(sctx, got[i].SuccessResponse())
	}
	for range ids {
		r := <-out
		if r.err != nil || r.r == nil || r.r.ID != r.id {
			e.Rep.Violate("impl", "c05-foreign-response", fmt.Sprintf("similar-ids (%s): the call for id %q returned %v, %v", route, r.id, r.r, r.err), info)
			return nil
		}
	}
	select {
	case r := <-cc.RespCmdChan():
		if r.ID != "cMd-a1" {
			e.Rep.Violate("impl", "c05-stream", fmt.Sprintf("similar-ids (%s): the stream surfaced %q, the unmatched response was cMd-a1", route, r.ID), info)
		}
	case <-time.After(2 * time.Second):
		e.Rep.Violate("impl", "c05-unmatched-lost", fmt.Sprintf("similar-ids (%s): the response cMd-a1 matches no pending request exactly and was not surfaced on the stream", route), info)
	}
	e.Rep.Nontrivial("similar-ids " + route)
	return nil
}
