package modes

import (
	"context"
	"encoding/json"
	"fmt"
	"net"
	"strings"
	"time"

	lime "github.com/takenet/lime-go"

	"limeverif/internal/codec"
	"limeverif/internal/pair"
)

// outcome classes shared with the model: ok | err | panic

type encObs struct {
	R    string     `json:"r"`
	JSON codec.Tree `json:"json,omitempty"`
}

type decObs struct {
	R   string          `json:"r"`
	Env json.RawMessage `json:"env,omitempty"`
}

func implEncode(v *codec.VEnv) (obs encObs, bytes []byte, perr string) {
	defer func() {
		if r := recover(); r != nil {
			obs = encObs{R: "panic"}
			perr = fmt.Sprint(r)
		}
	}()
	env, err := codec.ToEnvelope(v)
	if err != nil {
		panic(err)
	}
	b, err := json.Marshal(env)
	if err != nil {
		return encObs{R: "err"}, nil, err.Error()
	}
	t, err := codec.ParseTree(b)
	if err != nil {
		panic("harness: encoder produced unparsable JSON: " + err.Error())
	}
	return encObs{R: "ok", JSON: t}, b, ""
}

func newOfKind(kind string) interface{} {
	switch kind {
	case "message":
		return &lime.Message{}
	case "notification":
		return &lime.Notification{}
	case "request":
		return &lime.RequestCommand{}
	case "response":
		return &lime.ResponseCommand{}
	case "session":
		return &lime.Session{}
	}
	return nil
}

func implDecodeTyped(kind string, b []byte) (obs decObs, val *codec.VEnv, perr string) {
	defer func() {
		if r := recover(); r != nil {
			obs = decObs{R: "panic"}
			val = nil
			perr = fmt.Sprint(r)
		}
	}()
	p := newOfKind(kind)
	if err := json.Unmarshal(b, p); err != nil {
		return decObs{R: "err"}, nil, err.Error()
	}
	v, err := codec.FromEnvelope(p)
	if err != nil {
		return decObs{R: "ok", Env: json.RawMessage(`{"uncanonical":` + fmt.Sprintf("%q", err.Error()) + `}`)}, nil, err.Error()
	}
	raw, _ := json.Marshal(v)
	return decObs{R: "ok", Env: raw}, v, ""
}

// rx is a long-lived real TCP transport over an in-memory connection (hook constructor) with a
// small configured read limit: consecutive cases share it, as consecutive envelopes share a
// connection; it is replaced after an error (a failed Decode may leave the stream decoder unusable).
type rxState struct {
	peer net.Conn
	t     lime.Transport
	n     int
	bytes int
}

var rx *rxState

const rxReadLimit = 16 * 1024

func rxGet() *rxState {
	if rx == nil {
		a, c := pair.NewBufConnPair()
		rx = &rxState{peer: a, t: lime.NewTCPTransportFromConn(c, true, &lime.TCPConfig{ReadLimit: rxReadLimit})}
	}
	return rx
}

func rxDrop() {
	if rx != nil {
		rx.peer.Close()
		rx = nil
	}
}

// implReceive passes the bytes through the real TCP transport's receive path (hook connection).
func implReceive(b []byte) (obs decObs, val *codec.VEnv, perr string) {
	defer func() {
		if r := recover(); r != nil {
			obs = decObs{R: "panic"}
			val = nil
			perr = fmt.Sprint(r)
			rxDrop()
		}
	}()
	if len(b) > rxReadLimit/2 {
		rxDrop() // larger than the shared transport's limit allows for sure: use a fresh default one
		a, c := pair.NewBufConnPair()
		rx = &rxState{peer: a, t: lime.NewTCPTransportFromConn(c, true, nil)}
		defer rxDrop()
	}
	st := rxGet()
	st.n++
	st.bytes += len(b) + 1
	st.peer.Write(append(append([]byte{}, b...), '\n'))
	ctx, cancel := context.WithTimeout(context.Background(), 10*time.Second)
	defer cancel()
	env, err := st.t.Receive(ctx)
	if err != nil {
		// errors raised after the stream decoder consumed the value (envelope population) leave
		// the connection usable; errors of the stream decoder itself may not
		if strings.HasPrefix(err.Error(), "tcp transport:") {
			rxDrop()
		}
		return decObs{R: "err"}, nil, err.Error()
	}
	v, err := codec.FromEnvelope(env)
	if err != nil {
		return decObs{R: "ok", Env: json.RawMessage(`{"uncanonical":` + fmt.Sprintf("%q", err.Error()) + `}`)}, nil, err.Error()
	}
	raw, _ := json.Marshal(v)
	return decObs{R: "ok", Env: raw}, v, ""
}

// uriTable lists, for every string value of a top-level member that selects the `uri` field,
// what ParseLimeURI makes of it.
func uriTable(t codec.Tree) [][]interface{} {
	out := [][]interface{}{}
	if t == nil || t[0] != "o" {
		return out
	}
	for _, m := range t[1].([]interface{}) {
		p := m.([]interface{})
		if !foldEq(p[0].(string), "uri") {
			continue
		}
		vt := codec.AsTree(p[1])
		if vt == nil || vt[0] != "s" {
			continue
		}
		s := vt[1].(string)
		if n := codec.NormURI(s); n != nil {
			out = append(out, []interface{}{s, *n})
		} else {
			out = append(out, []interface{}{s, nil})
		}
	}
	return out
}

func foldEq(a, b string) bool {
	f := func(s string) string {
		s = strings.ReplaceAll(s, "ſ", "s")
		s = strings.ReplaceAll(s, "K", "k")
		return strings.ToUpper(s)
	}
	// only ASCII letters and the two special runes fold in encoding/json's sense
	ra, rb := []rune(a), []rune(b)
	if len(ra) != len(rb) {
		return false
	}
	for i := range ra {
		x, y := ra[i], rb[i]
		fx, fy := x, y
		if x < 128 {
			fx = []rune(strings.ToUpper(string(x)))[0]
		} else if x == 0x17f {
			fx = 'S'
		} else if x == 0x212a {
			fx = 'K'
		}
		if y < 128 {
			fy = []rune(strings.ToUpper(string(y)))[0]
		} else if y == 0x17f {
			fy = 'S'
		} else if y == 0x212a {
			fy = 'K'
		}
		if fx != fy {
			return false
		}
	}
	_ = f
	return true
}

func (e *Env) modelEnc(v *codec.VEnv) (encObs, error) {
	var o encObs
	var raw struct {
		R    string      `json:"r"`
		JSON interface{} `json:"json"`
	}
	if err := e.Drv.Call(map[string]interface{}{"m": "enc", "env": v}, &raw); err != nil {
		return o, err
	}
	o.R = raw.R
	if raw.JSON != nil {
		o.JSON = codec.TreeFromAny(raw.JSON)
	}
	return o, nil
}

func (e *Env) modelDec(kind string, t codec.Tree) (decObs, error) {
	var o decObs
	err := e.Drv.Call(map[string]interface{}{"m": "dec", "kind": kind, "json": t, "uri": uriTable(t)}, &o)
	return o, err
}

// sameDec compares two decode observations: class, and for ok the canonical value.
func sameDec(a, b decObs) (bool, string) {
	if a.R != b.R {
		return false, fmt.Sprintf("outcome %s vs %s", a.R, b.R)
	}
	if a.R != "ok" {
		return true, ""
	}
	ca, err1 := codec.CanonValue(a.Env)
	cb, err2 := codec.CanonValue(b.Env)
	if err1 != nil || err2 != nil {
		return false, "uncanonical value"
	}
	if ca != cb {
		return false, "decoded values differ: " + ca + " vs " + cb
	}
	return true, ""
}

func sameEnc(a, b encObs) (bool, string) {
	if a.R != b.R {
		return false, fmt.Sprintf("outcome %s vs %s", a.R, b.R)
	}
	if a.R != "ok" {
		return true, ""
	}
	ca, cb := codec.Canon(a.JSON), codec.Canon(b.JSON)
	if ca != cb {
		return false, "encodings differ: " + ca + " vs " + cb
	}
	return true, ""
}
