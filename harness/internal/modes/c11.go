package modes

import (
	"context"
	"encoding/json"
	"fmt"
	"time"

	lime "github.com/takenet/lime-go"

	"limeverif/internal/codec"
)

// ---- C11: replies built from an envelope are correlated, addressed and valid ---------------

type c11Case struct {
	Value  *codec.VEnv    `json:"value"`
	F      string         `json:"f"` // success | successres | failure | notification | failed
	Doc    *codec.VDoc    `json:"doc,omitempty"`
	Reason *codec.VReason `json:"reason,omitempty"`
	Event  string         `json:"event,omitempty"`
}

func implBuild(c *c11Case) (out interface{}, perr string) {
	defer func() {
		if r := recover(); r != nil {
			out, perr = nil, fmt.Sprint(r)
		}
	}()
	env, err := codec.ToEnvelope(c.Value)
	if err != nil {
		panic(err)
	}
	var reason *lime.Reason
	if c.Reason != nil {
		reason = &lime.Reason{Code: c.Reason.Code, Description: c.Reason.Desc}
	}
	switch x := env.(type) {
	case *lime.RequestCommand:
		switch c.F {
		case "success":
			return x.SuccessResponse(), ""
		case "successres":
			return x.SuccessResponseWithResource(codec.ToDoc(c.Doc)), ""
		case "failure":
			return x.FailureResponse(reason), ""
		}
	case *lime.Message:
		switch c.F {
		case "notification":
			return x.Notification(lime.NotificationEvent(c.Event)), ""
		case "failed":
			return x.FailedNotification(reason), ""
		}
	}
	panic("bad builder case")
}

func nodeEmpty(n codec.VNode) bool { return n == codec.VNode{} }

// c11Oracle evaluates the statement on what the implementation built.
func c11Oracle(c *c11Case, got *codec.VEnv, built interface{}) string {
	req := c.Value
	wantTo := req.From
	if !nodeEmpty(req.PP) {
		wantTo = req.PP
	}
	if got.ID != req.ID {
		return fmt.Sprintf("reply id %q, request id %q", got.ID, req.ID)
	}
	if got.To != wantTo {
		return fmt.Sprintf("reply addressed to %+v, the sender of the original is %+v (from=%+v pp=%+v)", got.To, wantTo, req.From, req.PP)
	}
	if got.From != req.To {
		return fmt.Sprintf("reply origin %+v, the original's destination is %+v", got.From, req.To)
	}
	switch c.F {
	case "success", "successres", "failure":
		if got.Method != req.Method {
			return fmt.Sprintf("reply method %q, request method %q", got.Method, req.Method)
		}
		wantStatus := "success"
		if c.F == "failure" {
			wantStatus = "failure"
		}
		if got.Status != wantStatus {
			return fmt.Sprintf("reply status %q, want %q", got.Status, wantStatus)
		}
		if c.F == "failure" && !sameReason(got.Reason, c.Reason) {
			return "failure response does not carry the given reason"
		}
		if c.F == "successres" {
			a, _ := json.Marshal(got.Resource)
			b, _ := json.Marshal(c.Doc)
			ca, _ := codec.CanonValue(a)
			cb, _ := codec.CanonValue(b)
			if ca != cb {
				return "success response does not carry the given resource"
			}
		}
	case "notification", "failed":
		wantEvent := c.Event
		if c.F == "failed" {
			wantEvent = "failed"
			if !sameReason(got.Reason, c.Reason) {
				return "failed notification does not carry the given reason"
			}
		}
		if got.Event != wantEvent {
			return fmt.Sprintf("notification event %q, want %q", got.Event, wantEvent)
		}
	}
	// the reply is itself a valid envelope: it encodes and survives the wire
	b, err := json.Marshal(built)
	if err != nil {
		return "the built reply does not encode: " + err.Error()
	}
	want, _ := json.Marshal(got)
	cw, _ := codec.CanonValue(want)
	io, _, perr := implDecodeTyped(got.Kind, b)
	if io.R != "ok" {
		return "the built reply is rejected by the typed decoder: " + perr + " wire=" + string(b)
	}
	if cg, _ := codec.CanonValue(io.Env); cg != cw {
		return "the built reply changes on the wire (typed): " + cg + " vs " + cw
	}
	io, _, perr = implReceive(b)
	if io.R != "ok" {
		return "the built reply is rejected by the receive path: " + perr + " wire=" + string(b)
	}
	if cg, _ := codec.CanonValue(io.Env); cg != cw {
		return "the built reply changes on the wire (receive): " + cg + " vs " + cw
	}
	return ""
}

func sameReason(a, b *codec.VReason) bool {
	if a == nil || b == nil {
		return a == nil && b == nil
	}
	return *a == *b
}

func c11Key(msg string) string {
	switch {
	case len(msg) > 18 && msg[:18] == "reply addressed to":
		return "c11-sender"
	case len(msg) > 40 && (msg[:41] == "the built reply is rejected by the typed " || msg[:41] == "the built reply is rejected by the receiv"):
		return "c11-reply-invalid"
	}
	return "c11-other"
}

func c11RunCase(e *Env, c *c11Case) error {
	e.Rep.Eval()
	e.Rep.Count("builder=" + c.F)
	built, perr := implBuild(c)
	if built == nil {
		e.Rep.Violate("impl", "c11-panic", "builder panics: "+perr, c)
		return nil
	}
	got, err := codec.FromEnvelope(built)
	if err != nil {
		e.Rep.Violate("impl", "c11-other", "built reply cannot be canonicalised: "+err.Error(), c)
		return nil
	}
	gb, _ := json.Marshal(got)
	cg, _ := codec.CanonValue(gb)
	e.Rep.Nontrivial(cg + c.F)
	if e.Drv != nil {
		req := map[string]interface{}{"m": "build", "f": c.F, "env": c.Value, "doc": c.Doc, "reason": c.Reason, "event": c.Event}
		raw, err := json.Marshal(req)
		if err != nil {
			return err
		}
		out, err := e.Drv.CallRaw(raw)
		if err != nil {
			return err
		}
		cm, cerr := codec.CanonValue(out)
		if cerr != nil || cm != cg {
			e.Rep.Violate("corr", "c11-corr", "model and implementation build different replies: "+cm+" vs "+cg, c)
		}
	}
	if msg := c11Oracle(c, got, built); msg != "" {
		e.Rep.Violate("impl", c11Key(msg), msg, c)
	}
	e.Rep.Sample(map[string]interface{}{"case": c, "built": got}, 3)
	return nil
}

func init() {
	Register("c11", func(e *Env) error {
		e.Rep.Rule = "generated well-formed request commands and messages (every from/pp/to presence combination, ids, methods, resources of every document kind nested to depth 2, reasons, events) x the five builders; the built reply is diffed against the model's builder, checked against the statement (id, method, addressing, status/reason/resource) and passed through the real encoder, typed decoder and TCP receive path; plus the ping auto-reply of a real Server and Client. Non-trivial = every built reply; distinct by canonical reply."
		if e.Replay != "" {
			b, err := readReplayCase(e.Replay)
			if err != nil {
				return err
			}
			var c c11Case
			if err := json.Unmarshal(b, &c); err != nil {
				return err
			}
			if c.Value == nil {
				return pingCases(e)
			}
			return c11RunCase(e, &c)
		}
		g := &codec.Gen{R: e.Rng, Depth: 2, Wild: 0}
		n := e.N(1500, 60000)
		nodes := []codec.VNode{{}, {N: "alice", D: "example.com", I: "home"}, {N: "bob", D: "example.com"}, {N: "srv"}}
		for i := 0; i < n; i++ {
			v := g.Envelope()
			for v.Kind != "request" && v.Kind != "message" {
				v = g.Envelope()
			}
			if v.Kind == "message" && v.Content == nil {
				continue
			}
			// every presence combination of from / pp / to is equally likely
			m := e.Rng.Intn(8)
			v.From, v.PP, v.To = codec.VNode{}, codec.VNode{}, codec.VNode{}
			if m&1 != 0 {
				v.From = nodes[1+e.Rng.Intn(3)]
			}
			if m&2 != 0 {
				v.PP = nodes[1+e.Rng.Intn(3)]
			}
			if m&4 != 0 {
				v.To = nodes[1+e.Rng.Intn(3)]
			}
			e.Rep.Count(fmt.Sprintf("address-mask=%d", m))
			c := &c11Case{Value: v}
			if v.Kind == "request" {
				c.F = []string{"success", "successres", "failure"}[e.Rng.Intn(3)]
				if c.F == "successres" {
					c.Doc, _ = g.Doc(2)
				}
				if c.F == "failure" {
					c.Reason = g.Reason()
				}
			} else {
				c.F = []string{"notification", "failed"}[e.Rng.Intn(2)]
				c.Event = []string{"accepted", "dispatched", "received", "consumed", "failed"}[e.Rng.Intn(5)]
				if c.F == "failed" {
					c.Reason = g.Reason()
					c.Event = ""
				}
			}
			if err := c11RunCase(e, c); err != nil {
				return err
			}
		}
		return pingCases(e)
	})
}

// pingCases: the built-in ping auto-reply of server and client is a valid, correlated response.
func pingCases(e *Env) error {
	for _, tr := range []string{"inproc", "tcp"} {
		e.Rep.Eval()
		e.Rep.Count("ping=" + tr)
		msg, err := pingServerCase(tr)
		if err != nil {
			return err
		}
		if msg != "" {
			e.Rep.Violate("impl", "c11-ping", "server ping auto-reply over "+tr+": "+msg, map[string]interface{}{"ping": tr})
		}
	}
	return nil
}

func pingServerCase(tr string) (string, error) {
	b := lime.NewServerBuilder().Name("postmaster").Domain("verif.local").Instance("s").
		EnableGuestAuthentication().AutoReplyPings().
		Register(func(_ context.Context, cand lime.Node, _ *lime.ServerChannel) (lime.Node, error) {
			return lime.Node{Identity: lime.Identity{Name: cand.Name, Domain: "verif.local"}, Instance: "x"}, nil
		})
	dial, stop, err := startServer(b, tr)
	if err != nil {
		return "", err
	}
	defer stop()
	ct, err := dial()
	if err != nil {
		return "", err
	}
	cc := lime.NewClientChannel(ct, 4)
	defer func() { go cc.Close() }()
	ctx, cancel := context.WithTimeout(context.Background(), 8*time.Second)
	defer cancel()
	ses, err := cc.EstablishSession(ctx, lime.NoneCompressionSelector, lime.NoneEncryptionSelector,
		lime.Identity{Name: guestUUID, Domain: "verif.local"}, lime.GuestAuthenticator, "i")
	if err != nil || ses.State != lime.SessionStateEstablished {
		return "", fmt.Errorf("c11 ping: establish: %v", err)
	}
	req := &lime.RequestCommand{}
	req.ID = "ping-1"
	req.Method = lime.CommandMethodGet
	req.SetURIString("/ping")
	req.From = cc.LocalNode()
	pctx, pcancel := context.WithTimeout(ctx, 3*time.Second)
	defer pcancel()
	resp, err := cc.ProcessCommand(pctx, req)
	if err != nil {
		return "no valid response to the ping request arrived: " + err.Error(), nil
	}
	if resp.ID != "ping-1" || resp.Status != lime.CommandStatusSuccess || resp.Method != lime.CommandMethodGet {
		return fmt.Sprintf("ping response id=%q status=%q method=%q", resp.ID, resp.Status, resp.Method), nil
	}
	if _, ok := resp.Resource.(*lime.Ping); !ok || resp.Type == nil || *resp.Type != lime.MediaTypePing() {
		return fmt.Sprintf("ping response resource %T type %v", resp.Resource, resp.Type), nil
	}
	if resp.To != req.From {
		return fmt.Sprintf("ping response addressed to %v, want %v", resp.To, req.From), nil
	}
	// pipelined pings: several requests are on their way before the first reply is looked at, on this
	// session and on a second one of the same server. Every reply carries the id of its own request
	// and is addressed to its own requester, in request order per session.
	ct2, err := dial()
	if err != nil {
		return "", err
	}
	cc2 := lime.NewClientChannel(ct2, 8)
	defer func() { go cc2.Close() }()
	ses2, err := cc2.EstablishSession(ctx, lime.NoneCompressionSelector, lime.NoneEncryptionSelector,
		lime.Identity{Name: "0b1f3a52-9f0d-4c0b-8d5e-0a4d4f1f2c22", Domain: "verif.local"}, lime.GuestAuthenticator, "j")
	if err != nil || ses2.State != lime.SessionStateEstablished {
		return "", fmt.Errorf("c11 ping: establish second session: %v", err)
	}
	const n = 6
	for k := 0; k < n; k++ {
		for si, ch := range []*lime.ClientChannel{cc, cc2} {
			r := &lime.RequestCommand{}
			r.ID = fmt.Sprintf("pp-%d-%d", si, k)
			r.Method = lime.CommandMethodGet
			r.SetURIString("/ping")
			r.From = ch.LocalNode()
			if err := ch.SendRequestCommand(ctx, r); err != nil {
				return "", fmt.Errorf("c11 ping: pipelined send: %v", err)
			}
		}
	}
	for si, ch := range []*lime.ClientChannel{cc, cc2} {
		for k := 0; k < n; k++ {
			select {
			case r, ok := <-ch.RespCmdChan():
				if !ok {
					return fmt.Sprintf("pipelined pings: the response stream of session %d ended after %d of %d replies", si, k, n), nil
				}
				want := fmt.Sprintf("pp-%d-%d", si, k)
				if r.ID != want || r.To != ch.LocalNode() || r.Status != lime.CommandStatusSuccess {
					return fmt.Sprintf("pipelined pings: reply %d on session %d has id %q to %v status %q, want id %q to %v", k, si, r.ID, r.To, r.Status, want, ch.LocalNode()), nil
				}
			case <-time.After(3 * time.Second):
				return fmt.Sprintf("pipelined pings: reply %d of %d on session %d did not arrive", k, n, si), nil
			}
		}
	}
	return "", nil
}
