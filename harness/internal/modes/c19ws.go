package modes

import (
	"context"
	"encoding/json"
	"fmt"
	"net"
	"net/http"
	"sync"
	"sync/atomic"
	"time"

	"github.com/gorilla/websocket"
	lime "github.com/takenet/lime-go"
)

// c19WSStreaming: the server is a scripted WebSocket peer. After the first session is established
// it sends undecodable text and then goes on streaming frames several times a second, without ever
// reading or closing ("deaf streaming peer"). The client must not stay wedged behind that
// connection: its next operation establishes a fresh session (a new connection to the same peer,
// which behaves well the second time) and is really delivered.
func c19WSStreaming(e *Env) error {
	e.Rep.Eval()
	e.Rep.Count("fault=ws-garbage-then-streaming-peer")
	var mu sync.Mutex
	conns := 0
	var delivered int64
	up := websocket.Upgrader{Subprotocols: []string{"lime"}, CheckOrigin: func(*http.Request) bool { return true }}
	stop := make(chan struct{})
	handshake := func(c *websocket.Conn) bool {
		var m map[string]interface{}
		if c.ReadJSON(&m) != nil { // new
			return false
		}
		sid := fmt.Sprintf("ws-%d", time.Now().UnixNano())
		c.WriteJSON(map[string]interface{}{"id": sid, "from": "postmaster@c19.local/srv", "state": "authenticating", "schemeOptions": []string{"plain"}})
		if c.ReadJSON(&m) != nil { // authenticating
			return false
		}
		c.WriteJSON(map[string]interface{}{"id": sid, "from": "postmaster@c19.local/srv", "to": "alice@c19.local/home", "state": "established"})
		return true
	}
	srv := &http.Server{Handler: http.HandlerFunc(func(w http.ResponseWriter, r *http.Request) {
		c, err := up.Upgrade(w, r, nil)
		if err != nil {
			return
		}
		mu.Lock()
		conns++
		n := conns
		mu.Unlock()
		if !handshake(c) {
			c.Close()
			return
		}
		if n == 1 {
			// first session: one message is taken, then the fault
			var m map[string]interface{}
			if c.ReadJSON(&m) == nil {
				atomic.AddInt64(&delivered, 1)
			}
			c.WriteMessage(websocket.TextMessage, []byte("{\"garbage"))
			for i := 0; ; i++ {
				select {
				case <-stop:
					c.Close()
					return
				case <-time.After(150 * time.Millisecond):
					c.WriteJSON(map[string]interface{}{"id": fmt.Sprint("noise-", i), "event": "received"})
				}
			}
		}
		// later sessions: a well-behaved peer
		for {
			var m map[string]interface{}
			if c.ReadJSON(&m) != nil {
				c.Close()
				return
			}
			if _, ok := m["content"]; ok {
				atomic.AddInt64(&delivered, 1)
			}
		}
	})}
	ln, err := net.Listen("tcp", "127.0.0.1:0")
	if err != nil {
		return err
	}
	go srv.Serve(ln)
	defer func() { close(stop); srv.Close() }()
	url := "ws://" + ln.Addr().String()
	cb := lime.NewClientBuilder().Name("alice").Domain("c19.local").Instance("home").PlainAuthentication("secret").
		UseWebsocket(url, nil, nil).ChannelBufferSize(4)
	client := cb.Build()
	info := map[string]interface{}{"case": map[string]interface{}{"faults": []string{"ws-garbage-then-streaming-peer"}}}
	send := func(id string, d time.Duration) error {
		m := &lime.Message{}
		m.ID = id
		m.SetContent(lime.TextDocument("hello"))
		ctx, cancel := context.WithTimeout(context.Background(), d)
		defer cancel()
		return client.SendMessage(ctx, m)
	}
	if err := send("m0", 5*time.Second); err != nil {
		e.Rep.Note("harness: ws first send: " + err.Error())
		return nil
	}
	time.Sleep(400 * time.Millisecond) // the fault is noticed; the peer keeps streaming
	before := atomic.LoadInt64(&delivered)
	done := make(chan error, 1)
	go func() {
		err := send("after", 6*time.Second)
		if err != nil {
			err = send("after-retry", 6*time.Second)
		}
		done <- err
	}()
	select {
	case err := <-done:
		if err != nil {
			e.Rep.Violate("impl", "c19-wedged", "after undecodable input from a peer that keeps streaming over WebSocket two consecutive sends failed: "+err.Error(), info)
		} else {
			deadline := time.Now().Add(3 * time.Second)
			for atomic.LoadInt64(&delivered) == before && time.Now().Before(deadline) {
				time.Sleep(time.Millisecond)
			}
			if atomic.LoadInt64(&delivered) == before {
				e.Rep.Violate("impl", "c19-false-success", "after undecodable input from a streaming WebSocket peer a send reported success but reached no session", info)
			}
		}
	case <-time.After(15 * time.Second):
		e.Rep.Violate("impl", "c19-wedged", "after undecodable input from a peer that keeps streaming over WebSocket the next send was still blocked after 15 s (its context allowed 6 s): the client is wedged behind the dead connection", info)
	}
	cd := make(chan struct{})
	go func() { _ = client.Close(); close(cd) }()
	select {
	case <-cd:
	case <-time.After(8 * time.Second):
		e.Rep.Violate("impl", "c19-wedged", "Client.Close did not return within 8 s after the streaming-peer fault", info)
	}
	b, _ := json.Marshal(info)
	e.Rep.Nontrivial(string(b))
	return nil
}
