package modes

import (
	"bytes"
	"context"
	"encoding/json"
	"fmt"
	"sync"
	"time"

	lime "github.com/takenet/lime-go"

	"limeverif/internal/codec"
	"limeverif/internal/pair"
)

// c12TLS: two real TCP transports upgraded to TLS, joined by a link that re-fragments the
// client-to-server byte stream (TLS records are split and merged at arbitrary points, with short
// stalls) and optionally cuts it. Implementation oracle only: what the server receives is a prefix
// of what the client sent, each envelope intact, everything when nothing was cut.
func c12TLS(e *Env, n int) error {
	srvCfg, cliCfg := pair.TLSConfigs()
	g := &codec.Gen{R: e.Rng, Depth: 1, Wild: 0}
	for i := 0; i < n; i++ {
		e.Rep.Eval()
		e.Rep.Count("family=tls")
		envs := c12Envs(e, g, 1+e.Rng.Intn(8))
		cutAfter := -1
		if i%3 == 2 {
			cutAfter = 1 + e.Rng.Intn(400)
		}
		style := e.Rng.Intn(3)
		a1, a2 := pair.NewBufConnPair()
		b1, b2 := pair.NewBufConnPair()
		var wg sync.WaitGroup
		appBytes := 0 // bytes forwarded after the handshake finished
		var hsDone sync.WaitGroup
		hsDone.Add(1)
		var handshook bool
		var mu sync.Mutex
		wg.Add(2)
		go func() { // client -> server, re-fragmented
			defer wg.Done()
			buf := make([]byte, 4096)
			for {
				m, err := a2.Read(buf)
				if err != nil {
					b2.Close()
					return
				}
				p := buf[:m]
				for len(p) > 0 {
					k := len(p)
					switch style {
					case 0:
						k = 1 + e.Rng.Intn(5)
					case 1:
						k = 1 + e.Rng.Intn(64)
					}
					if k > len(p) {
						k = len(p)
					}
					mu.Lock()
					hs := handshook
					if hs && cutAfter >= 0 && appBytes+k > cutAfter {
						k = cutAfter - appBytes
					}
					if hs {
						appBytes += k
					}
					cutNow := hs && cutAfter >= 0 && appBytes >= cutAfter
					mu.Unlock()
					if k > 0 {
						if _, err := b2.Write(p[:k]); err != nil {
							return
						}
					}
					if cutNow {
						b2.Close()
						a2.Close()
						return
					}
					p = p[k:]
					if style != 2 && e.Rng.Intn(8) == 0 {
						time.Sleep(time.Duration(20+e.Rng.Intn(100)) * time.Microsecond)
					}
				}
			}
		}()
		go func() { // server -> client, as is
			defer wg.Done()
			buf := make([]byte, 4096)
			for {
				m, err := b2.Read(buf)
				if err != nil {
					a2.Close()
					return
				}
				if _, err := a2.Write(buf[:m]); err != nil {
					return
				}
			}
		}()
		ct := lime.NewTCPTransportFromConn(a1, false, &lime.TCPConfig{TLSConfig: cliCfg})
		st := lime.NewTCPTransportFromConn(b1, true, &lime.TCPConfig{TLSConfig: srvCfg})
		ctx, cancel := context.WithTimeout(context.Background(), 20*time.Second)
		errc := make(chan error, 1)
		go func() { errc <- st.SetEncryption(ctx, lime.SessionEncryptionTLS) }()
		cerr := ct.SetEncryption(ctx, lime.SessionEncryptionTLS)
		serr := <-errc
		if cerr != nil || serr != nil {
			cancel()
			a1.Close()
			b1.Close()
			wg.Wait()
			return fmt.Errorf("harness: TLS upgrade over the fragmenting link failed: %v / %v", cerr, serr)
		}
		mu.Lock()
		handshook = true
		mu.Unlock()
		var got [][]byte
		var rerr error
		done := make(chan struct{})
		go func() {
			defer close(done)
			for len(got) < len(envs) {
				env, err := st.Receive(ctx)
				if err != nil {
					rerr = err
					return
				}
				b, _ := json.Marshal(env)
				got = append(got, b)
			}
		}()
		sent := 0
		for _, v := range envs {
			env, _ := codec.ToEnvelope(v)
			if err := sendAny(ctx, ct, env); err != nil {
				break
			}
			sent++
		}
		if cutAfter < 0 {
			select {
			case <-done:
			case <-time.After(15 * time.Second):
			}
		} else {
			select {
			case <-done:
			case <-time.After(300 * time.Millisecond):
				a1.Close() // nothing more will come: end the stream so that the receiver returns
				<-done
			}
		}
		cancel()
		a1.Close()
		b1.Close()
		wg.Wait()
		c := map[string]interface{}{"family": "tls", "envs": envs, "cut_after": cutAfter, "style": style, "seed": e.Seed}
		for j, b := range got {
			ref := c12Ref(envs[j])
			if !bytes.Equal(b, ref[:len(ref)-1]) {
				e.Rep.Violate("impl", "c12-recv-corrupt", fmt.Sprintf("TLS: Receive #%d handed out %q, sent was %q", j, b, ref), c)
				break
			}
		}
		if cutAfter < 0 && len(got) != sent {
			e.Rep.Violate("impl", "c12-recv-count", fmt.Sprintf("TLS: %d envelopes reported sent, %d received (error %v)", sent, len(got), rerr), c)
		}
		if cutAfter >= 0 && len(got) > sent {
			e.Rep.Violate("impl", "c12-recv-fabricated", fmt.Sprintf("TLS: %d sent, %d received", sent, len(got)), c)
		}
		if cutAfter >= 0 {
			e.Rep.Count("tls: link cut inside the record stream")
		}
		e.Rep.Nontrivial(fmt.Sprintf("tls %d %d %d %d", len(envs), cutAfter, style, i))
	}
	return nil
}
