package modes

import (
	"context"
	"errors"
	"fmt"
	"sync/atomic"
	"net"
	"strings"
	"time"

	"github.com/gorilla/websocket"
	lime "github.com/takenet/lime-go"

	"limeverif/internal/pair"
)

// ---- C14 on real sockets: peers that do not behave after the refusal -------------------------------
//
// The scripted peers of the enumeration close their end as soon as the server ends the stream. A
// refused client may do otherwise: keep its socket open and keep writing, or (WebSocket) announce its
// own departure with a close frame and wait for the server to close the connection, as RFC 6455
// has it. "The server closes that connection": in both cases the client must see the connection go
// away within a few seconds, and no goroutine of the library may stay behind.

type c14RealCase struct {
	Family string `json:"family"` // real-tcp-chatty | real-ws-leaves
	When   string `json:"when"`   // before-first | after-new | refused
}

func c14RealServer(ws bool) (*lime.Server, string, chan error, error) {
	a, err := freePort()
	if err != nil {
		return nil, "", nil, err
	}
	b := lime.NewServerBuilder().Name("postmaster").Domain("verif.local").Instance("s").EnableGuestAuthentication()
	if ws {
		b.ListenWebsocket(a, nil)
	} else {
		b.ListenTCP(a, nil)
	}
	srv := b.Build()
	done := make(chan error, 1)
	go func() { done <- srv.ListenAndServe() }()
	deadline := time.Now().Add(5 * time.Second)
	for {
		c, err := net.DialTimeout("tcp", a.String(), time.Second)
		if err == nil {
			c.Close()
			break
		}
		if time.Now().After(deadline) {
			srv.Close()
			return nil, "", nil, fmt.Errorf("server did not become ready")
		}
		time.Sleep(time.Millisecond)
	}
	return srv, a.String(), done, nil
}

func runC14Real(e *Env, c *c14RealCase) error {
	if c.Family == "established-send-fails" {
		return runC14SendFails(e, c)
	}
	e.Rep.Eval()
	e.Rep.Count("route=" + c.Family)
	srv, addr, serveDone, err := c14RealServer(c.Family == "real-ws-leaves")
	if err != nil {
		e.Rep.Note("harness: " + err.Error())
		return nil
	}
	problems := []string{}
	switch c.Family {
	case "real-tcp-chatty":
		conn, err := net.DialTimeout("tcp", addr, 2*time.Second)
		if err != nil {
			e.Rep.Note("harness: dial: " + err.Error())
			break
		}
		// a first envelope that is refused: a session that is not new
		first := `{"state":"authenticating","scheme":"guest","authentication":{}}`
		if c.When == "refused" {
			first = `{"state":"new"}`
		}
		conn.Write([]byte(first))
		if c.When == "refused" {
			// negotiate nothing, authenticate as a guest whose name is not acceptable: the built-in guest
			// authenticator refuses it
			buf := make([]byte, 4096)
			conn.SetReadDeadline(time.Now().Add(2 * time.Second))
			conn.Read(buf)
			conn.Write([]byte(`{"state":"authenticating","from":"not-a-uuid@verif.local/i","scheme":"guest","authentication":{}}`))
		}
		// read the refusal, then keep the socket open and keep writing
		refused := make(chan struct{})
		go func() {
			buf := make([]byte, 4096)
			for {
				conn.SetReadDeadline(time.Now().Add(8 * time.Second))
				if _, err := conn.Read(buf); err != nil {
					close(refused)
					return
				}
			}
		}()
		select {
		case <-refused:
		case <-time.After(8 * time.Second):
			problems = append(problems, "the refused client never saw the end of the stream")
		}
		t0 := time.Now()
		gone := false
		for time.Since(t0) < 5*time.Second {
			conn.SetWriteDeadline(time.Now().Add(time.Second))
			if _, err := conn.Write([]byte(" ")); err != nil {
				gone = true
				break
			}
			time.Sleep(200 * time.Millisecond)
		}
		if !gone {
			problems = append(problems, "a refused client that keeps its socket open and keeps writing is still being listened to 5 s after the refusal: the server has not closed the connection")
		}
		conn.Close()
	case "real-ws-leaves":
		ctx, cancel := context.WithTimeout(context.Background(), 3*time.Second)
		conn, _, err := websocket.DefaultDialer.DialContext(ctx, "ws://"+addr, map[string][]string{"Sec-WebSocket-Protocol": {"lime"}})
		cancel()
		if err != nil {
			e.Rep.Note("harness: ws dial: " + err.Error())
			break
		}
		if c.When == "after-new" {
			conn.WriteMessage(websocket.TextMessage, []byte(`{"state":"new"}`))
			conn.SetReadDeadline(time.Now().Add(2 * time.Second))
			conn.ReadMessage()
		}
		// the client leaves: close frame, then it waits for the server to close the connection
		conn.WriteControl(websocket.CloseMessage, websocket.FormatCloseMessage(websocket.CloseNormalClosure, ""), time.Now().Add(time.Second))
		raw := conn.UnderlyingConn()
		raw.SetReadDeadline(time.Now().Add(5 * time.Second))
		buf := make([]byte, 4096)
		for {
			_, err := raw.Read(buf)
			if err != nil {
				if ne, ok := err.(net.Error); ok && ne.Timeout() {
					problems = append(problems, "a WebSocket client that left the handshake with a close frame is still waiting 5 s later: the server has not closed the connection")
				}
				break
			}
		}
		conn.Close()
	}
	_ = srv.Close()
	select {
	case <-serveDone:
	case <-time.After(10 * time.Second):
		problems = append(problems, "ListenAndServe did not return after Close")
	}
	deadline := time.Now().Add(7 * time.Second)
	var left []string
	for {
		left = limeGoroutines()
		if len(left) == 0 || time.Now().After(deadline) {
			break
		}
		time.Sleep(20 * time.Millisecond)
	}
	if len(left) > 0 {
		problems = append(problems, fmt.Sprintf("%d goroutine(s) of the library left after the refused connection and the server's Close, first at %s", len(left), left[0]))
	}
	e.Rep.Nontrivial(c.Family + c.When)
	for _, p := range problems {
		key := "c14-not-closed"
		if strings.Contains(p, "goroutine") {
			key = "c14-goroutines"
		}
		e.Rep.Violate("impl", key, fmt.Sprintf("[%s, %s] %s", c.Family, c.When, p), c)
	}
	return nil
}

// runC14SendFails: the handshake fails at its very last step — the established session envelope cannot be
// written. That is a failed establishment like any other: no callback, connection released.
func runC14SendFails(e *Env, c *c14RealCase) error {
	e.Rep.Eval()
	e.Rep.Count("route=" + c.Family)
	ql := pair.NewQueueListener()
	var cbE, cbF int32
	cfg := lime.NewServerConfig()
	cfg.Node = pair.ServerNode
	cfg.SchemeOpts = []lime.AuthenticationScheme{lime.AuthenticationSchemeGuest}
	cfg.Authenticate = func(context.Context, lime.Identity, lime.Authentication) (*lime.AuthenticationResult, error) {
		return lime.MemberAuthenticationResult(), nil
	}
	cfg.Register = func(_ context.Context, n lime.Node, _ *lime.ServerChannel) (lime.Node, error) { return n, nil }
	cfg.EncryptOpts = []lime.SessionEncryption{lime.SessionEncryptionNone}
	cfg.ChannelBufferSize = 2
	cfg.Established = func(string, *lime.ServerChannel) { atomic.AddInt32(&cbE, 1) }
	cfg.Finished = func(string) { atomic.AddInt32(&cbF, 1) }
	srv := lime.NewServer(cfg, &lime.EnvelopeMux{}, lime.NewBoundListener(ql, ql.Addr()))
	serveDone := make(chan error, 1)
	go func() { serveDone <- srv.ListenAndServe() }()
	ct, st := pair.Pipe(nil)
	wt := &pair.WrapT{Transport: st}
	wt.OnSend = func(env lime.VerifEnvelope) error {
		if ses, ok := env.(*lime.Session); ok && ses.State == lime.SessionStateEstablished {
			return errors.New("write: broken pipe (scripted)")
		}
		return nil
	}
	ql.Offer(wt)
	cc := lime.NewClientChannel(ct, 2)
	ctx, cancel := context.WithTimeout(context.Background(), 4*time.Second)
	ses, err := cc.EstablishSession(ctx, lime.NoneCompressionSelector, lime.NoneEncryptionSelector,
		lime.Identity{Name: guestUUID, Domain: "verif.local"}, lime.GuestAuthenticator, "i")
	cancel()
	problems := []string{}
	if err == nil && ses != nil && ses.State == lime.SessionStateEstablished {
		problems = append(problems, "harness: the client was established although the established envelope could not be written")
	}
	if err != nil && errors.Is(err, context.DeadlineExceeded) {
		problems = append(problems, "the client whose handshake failed at the last step (the established envelope could not be written) is still waiting on an open connection 4 s later")
	}
	time.Sleep(100 * time.Millisecond)
	if n, m := atomic.LoadInt32(&cbE), atomic.LoadInt32(&cbF); n != 0 || m != 0 {
		problems = append(problems, fmt.Sprintf("callbacks invoked for a connection that never established: established=%d finished=%d", n, m))
	}
	go cc.Close()
	_ = srv.Close()
	select {
	case <-serveDone:
	case <-time.After(10 * time.Second):
	}
	e.Rep.Nontrivial(c.Family)
	for _, p := range problems {
		key := "c14-not-closed"
		if strings.Contains(p, "callbacks") {
			key = "c14-callbacks"
		}
		if strings.HasPrefix(p, "harness:") {
			e.Rep.Note(p)
			continue
		}
		e.Rep.Violate("impl", key, fmt.Sprintf("[%s] %s", c.Family, p), c)
	}
	return nil
}

func c14RealCases() []*c14RealCase {
	return []*c14RealCase{
		{Family: "established-send-fails", When: "last-step"},
		{Family: "real-tcp-chatty", When: "before-first"}, {Family: "real-tcp-chatty", When: "refused"},
		{Family: "real-ws-leaves", When: "before-first"}, {Family: "real-ws-leaves", When: "after-new"},
	}
}
