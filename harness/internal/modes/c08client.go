package modes

import (
	"context"
	"encoding/json"
	"errors"
	"fmt"
	"net"
	"strings"
	"sync/atomic"
	"time"

	lime "github.com/takenet/lime-go"

	"limeverif/internal/pair"
)

// ---- C08 at the level of the high-level Client ---------------------------------------------------
//
// "The client reports an established channel only when the server's last word was an established
// session": Client.Establish (and with it every operation that builds a channel) returns nil only
// then. A scripted server answers each envelope of the client with the next entry of its script and
// then stays silent; the call has a deadline.

type c08ClientCase struct {
	Family string   `json:"family"` // client-establish
	Script []string `json:"script"` // states of the server's replies, in order ("offer" = negotiating with options, "confirm" = negotiating confirmation)
}

func c08ServeScript(conn net.Conn, script []string) {
	dec := json.NewDecoder(conn)
	sid := "srv-1"
	for _, st := range script {
		// "+state": sent right after the previous reply, without waiting for the client (what a server does
		// after the negotiation confirmation)
		if len(st) > 0 && st[0] == '+' {
			st = st[1:]
		} else {
			var m map[string]interface{}
			if err := dec.Decode(&m); err != nil {
				return
			}
		}
		var reply map[string]interface{}
		switch st {
		case "offer":
			reply = map[string]interface{}{"id": sid, "from": "postmaster@verif.local/s", "state": "negotiating", "compressionOptions": []string{"none"}, "encryptionOptions": []string{"none"}}
		case "confirm":
			reply = map[string]interface{}{"id": sid, "from": "postmaster@verif.local/s", "state": "negotiating", "compression": "none", "encryption": "none"}
		case "authenticating":
			reply = map[string]interface{}{"id": sid, "from": "postmaster@verif.local/s", "state": "authenticating", "schemeOptions": []string{"guest"}}
		case "established":
			reply = map[string]interface{}{"id": sid, "from": "postmaster@verif.local/s", "to": "cli@verif.local/i", "state": "established"}
		case "failed":
			reply = map[string]interface{}{"id": sid, "from": "postmaster@verif.local/s", "state": "failed", "reason": map[string]interface{}{"code": 13, "description": "no"}}
		default:
			reply = map[string]interface{}{"id": sid, "from": "postmaster@verif.local/s", "state": st}
		}
		b, _ := json.Marshal(reply)
		if _, err := conn.Write(append(b, '\n')); err != nil {
			return
		}
	}
	// silent from here on; read until the client goes away
	for {
		var m map[string]interface{}
		if err := dec.Decode(&m); err != nil {
			conn.Close()
			return
		}
	}
}

func runC08Client(e *Env, c *c08ClientCase) error {
	e.Rep.Eval()
	e.Rep.Count("client-establish script")
	var dials int32
	cfg := lime.NewClientConfig()
	cfg.Node = lime.Node{Identity: lime.Identity{Name: "cli", Domain: "verif.local"}, Instance: "i"}
	cfg.ChannelBufferSize = 1
	cfg.Authenticator = lime.GuestAuthenticator
	cfg.NewTransport = func(ctx context.Context) (lime.Transport, error) {
		if atomic.AddInt32(&dials, 1) > 1 {
			return nil, errors.New("the scripted server accepts one connection")
		}
		a, b := pair.NewBufConnPair()
		go c08ServeScript(a, c.Script)
		return lime.NewTCPTransportFromConn(b, false, nil), nil
	}
	cl := lime.NewClient(cfg, &lime.EnvelopeMux{})
	ctx, cancel := context.WithTimeout(context.Background(), 1500*time.Millisecond)
	var err error
	panicked := ""
	func() {
		defer func() {
			if r := recover(); r != nil {
				panicked = fmt.Sprint(r)
			}
		}()
		err = cl.Establish(ctx)
	}()
	cancel()
	if panicked != "" {
		e.Rep.Violate("impl", "c08-panic", fmt.Sprintf("Client.Establish (default selectors of NewClientConfig, guest authenticator) panics on the server's replies %v: %s", c.Script, panicked), c)
		return nil
	}
	// the client is left to the process's end: closing it against a server that never establishes waits
	// for its listener's retries, which is not this property's subject
	last := ""
	if len(c.Script) > 0 {
		last = strings.TrimPrefix(c.Script[len(c.Script)-1], "+")
	}
	lastEstablished := last == "established"
	e.Rep.Nontrivial(fmt.Sprint(c.Script))
	switch {
	case err == nil && !lastEstablished:
		e.Rep.Violate("impl", "c08-client-false-established", fmt.Sprintf("Client.Establish returned nil although the server's replies were %v: its last word was not an established session", c.Script), c)
	case err != nil && lastEstablished:
		e.Rep.Violate("impl", "c08-client-refused", fmt.Sprintf("Client.Establish failed (%v) although the server's replies %v end in an established session", err, c.Script), c)
	}
	return nil
}

func c08ClientCases() []*c08ClientCase {
	scripts := [][]string{
		{"established"}, {"authenticating", "established"}, {"offer", "confirm", "+authenticating", "established"},
		{"finishing"}, {"new"}, {"failed"}, {"finished"}, {"negotiating"},
		{"offer", "confirm", "+confirm"}, {"offer", "confirm", "+offer"}, {"offer", "confirm", "+new"}, {"offer", "confirm", "+finishing"},
		{"offer", "confirm", "+negotiating"}, {"offer", "negotiating"},
		{"authenticating", "new"}, {"authenticating", "finishing"}, {"authenticating", "authenticating", "finishing"},
		{"offer", "finishing"}, {"offer", "confirm", "+authenticating", "finishing"},
	}
	out := []*c08ClientCase{}
	for _, s := range scripts {
		out = append(out, &c08ClientCase{Family: "client-establish", Script: s})
	}
	return out
}
