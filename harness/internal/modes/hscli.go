package modes

import (
	"context"
	"crypto/tls"
	"encoding/json"
	"fmt"
	"io"
	"net"
	"sync"
	"time"

	lime "github.com/takenet/lime-go"

	"limeverif/internal/codec"
	"limeverif/internal/pair"
)

// ---- client handshake runner: a scripted server peer against the real ClientChannel ----------

type cliCfg struct {
	Identity codec.VNode `json:"identity"`
	Instance string      `json:"instance"`
	CompSel  string      `json:"compSel"`
	EncSel   string      `json:"encSel"`
}

type cliCase struct {
	Cfg      cliCfg        `json:"cfg"`
	Recvs    []hsRecv      `json:"recvs"`
	Auths    []codec.VAuth `json:"auths"`
	SendOk   []bool        `json:"sendOk"`
	SetEncOk bool          `json:"setEncOk"`
	Enc0     string        `json:"enc0"`
	Route    string        `json:"route"`
}

type cliRes struct {
	R   string `json:"r"` // ok | err | panic
	Ses *hsSes `json:"ses,omitempty"`
}

type cliObs struct {
	Trace     []map[string]interface{} `json:"trace"`
	Res       cliRes                   `json:"res"`
	State     string                   `json:"state"`
	Connected bool                     `json:"connected"`
	Sid       string                   `json:"sid"`
	Local     codec.VNode              `json:"local"`
	Remote    codec.VNode              `json:"remote"`
	Enc       string                   `json:"enc"`
	Consumed  int                      `json:"consumed"`
	Note      string                   `json:"note,omitempty"`
	Panic     string                   `json:"panic,omitempty"`
	Established bool                   `json:"established,omitempty"`
}

func selectorFor(name string) func([]string) string {
	switch name {
	case "none", "tls", "gzip":
		return func([]string) string { return name }
	case "first":
		return func(l []string) string {
			if len(l) > 0 {
				return l[0]
			}
			return "none"
		}
	case "last":
		return func(l []string) string {
			if len(l) > 0 {
				return l[len(l)-1]
			}
			return "none"
		}
	case "empty":
		return func([]string) string { return "" }
	}
	return func([]string) string { return "zz" }
}

// prefixConn replays bytes that were peeked before handing the connection to crypto/tls.
type prefixConn struct {
	net.Conn
	pre []byte
}

func (p *prefixConn) Read(b []byte) (int, error) {
	if len(p.pre) > 0 {
		n := copy(b, p.pre)
		p.pre = p.pre[n:]
		return n, nil
	}
	return p.Conn.Read(b)
}

// srvPeer is the scripted server at byte level; it turns into a TLS server when the client starts
// a TLS handshake (first byte 0x16 of a message).
type srvPeer struct {
	raw  pair.BufConn
	conn net.Conn
	tls  *tls.Config
	enc  string
	wmu  sync.Mutex
}

func (p *srvPeer) send(v interface{}) {
	b, err := json.Marshal(v)
	if err != nil {
		return
	}
	p.wmu.Lock()
	p.conn.Write(append(b, '\n'))
	p.wmu.Unlock()
}

// readLoop decodes what the client writes; each value is given to onEnvelope.
func (p *srvPeer) readLoop(onEnvelope func(map[string]interface{}, string), onNote func(string)) {
	defer func() { recover() }()
	var cur io.Reader = p.raw
	for {
		// peek one byte to tell a TLS ClientHello from JSON
		one := make([]byte, 1)
		for {
			if _, err := io.ReadFull(cur, one); err != nil {
				return
			}
			if one[0] != '\n' && one[0] != '\r' && one[0] != ' ' && one[0] != '\t' {
				break
			}
		}
		if one[0] == 0x16 && p.enc == "none" {
			if p.tls == nil {
				onNote("client started TLS but the peer has no TLS configuration")
				return
			}
			c := tls.Server(&prefixConn{Conn: p.raw, pre: one}, p.tls)
			c.SetDeadline(time.Now().Add(10 * time.Second))
			if err := c.Handshake(); err != nil {
				onNote("TLS handshake with the client failed: " + err.Error())
				return
			}
			c.SetDeadline(time.Time{})
			p.wmu.Lock()
			p.conn = c
			p.enc = "tls"
			p.wmu.Unlock()
			cur = c
			continue
		}
		// read the rest of the line-delimited JSON value
		dec := json.NewDecoder(io.MultiReader(newByteReader(one), cur))
		var m map[string]interface{}
		if err := dec.Decode(&m); err != nil {
			return
		}
		onEnvelope(m, p.enc)
		// the decoder may have buffered bytes beyond the value: keep them
		cur = io.MultiReader(dec.Buffered(), cur)
	}
}

type byteReader struct{ b []byte }

func newByteReader(b []byte) *byteReader { return &byteReader{b: append([]byte{}, b...)} }
func (r *byteReader) Read(p []byte) (int, error) {
	if len(r.b) == 0 {
		return 0, io.EOF
	}
	n := copy(p, r.b)
	r.b = r.b[n:]
	return n, nil
}

// runClientHs plays the server script against the real ClientChannel.EstablishSession over the
// real TCP transport (client role) on an in-memory connection.
func runClientHs(c *cliCase) (obs cliObs) {
	var tcfgC *lime.TCPConfig
	var tcfgS *tls.Config
	if c.Route == "pipe-tls" {
		s, cl := pair.TLSConfigs()
		tcfgC, tcfgS = &lime.TCPConfig{TLSConfig: cl}, s
	}
	cconn, pc := pair.NewBufConns() // client end, peer (server) end
	ct := lime.NewTCPTransportFromConn(cconn, false, tcfgC)
	peer := &srvPeer{raw: pc, conn: pc, tls: tcfgS, enc: "none"}
	cc := lime.NewClientChannel(ct, 1)
	log := &evLog{}
	ai := 0
	var cbmu sync.Mutex
	var lastComp []string
	compSel := func(opts []lime.SessionCompression) lime.SessionCompression {
		cbmu.Lock()
		defer cbmu.Unlock()
		lastComp = []string{}
		for _, o := range opts {
			lastComp = append(lastComp, string(o))
		}
		return lime.SessionCompression(selectorFor(c.Cfg.CompSel)(lastComp))
	}
	encSel := func(opts []lime.SessionEncryption) lime.SessionEncryption {
		cbmu.Lock()
		defer cbmu.Unlock()
		l := []string{}
		for _, o := range opts {
			l = append(l, string(o))
		}
		log.add(map[string]interface{}{"e": "sel", "compOpts": lastComp, "encOpts": l})
		return lime.SessionEncryption(selectorFor(c.Cfg.EncSel)(l))
	}
	authenticator := func(schemes []lime.AuthenticationScheme, rt lime.Authentication) lime.Authentication {
		cbmu.Lock()
		defer cbmu.Unlock()
		l := []string{}
		for _, o := range schemes {
			l = append(l, string(o))
		}
		log.add(map[string]interface{}{"e": "authenticator", "schemes": l, "rt": fromAuth(rt)})
		a := codec.VAuth{Scheme: "guest"}
		if ai < len(c.Auths) {
			a = c.Auths[ai]
		}
		ai++
		return toAuth(&a)
	}
	ctx, cancel := context.WithTimeout(context.Background(), 20*time.Second)
	defer cancel()
	done := make(chan struct{})
	var resSes *lime.Session
	var resErr error
	go func() {
		defer close(done)
		defer func() {
			if r := recover(); r != nil {
				obs.Panic = fmt.Sprint(r)
			}
		}()
		resSes, resErr = cc.EstablishSession(ctx, compSel, encSel,
			lime.Identity{Name: c.Cfg.Identity.N, Domain: c.Cfg.Identity.D}, authenticator, c.Cfg.Instance)
	}()
	readerDone := make(chan struct{})
	go func() {
		defer close(readerDone)
		defer pc.Close() // the client ended the stream: the server side closes too (lets a lingering close finish)
		peer.readLoop(func(m map[string]interface{}, enc string) {
			if _, ok := m["state"]; !ok {
				log.add(map[string]interface{}{"e": "emit-other"})
				return
			}
			log.add(map[string]interface{}{"e": "emit", "ses": rawSes(m), "enc": enc})
		}, func(note string) { log.add(map[string]interface{}{"e": "peer-note", "note": note}) })
	}()
	quiet := func() bool {
		deadline := time.Now().Add(10 * time.Second)
		for time.Now().Before(deadline) {
			if isDone(done) {
				return true
			}
			if pc.Quiescent() {
				return true
			}
			time.Sleep(50 * time.Microsecond)
		}
		return false
	}
	// the application keeps consuming the inbound streams (an envelope of another kind that arrives
	// once the channel is established goes there)
	go func() {
		for range cc.MsgChan() {
		}
	}()
	consumed := 0
	for _, item := range c.Recvs {
		if !quiet() {
			obs.Note = "no quiescence before script item"
			break
		}
		if isDone(done) {
			break
		}
		consumed++
		switch item.T {
		case "ses":
			log.add(map[string]interface{}{"e": "recv", "r": item})
			peer.send(item.Ses.toSession())
		case "other":
			log.add(map[string]interface{}{"e": "recv", "r": hsRecv{T: "other"}})
			m := &lime.Message{}
			m.SetContent(lime.TextDocument("injected"))
			m.ID = "injected"
			peer.send(m)
		case "fail":
			log.add(map[string]interface{}{"e": "recv", "r": hsRecv{T: "fail", How: item.How}})
			if item.How == "close" {
				pc.Close()
			} else {
				peer.wmu.Lock()
				peer.conn.Write([]byte("{\"garbage\n"))
				peer.wmu.Unlock()
			}
		}
	}
	if !isDone(done) {
		quiet()
	}
	if !isDone(done) {
		pc.Close() // the client wants more than the script has: the server goes away
	}
	select {
	case <-done:
	case <-time.After(10 * time.Second):
		obs.Note = "EstablishSession did not return"
		cancel()
		<-done
	}
	cconn.WaitPeerDrained(5 * time.Second)
	if peer.enc == "tls" {
		time.Sleep(200 * time.Microsecond)
	}
	obs.Consumed = consumed
	switch {
	case obs.Panic != "":
		obs.Res = cliRes{R: "panic"}
	case resErr != nil:
		obs.Res = cliRes{R: "err"}
	default:
		obs.Res = cliRes{R: "ok", Ses: sesFrom(resSes)}
	}
	obs.State = string(cc.State())
	obs.Connected = ct.Connected()
	obs.Sid = cc.ID()
	obs.Local = vnode(cc.LocalNode())
	obs.Remote = vnode(cc.RemoteNode())
	obs.Enc = string(ct.Encryption())
	obs.Established = cc.Established()
	pc.Close()
	cconn.Close()
	go cc.Close()
	<-readerDone
	log.mu.Lock()
	obs.Trace = log.evs
	log.mu.Unlock()
	return obs
}

func projectCli(tr []map[string]interface{}) []map[string]interface{} {
	out := []map[string]interface{}{}
	for _, ev := range tr {
		switch ev["e"] {
		case "recv":
			out = append(out, map[string]interface{}{"e": "recv", "r": ev["r"]})
		case "emit":
			out = append(out, map[string]interface{}{"e": "emit", "ses": ev["ses"], "enc": ev["enc"]})
		case "sel":
			out = append(out, map[string]interface{}{"e": "sel", "compOpts": ev["compOpts"], "encOpts": ev["encOpts"]})
		case "authenticator":
			out = append(out, map[string]interface{}{"e": "authenticator", "schemes": ev["schemes"], "rt": ev["rt"]})
		}
	}
	return out
}

func (e *Env) modelClientHs(c *cliCase) (cliObs, error) {
	var o cliObs
	req := map[string]interface{}{"m": "clihs", "cfg": c.Cfg, "recvs": c.Recvs, "auths": c.Auths,
		"sendOk": c.SendOk, "setEncOk": c.SetEncOk, "enc0": c.Enc0}
	err := e.Drv.Call(req, &o)
	return o, err
}

func compareCli(impl, model cliObs) string {
	if impl.Res.R != model.Res.R {
		return fmt.Sprintf("EstablishSession outcome %s, model %s", impl.Res.R, model.Res.R)
	}
	if impl.Res.R == "panic" {
		return "" // the process state after a panic is not compared
	}
	it, mt := canonJSON(projectCli(impl.Trace)), canonJSON(projectCli(model.Trace))
	if it != mt {
		return "traces differ: impl " + it + " model " + mt
	}
	if impl.Res.R == "ok" && canonJSON(impl.Res.Ses) != canonJSON(model.Res.Ses) {
		return "returned session differs: impl " + canonJSON(impl.Res.Ses) + " model " + canonJSON(model.Res.Ses)
	}
	if impl.State != model.State {
		return fmt.Sprintf("final state %s, model %s", impl.State, model.State)
	}
	if impl.Connected != model.Connected {
		return fmt.Sprintf("transport connected=%v, model %v", impl.Connected, model.Connected)
	}
	if impl.Sid != model.Sid || canonJSON(impl.Local) != canonJSON(model.Local) || canonJSON(impl.Remote) != canonJSON(model.Remote) {
		return fmt.Sprintf("session id / nodes differ: impl %q %v %v model %q %v %v", impl.Sid, impl.Local, impl.Remote, model.Sid, model.Local, model.Remote)
	}
	if impl.Enc != model.Enc {
		return fmt.Sprintf("encryption in force %s, model %s", impl.Enc, model.Enc)
	}
	return ""
}
