package modes

import (
	"encoding/json"
	"fmt"
	"sync"
	"time"

	"limeverif/internal/codec"
)

// ---- C08: the client handshake tolerates any server ------------------------------------------

var cliServerNode = codec.VNode{N: "postmaster", D: "verif.local", I: "srv"}
var cliAssigned = codec.VNode{N: "alice", D: "verif.local", I: "assigned"}

type cliConfig struct {
	name             string
	compSel, encSel  string
	auths            []codec.VAuth
}

var cliConfigs = []cliConfig{
	{"none-none-guest", "none", "none", []codec.VAuth{{Scheme: "guest"}}},
	{"first-tls-plain", "first", "tls", []codec.VAuth{{Scheme: "plain", Password: "cHcx"}, {Scheme: "plain", Password: "cHcy"}}},
	{"first-first-key", "first", "first", []codec.VAuth{{Scheme: "key", Key: "a2V5"}}},
	{"empty-unknown-external", "empty", "unknown", []codec.VAuth{{Scheme: "external", Token: "dG9r", Issuer: "iss"}, {Scheme: "transport"}}},
}

// cliAlphabet lists the server inputs tried at every position.
func cliAlphabet(full bool) []hsRecv {
	out := []hsRecv{{T: "other"}, {T: "fail", How: "garbage"}, {T: "fail", How: "close"}}
	ids := []string{"sid-a", "sid-b", ""}
	add := func(s hsSes) {
		for _, id := range ids {
			x := s
			x.ID = id
			x.From = cliServerNode
			out = append(out, hsRecv{T: "ses", Ses: &x})
		}
	}
	// negotiating: offers
	for _, o := range [][2][]string{{nil, nil}, {{"none"}, {"none"}}, {{"none"}, {"none", "tls"}}, {{"zz"}, {"zz"}}, {{"none", "gzip"}, {"tls"}}} {
		add(hsSes{State: "negotiating", CompOpts: o[0], EncOpts: o[1]})
	}
	// negotiating: confirmations
	for _, o := range [][2]string{{"none", "none"}, {"none", "tls"}, {"", "tls"}, {"none", ""}, {"zz", "zz"}, {"gzip", "none"}} {
		add(hsSes{State: "negotiating", Comp: o[0], Enc: o[1]})
	}
	// authenticating: requests and round trips
	for _, so := range [][]string{nil, {"guest"}, {"plain", "guest"}, {"zz"}} {
		add(hsSes{State: "authenticating", SchemeOpts: so})
	}
	add(hsSes{State: "authenticating", Scheme: "plain", Auth: &codec.VAuth{Scheme: "plain", Password: "Y2hhbGxlbmdl"}})
	if full {
		add(hsSes{State: "authenticating", Scheme: "key", Auth: &codec.VAuth{Scheme: "key", Key: "bm9uY2U="}, SchemeOpts: []string{"key"}})
	}
	add(hsSes{State: "established", To: cliAssigned})
	add(hsSes{State: "established"})
	for _, st := range []string{"new", "finishing", "finished", "failed"} {
		add(hsSes{State: st, HasReason: st == "failed"})
	}
	return out
}

func cliCaseFor(cfg *cliConfig, route string, script []hsRecv) *cliCase {
	return &cliCase{Cfg: cliCfg{Identity: codec.VNode{N: "alice", D: "verif.local"}, Instance: "home", CompSel: cfg.compSel, EncSel: cfg.encSel},
		Recvs: script, Auths: cfg.auths, SendOk: []bool{}, SetEncOk: route == "pipe-tls", Enc0: "none", Route: route}
}

func (e *Env) cliWantsBatch(c *cliCase, cands []hsRecv) ([]bool, error) {
	var out []bool
	req := map[string]interface{}{"m": "cliwants", "cfg": c.Cfg, "recvs": c.Recvs, "cands": cands, "auths": c.Auths,
		"sendOk": c.SendOk, "setEncOk": c.SetEncOk, "enc0": c.Enc0}
	err := e.Drv.Call(req, &out)
	return out, err
}

// enumerateCli builds the script tree by model-guided depth-first search. The client goes on after
// most session envelopes, so the tree is wide: in sampled runs every first input is run, continuing
// inputs are explored with probability 1/exploreRate below the first level, other inputs (leaves) are
// run with probability 1/leafRate, and the total is capped.
func enumerateCli(e *Env, cfg *cliConfig, route string, depth int, full bool, exploreRate, leafRate, limit int) ([]*cliCase, error) {
	alpha := cliAlphabet(full)
	out := []*cliCase{cliCaseFor(cfg, route, nil)}
	draw := func(rate int) bool { return rate <= 1 || e.Rng.Intn(rate) == 0 }
	var rec func(prefix []hsRecv, d int) error
	rec = func(prefix []hsRecv, d int) error {
		wants := make([]bool, len(alpha))
		if d < depth {
			w, err := e.cliWantsBatch(cliCaseFor(cfg, route, prefix), alpha)
			if err != nil {
				return err
			}
			wants = w
		}
		for i, a := range alpha {
			if limit > 0 && len(out) >= limit {
				return nil
			}
			script := append(append([]hsRecv{}, prefix...), a)
			explore := wants[i] && (d == 1 || draw(exploreRate))
			if explore || d == 1 || draw(leafRate) {
				out = append(out, cliCaseFor(cfg, route, script))
			}
			if explore {
				if err := rec(script, d+1); err != nil {
					return err
				}
			}
		}
		return nil
	}
	if err := rec(nil, 1); err != nil {
		return nil, err
	}
	return out, nil
}

type cliJudge func(e *Env, c *cliCase, impl cliObs) []hsVerdict

// runCliCases runs the cases on the implementation in child processes (a panic on the channel's
// receiver goroutine cannot be recovered) and diffs with the model.
func runCliCases(e *Env, cases []*cliCase, corrKey string, judge cliJudge) error {
	workers := 8
	chunks := make([][]interface{}, workers)
	for i, c := range cases {
		chunks[i%workers] = append(chunks[i%workers], c)
	}
	type pairRes struct {
		c    *cliCase
		impl cliObs
	}
	var mu sync.Mutex
	results := []pairRes{}
	var firstErr error
	var wg sync.WaitGroup
	for _, ch := range chunks {
		if len(ch) == 0 {
			continue
		}
		wg.Add(1)
		go func(ch []interface{}) {
			defer wg.Done()
			rs, err := RunChild("c08child", ch, 60*time.Second)
			mu.Lock()
			defer mu.Unlock()
			if err != nil && firstErr == nil {
				firstErr = err
			}
			for _, r := range rs {
				var c cliCase
				json.Unmarshal(r.Case, &c)
				var o cliObs
				if r.Res == nil {
					o = cliObs{Res: cliRes{R: "panic"}, Panic: "process died: " + r.Crash}
				} else {
					json.Unmarshal(r.Res, &o)
					fixCliTrace(&o)
				}
				results = append(results, pairRes{&c, o})
			}
		}(ch)
	}
	wg.Wait()
	if firstErr != nil {
		return firstErr
	}
	for _, r := range results {
		e.Rep.Eval()
		e.Rep.Count("route=" + r.c.Route)
		e.Rep.Count("outcome=" + r.impl.Res.R)
		e.Rep.Count("final=" + r.impl.State)
		cj, _ := json.Marshal(r.c)
		tj, _ := json.Marshal(projectCli(r.impl.Trace))
		e.Rep.Nontrivial(string(cj) + string(tj))
		e.Rep.Sample(map[string]interface{}{"case": r.c, "impl": r.impl}, 2)
		if r.impl.Note != "" {
			e.Rep.Violate("impl", "c08-stuck", r.impl.Note, r.c)
			continue
		}
		// a disagreement is reported only if it reproduces when the case is run alone, three times
		// out of three (the harness paces the script on connection quiescence, which does not see
		// the progress of the client's calling goroutine)
		confirm := func(bad func(o cliObs) bool) (cliObs, bool) {
			last := r.impl
			for i := 0; i < 2; i++ {
				rs, err := RunChild("c08child", []interface{}{r.c}, 60*time.Second)
				if err != nil || len(rs) != 1 {
					return last, true
				}
				if rs[0].Res == nil {
					last = cliObs{Res: cliRes{R: "panic"}, Panic: "process died: " + rs[0].Crash}
				} else {
					last = cliObs{}
					json.Unmarshal(rs[0].Res, &last)
					fixCliTrace(&last)
				}
				if !bad(last) {
					e.Rep.Count("unreproduced-disagreement")
					return last, false
				}
			}
			return last, true
		}
		if e.Drv != nil {
			mo, err := e.modelClientHs(r.c)
			if err != nil {
				return err
			}
			if why := compareCli(r.impl, mo); why != "" {
				if last, ok := confirm(func(o cliObs) bool { return compareCli(o, mo) != "" }); ok {
					e.Rep.Violate("corr", corrKey, "client handshake: model and implementation differ: "+compareCli(last, mo),
						map[string]interface{}{"case": r.c, "impl": last, "model": mo})
				}
			}
		}
		if judge != nil {
			if vs := judge(e, r.c, r.impl); len(vs) > 0 {
				if last, ok := confirm(func(o cliObs) bool { return len(judge(e, r.c, o)) > 0 }); ok {
					for _, v := range judge(e, r.c, last) {
						e.Rep.Violate("impl", v.key, v.msg, map[string]interface{}{"case": r.c, "impl": last})
					}
				}
			}
		}
	}
	return nil
}

// fixCliTrace restores typed session values in a trace that went through JSON.
func fixCliTrace(o *cliObs) {
	for _, ev := range o.Trace {
		if s, ok := ev["ses"]; ok {
			b, _ := json.Marshal(s)
			var hs hsSes
			json.Unmarshal(b, &hs)
			ev["ses"] = &hs
		}
		if r, ok := ev["r"]; ok {
			b, _ := json.Marshal(r)
			var hr hsRecv
			json.Unmarshal(b, &hr)
			ev["r"] = hr
		}
	}
}

func lastRecvSesBefore(tr []map[string]interface{}, idx int) *hsSes {
	for i := idx - 1; i >= 0; i-- {
		if tr[i]["e"] == "recv" {
			if r, ok := tr[i]["r"].(hsRecv); ok && r.T == "ses" {
				return r.Ses
			}
			return nil
		}
	}
	return nil
}

// judgeC08 evaluates the statement of C08 on the observation: once with the compiled Lean
// checkers (the theorems' own predicates) and once directly in Go.
func judgeC08(e *Env, c *cliCase, o cliObs) []hsVerdict {
	out := []hsVerdict{}
	if e.Drv != nil && o.Res.R != "panic" {
		var v map[string]bool
		req := map[string]interface{}{"m": "clijudge", "trace": projectCli(o.Trace), "res": o.Res, "state": o.State,
			"connected": o.Connected, "sid": o.Sid, "local": o.Local, "remote": o.Remote}
		if err := e.Drv.Call(req, &v); err != nil {
			return []hsVerdict{{"c08-judge-error", err.Error()}}
		}
		if !v["sends"] {
			out = append(out, hsVerdict{"c08-sends", "the client's envelopes violate the checker cliRev (first envelope a bare new session; later ones echo the server's latest id; credentials only after an authentication request)"})
		}
		if !v["truthful"] {
			out = append(out, hsVerdict{"c08-untruthful", "what EstablishSession returned does not match the server's last session envelope / the channel's id and nodes / the closing of the connection (checker truthful)"})
		}
	}
	if o.Res.R == "panic" {
		out = append(out, hsVerdict{"c08-panic", "client establishment panics: " + o.Panic})
		return out
	}
	var lastSes *hsSes
	for _, ev := range o.Trace {
		if ev["e"] == "recv" {
			if r, ok := ev["r"].(hsRecv); ok && r.T == "ses" {
				lastSes = r.Ses
			}
		}
	}
	// "reports an established channel" = EstablishSession returns, without error, a session whose
	// state is established (a call that returns an error reports nothing, whatever the channel's state)
	if o.Res.R == "ok" && o.Res.Ses != nil && o.Res.Ses.State == "established" {
		if lastSes == nil || lastSes.State != "established" {
			out = append(out, hsVerdict{"c08-established-untruthful", "the client reports an established session although the server's last session envelope was not established"})
		} else if o.State != "established" {
			// (a server that goes on sending session envelopes after `established` makes the client
			// drop the connection: the call still reports what the server's last word was, and the
			// channel's state says so; whether the connection survived is not part of the statement)
			out = append(out, hsVerdict{"c08-established-state", "EstablishSession returned an established session but the channel is not established (state " + o.State + ")"})
		} else if o.Sid != lastSes.ID || o.Local != lastSes.To || o.Remote != lastSes.From {
			out = append(out, hsVerdict{"c08-established-fields", fmt.Sprintf("established: id/local/remote %q %v %v differ from the envelope's id/to/from %q %v %v", o.Sid, o.Local, o.Remote, lastSes.ID, lastSes.To, lastSes.From)})
		}
	}
	first := true
	for i, ev := range o.Trace {
		if ev["e"] != "emit" {
			continue
		}
		s := ev["ses"].(*hsSes)
		prev := lastRecvSesBefore(o.Trace, i)
		if !first {
			want := ""
			for j := i - 1; j >= 0; j-- {
				if o.Trace[j]["e"] == "recv" {
					if r, ok := o.Trace[j]["r"].(hsRecv); ok && r.T == "ses" {
						want = r.Ses.ID
						break
					}
				}
			}
			if s.ID != want {
				out = append(out, hsVerdict{"c08-id-echo", fmt.Sprintf("client envelope carries id %q, the server's latest session envelope has %q", s.ID, want)})
			}
		}
		first = false
		if s.Auth != nil && (prev == nil || prev.State != "authenticating") {
			out = append(out, hsVerdict{"c08-credentials-unrequested", "the client sent credentials although the server's latest envelope was not an authentication request"})
		}
	}
	if lastSes != nil && (lastSes.State == "finished" || lastSes.State == "failed") && o.Consumed > 0 && o.Connected && o.Res.R != "panic" {
		// only if that envelope was actually read by the client: it is the last one sent before the call returned
		out = append(out, hsVerdict{"c08-not-closed", "the server answered " + lastSes.State + " but the client left its connection open"})
	}
	return out
}

func c08Mode(judge cliJudge, prop string) Mode {
	return func(e *Env) error {
		e.Rep.Rule = "server scripts over an alphabet of ~80 inputs per position (session envelopes of every state incl. regressions x id in {a, b, empty} x offers x confirmations x scheme lists x round-trip data, a non-session envelope, undecodable bytes, disconnect), model-guided depth-first enumeration (inputs after which the client goes on are always explored; depth 3 in quick with sampled leaves, depth 4 in thorough) x 4 client configurations (selectors, authenticators) x with/without TLS capability, played by a byte-level scripted server against the real ClientChannel.EstablishSession over the real TCP transport in child processes; trace of envelopes / selector and authenticator invocations, outcome, final state / id / nodes / connection are diffed with the model and judged by the statement. Non-trivial = every run; distinct by (case, trace)."
		if e.Drv == nil {
			return fmt.Errorf("c08 needs the model driver for the script enumeration")
		}
		if e.Replay != "" {
			b, err := readReplayCase(e.Replay)
			if err != nil {
				return err
			}
			var cc c08ClientCase
			if json.Unmarshal(b, &cc) == nil && cc.Family == "client-establish" {
				return runC08Client(e, &cc)
			}
			var wrap struct {
				Case *cliCase `json:"case"`
			}
			c := &cliCase{}
			if json.Unmarshal(b, &wrap) == nil && wrap.Case != nil {
				c = wrap.Case
			} else if err := json.Unmarshal(b, c); err != nil {
				return err
			}
			return runCliCases(e, []*cliCase{c}, prop+"-corr", judge)
		}
		depth := 3
		if e.Thorough() {
			depth = 4
		}
		all := []*cliCase{}
		for ci := range cliConfigs {
			cfg := &cliConfigs[ci]
			for _, route := range []string{"pipe", "pipe-tls"} {
				exploreRate, leafRate, limit := 6, 8, 900
				if e.Thorough() {
					exploreRate, leafRate, limit = 2, 2, 60000
				}
				cases, err := enumerateCli(e, cfg, route, depth, e.Thorough(), exploreRate, leafRate, limit)
				if err != nil {
					return err
				}
				e.Rep.Count("config=" + cfg.name)
				all = append(all, cases...)
			}
		}
		e.Rep.Extra["scripts_run"] = len(all)
		if prop == "c08" {
			// the same statement one level up: the high-level Client against scripted servers
			var cwg sync.WaitGroup
			for _, cc := range c08ClientCases() {
				cwg.Add(1)
				go func(cc *c08ClientCase) {
					defer cwg.Done()
					_ = runC08Client(e, cc)
				}(cc)
			}
			cwg.Wait()
		}
		return runCliCases(e, all, prop+"-corr", judge)
	}
}

func init() {
	Register("c08child", func(e *Env) error {
		ReadChildCases(func(n int, raw json.RawMessage) {
			var c cliCase
			if err := json.Unmarshal(raw, &c); err != nil {
				return
			}
			ChildBegin(n, &c)
			ChildEnd(n, runClientHs(&c))
		})
		return nil
	})
	Register("c08", c08Mode(judgeC08, "c08"))
}
