package modes

import (
	"encoding/json"
	"fmt"
	"sync"

	"limeverif/internal/codec"
)

// ---- mode hssrv: every client script against the real server handshake -----------------------

var hsServerNode = codec.VNode{N: "postmaster", D: "verif.local", I: "srv"}
var hsClientNode = codec.VNode{N: "alice", D: "verif.local", I: "home"}
var hsAssigned = codec.VNode{N: "alice", D: "verif.local", I: "assigned-1"}

const hsSid = "11111111-2222-3333-4444-555555555555"

type hsConfig struct {
	name                          string
	comp, enc, schemes            []string
}

var hsConfigs = []hsConfig{
	{"plain", []string{"none"}, []string{"none"}, []string{"guest"}},
	{"negotiate", []string{"none"}, []string{"none", "tls"}, []string{"plain", "guest"}},
	{"tls-only", []string{"none"}, []string{"tls"}, []string{"plain"}},
	{"gzip-unsupported", []string{"none", "gzip"}, []string{"none"}, []string{"key", "external"}},
	{"tls-first", []string{"none"}, []string{"tls", "none"}, []string{"transport", "guest"}},
	{"comp-empty", []string{"gzip"}, []string{"none"}, []string{"guest"}},
	{"no-schemes", []string{"none"}, []string{"none", "tls"}, []string{}},
	{"dup-options", []string{"none", "none"}, []string{"none", "tls", "tls"}, []string{"guest", "guest"}},
	{"comp-extra-negotiated", []string{"none", "gzip"}, []string{"none", "tls"}, []string{"guest"}},
	// nothing to offer for compression while only TLS is acceptable: the session must fail, not skip negotiation (seed C10-e)
	{"tls-only-comp-empty", []string{"gzip"}, []string{"tls"}, []string{"plain"}},
}

var hsAuthPatterns = [][]interface{}{
	{"role"}, {"unknown"}, {"error"},
	{map[string]interface{}{"rt": codec.VAuth{Scheme: "plain", Password: "Y2hhbGxlbmdl"}}, "role"},
	{map[string]interface{}{"rt": codec.VAuth{Scheme: "key", Key: "bm9uY2U="}}, map[string]interface{}{"rt": codec.VAuth{Scheme: "key", Key: "bm9uY2Uy"}}, "unknown"},
	{map[string]interface{}{"rt": codec.VAuth{Scheme: "guest"}}, "error"},
	{"unknown", "role"},
	{"unknown0"},
	{map[string]interface{}{"rt": codec.VAuth{Scheme: "plain", Password: "Y2hhbGxlbmdl"}}, "unknown0", "role"},
}

func inList(l []string, x string) bool {
	for _, y := range l {
		if y == x {
			return true
		}
	}
	return false
}

// hsAlphabet lists the client inputs tried at every position for a configuration.
func hsAlphabet(c *hsConfig, full bool) []hsRecv {
	out := []hsRecv{{T: "other"}, {T: "fail", How: "garbage"}, {T: "fail", How: "close"}}
	ids := []string{"", hsSid, "wrong-id"}
	add := func(s hsSes) {
		for _, id := range ids {
			x := s
			x.ID = id
			out = append(out, hsRecv{T: "ses", Ses: &x})
		}
	}
	add(hsSes{State: "new"})
	for _, sel := range [][2]string{{"none", "none"}, {"none", "tls"}, {"gzip", "none"}, {"", ""}, {"none", ""}, {"zz", "none"}} {
		add(hsSes{State: "negotiating", Comp: sel[0], Enc: sel[1]})
	}
	auths := []struct {
		scheme string
		a      *codec.VAuth
	}{
		{"guest", &codec.VAuth{Scheme: "guest"}}, {"plain", &codec.VAuth{Scheme: "plain", Password: "cGFzcw=="}},
		{"key", &codec.VAuth{Scheme: "key", Key: "a2V5"}}, {"transport", &codec.VAuth{Scheme: "transport"}},
		{"external", &codec.VAuth{Scheme: "external", Token: "dG9r", Issuer: "iss"}}, {"", nil}, {"plain", nil},
	}
	for _, a := range auths {
		add(hsSes{State: "authenticating", From: hsClientNode, Scheme: a.scheme, Auth: a.a})
		if full {
			add(hsSes{State: "authenticating", Scheme: a.scheme, Auth: a.a})
		}
	}
	for _, st := range []string{"established", "finishing", "finished", "failed"} {
		add(hsSes{State: st})
	}
	// envelopes whose state is wrong for the stage but whose other members would be acceptable there
	for _, st := range []string{"new", "authenticating", "established", "finishing", "failed"} {
		add(hsSes{State: st, Comp: "none", Enc: "none"})
		add(hsSes{State: st, Comp: "none", Enc: "tls"})
	}
	for _, st := range []string{"new", "negotiating", "established", "finishing", "failed"} {
		add(hsSes{State: st, From: hsClientNode, Scheme: "guest", Auth: &codec.VAuth{Scheme: "guest"}})
		add(hsSes{State: st, From: hsClientNode, Scheme: "plain", Auth: &codec.VAuth{Scheme: "plain", Password: "cGFzcw=="}})
	}
	return out
}

func hsCaseFor(c *hsConfig, route string, script []hsRecv, auths []interface{}, regOk bool) *hsCase {
	hc := &hsCase{Cfg: hsCfg{Sid: hsSid, Node: hsServerNode, CompOpts: c.comp, EncOpts: c.enc, SchemeOpts: c.schemes,
		SupComp: []string{"none"}, SupEnc: []string{"none", "tls"}},
		Recvs: script, Auths: auths, SendOk: []bool{}, SetEncOk: route == "pipe-tls", Enc0: "none", Route: route}
	if route == "inproc" {
		hc.Cfg.SupEnc = []string{"none"}
	}
	if regOk {
		// what the registration callback supplies varies with the script: the assigned node, a node without
		// an instance (while the peer asked for one), another identity altogether — "the established
		// session announces exactly that address"
		n := hsAssigned
		switch (len(script) + len(route)) % 3 {
		case 1:
			n = codec.VNode{N: "alice", D: "verif.local"}
		case 2:
			n = codec.VNode{N: "bob", D: "elsewhere.local", I: "x"}
		}
		hc.Regs = []*codec.VNode{&n, &n}
	} else {
		hc.Regs = []*codec.VNode{nil}
	}
	return hc
}

type hsJudge func(e *Env, c *hsCase, impl hsObs) []struct{ key, msg string }

// runHsCases runs the given cases on the implementation (in parallel) and on the model and diffs.
func runHsCases(e *Env, cases []*hsCase, corrKey string, judge hsJudge) error {
	type res struct {
		c    *hsCase
		impl hsObs
	}
	results := make([]res, len(cases))
	var wg sync.WaitGroup
	sem := make(chan struct{}, 8)
	for i, c := range cases {
		wg.Add(1)
		sem <- struct{}{}
		go func(i int, c *hsCase) {
			defer wg.Done()
			defer func() { <-sem }()
			results[i] = res{c, runServerHs(c)}
		}(i, c)
	}
	wg.Wait()
	for _, r := range results {
		e.Rep.Eval()
		e.Rep.Count("route=" + r.c.Route)
		e.Rep.Count("final=" + r.impl.State)
		cj, _ := json.Marshal(r.c)
		tj, _ := json.Marshal(projectHs(r.impl.Trace))
		if len(r.impl.Trace) > 0 {
			e.Rep.Nontrivial(string(cj) + string(tj))
		}
		e.Rep.Sample(map[string]interface{}{"case": r.c, "impl": r.impl}, 2)
		if r.impl.Panic != "" {
			e.Rep.Violate("impl", "hs-server-panic", "server handshake panics: "+r.impl.Panic, r.c)
			continue
		}
		if r.impl.Note != "" {
			e.Rep.Violate("impl", "hs-server-stuck", r.impl.Note, r.c)
			continue
		}
		// a disagreement is reported only if it reproduces when the case is run alone, three
		// times out of three (the handshake is sequential logic; harness pacing is not)
		confirm := func(bad func(o hsObs) bool) (hsObs, bool) {
			last := r.impl
			for i := 0; i < 2; i++ {
				last = runServerHs(r.c)
				if !bad(last) {
					e.Rep.Count("unreproduced-disagreement")
					return last, false
				}
			}
			return last, true
		}
		if e.Drv != nil {
			mo, err := e.modelServerHs(r.c)
			if err != nil {
				return err
			}
			if why := compareHs(r.impl, mo); why != "" {
				if last, ok := confirm(func(o hsObs) bool { return compareHs(o, mo) != "" }); ok {
					e.Rep.Violate("corr", corrKey, "server handshake: model and implementation differ: "+compareHs(last, mo),
						map[string]interface{}{"case": r.c, "impl": last, "model": mo})
				}
			}
		}
		if judge != nil {
			if vs := judge(e, r.c, r.impl); len(vs) > 0 {
				if last, ok := confirm(func(o hsObs) bool { return len(judge(e, r.c, o)) > 0 }); ok {
					for _, v := range judge(e, r.c, last) {
						e.Rep.Violate("impl", v.key, v.msg, map[string]interface{}{"case": r.c, "impl": last})
					}
				}
			}
		}
	}
	return nil
}

// wantsBatch asks the model, for every candidate next input after the prefix, whether the server
// then asks for yet another input.
func (e *Env) wantsBatch(c *hsCase, cands []hsRecv) ([]bool, error) {
	var out []bool
	req := map[string]interface{}{"m": "srvwants", "cfg": c.Cfg, "recvs": c.Recvs, "cands": cands, "auths": c.Auths, "regs": c.Regs,
		"sendOk": c.SendOk, "setEncOk": c.SetEncOk, "enc0": c.Enc0}
	err := e.Drv.Call(req, &out)
	return out, err
}

// enumerateHs builds the script tree for one configuration / oracle pattern by model-guided
// depth-first search: a script is extended only while the model still asks for input. Inputs after
// which the server goes on are always run and explored; the others (leaves) are all run when
// sample is nil, else drawn.
func enumerateHs(e *Env, cfg *hsConfig, route string, auths []interface{}, regOk bool, depth int, full bool, allFirst bool, sample func() bool) ([]*hsCase, error) {
	alpha := hsAlphabet(cfg, full)
	out := []*hsCase{}
	var rec func(prefix []hsRecv, d int) error
	rec = func(prefix []hsRecv, d int) error {
		base := hsCaseFor(cfg, route, prefix, auths, regOk)
		wants := make([]bool, len(alpha))
		if d < depth {
			w, err := e.wantsBatch(base, alpha)
			if err != nil {
				return err
			}
			wants = w
		}
		for i, a := range alpha {
			script := append(append([]hsRecv{}, prefix...), a)
			if wants[i] || sample == nil || (d == 1 && allFirst) || sample() {
				out = append(out, hsCaseFor(cfg, route, script, auths, regOk))
			}
			if wants[i] {
				if err := rec(script, d+1); err != nil {
					return err
				}
			}
		}
		return nil
	}
	// the empty script (peer connects and goes away)
	out = append(out, hsCaseFor(cfg, route, nil, auths, regOk))
	if err := rec(nil, 1); err != nil {
		return nil, err
	}
	return out, nil
}

func hssrvMode(judge hsJudge, prop string) Mode {
	return func(e *Env) error {
		e.Rep.Rule = "client scripts over an alphabet of ~70 inputs per position (session envelopes of every state x id in {empty, right, wrong} x negotiation selections x schemes/credentials, a non-session envelope, undecodable bytes, disconnect), enumerated by model-guided depth-first search (a script is extended only while the model still asks for input; depth 3 exhaustive in quick for the first oracle pattern and sampled otherwise, depth 4 in thorough) x 8 server configurations x 7 Authenticate outcome patterns x Register ok/error, played by a scripted peer against the real ServerChannel.EstablishSession over the real TCP transport on in-memory connections (with and without TLS); trace of envelopes / callback invocations / inputs, return value, final state, connection state are diffed with the model and judged by the property predicate. Non-trivial = a run with at least one event; distinct by (case, trace)."
		if e.Drv == nil {
			return fmt.Errorf("hssrv needs the model driver for the script enumeration")
		}
		if e.Replay != "" {
			b, err := readReplayCase(e.Replay)
			if err != nil {
				return err
			}
			var wrap struct {
				Case *hsCase `json:"case"`
			}
			c := &hsCase{}
			if json.Unmarshal(b, &wrap) == nil && wrap.Case != nil {
				c = wrap.Case
			} else if err := json.Unmarshal(b, c); err != nil {
				return err
			}
			return runHsCases(e, []*hsCase{c}, prop+"-hs-corr", judge)
		}
		depth := 3
		if e.Thorough() {
			depth = 4
		}
		total := 0
		for ci := range hsConfigs {
			cfg := &hsConfigs[ci]
			for pi, pat := range hsAuthPatterns {
				for _, regOk := range []bool{true, false} {
					if !regOk && pi != 0 && !e.Thorough() {
						continue
					}
					routes := []string{"pipe"}
					if inList(cfg.enc, "tls") {
						routes = append(routes, "pipe-tls", "pipe-tls-bad")
					}
					for _, route := range routes {
						var sample func() bool
						if !e.Thorough() {
							rate := 10
							if pi == 0 && regOk {
								rate = 3
							}
							sample = func() bool { return e.Rng.Intn(rate) == 0 }
						}
						cases, err := enumerateHs(e, cfg, route, pat, regOk, depth, e.Thorough(), pi == 0 && regOk, sample)
						if err != nil {
							return err
						}
						total += len(cases)
						e.Rep.Count("config=" + cfg.name)
						if err := runHsCases(e, cases, prop+"-hs-corr", judge); err != nil {
							return err
						}
					}
				}
			}
		}
		e.Rep.Extra["scripts_run"] = total
		return nil
	}
}

func init() {
	Register("hssrv", hssrvMode(nil, "hs"))
}
