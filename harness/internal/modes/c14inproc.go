package modes

import (
	"context"
	"encoding/json"
	"sync"
	"time"

	lime "github.com/takenet/lime-go"

	"limeverif/internal/codec"
	"limeverif/internal/pair"
)

// inprocPlayable: the in-process transport carries typed envelopes only.
func inprocPlayable(c *hsCase) bool {
	for _, r := range c.Recvs {
		if r.T == "fail" && r.How != "close" {
			return false
		}
	}
	return true
}

// goneVariants: the same script with the client vanishing right after its k-th envelope was taken
// by the server (the in-process transport then reports not connected without any failed call).
func goneVariants(c *hsCase) []*hsCase {
	out := []*hsCase{}
	for k, r := range c.Recvs {
		if r.T != "ses" {
			continue
		}
		v := *c
		v.Recvs = append(append([]hsRecv{}, c.Recvs[:k]...), hsRecv{T: "sesgone", Ses: r.Ses})
		out = append(out, &v)
	}
	return out
}

// runServeInproc plays the script against a real Server whose listener hands out the real
// in-process transport (behind a wrapper that can pin the moment the client vanishes).
func runServeInproc(c *hsCase, census bool) (obs c14Obs) {
	ct, st, err := pair.InProc(4)
	if err != nil {
		obs.Note = "harness: " + err.Error()
		return
	}
	gone := map[int]bool{}
	for i, r := range c.Recvs {
		if r.T == "sesgone" {
			gone[i+1] = true
		}
	}
	w := &pair.WrapT{Transport: st, AfterRecv: func(n int, err error) {
		if err == nil && gone[n] {
			ct.Close()
		}
	}}
	ql := pair.NewQueueListener()
	ai, ri := 0, 0
	var cbmu sync.Mutex
	cfg := &lime.ServerConfig{
		Node: lnode(c.Cfg.Node), CompOpts: toComp(c.Cfg.CompOpts), EncryptOpts: toEnc(c.Cfg.EncOpts), SchemeOpts: toSchemes(c.Cfg.SchemeOpts),
		Backlog: 4, ChannelBufferSize: 1,
		Authenticate: func(_ context.Context, id lime.Identity, a lime.Authentication) (*lime.AuthenticationResult, error) {
			cbmu.Lock()
			defer cbmu.Unlock()
			var out interface{} = "error"
			if ai < len(c.Auths) {
				out = c.Auths[ai]
			}
			ai++
			switch o := out.(type) {
			case string:
				switch o {
				case "role":
					return lime.MemberAuthenticationResult(), nil
				case "unknown":
					return lime.UnknownAuthenticationResult(), nil
				case "unknown0":
					return &lime.AuthenticationResult{}, nil
				}
				return nil, callbackError(len(c.Recvs))
			case map[string]interface{}:
				b, _ := json.Marshal(o["rt"])
				var va codec.VAuth
				json.Unmarshal(b, &va)
				return &lime.AuthenticationResult{Role: lime.DomainRoleUnknown, RoundTrip: toAuth(&va)}, nil
			}
			return nil, callbackError(len(c.Recvs))
		},
		Register: func(_ context.Context, n lime.Node, _ *lime.ServerChannel) (lime.Node, error) {
			cbmu.Lock()
			defer cbmu.Unlock()
			var res *codec.VNode
			if ri < len(c.Regs) {
				res = c.Regs[ri]
			}
			ri++
			if res == nil {
				return lime.Node{}, callbackError(len(c.Recvs))
			}
			return lnode(*res), nil
		},
		Established: func(string, *lime.ServerChannel) { cbmu.Lock(); obs.CbEst++; cbmu.Unlock() },
		Finished:    func(string) { cbmu.Lock(); obs.CbFin++; cbmu.Unlock() },
	}
	srv := lime.NewServer(cfg, &lime.EnvelopeMux{}, lime.NewBoundListener(ql, ql.Addr()))
	serveDone := make(chan error, 1)
	go func() { serveDone <- srv.ListenAndServe() }()
	ql.Offer(w)

	learnedSid := ""
	got := make(chan *lime.Session, 16)
	readerDone := make(chan struct{})
	go func() {
		defer close(readerDone)
		for {
			ctx, cancel := context.WithTimeout(context.Background(), 10*time.Second)
			e, err := ct.Receive(ctx)
			cancel()
			if err != nil {
				return
			}
			if s, ok := e.(*lime.Session); ok {
				cbmu.Lock()
				if learnedSid == "" {
					learnedSid = s.ID
				}
				if s.State == lime.SessionStateEstablished {
					obs.Established = true
				}
				cbmu.Unlock()
				got <- s
			}
		}
	}()
	// after each input the server either answers with a session envelope or closes
	react := func() {
		select {
		case s := <-got:
			if s.State == lime.SessionStateFailed {
				for t0 := time.Now(); ct.Connected() && time.Since(t0) < 2*time.Second; {
					time.Sleep(50 * time.Microsecond)
				}
			}
		case <-readerDone:
		case <-time.After(2 * time.Second):
			obs.Note = "no reaction of the server within 2 s"
		}
	}
	ctx := context.Background()
	for _, item := range c.Recvs {
		if !ct.Connected() {
			break
		}
		switch item.T {
		case "ses", "sesgone":
			out := item.Ses.toSession()
			cbmu.Lock()
			if out.ID == c.Cfg.Sid && learnedSid != "" {
				out.ID = learnedSid
			}
			cbmu.Unlock()
			_ = ct.Send(ctx, out)
			react()
		case "other":
			m := &lime.Message{}
			m.SetContent(lime.TextDocument("injected"))
			m.ID = "injected"
			_ = ct.Send(ctx, m)
			react()
		case "fail":
			ct.Close()
		}
	}
	cbmu.Lock()
	est := obs.Established
	cbmu.Unlock()
	if ct.Connected() && !est {
		obs.Starved = true
		ct.Close() // the client gives up
	}
	// the serving goroutine settles: callbacks, if any, are invoked by now or shortly
	for t0 := time.Now(); st.Connected() && time.Since(t0) < time.Second; {
		time.Sleep(50 * time.Microsecond)
	}
	time.Sleep(300 * time.Microsecond)
	obs.PeerClosed = !st.Connected()
	ct.Close()
	srv.Close()
	select {
	case <-serveDone:
	case <-time.After(5 * time.Second):
		obs.Note += " ListenAndServe did not return"
	}
	<-readerDone
	deadline := time.Now().Add(3 * time.Second)
	for census {
		obs.Leaked = limeGoroutines()
		if len(obs.Leaked) == 0 || time.Now().After(deadline) {
			break
		}
		time.Sleep(200 * time.Microsecond)
	}
	return
}
