package modes

import (
	"bufio"
	"bytes"
	"encoding/json"
	"fmt"
	"os"
	"os/exec"
	"strings"
	"time"
)

// Child processes: modes that drive code which can panic on a library goroutine (where recover
// is impossible) run their cases in a child `hx` process. The child prints one JSON line per case
// begin ("B") and end ("E"); if it dies, the last begun case is the crashing one.

type childLine struct {
	T    string          `json:"t"` // "B" begin | "E" end
	N    int             `json:"n"`
	Case json.RawMessage `json:"case,omitempty"`
	Res  json.RawMessage `json:"res,omitempty"`
}

type childResult struct {
	Case    json.RawMessage
	Res     json.RawMessage // nil when the child crashed in this case
	Crash   string          // panic text when crashed
	Timeout bool
}

// ChildEmit is used by child modes.
func ChildBegin(n int, c interface{}) {
	b, _ := json.Marshal(c)
	fmt.Printf("{\"t\":\"B\",\"n\":%d,\"case\":%s}\n", n, b)
	os.Stdout.Sync()
}

func ChildEnd(n int, res interface{}) {
	b, _ := json.Marshal(res)
	fmt.Printf("{\"t\":\"E\",\"n\":%d,\"res\":%s}\n", n, b)
	os.Stdout.Sync()
}

// RunChild runs `hx <mode>` with the cases on stdin (one JSON per line) and returns per-case results.
// A crashed child is restarted on the remaining cases.
func RunChild(mode string, cases []interface{}, perCase time.Duration) ([]childResult, error) {
	results := make([]childResult, 0, len(cases))
	start := 0
	for start < len(cases) {
		var in bytes.Buffer
		for _, c := range cases[start:] {
			b, _ := json.Marshal(c)
			in.Write(b)
			in.WriteByte('\n')
		}
		cmd := exec.Command(os.Args[0], "-nodriver", mode)
		cmd.Stdin = &in
		var errb bytes.Buffer
		cmd.Stderr = &errb
		out, err := cmd.StdoutPipe()
		if err != nil {
			return nil, err
		}
		cmd.Env = append(os.Environ(), "GOTRACEBACK=single")
		if err := cmd.Start(); err != nil {
			return nil, err
		}
		lines := make(chan childLine, 16)
		go func() {
			sc := bufio.NewScanner(out)
			sc.Buffer(make([]byte, 1<<20), 1<<24)
			for sc.Scan() {
				var l childLine
				if json.Unmarshal(sc.Bytes(), &l) == nil && l.T != "" {
					lines <- l
				}
			}
			close(lines)
		}()
		var cur *childResult
		began := time.Now()
		done := 0
		timedOut := false
	loop:
		for {
			select {
			case l, ok := <-lines:
				if !ok {
					break loop
				}
				if l.T == "B" {
					cur = &childResult{Case: l.Case}
					began = time.Now()
				} else if l.T == "E" && cur != nil {
					if d := time.Since(began); d > 3*time.Second && os.Getenv("VERIF_SLOW") != "" {
						fmt.Fprintf(os.Stderr, "slow case (%.1fs) in %s: %s\n", d.Seconds(), mode, tail(string(cur.Case), 700))
					}
					cur.Res = l.Res
					results = append(results, *cur)
					cur = nil
					done++
				}
			case <-time.After(perCase):
				timedOut = true
				cmd.Process.Kill()
				break loop
			}
		}
		cmd.Wait()
		if cur != nil {
			cur.Timeout = timedOut
			cur.Crash = crashText(errb.String())
			if timedOut && cur.Crash == "" {
				cur.Crash = "timeout"
			}
			results = append(results, *cur)
			done++
		} else if done == 0 {
			return results, fmt.Errorf("child %s produced nothing: %s", mode, tail(errb.String(), 600))
		}
		start += done
	}
	return results, nil
}

func crashText(stderr string) string {
	i := strings.Index(stderr, "panic:")
	if i < 0 {
		i = strings.Index(stderr, "fatal error:")
	}
	if i < 0 {
		return tail(stderr, 400)
	}
	s := stderr[i:]
	// keep the panic line and the first frames naming lime-go functions
	lines := strings.Split(s, "\n")
	keep := []string{lines[0]}
	for _, l := range lines[1:] {
		if strings.Contains(l, "lime-go.") && len(keep) < 6 {
			keep = append(keep, strings.TrimSpace(l))
		}
	}
	return strings.Join(keep, " | ")
}

func tail(s string, n int) string {
	if len(s) > n {
		return s[len(s)-n:]
	}
	return s
}

// ReadChildCases reads the cases a child mode was given on stdin.
func ReadChildCases(handle func(n int, raw json.RawMessage)) {
	sc := bufio.NewScanner(os.Stdin)
	sc.Buffer(make([]byte, 1<<20), 1<<24)
	n := 0
	for sc.Scan() {
		if len(bytes.TrimSpace(sc.Bytes())) == 0 {
			continue
		}
		raw := append([]byte{}, sc.Bytes()...)
		handle(n, raw)
		n++
	}
}
