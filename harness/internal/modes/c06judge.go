package modes

import (
	"encoding/json"
	"fmt"
	"os"
	"sync"
	"time"
)

var c06Step = map[string]int{"new": 0, "negotiating": 1, "authenticating": 2, "established": 3, "finishing": 4, "finished": 5, "failed": 6}

func c06SesOp(role, step string) []interface{} {
	client := role == "client"
	switch step {
	case "cli-finishing", "srv-finishing":
		return []interface{}{"arriveSes", "finishing", client}
	case "finished":
		return []interface{}{"arriveSes", "finished", client}
	case "failed":
		return []interface{}{"arriveSes", "failed", client}
	}
	return nil
}

// c06Judge evaluates the statement on one run and, for sequential runs, diffs with the model.
func c06Judge(e *Env, c *c06Case, o *c06Obs) error {
	onWire := map[string]bool{}
	for _, w := range o.Wire {
		if len(w) > 5 && w[:5] == "data:" {
			onWire[w[5:]] = true
		}
	}
	if c.Racing {
		ok, refused := 0, 0
		for _, r := range o.Racers {
			if len(r.Err) > 6 && r.Err[:6] == "panic:" {
				e.Rep.Violate("impl", "c06-panic", "a send operation panics: "+r.Err, map[string]interface{}{"case": c, "send": r})
				continue
			}
			if r.Err == "" {
				ok++
				if c06Step[r.Before] > 3 || c06Step[r.After] < 3 {
					e.Rep.Violate("impl", "c06-send-outside", fmt.Sprintf("%s succeeded although the session state was %s before and %s after the call", r.Op, r.Before, r.After), map[string]interface{}{"case": c, "send": r})
				}
			} else {
				refused++
				if onWire[r.ID] {
					e.Rep.Violate("impl", "c06-error-but-emitted", fmt.Sprintf("%s returned an error (%s) but the envelope reached the wire", r.Op, r.Err), map[string]interface{}{"case": c, "send": r})
				}
			}
		}
		e.Rep.Count(fmt.Sprintf("racing: runs with accepted=%v refused=%v sends", ok > 0, refused > 0))
		e.Rep.Extra["racing_sends"] = asInt(e.Rep.Extra["racing_sends"]) + len(o.Racers)
		return nil
	}
	ops := [][]interface{}{}
	type expect struct {
		probe, send int
	}
	var sendAt []expect
	var arriveAt []int // probe index after a data-in step
	prevState, prevConn := "new", true
	// what the script itself says about the session, whatever State() reports
	startedHs, scriptEst, scriptTerminal := false, false, ""
	for i, p := range o.Probes {
		switch p.After {
		case "start":
			startedHs = true
		case "auth", "est":
			if startedHs && scriptTerminal == "" && i > 0 && c06Step[o.Probes[i-1].State] < 3 && p.State == "established" {
				scriptEst = true
			}
		case "srv-finish", "srv-fail", "srv-finish-sendfail", "srv-fail-sendfail":
			if scriptEst {
				scriptTerminal = p.After
			}
		case "finished", "failed":
			if startedHs && c.Role == "client" && i > 0 && o.Probes[i-1].Connected && (scriptEst || !o.Probes[i-1].HsDone) {
				scriptTerminal = "the server's " + p.After + " session"
			}
		}
		if scriptTerminal != "" {
			for _, s := range p.Sends {
				if s.Err == "" || onWire[s.ID] {
					e.Rep.Violate("impl", "c06-send-after-end", fmt.Sprintf("%s role: after %s (step %q, State() reports %s) %s returned err=%q, envelope on the wire=%v", c.Role, scriptTerminal, p.After, p.State, s.Op, s.Err, onWire[s.ID]), map[string]interface{}{"case": c, "obs": o})
					break
				}
			}
		}
		if so := c06SesOp(c.Role, p.After); so != nil {
			ops = append(ops, so)
		}
		if p.After == "data-in" {
			ops = append(ops, []interface{}{"arrive", "msg"})
			arriveAt = append(arriveAt, i)
		}
		if p.After == "close" {
			ops = append(ops, []interface{}{"close"})
			prevConn = false
		}
		if p.State != prevState {
			ops = append(ops, []interface{}{"state", p.State})
			prevState = p.State
		}
		if !p.Connected && prevConn {
			ops = append(ops, []interface{}{"gone"})
			prevConn = false
		}
		established := p.State == "established" && p.Connected
		for j, s := range p.Sends {
			ops = append(ops, []interface{}{"send", c06Kind(s.Op)})
			sendAt = append(sendAt, expect{i, j})
			e.Rep.Count("send in state " + p.State)
			if len(s.Err) > 6 && s.Err[:6] == "panic:" {
				e.Rep.Violate("impl", "c06-panic", "a send operation panics: "+s.Err, map[string]interface{}{"case": c, "obs": o})
				continue
			}
			if !established && p.State != "established" {
				// the statement: outside the established state every send errs and emits nothing
				if s.Err == "" || onWire[s.ID] {
					e.Rep.Violate("impl", "c06-send-outside", fmt.Sprintf("%s role, after step %q (state %s): %s returned err=%q, envelope on the wire=%v", c.Role, p.After, p.State, s.Op, s.Err, onWire[s.ID]), map[string]interface{}{"case": c, "obs": o})
				}
			}
		}
		// the statement, receive side: a data envelope that arrives before establishment is never
		// handed to the application, and the handshake does not survive it
		if p.After == "data-in" && i > 0 {
			before := o.Probes[i-1]
			if c06Step[before.State] < 3 {
				e.Rep.Count("data envelope injected in state " + before.State)
				if p.Delivered != before.Delivered {
					e.Rep.Violate("impl", "c06-delivered-early", fmt.Sprintf("%s role: a message injected in state %s was handed to the application", c.Role, before.State), map[string]interface{}{"case": c, "obs": o})
				}
				started := false
				for _, st := range c.Steps {
					if st == "start" {
						started = true
					}
					if st == "data-in" {
						break
					}
				}
				if started && (!p.HsDone || p.State == "established") {
					e.Rep.Violate("impl", "c06-handshake-survived", fmt.Sprintf("%s role: a message injected in state %s did not abort the handshake (returned=%v, state %s)", c.Role, before.State, p.HsDone, p.State), map[string]interface{}{"case": c, "obs": o})
				}
			}
		}
	}
	// after the injected envelope the rest of the run must not deliver it either, unless established
	if e.Drv != nil {
		var r struct {
			Trace [][]string `json:"trace"`
			OK    bool       `json:"ok"`
		}
		if err := e.Drv.Call(map[string]interface{}{"m": "life", "ops": ops}, &r); err != nil {
			return err
		}
		si, ai := 0, 0
		for _, ev := range r.Trace {
			switch ev[0] {
			case "emit", "sendErr":
				x := sendAt[si]
				si++
				s := o.Probes[x.probe].Sends[x.send]
				implEmit := s.Err == "" && onWire[s.ID]
				implErr := s.Err != "" && !onWire[s.ID]
				if (ev[0] == "emit" && !implEmit) || (ev[0] == "sendErr" && !implErr) {
					e.Rep.Violate("corr", "c06-corr", fmt.Sprintf("%s role, after step %q (state %s, connected %v): model %s, implementation err=%q on the wire=%v", c.Role, o.Probes[x.probe].After, o.Probes[x.probe].State, o.Probes[x.probe].Connected, ev[0], s.Err, onWire[s.ID]), map[string]interface{}{"case": c, "obs": o, "ops": ops})
				}
			case "deliver", "held":
				i := arriveAt[ai]
				ai++
				got := o.Probes[i].Delivered - o.Probes[i-1].Delivered
				if (ev[0] == "deliver") != (got == 1) {
					e.Rep.Violate("corr", "c06-corr", fmt.Sprintf("%s role, injected message after state %s: model %s, implementation delivered %d", c.Role, o.Probes[i-1].State, ev[0], got), map[string]interface{}{"case": c, "obs": o, "ops": ops})
				}
			}
		}
		if !r.OK {
			e.Rep.Violate("corr", "c06-corr", "the model's own trace fails the property predicate", map[string]interface{}{"case": c, "ops": ops})
		}
	}
	return nil
}

func asInt(x interface{}) int {
	switch v := x.(type) {
	case int:
		return v
	case float64:
		return int(v)
	}
	return 0
}

func c06Paths(role string) [][]string {
	if role == "server" {
		return [][]string{
			{"start", "new", "select", "auth", "cli-finishing", "srv-finish"},
			{"start", "new", "select", "auth", "srv-finish"},
			{"start", "new", "bad"},
			{"start", "bad"},
			{"start", "new", "select", "bad"},
			{"start", "new", "select", "auth", "peer-close"},
			{"start", "new", "select", "auth", "srv-fail"},
			{"start", "new", "select", "auth", "close"},
			{"start", "new", "select", "srv-fail"},
			{"start", "new", "select", "auth", "srv-finish-sendfail"},
			{"start", "new", "select", "auth", "srv-fail-sendfail"},
		}
	}
	return [][]string{
		{"start", "negopts", "negconf", "authopts", "est", "cli-finish", "finished"},
		{"start", "authopts", "est", "failed"},
		{"start", "negopts", "failed"},
		{"start", "failed"},
		{"start", "negopts", "negconf", "authopts", "failed"},
		{"start", "authopts", "est", "srv-finishing"},
		{"start", "authopts", "est", "peer-close"},
		{"start", "authopts", "est", "close"},
		{"start", "authopts", "est", "finished"},
		{"start", "negopts", "negconf", "authopts", "est", "cli-finish", "failed"},
	}
}

func init() {
	Register("c06", func(e *Env) error {
		e.Rep.Rule = "real ServerChannel / ClientChannel over the real TCP transport on an in-memory connection, the peer scripted at byte level. Sequential runs: every handshake / teardown path of either role (success, each rejection, client- and server-initiated finish, fail while established, peer gone, local close), with the five send operations (SendMessage, SendNotification, SendRequestCommand, SendResponseCommand, ProcessCommand) called after every step and a data envelope injected at every position; errors, bytes seen by the raw peer and deliveries to the inbound streams are compared with the statement and with the life-cycle model run on the observed state sequence. Racing runs: three application goroutines call the send operations continuously while the same paths are played; a send may succeed only if the state was established at some moment of the call, and an envelope of a refused send never reaches the wire. Non-trivial = every run; distinct by (role, steps, racing, repetition)."
		run := func(c *c06Case) error {
			e.Rep.Eval()
			e.Rep.Count("role=" + c.Role)
			t0 := time.Now()
			o := c06Run(c)
			if d := time.Since(t0); d > time.Second && os.Getenv("VERIF_SLOW") != "" {
				fmt.Fprintf(os.Stderr, "slow c06 case %.1fs: %+v\n", d.Seconds(), *c)
			}
			cj, _ := json.Marshal(c)
			e.Rep.Nontrivial(string(cj) + fmt.Sprint(len(o.Racers)/50))
			e.Rep.Sample(map[string]interface{}{"case": c, "probes": o.Probes, "wire": o.Wire}, 2)
			return c06Judge(e, c, &o)
		}
		if e.Replay != "" {
			b, err := readReplayCase(e.Replay)
			if err != nil {
				return err
			}
			var wrap struct {
				Case *c06Case `json:"case"`
			}
			var fam struct {
				Family string `json:"family"`
			}
			if json.Unmarshal(b, &fam) == nil && (fam.Family == "finish-window" || fam.Family == "register-probe") {
				return c06ExtraCases(e)
			}
			if err := json.Unmarshal(b, &wrap); err != nil || wrap.Case == nil {
				return fmt.Errorf("bad replay file")
			}
			n := 1
			if wrap.Case.Racing {
				n = 20
			}
			for i := 0; i < n; i++ {
				if err := run(wrap.Case); err != nil {
					return err
				}
			}
			return nil
		}
		var cases []*c06Case
		for _, role := range []string{"server", "client"} {
			for _, path := range c06Paths(role) {
				cases = append(cases, &c06Case{Role: role, Steps: path})
				for k := 0; k <= len(path); k++ {
					steps := append(append(append([]string{}, path[:k]...), "data-in"), path[k:]...)
					cases = append(cases, &c06Case{Role: role, Steps: steps})
				}
				for i := 0; i < e.N(4, 60); i++ {
					cases = append(cases, &c06Case{Role: role, Steps: path, Racing: true})
				}
			}
		}
		// runs are independent and some of them wait for the transport's 5 s read poll: in parallel
		obs := make([]c06Obs, len(cases))
		var wg sync.WaitGroup
		sem := make(chan struct{}, 24)
		for i := range cases {
			wg.Add(1)
			sem <- struct{}{}
			go func(i int) {
				defer wg.Done()
				defer func() { <-sem }()
				obs[i] = c06Run(cases[i])
			}(i)
		}
		wg.Wait()
		for i, c := range cases {
			e.Rep.Eval()
			e.Rep.Count("role=" + c.Role)
			cj, _ := json.Marshal(c)
			e.Rep.Nontrivial(string(cj) + fmt.Sprint(i))
			e.Rep.Sample(map[string]interface{}{"case": c, "probes": obs[i].Probes, "wire": obs[i].Wire}, 2)
			if err := c06Judge(e, c, &obs[i]); err != nil {
				return err
			}
		}
		return c06ExtraCases(e)
	})
}
