package modes

import (
	"context"
	"errors"
	"encoding/json"
	"fmt"
	"strings"
	"sync"
	"sync/atomic"
	"time"

	lime "github.com/takenet/lime-go"

	"limeverif/internal/codec"
	"limeverif/internal/pair"
)

// ---- C06: data envelopes flow only while the session is established --------------------------

type c06Case struct {
	Role   string   `json:"role"`  // server | client
	Steps  []string `json:"steps"` // handshake / teardown steps played by the harness, in order
	Racing bool     `json:"racing"`
}

type c06Send struct {
	Op     string `json:"op"` // msg | ntf | req | resp | proc
	ID     string `json:"id"`
	Err    string `json:"err,omitempty"`
	Before string `json:"before,omitempty"` // channel state read just before the call (racing runs)
	After  string `json:"after,omitempty"`
}

type c06Probe struct {
	After     string    `json:"after"` // the step this probe follows ("" = before anything)
	State     string    `json:"state"`
	Connected bool      `json:"connected"`
	Delivered int       `json:"delivered"` // injected data envelopes the application got so far
	HsDone    bool      `json:"hs_done"`
	Sends     []c06Send `json:"sends"`
}

type c06Obs struct {
	Probes []c06Probe `json:"probes"`
	Racers []c06Send  `json:"racers,omitempty"`
	Wire   []string   `json:"wire"` // what the raw peer saw, in order: ses:<state> | data:<id>
	Note   string     `json:"note,omitempty"`
}

// dataSender is the sending surface shared by both channel types.
type dataSender interface {
	SendMessage(ctx context.Context, msg *lime.Message) error
	SendNotification(ctx context.Context, not *lime.Notification) error
	SendRequestCommand(ctx context.Context, cmd *lime.RequestCommand) error
	SendResponseCommand(ctx context.Context, cmd *lime.ResponseCommand) error
	ProcessCommand(ctx context.Context, cmd *lime.RequestCommand) (*lime.ResponseCommand, error)
	State() lime.SessionState
}

var c06Ops = []string{"msg", "ntf", "req", "resp", "proc"}

func c06Kind(op string) string {
	if op == "proc" {
		return "req"
	}
	return op
}

func c06DoSend(ch dataSender, op, id string) (err error, pv string) {
	defer func() {
		if r := recover(); r != nil {
			pv = fmt.Sprint(r)
		}
	}()
	ctx, cancel := context.WithTimeout(context.Background(), 2*time.Second)
	defer cancel()
	switch op {
	case "msg":
		m := &lime.Message{}
		m.SetContent(lime.TextDocument("payload"))
		m.ID = id
		return ch.SendMessage(ctx, m), ""
	case "ntf":
		n := &lime.Notification{Event: lime.NotificationEventReceived}
		n.ID = id
		return ch.SendNotification(ctx, n), ""
	case "req":
		r := &lime.RequestCommand{}
		r.ID = id
		r.Method = lime.CommandMethodGet
		r.SetURIString("/thing")
		return ch.SendRequestCommand(ctx, r), ""
	case "resp":
		r := &lime.ResponseCommand{Status: lime.CommandStatusSuccess}
		r.ID = id
		r.Method = lime.CommandMethodSet
		return ch.SendResponseCommand(ctx, r), ""
	default:
		r := &lime.RequestCommand{}
		r.ID = id
		r.Method = lime.CommandMethodGet
		r.SetURIString("/thing")
		pctx, pcancel := context.WithTimeout(context.Background(), 20*time.Millisecond)
		defer pcancel()
		_, err := ch.ProcessCommand(pctx, r)
		if err != nil && strings.Contains(err.Error(), "context deadline exceeded") {
			// the request went out and nobody answers it: for this property the send succeeded
			return nil, ""
		}
		return err, ""
	}
}

type c06Peer struct {
	pc   pair.BufConn
	wmu  sync.Mutex
	mu   sync.Mutex
	wire []string
	done chan struct{}
}

func newC06Peer(pc pair.BufConn) *c06Peer {
	p := &c06Peer{pc: pc, done: make(chan struct{})}
	go func() {
		defer close(p.done)
		dec := json.NewDecoder(pc)
		for {
			var m map[string]interface{}
			if err := dec.Decode(&m); err != nil {
				return
			}
			p.mu.Lock()
			if st, ok := m["state"].(string); ok {
				p.wire = append(p.wire, "ses:"+st)
			} else {
				id, _ := m["id"].(string)
				p.wire = append(p.wire, "data:"+id)
			}
			p.mu.Unlock()
		}
	}()
	return p
}

func (p *c06Peer) send(v interface{}) {
	b, _ := json.Marshal(v)
	p.wmu.Lock()
	p.pc.Write(append(b, '\n'))
	p.wmu.Unlock()
}

func (p *c06Peer) snapshot() []string {
	p.mu.Lock()
	defer p.mu.Unlock()
	return append([]string{}, p.wire...)
}

var c06Seq int64

func c06Run(c *c06Case) (obs c06Obs) {
	own, pc := pair.NewBufConns()
	peer := newC06Peer(pc)
	sid := hsSid
	var ch dataSender
	var t lime.Transport
	var sc *lime.ServerChannel
	var cc *lime.ClientChannel
	ctx, cancel := context.WithTimeout(context.Background(), 30*time.Second)
	defer cancel()
	hsDone := make(chan struct{})
	var startHs func()
	var failSend int32 // the next Send on the transport fails transiently (nothing is written)
	wrap := func(inner lime.Transport) lime.Transport {
		return &pair.WrapT{Transport: inner, BeforeSend: func() error {
			if atomic.CompareAndSwapInt32(&failSend, 1, 0) {
				return errors.New("injected: transient send failure")
			}
			return nil
		}}
	}
	if c.Role == "server" {
		t = wrap(lime.NewTCPTransportFromConn(own, true, nil))
		sc = lime.NewServerChannel(t, 8, lnode(hsServerNode), sid)
		ch = sc
		startHs = func() {
			go func() {
				defer close(hsDone)
				defer func() { recover() }()
				_ = sc.EstablishSession(ctx, []lime.SessionCompression{lime.SessionCompressionNone},
					[]lime.SessionEncryption{lime.SessionEncryptionNone, lime.SessionEncryptionTLS},
					[]lime.AuthenticationScheme{lime.AuthenticationSchemeGuest},
					func(context.Context, lime.Identity, lime.Authentication) (*lime.AuthenticationResult, error) {
						return lime.MemberAuthenticationResult(), nil
					},
					func(context.Context, lime.Node, *lime.ServerChannel) (lime.Node, error) { return lnode(hsAssigned), nil })
			}()
		}
	} else {
		t = wrap(lime.NewTCPTransportFromConn(own, false, nil))
		cc = lime.NewClientChannel(t, 8)
		ch = cc
		startHs = func() {
			go func() {
				defer close(hsDone)
				defer func() { recover() }()
				_, _ = cc.EstablishSession(ctx, lime.NoneCompressionSelector, lime.NoneEncryptionSelector,
					lime.Identity{Name: hsClientNode.N, Domain: hsClientNode.D}, lime.GuestAuthenticator, hsClientNode.I)
			}()
		}
	}
	// the application drains the inbound streams
	var delivered int64
	drain := func() {
		type rcv interface {
			MsgChan() <-chan *lime.Message
			NotChan() <-chan *lime.Notification
			ReqCmdChan() <-chan *lime.RequestCommand
			RespCmdChan() <-chan *lime.ResponseCommand
		}
		r := ch.(rcv)
		go func() {
			for range r.MsgChan() {
				atomic.AddInt64(&delivered, 1)
			}
		}()
		go func() {
			for range r.NotChan() {
			}
		}()
		go func() {
			for range r.ReqCmdChan() {
			}
		}()
		go func() {
			for range r.RespCmdChan() {
			}
		}()
	}
	drain()

	finDone := make(chan struct{})
	var stop int32
	var rmu sync.Mutex
	var rwg sync.WaitGroup
	if c.Racing {
		for g := 0; g < 3; g++ {
			rwg.Add(1)
			go func(g int) {
				defer rwg.Done()
				for i := 0; atomic.LoadInt32(&stop) == 0; i++ {
					op := c06Ops[(i+g)%4] // ProcessCommand would slow the racers down
					id := fmt.Sprintf("r%d-%d-%d", atomic.AddInt64(&c06Seq, 1), g, i)
					before := string(ch.State())
					err, pv := c06DoSend(ch, op, id)
					after := string(ch.State())
					s := c06Send{Op: op, ID: id, Before: before, After: after}
					if pv != "" {
						s.Err = "panic: " + pv
					} else if err != nil {
						s.Err = err.Error()
					}
					rmu.Lock()
					if len(obs.Racers) < 200000 {
						obs.Racers = append(obs.Racers, s)
					}
					rmu.Unlock()
					time.Sleep(250 * time.Microsecond)
				}
			}(g)
		}
	}

	started := false
	isClosed := func(ch <-chan struct{}) bool {
		select {
		case <-ch:
			return true
		default:
			return false
		}
	}
	rcvDone := ch.(interface{ RcvDone() <-chan struct{} }).RcvDone()
	finStarted := false
	// settle waits for a positive sign that the step has been processed: the handshake goroutine is
	// parked in Receive again (both ends quiescent) or has returned; the receiver goroutine has
	// delivered and is parked again, or has exited; this end was closed.
	settle := func(step string, wasEstablished bool) {
		if !started {
			return // nobody reads this end yet
		}
		if c.Racing {
			time.Sleep(300 * time.Microsecond)
			return
		}
		deadline := time.Now().Add(5 * time.Second)
		switch {
		case !isClosed(hsDone):
			for time.Now().Before(deadline) && !isClosed(hsDone) && !pc.Quiescent() && !pc.PeerClosed() {
				time.Sleep(50 * time.Microsecond)
			}
		case wasEstablished && (step == "cli-finishing" || step == "finished" || step == "failed" || step == "srv-finishing"):
			// the receiver hands the session envelope over and exits
			select {
			case <-rcvDone:
			case <-time.After(2 * time.Second):
			}
			if finStarted {
				select {
				case <-finDone:
				case <-time.After(7 * time.Second): // FinishSession waits for the read poll
				}
			}
		case wasEstablished && step == "data-in":
			for time.Now().Before(deadline) && !pc.Quiescent() && !pc.PeerClosed() && !isClosed(rcvDone) {
				time.Sleep(50 * time.Microsecond)
			}
		}
		own.WaitPeerDrained(time.Second)
	}
	probe := func(after string) {
		if c.Racing {
			return
		}
		p := c06Probe{After: after, State: string(ch.State()), Connected: t.Connected(), Delivered: int(atomic.LoadInt64(&delivered))}
		select {
		case <-hsDone:
			p.HsDone = true
		default:
		}
		for _, op := range c06Ops {
			id := fmt.Sprintf("p%d-%s", atomic.AddInt64(&c06Seq, 1), op)
			err, pv := c06DoSend(ch, op, id)
			s := c06Send{Op: op, ID: id}
			if pv != "" {
				s.Err = "panic: " + pv
			} else if err != nil {
				s.Err = err.Error()
			}
			p.Sends = append(p.Sends, s)
		}
		own.WaitPeerDrained(time.Second)
		obs.Probes = append(obs.Probes, p)
	}
	ses := func(s hsSes) { peer.send(s.toSession()) }
	probe("")
	for _, step := range c.Steps {
		wasEstablished := string(ch.State()) == "established" && isClosed(hsDone)
		switch step {
		case "start":
			startHs()
			started = true
		// --- the peer is a client (server role)
		case "new":
			ses(hsSes{State: "new"})
		case "select":
			ses(hsSes{ID: sid, State: "negotiating", Comp: "none", Enc: "none"})
		case "auth":
			ses(hsSes{ID: sid, From: hsClientNode, State: "authenticating", Scheme: "guest", Auth: guestAuth()})
		case "bad":
			ses(hsSes{ID: "wrong-id", State: "established"})
		case "cli-finishing":
			ses(hsSes{ID: sid, State: "finishing"})
		case "srv-finish-sendfail", "srv-fail-sendfail":
			// the terminal envelope cannot be written; the session is over all the same
			atomic.StoreInt32(&failSend, 1)
			fctx, fcancel := context.WithTimeout(context.Background(), 2*time.Second)
			if step == "srv-finish-sendfail" {
				_ = sc.FinishSession(fctx)
			} else {
				_ = sc.FailSession(fctx, &lime.Reason{Code: 1, Description: "scripted"})
			}
			fcancel()
			atomic.StoreInt32(&failSend, 0)
		case "srv-finish":
			fctx, fcancel := context.WithTimeout(context.Background(), 2*time.Second)
			_ = sc.FinishSession(fctx)
			fcancel()
		case "srv-fail":
			fctx, fcancel := context.WithTimeout(context.Background(), 2*time.Second)
			_ = sc.FailSession(fctx, &lime.Reason{Code: 1, Description: "scripted"})
			fcancel()
		// --- the peer is a server (client role)
		case "negopts":
			ses(hsSes{ID: sid, From: hsServerNode, State: "negotiating", CompOpts: []string{"none"}, EncOpts: []string{"none", "tls"}})
		case "negconf":
			ses(hsSes{ID: sid, From: hsServerNode, State: "negotiating", Comp: "none", Enc: "none"})
		case "authopts":
			ses(hsSes{ID: sid, From: hsServerNode, State: "authenticating", SchemeOpts: []string{"guest"}})
		case "est":
			ses(hsSes{ID: sid, From: hsServerNode, To: hsAssigned, State: "established"})
		case "cli-finish":
			finStarted = true
			go func() {
				defer close(finDone)
				defer func() { recover() }()
				fctx, fcancel := context.WithTimeout(context.Background(), 5*time.Second)
				defer fcancel()
				_, _ = cc.FinishSession(fctx)
			}()
			// the finishing envelope is written by that goroutine: wait until the peer saw it, so
			// that the probe's sends do not run concurrently with it (concurrent session and data
			// sends are C13's subject, not this property's)
			for t0 := time.Now(); time.Since(t0) < time.Second; {
				w := peer.snapshot()
				if len(w) > 0 && w[len(w)-1] == "ses:finishing" || !t.Connected() || string(ch.State()) != "established" {
					break
				}
				time.Sleep(50 * time.Microsecond)
			}
		case "finished":
			ses(hsSes{ID: sid, From: hsServerNode, State: "finished"})
		case "failed":
			ses(hsSes{ID: sid, From: hsServerNode, State: "failed", HasReason: true})
		case "srv-finishing":
			ses(hsSes{ID: sid, From: hsServerNode, State: "finishing"})
		// --- either
		case "data-in":
			m := &lime.Message{}
			m.SetContent(lime.TextDocument("injected"))
			m.ID = "injected"
			peer.send(m)
		case "peer-close":
			pc.Close()
			// the receiver goroutine notices the end of the stream
			for t0 := time.Now(); t.Connected() && time.Since(t0) < time.Second; {
				time.Sleep(50 * time.Microsecond)
			}
		case "close":
			type closer interface{ Close() error }
			_ = ch.(closer).Close()
		}
		settle(step, wasEstablished)
		if step == "data-in" && !c.Racing {
			// a delivery reaches the application asynchronously
			d0 := atomic.LoadInt64(&delivered)
			for t0 := time.Now(); atomic.LoadInt64(&delivered) == d0 && time.Since(t0) < 3*time.Millisecond; {
				time.Sleep(50 * time.Microsecond)
			}
		}
		probe(step)
	}
	atomic.StoreInt32(&stop, 1)
	rwg.Wait()
	own.WaitPeerDrained(time.Second)
	time.Sleep(200 * time.Microsecond)
	obs.Wire = peer.snapshot()
	pc.Close()
	own.Close()
	cancel()
	if sc != nil {
		go sc.Close()
	}
	if cc != nil {
		go cc.Close()
	}
	<-peer.done
	return
}

func guestAuth() *codec.VAuth { return &codec.VAuth{Scheme: "guest"} }

// ---- C06: two windows around the established state on the server side ---------------------------------
//
// (1) finish-window: once the server has told the peer that the session is finished (the peer has the
// finished envelope), a send on the server channel is refused — however long the server's own tear-down
// (stopping its receiver: up to one read poll on TCP) still takes.
// (2) register-probe: the registration callback is handed the server channel while the session is not
// established yet; a send it attempts there is refused, whether the registration then succeeds or not.

func c06ExtraCases(e *Env) error {
	for _, tr := range []string{"tcp", "inproc", "ws"} {
		for _, how := range []string{"finish", "fail"} {
			e.Rep.Eval()
			e.Rep.Count("finish-window " + tr)
			info := map[string]interface{}{"family": "finish-window", "transport": tr, "how": how}
			ct, st, cleanup, err := pair.Transports(tr, 0, 8)
			if err != nil {
				cleanup()
				e.Rep.Note("harness: " + err.Error())
				continue
			}
			cc, sc, err := pair.Established(ct, st, 8, "c06-fw-"+tr+how, lime.Node{Identity: lime.Identity{Name: "u", Domain: "d"}, Instance: "i"})
			if err != nil {
				cleanup()
				e.Rep.Note("harness: " + err.Error())
				continue
			}
			go func() {
				for range cc.MsgChan() {
				}
			}()
			fctx, fcancel := context.WithTimeout(context.Background(), 10*time.Second)
			fdone := make(chan struct{})
			go func() {
				defer close(fdone)
				if how == "finish" {
					_ = sc.FinishSession(fctx)
				} else {
					_ = sc.FailSession(fctx, &lime.Reason{Code: 1, Description: "scripted"})
				}
			}()
			// the peer has the terminal session envelope
			deadline := time.Now().Add(4 * time.Second)
			for time.Now().Before(deadline) && cc.State() == lime.SessionStateEstablished {
				time.Sleep(time.Millisecond)
			}
			if cc.State() == lime.SessionStateEstablished {
				e.Rep.Note("harness: finish-window: the client never observed the end of the session")
			} else {
				time.Sleep(50 * time.Millisecond)
				m := &lime.Message{}
				m.ID = "after-terminal"
				m.SetContent(lime.TextDocument("x"))
				sctx, scancel := context.WithTimeout(context.Background(), time.Second)
				serr := sc.SendMessage(sctx, m)
				scancel()
				if serr == nil {
					e.Rep.Violate("impl", "c06-send-after-terminal", fmt.Sprintf("finish-window (%s, %s): the peer already has the %s session envelope; 50 ms later SendMessage on the server channel (state %v) returned nil", tr, how, cc.State(), sc.State()), info)
				} else {
					e.Rep.Nontrivial("finish-window " + tr + how)
				}
			}
			fcancel()
			go func() { <-fdone; _ = cc.Close(); cleanup() }()
		}
	}
	for _, regOK := range []bool{true, false} {
		e.Rep.Eval()
		e.Rep.Count("register-probe")
		info := map[string]interface{}{"family": "register-probe", "register_ok": regOK}
		ct, st, err := pair.InProc(8)
		if err != nil {
			return err
		}
		sc := lime.NewServerChannel(st, 8, pair.ServerNode, "c06-reg")
		cc := lime.NewClientChannel(ct, 8)
		ctx, cancel := context.WithTimeout(context.Background(), 5*time.Second)
		var sendErr, ntfErr error
		var stateSeen lime.SessionState
		sdone := make(chan struct{})
		go func() {
			defer close(sdone)
			_ = sc.EstablishSession(ctx, []lime.SessionCompression{lime.SessionCompressionNone}, []lime.SessionEncryption{lime.SessionEncryptionNone},
				[]lime.AuthenticationScheme{lime.AuthenticationSchemeGuest},
				func(context.Context, lime.Identity, lime.Authentication) (*lime.AuthenticationResult, error) {
					return lime.MemberAuthenticationResult(), nil
				},
				func(rctx context.Context, n lime.Node, ch *lime.ServerChannel) (lime.Node, error) {
					stateSeen = ch.State()
					m := &lime.Message{}
					m.ID = "welcome"
					m.SetContent(lime.TextDocument("hello"))
					sendErr = ch.SendMessage(rctx, m)
					ntfErr = ch.SendNotification(rctx, &lime.Notification{Event: lime.NotificationEventReceived})
					if !regOK {
						return lime.Node{}, errors.New("registration refused (scripted)")
					}
					return n, nil
				})
		}()
		_, _ = cc.EstablishSession(ctx, lime.NoneCompressionSelector, lime.NoneEncryptionSelector,
			lime.Identity{Name: "alice", Domain: "verif.local"}, lime.GuestAuthenticator, "home")
		<-sdone
		cancel()
		if sendErr == nil || ntfErr == nil {
			e.Rep.Violate("impl", "c06-send-before-established", fmt.Sprintf("register-probe (registration succeeds=%v): inside the registration callback the channel reports state %v; SendMessage returned %v and SendNotification %v — a data envelope was written before the established session", regOK, stateSeen, sendErr, ntfErr), info)
		} else {
			e.Rep.Nontrivial(fmt.Sprintf("register-probe %v", regOK))
		}
		go func() { _ = cc.Close(); _ = sc.Close() }()
	}
	return nil
}
