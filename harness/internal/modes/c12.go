package modes

import (
	"strings"
	"bytes"
	"context"
	"encoding/json"
	"fmt"
	"time"

	lime "github.com/takenet/lime-go"

	"limeverif/internal/codec"
	"limeverif/internal/pair"
)

// ---- C12: the TCP transport preserves the envelope stream under fragmentation and stalls -----

type c12Case struct {
	Envs         []*codec.VEnv    `json:"envs"`
	WPlans       [][]pair.WriteEv `json:"wplans"`        // one script per Send
	CancelBefore int              `json:"cancel_before"` // index of the Send whose context is already over (-1: none)
	RPlan        []pair.ReadEv    `json:"rplan"`
	Cut          int              `json:"cut"` // -1: deliver everything that was written; else only this many bytes
	Family       string           `json:"family"`
	// Continue: the sender goes on using the transport after a Send reported an error (the failed envelope
	// put no byte, or only a proper prefix, on the connection). The receiver must then get exactly the
	// envelopes whose Send reported success, in order, possibly ending in an error — never the one that
	// was reported as not sent.
	Continue bool `json:"continue,omitempty"`
	// ReadLimit configures the receiving transport (0: the default). A long fault-free stream of small
	// envelopes must come through whatever the total traffic is: the limit is per envelope.
	ReadLimit int64 `json:"read_limit,omitempty"`
}

func sendAny(ctx context.Context, t lime.Transport, e interface{}) error {
	switch x := e.(type) {
	case *lime.Message:
		return t.Send(ctx, x)
	case *lime.Notification:
		return t.Send(ctx, x)
	case *lime.RequestCommand:
		return t.Send(ctx, x)
	case *lime.ResponseCommand:
		return t.Send(ctx, x)
	case *lime.Session:
		return t.Send(ctx, x)
	}
	return fmt.Errorf("harness: not an envelope: %T", e)
}

func sendGuard(ctx context.Context, t lime.Transport, e interface{}) (err error, pv string) {
	defer func() {
		if r := recover(); r != nil {
			pv = fmt.Sprint(r)
		}
	}()
	return sendAny(ctx, t, e), ""
}

func recvGuard(ctx context.Context, t lime.Transport) (env interface{}, err error, pv string) {
	defer func() {
		if r := recover(); r != nil {
			pv = fmt.Sprint(r)
		}
	}()
	env, err = t.Receive(ctx)
	return env, err, ""
}

// c12Ref is the reference wire form of an envelope (what a fault-free Send writes), or nil when
// the value does not survive a fault-free transfer unchanged (such values are not used).
func c12Ref(v *codec.VEnv) []byte {
	env, err := codec.ToEnvelope(v)
	if err != nil {
		return nil
	}
	fc := &pair.FaultConn{}
	tx := lime.NewTCPTransportFromConn(fc, false, nil)
	if err := sendAny(context.Background(), tx, env); err != nil {
		return nil
	}
	wire, _ := fc.TakeWire()
	if len(wire) < 3 || wire[len(wire)-1] != '\n' || bytes.IndexByte(wire[:len(wire)-1], '\n') >= 0 {
		return nil
	}
	rc := &pair.FaultConn{In: wire}
	rx := lime.NewTCPTransportFromConn(rc, true, nil)
	got, err := rx.Receive(context.Background())
	if err != nil {
		return nil
	}
	back, err := json.Marshal(got)
	if err != nil || !bytes.Equal(back, wire[:len(wire)-1]) {
		return nil
	}
	return wire
}

func modelWritePlan(p []pair.WriteEv) [][]interface{} {
	out := [][]interface{}{}
	for _, ev := range p {
		switch ev.Kind {
		case "t":
			out = append(out, []interface{}{"t", ev.N})
			if ev.Cancel {
				out = append(out, []interface{}{"ctx"})
				return out
			}
		case "f":
			out = append(out, []interface{}{"f", ev.N})
			return out
		default:
			out = append(out, []interface{}{"full"})
			return out
		}
	}
	return out
}

func toInts(b []byte) []int {
	r := make([]int, len(b))
	for i, c := range b {
		r[i] = int(c)
	}
	return r
}

func fromInts(l []int) []byte {
	r := make([]byte, len(l))
	for i, c := range l {
		r[i] = byte(c)
	}
	return r
}

type c12Obs struct {
	SendOK   []bool   `json:"send_ok"`
	SendErr  []string `json:"send_err"`
	Wires    []string `json:"wires"`
	Received []string `json:"received"` // marshalled envelopes, then "err:<text>"
}

func c12Run(e *Env, c *c12Case) error {
	e.Rep.Eval()
	e.Rep.Count("family=" + c.Family)
	obs := &c12Obs{}
	refs := make([][]byte, len(c.Envs))
	for i, v := range c.Envs {
		refs[i] = c12Ref(v)
		if refs[i] == nil {
			e.Rep.Count("skipped: value does not survive a fault-free transfer")
			return nil
		}
	}

	// ---- sending side: the real Send over a connection that follows the write scripts
	fc := &pair.FaultConn{}
	tx := lime.NewTCPTransportFromConn(fc, false, nil)
	var wire []byte
	attempted := 0
	allOK := true
	for i, v := range c.Envs {
		env, _ := codec.ToEnvelope(v)
		ctx, cancel := context.WithTimeout(context.Background(), 10*time.Second)
		var plan []pair.WriteEv
		if i < len(c.WPlans) {
			plan = c.WPlans[i]
		}
		fc.SetWritePlan(append([]pair.WriteEv{}, plan...))
		fc.OnCancel = cancel
		mplan := modelWritePlan(plan)
		if c.CancelBefore == i {
			cancel()
			mplan = [][]interface{}{{"ctx"}}
		}
		err, pv := sendGuard(ctx, tx, env)
		cancel()
		if pv != "" {
			e.Rep.Violate("impl", "c12-panic", fmt.Sprintf("Send #%d panics: %s", i, pv), c)
			return nil
		}
		w, _ := fc.TakeWire()
		attempted++
		obs.SendOK = append(obs.SendOK, err == nil)
		if err != nil {
			obs.SendErr = append(obs.SendErr, err.Error())
		} else {
			obs.SendErr = append(obs.SendErr, "")
		}
		obs.Wires = append(obs.Wires, string(w))
		wire = append(wire, w...)
		for _, ev := range plan {
			if ev.Kind == "t" && ev.N > 0 && ev.N < len(refs[i]) {
				e.Rep.Count("write: short write of 0<k<len with a transient timeout")
				e.Rep.Nontrivial(fmt.Sprintf("w %d %d %v", len(refs[i]), ev.N, len(plan)))
				break
			}
		}
		// the statement, on the bytes that reached the far side
		if !bytes.HasPrefix(refs[i], w) {
			e.Rep.Violate("impl", "c12-write-corrupt", fmt.Sprintf("Send #%d put bytes on the connection that are not a prefix of the envelope's encoding (Send error: %v): wrote %q for %q", i, err, w, refs[i]), c)
		} else if err == nil && !bytes.Equal(refs[i], w) {
			e.Rep.Violate("impl", "c12-write-short", fmt.Sprintf("Send #%d reported success but only %d of %d bytes reached the connection", i, len(w), len(refs[i])), c)
		}
		if e.Drv != nil && allOK {
			var r struct {
				Wire []int `json:"wire"`
				OK   bool  `json:"ok"`
				N    int   `json:"n"`
			}
			if derr := e.Drv.Call(map[string]interface{}{"m": "wloop", "b": toInts(refs[i]), "plan": mplan}, &r); derr != nil {
				return derr
			}
			if r.OK != (err == nil) || !bytes.Equal(fromInts(r.Wire), w) {
				e.Rep.Violate("corr", "c12-corr-write", fmt.Sprintf("write loop: model wire=%q ok=%v, implementation wire=%q err=%v", fromInts(r.Wire), r.OK, w, err), c)
			}
		}
		if err != nil {
			allOK = false
			if !c.Continue {
				break // a failed Send ends the use of the connection
			}
		}
	}
	if c.Continue {
		return c12JudgeContinue(e, c, obs, refs, wire)
	}

	// ---- receiving side: the real Receive over what reached the connection
	delivered := wire
	if c.Cut >= 0 && c.Cut < len(wire) {
		delivered = wire[:c.Cut]
		e.Rep.Count("read: stream cut")
	}
	rc := &pair.FaultConn{In: delivered, ReadPlan: append([]pair.ReadEv{}, c.RPlan...)}
	var rcfg *lime.TCPConfig
	if c.ReadLimit > 0 {
		rcfg = &lime.TCPConfig{ReadLimit: c.ReadLimit}
	}
	rx := lime.NewTCPTransportFromConn(rc, true, rcfg)
	var got [][]byte
	calls := 0      // Receive calls up to and including the first error
	consumedAtErr := -1
	var rerr error
	errs := 0
	expired := false
	for n := 0; n < len(c.Envs)+4 && errs < 3; n++ {
		ctx, cancel := context.WithTimeout(context.Background(), 10*time.Second)
		rc.OnExpire = func() { expired = true; cancel() }
		env, err, pv := recvGuard(ctx, rx)
		cancel()
		if pv != "" {
			e.Rep.Violate("impl", "c12-panic", "Receive panics: "+pv, c)
			return nil
		}
		if errs == 0 {
			calls++
		}
		if err != nil {
			if errs == 0 {
				rerr = err
				consumedAtErr = rc.Consumed()
			}
			errs++
			obs.Received = append(obs.Received, "err:"+err.Error())
			continue
		}
		b, merr := json.Marshal(env)
		if merr != nil {
			b = []byte("unencodable:" + merr.Error())
		}
		got = append(got, b)
		obs.Received = append(obs.Received, string(b))
		if errs > 0 {
			e.Rep.Count("read: an envelope handed out after an error")
		}
	}
	if expired {
		e.Rep.Count("read: context ended during a stall inside the stream")
	}
	recs := rc.TakeReads()
	sizes := []int{}
	split, timeouts := false, 0
	for _, r := range recs {
		if r.N > 0 {
			sizes = append(sizes, r.N)
		}
		if r.TO {
			timeouts++
		}
	}
	if len(sizes) > len(got)+0 && len(delivered) > 0 {
		split = len(sizes) > 1
	}
	if split {
		e.Rep.Count("read: stream delivered in more than one piece")
	}
	if timeouts > 0 {
		e.Rep.Count("read: transient timeouts between pieces")
	}
	e.Rep.Nontrivial(fmt.Sprintf("r %v %d %d %d", sizes, timeouts, c.Cut, len(delivered)))

	// the statement: what was handed out is a prefix of what was sent, each intact; everything
	// reported sent and delivered whole is handed out; nothing else is
	wantK := 0
	off := 0
	for i := 0; i < attempted; i++ {
		end := off + len(refs[i]) - 1 // the value is complete at its closing brace
		if end <= len(delivered) && bytes.HasPrefix(delivered[off:], refs[i][:len(refs[i])-1]) {
			wantK++
		} else {
			break
		}
		off += len(refs[i])
	}
	for i, b := range got {
		if i >= attempted || !bytes.Equal(b, refs[i][:len(refs[i])-1]) {
			sent := "(nothing: only " + fmt.Sprint(attempted) + " were sent)"
			if i < attempted {
				sent = string(refs[i])
			}
			e.Rep.Violate("impl", "c12-recv-corrupt", fmt.Sprintf("Receive #%d handed out %q; envelope #%d sent was %s (sends ok=%v)", i, b, i, sent, obs.SendOK), c)
			break
		}
	}
	if len(got) != wantK && !expired {
		e.Rep.Violate("impl", "c12-recv-count", fmt.Sprintf("%d envelopes handed out, %d are whole on the delivered stream (sends ok=%v, delivered %d of %d bytes, last error %v)", len(got), wantK, obs.SendOK, len(delivered), len(wire), rerr), c)
	}
	if allOK && c.Cut < 0 && rerr == nil {
		e.Rep.Violate("impl", "c12-recv-fabricated", "Receive keeps handing out envelopes after the stream ended", c)
	}
	if e.Drv != nil {
		var r struct {
			Out []json.RawMessage `json:"out"`
		}
		mstream := delivered
		if consumedAtErr >= 0 && consumedAtErr < len(mstream) {
			mstream = mstream[:consumedAtErr] // what the connection had handed out when the first error was reported
		}
		if derr := e.Drv.Call(map[string]interface{}{"m": "frames", "stream": toInts(mstream), "plan": sizes, "n": calls}, &r); derr != nil {
			return derr
		}
		ok := len(r.Out) == calls
		for i := 0; ok && i < len(r.Out); i++ {
			var l []int
			isErr := strings.HasPrefix(obs.Received[i], "err:")
			if json.Unmarshal(r.Out[i], &l) == nil {
				ok = !isErr && string(bytes.TrimSpace(fromInts(l))) == obs.Received[i]
			} else {
				ok = isErr
			}
		}
		if !ok {
			e.Rep.Violate("corr", "c12-corr-read", fmt.Sprintf("receive loop: model %s, implementation %q (read sizes %v)", compactOut(r.Out), obs.Received, sizes), c)
		}
	}
	e.Rep.Sample(map[string]interface{}{"case": c, "observed": obs, "read_sizes": sizes}, 3)
	return nil
}

// c12JudgeContinue: the receiving side of a case in which the sender went on after a failed Send.
func c12JudgeContinue(e *Env, c *c12Case, obs *c12Obs, refs [][]byte, wire []byte) error {
	rc := &pair.FaultConn{In: wire, ReadPlan: append([]pair.ReadEv{}, c.RPlan...)}
	rx := lime.NewTCPTransportFromConn(rc, true, nil)
	var got [][]byte
	for n := 0; n < len(c.Envs)+2; n++ {
		ctx, cancel := context.WithTimeout(context.Background(), 10*time.Second)
		env, err, pv := recvGuard(ctx, rx)
		cancel()
		if pv != "" {
			e.Rep.Violate("impl", "c12-panic", "Receive panics: "+pv, c)
			return nil
		}
		if err != nil {
			obs.Received = append(obs.Received, "err:"+err.Error())
			break
		}
		b, _ := json.Marshal(env)
		got = append(got, b)
		obs.Received = append(obs.Received, string(b))
	}
	okRefs := [][]byte{}
	for i, ok := range obs.SendOK {
		if ok {
			okRefs = append(okRefs, refs[i][:len(refs[i])-1])
		}
	}
	e.Rep.Nontrivial(fmt.Sprintf("cont %v %d", obs.SendOK, len(wire)))
	for i, b := range got {
		if i >= len(okRefs) || !bytes.Equal(b, okRefs[i]) {
			e.Rep.Violate("impl", "c12-recv-unsent", fmt.Sprintf("the sender went on after a failed Send (sends ok=%v); Receive #%d handed out %q, which is not envelope #%d of those reported as sent", obs.SendOK, i, b, i), c)
			break
		}
	}
	e.Rep.Sample(map[string]interface{}{"case": c, "observed": obs}, 2)
	return nil
}

func compactOut(out []json.RawMessage) string {
	s := "["
	for i, o := range out {
		if i > 0 {
			s += ", "
		}
		var l []int
		if json.Unmarshal(o, &l) == nil {
			s += fmt.Sprintf("%q", fromInts(l))
		} else {
			s += string(o)
		}
	}
	return s + "]"
}

// c12Envs draws n envelopes that survive a fault-free transfer.
func c12Envs(e *Env, g *codec.Gen, n int) []*codec.VEnv {
	out := []*codec.VEnv{}
	for len(out) < n {
		v := g.Envelope()
		if c12Ref(v) != nil {
			out = append(out, v)
		}
	}
	return out
}

func jsonMsg(id, content string) *codec.VEnv {
	t, err := codec.ParseTree([]byte(content))
	if err != nil {
		panic(err)
	}
	return &codec.VEnv{Kind: "message", ID: id, Type: &codec.VMT{T: "application", S: "json"}, Content: &codec.VDoc{K: "json", V: t}}
}

func c12Tricky() []*codec.VEnv {
	txt := func(id, s string) *codec.VEnv {
		return &codec.VEnv{Kind: "message", ID: id, Type: &codec.VMT{T: "text", S: "plain"}, Content: &codec.VDoc{K: "text", S: s}}
	}
	return []*codec.VEnv{
		txt("1", `}{"id":"x"}`),
		txt("2", "a\"}\\\"{\n\\"),
		txt("3", "é  }]"),
		{Kind: "notification", ID: "4", Event: "received"},
		jsonMsg("5", `{"id":"inner","to":"victim@example.org","type":"text/plain","content":"x"}`),
		jsonMsg("6", `{"a":[{"id":"n","event":"received"}],"b":{"id":"c","method":"get","uri":"/ping"}}`),
		txt("", "x"),
	}
}

func init() {
	Register("c12", func(e *Env) error {
		e.Rep.Rule = "real TCP transports (hook constructor) over a scripted connection. Sending side: every short-write length 0..len of an envelope's encoding combined with a transient timeout, double timeouts, timeout then hard error, timeout then end of the context, hard error at every length, context over before the call; the bytes that reached the connection are compared with the model's write loop and with the envelope's encoding (prefix; whole on success). Receiving side: the resulting stream delivered under every single split point, every pair of split points (thorough; sampled in quick), byte by byte, coalesced, random plans with transient timeouts and stalls, and cut at every byte offset, and with the caller's context ending during a stall at every byte offset (followed by further Receive calls); the Receive results are compared with the model's receive loop run on the observed read sizes and with the statement (a prefix of what was sent, each intact, complete when nothing was cut, an error afterwards). Plus a TLS variant over a fragmenting in-memory link. Non-trivial = a case with a short write, a split or a cut; distinct by sizes."
		if e.Replay != "" {
			b, err := readReplayCase(e.Replay)
			if err != nil {
				return err
			}
			var c c12Case
			if err := json.Unmarshal(b, &c); err != nil {
				return err
			}
			if c.Family == "tls" {
				return c12TLS(e, 1)
			}
			return c12Run(e, &c)
		}
		g := &codec.Gen{R: e.Rng, Depth: 1, Wild: 0}
		run := func(c *c12Case) error { return c12Run(e, c) }

		// --- write loop, exhaustive in the short-write length for a few envelopes
		base := append(c12Tricky(), c12Envs(e, g, e.N(3, 12))...)
		for _, v := range base {
			ref := c12Ref(v)
			if ref == nil {
				continue
			}
			n := len(ref)
			follow := c12Envs(e, g, 1)[0]
			for k := 0; k <= n+1; k++ {
				cs := []*c12Case{
					{Family: "w-timeout", Envs: []*codec.VEnv{v, follow}, WPlans: [][]pair.WriteEv{{{Kind: "t", N: k}}}},
					{Family: "w-error", Envs: []*codec.VEnv{v, follow}, WPlans: [][]pair.WriteEv{{{Kind: "f", N: k}}}},
				}
				if k%3 == 0 || e.Thorough() {
					cs = append(cs,
						&c12Case{Family: "w-timeout-timeout", Envs: []*codec.VEnv{v, follow}, WPlans: [][]pair.WriteEv{{{Kind: "t", N: k}, {Kind: "t", N: e.Rng.Intn(n + 1)}}}},
						&c12Case{Family: "w-timeout-error", Envs: []*codec.VEnv{v, follow}, WPlans: [][]pair.WriteEv{{{Kind: "t", N: k}, {Kind: "f", N: e.Rng.Intn(n + 1)}}}},
						&c12Case{Family: "w-timeout-ctx", Envs: []*codec.VEnv{v, follow}, WPlans: [][]pair.WriteEv{{{Kind: "t", N: k, Cancel: true}}}},
						&c12Case{Family: "w-second-timeout", Envs: []*codec.VEnv{follow, v}, WPlans: [][]pair.WriteEv{nil, {{Kind: "t", N: k}}}},
					)
				}
				for _, c := range cs {
					c.Cut = -1
					if c.CancelBefore == 0 {
						c.CancelBefore = -1
					}
					if err := run(c); err != nil {
						return err
					}
				}
			}
			// the sender goes on after a Send that failed before / in the middle of its write
			f2 := jsonMsg("f2", `{"k":"after"}`)
			if err := run(&c12Case{Family: "w-continue-ctx-before", Envs: []*codec.VEnv{follow, v, f2, follow}, CancelBefore: 1, Cut: -1, Continue: true}); err != nil {
				return err
			}
			if n := len(c12Ref(v)); n > 2 {
				k := 1 + e.Rng.Intn(n-2)
				if err := run(&c12Case{Family: "w-continue-timeout-ctx", Envs: []*codec.VEnv{follow, v, f2}, WPlans: [][]pair.WriteEv{nil, {{Kind: "t", N: k, Cancel: true}}}, CancelBefore: -1, Cut: -1, Continue: true}); err != nil {
					return err
				}
				if err := run(&c12Case{Family: "w-continue-timeout0-ctx", Envs: []*codec.VEnv{follow, v, f2}, WPlans: [][]pair.WriteEv{nil, {{Kind: "t", N: 0, Cancel: true}}}, CancelBefore: -1, Cut: -1, Continue: true}); err != nil {
					return err
				}
			}
			if err := run(&c12Case{Family: "w-ctx-before", Envs: []*codec.VEnv{v}, CancelBefore: 0, Cut: -1}); err != nil {
				return err
			}
		}

		// --- receive loop: split points, coalescing, byte by byte, cuts
		for round := 0; round < e.N(2, 6); round++ {
			envs := c12Envs(e, g, 2+e.Rng.Intn(2))
			if round == 0 {
				envs = c12Tricky()[:3]
			}
			if round == 1 {
				envs = c12Tricky()[3:]
			}
			total := 0
			for _, v := range envs {
				total += len(c12Ref(v))
			}
			if err := run(&c12Case{Family: "r-coalesced", Envs: envs, Cut: -1, CancelBefore: -1}); err != nil {
				return err
			}
			if err := run(&c12Case{Family: "r-bytewise", Envs: envs, Cut: -1, CancelBefore: -1, RPlan: repeatRead(total, 1)}); err != nil {
				return err
			}
			for a := 1; a < total; a++ {
				if err := run(&c12Case{Family: "r-split1", Envs: envs, Cut: -1, CancelBefore: -1, RPlan: []pair.ReadEv{{Kind: "data", N: a}}}); err != nil {
					return err
				}
				if err := run(&c12Case{Family: "r-cut", Envs: envs, Cut: a, CancelBefore: -1, RPlan: randomReadPlan(e, total)}); err != nil {
					return err
				}
				// the caller's context ends during a stall after a bytes; later calls get a fresh one
				if err := run(&c12Case{Family: "r-expire", Envs: envs, Cut: -1, CancelBefore: -1, RPlan: []pair.ReadEv{{Kind: "data", N: a}, {Kind: "expire"}}}); err != nil {
					return err
				}
			}
			pairs := e.N(300, 1<<30)
			done := 0
			for a := 1; a < total && done < pairs; a++ {
				for b := 1; a+b < total && done < pairs; b++ {
					if !e.Thorough() && e.Rng.Intn(total*total/2/pairs+1) != 0 {
						continue
					}
					done++
					if err := run(&c12Case{Family: "r-split2", Envs: envs, Cut: -1, CancelBefore: -1, RPlan: []pair.ReadEv{{Kind: "data", N: a}, {Kind: "data", N: b}}}); err != nil {
						return err
					}
				}
			}
		}
		// --- random: write faults and read faults together, longer streams
		for i := 0; i < e.N(400, 20000); i++ {
			envs := c12Envs(e, g, 1+e.Rng.Intn(6))
			if i < e.N(6, 60) {
				// a long fault-free stream against a small per-envelope read limit: total traffic is many
				// times the limit
				long := []*codec.VEnv{}
				for k := 0; k < 150; k++ {
					long = append(long, jsonMsg(fmt.Sprintf("L%d", k), `{"k":"`+strings.Repeat("x", 40+e.Rng.Intn(200))+`"}`))
				}
				lc := &c12Case{Family: "long-stream", Envs: long, Cut: -1, CancelBefore: -1, ReadLimit: 2048}
				if i%2 == 1 {
					lc.RPlan = randomReadPlan(e, 150*200)
				}
				if err := run(lc); err != nil {
					return err
				}
			}
			c := &c12Case{Family: "random", Envs: envs, Cut: -1, CancelBefore: -1}
			total := 0
			for j, v := range envs {
				n := len(c12Ref(v))
				total += n
				var p []pair.WriteEv
				for e.Rng.Intn(3) == 0 && len(p) < 4 {
					p = append(p, pair.WriteEv{Kind: "t", N: e.Rng.Intn(n + 2)})
				}
				if e.Rng.Intn(12) == 0 {
					p = append(p, pair.WriteEv{Kind: "f", N: e.Rng.Intn(n + 1)})
				}
				if e.Rng.Intn(25) == 0 && len(p) > 0 && p[len(p)-1].Kind == "t" {
					p[len(p)-1].Cancel = true
				}
				_ = j
				c.WPlans = append(c.WPlans, p)
			}
			c.RPlan = randomReadPlan(e, total)
			if e.Rng.Intn(4) == 0 {
				c.Cut = e.Rng.Intn(total + 1)
			}
			if err := run(c); err != nil {
				return err
			}
		}
		return c12TLS(e, e.N(6, 60))
	})
}

func repeatRead(total, n int) []pair.ReadEv {
	out := []pair.ReadEv{}
	for i := 0; i < total; i += n {
		out = append(out, pair.ReadEv{Kind: "data", N: n})
	}
	return out
}

func randomReadPlan(e *Env, total int) []pair.ReadEv {
	out := []pair.ReadEv{}
	style := e.Rng.Intn(4)
	stalls := 0
	for sum := 0; sum < total; {
		var n int
		switch style {
		case 0:
			n = 1 + e.Rng.Intn(3)
		case 1:
			n = 1 + e.Rng.Intn(40)
		case 2:
			n = 1 + e.Rng.Intn(total)
		default:
			n = []int{1, 2, 7, 64, 511, 512, 513}[e.Rng.Intn(7)]
		}
		switch e.Rng.Intn(10) {
		case 0:
			out = append(out, pair.ReadEv{Kind: "timeout"})
		case 1:
			if stalls < 4 {
				stalls++
				out = append(out, pair.ReadEv{Kind: "stall", N: n, Micro: 50 + e.Rng.Intn(400)})
				sum += n
				continue
			}
		}
		out = append(out, pair.ReadEv{Kind: "data", N: n})
		sum += n
	}
	return out
}
