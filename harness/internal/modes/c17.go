package modes

import (
	"net"
	"context"
	"encoding/json"
	"fmt"
	"strconv"
	"strings"
	"sync"
	"sync/atomic"
	"time"

	lime "github.com/takenet/lime-go"
)

// ---- C17: concurrent sessions are isolated and handlers see their own session -----------------

type c17Case struct {
	Clients   int   `json:"clients"`
	PerClient int   `json:"per_client"`
	NodePool  int   `json:"node_pool"` // the registration callback assigns nodes from a pool of this size (collisions when < clients)
	Seed      int64 `json:"seed"`
}

type c17Log struct {
	Kind      string `json:"kind"`
	Client    int    `json:"client"` // who sent the envelope (from its id)
	Seq       int    `json:"seq"`
	CtxID     string `json:"ctx_id"`
	CtxLocal  string `json:"ctx_local"`
	CtxRemote string `json:"ctx_remote"`
}

var c17Seq int64

func c17Run(e *Env, c *c17Case) error {
	e.Rep.Eval()
	run := atomic.AddInt64(&c17Seq, 1)
	srvNode := lime.Node{Identity: lime.Identity{Name: "postmaster", Domain: "c17.local"}, Instance: "srv"}
	pool := func(k int) lime.Node {
		return lime.Node{Identity: lime.Identity{Name: fmt.Sprintf("user%d", k%c.NodePool), Domain: "c17.local"}, Instance: "home"}
	}
	var mu sync.Mutex
	var logs []c17Log
	var order []int              // clients in the order their sessions were registered
	idOf := map[int]string{}     // client -> session id seen by the Established callback
	regOf := map[string]int{}    // session id -> client (through the channel given to Register)
	chanOf := map[*lime.ServerChannel]int{}
	parse := func(id string) (int, int) {
		p := strings.Split(id, "-")
		if len(p) != 3 {
			return -1, -1
		}
		k, _ := strconv.Atoi(p[1])
		n, _ := strconv.Atoi(p[2])
		return k, n
	}
	record := func(ctx context.Context, kind, id string) (string, bool) {
		k, n := parse(id)
		sid, ok1 := lime.ContextSessionID(ctx)
		loc, ok2 := lime.ContextSessionLocalNode(ctx)
		rem, ok3 := lime.ContextSessionRemoteNode(ctx)
		mu.Lock()
		logs = append(logs, c17Log{Kind: kind, Client: k, Seq: n, CtxID: sid, CtxLocal: loc.String(), CtxRemote: rem.String()})
		mu.Unlock()
		return sid, ok1 && ok2 && ok3
	}
	// the honest clients' envelopes carry an id and a payload only: a delegation node, a destination or
	// metadata in what a handler is given came from somewhere else (another connection)
	var foreignData []string
	foreign := func(kind string, env *lime.Envelope) {
		if !env.PP.IsComplete() && env.PP.Name == "" && env.To.Name == "" && len(env.Metadata) == 0 {
			return
		}
		mu.Lock()
		foreignData = append(foreignData, fmt.Sprintf("%s %s: pp=%v to=%v metadata=%v", kind, env.ID, env.PP, env.To, env.Metadata))
		mu.Unlock()
	}
	inprocAddr := lime.InProcessAddr(fmt.Sprintf("c17-%d", run))
	tcpAddr, err := freePort()
	if err != nil {
		return err
	}
	wsAddr, err := freePort()
	if err != nil {
		return err
	}
	b := lime.NewServerBuilder().Name(srvNode.Name).Domain(srvNode.Domain).Instance(srvNode.Instance).
		EnablePlainAuthentication(func(context.Context, lime.Identity, string) (*lime.AuthenticationResult, error) {
			return lime.MemberAuthenticationResult(), nil
		}).ChannelBufferSize(4).
		ListenInProcess(inprocAddr).ListenTCP(tcpAddr, nil).ListenWebsocket(wsAddr, nil).
		Register(func(_ context.Context, cand lime.Node, sc *lime.ServerChannel) (lime.Node, error) {
			k, _ := strconv.Atoi(strings.TrimPrefix(cand.Name, "c"))
			mu.Lock()
			order = append(order, k)
			chanOf[sc] = k
			mu.Unlock()
			return pool(k), nil
		}).
		Established(func(id string, sc *lime.ServerChannel) {
			mu.Lock()
			k := chanOf[sc]
			idOf[k] = id
			regOf[id] = k
			mu.Unlock()
		}).
		MessagesHandlerFunc(func(ctx context.Context, m *lime.Message, s lime.Sender) error {
			foreign("msg", &m.Envelope)
			sid, _ := record(ctx, "msg", m.ID)
			r := &lime.Message{}
			r.ID = "reply-" + m.ID
			r.SetContent(lime.TextDocument(sid))
			return s.SendMessage(ctx, r)
		}).
		NotificationsHandlerFunc(func(ctx context.Context, n *lime.Notification) error {
			foreign("ntf", &n.Envelope)
			record(ctx, "ntf", n.ID)
			return nil
		}).
		RequestCommandsHandlerFunc(func(ctx context.Context, r *lime.RequestCommand, s lime.Sender) error {
			foreign("req", &r.Envelope)
			sid, _ := record(ctx, "req", r.ID)
			resp := r.SuccessResponse()
			resp.SetMetadataKeyValue("sid", sid)
			return s.SendResponseCommand(ctx, resp)
		})
	srv := b.Build()
	serveDone := make(chan error, 1)
	go func() { serveDone <- srv.ListenAndServe() }()
	dial := func(k int) (lime.Transport, error) {
		ctx, cancel := context.WithTimeout(context.Background(), 5*time.Second)
		defer cancel()
		var t lime.Transport
		var err error
		for i := 0; i < 200; i++ {
			switch k % 3 {
			case 0:
				t, err = lime.DialInProcess(inprocAddr, 8)
			case 1:
				t, err = lime.DialTcp(ctx, tcpAddr, nil)
			default:
				t, err = lime.DialWebsocket(ctx, fmt.Sprintf("ws://%s", wsAddr.String()), nil, nil)
			}
			if err == nil {
				return t, nil
			}
			time.Sleep(3 * time.Millisecond)
		}
		return nil, err
	}
	type cliRes struct {
		announced string
		assigned  string
		replies   []string // ids of replies received
		replySids []string
		err       string
	}
	res := make([]cliRes, c.Clients)
	// intruders: connections that never authenticate send one well-formed JSON value that the transport
	// refuses after having read its members, again and again while the sessions are busy
	stopIntruders := make(chan struct{})
	var iwg sync.WaitGroup
	for i := 0; i < 2; i++ {
		iwg.Add(1)
		go func(i int) {
			defer iwg.Done()
			for n := 0; ; n++ {
				select {
				case <-stopIntruders:
					return
				default:
				}
				conn, err := net.DialTimeout("tcp", tcpAddr.String(), time.Second)
				if err != nil {
					time.Sleep(2 * time.Millisecond)
					continue
				}
				fmt.Fprintf(conn, `{"id":5,"pp":"intruder%d@evil.org/x","to":"victim@evil.org/y","metadata":{"forged":"yes"},"state":"new"}`+"\n", i)
				conn.SetReadDeadline(time.Now().Add(200 * time.Millisecond))
				buf := make([]byte, 512)
				conn.Read(buf)
				conn.Close()
				time.Sleep(time.Millisecond)
			}
		}(i)
	}
	var wg sync.WaitGroup
	for k := 0; k < c.Clients; k++ {
		wg.Add(1)
		go func(k int) {
			defer wg.Done()
			t, err := dial(k)
			if err != nil {
				res[k].err = "dial: " + err.Error()
				return
			}
			cc := lime.NewClientChannel(t, 8)
			ctx, cancel := context.WithTimeout(context.Background(), 30*time.Second)
			defer cancel()
			ses, err := cc.EstablishSession(ctx, lime.NoneCompressionSelector, lime.NoneEncryptionSelector,
				lime.Identity{Name: fmt.Sprintf("c%d", k), Domain: "c17.local"},
				func([]lime.AuthenticationScheme, lime.Authentication) lime.Authentication {
					a := &lime.PlainAuthentication{}
					a.SetPasswordAsBase64("secret")
					return a
				}, "inst")
			if err != nil || ses.State != lime.SessionStateEstablished {
				res[k].err = fmt.Sprintf("establish: %v %v", err, ses)
				return
			}
			res[k].announced = ses.ID
			res[k].assigned = ses.To.String()
			var rmu sync.Mutex
			want := 0
			go func() {
				for m := range cc.MsgChan() {
					rmu.Lock()
					res[k].replies = append(res[k].replies, m.ID)
					res[k].replySids = append(res[k].replySids, docText(m.Content))
					rmu.Unlock()
				}
			}()
			go func() {
				for r := range cc.RespCmdChan() {
					rmu.Lock()
					res[k].replies = append(res[k].replies, "resp-"+r.ID)
					res[k].replySids = append(res[k].replySids, r.Metadata["sid"])
					rmu.Unlock()
				}
			}()
			g := lcg(uint64(c.Seed)*7919 + uint64(k))
			for n := 0; n < c.PerClient; n++ {
				id := fmt.Sprintf("e-%d-%d", k, n)
				var err error
				switch g.next(3) {
				case 0:
					m := &lime.Message{}
					m.ID = id
					m.SetContent(lime.TextDocument("hello"))
					err = cc.SendMessage(ctx, m)
					want++
				case 1:
					x := &lime.Notification{Event: lime.NotificationEventReceived}
					x.ID = id
					err = cc.SendNotification(ctx, x)
				default:
					r := &lime.RequestCommand{}
					r.ID = id
					r.Method = lime.CommandMethodGet
					r.SetURIString("/x")
					err = cc.SendRequestCommand(ctx, r)
					want++
				}
				if err != nil {
					res[k].err = "send: " + err.Error()
					return
				}
				if g.next(4) == 0 {
					time.Sleep(time.Duration(g.next(200)) * time.Microsecond)
				}
			}
			deadline := time.Now().Add(10 * time.Second)
			for time.Now().Before(deadline) {
				rmu.Lock()
				n := len(res[k].replies)
				rmu.Unlock()
				if n >= want {
					break
				}
				time.Sleep(200 * time.Microsecond)
			}
			time.Sleep(time.Millisecond)
			rmu.Lock()
			if len(res[k].replies) != want {
				res[k].err = fmt.Sprintf("client %d expects %d replies, got %d", k, want, len(res[k].replies))
			}
			rmu.Unlock()
			fctx, fcancel := context.WithTimeout(context.Background(), 2*time.Second)
			_, _ = cc.FinishSession(fctx)
			fcancel()
			_ = cc.Close()
		}(k)
	}
	wg.Wait()
	close(stopIntruders)
	iwg.Wait()
	_ = srv.Close()
	select {
	case <-serveDone:
	case <-time.After(10 * time.Second):
	}
	mu.Lock()
	defer mu.Unlock()
	info := map[string]interface{}{"case": c}
	e.Rep.Count(fmt.Sprintf("node pool smaller than the number of clients=%v", c.NodePool < c.Clients))
	// the statement
	if len(foreignData) > 0 {
		e.Rep.Violate("impl", "c17-foreign-data", fmt.Sprintf("%d envelope(s) were handed to handlers with members no client of the session sent, first: %s", len(foreignData), foreignData[0]), info)
	}
	seenID := map[string]int{}
	for k := range res {
		if res[k].err != "" {
			key := "c17-other"
			if strings.Contains(res[k].err, "expects") {
				key = "c17-replies"
			}
			e.Rep.Violate("impl", key, res[k].err, info)
			continue
		}
		if prev, dup := seenID[res[k].announced]; dup {
			e.Rep.Violate("impl", "c17-id-collision", fmt.Sprintf("clients %d and %d were announced the same session id %s", prev, k, res[k].announced), info)
		}
		seenID[res[k].announced] = k
		if idOf[k] != res[k].announced {
			e.Rep.Violate("impl", "c17-id-mismatch", fmt.Sprintf("client %d was announced session id %s, the server's Established callback got %s", k, res[k].announced, idOf[k]), info)
		}
		if res[k].assigned != pool(k).String() {
			e.Rep.Violate("impl", "c17-node", fmt.Sprintf("client %d was assigned %s, the registration callback returned %s", k, res[k].assigned, pool(k)), info)
		}
		for j, rid := range res[k].replies {
			kk, _ := parse(strings.TrimPrefix(strings.TrimPrefix(rid, "resp-"), "reply-"))
			if kk != k {
				e.Rep.Violate("impl", "c17-cross-reply", fmt.Sprintf("client %d received the reply %s to an envelope of client %d", k, rid, kk), info)
				break
			}
			if res[k].replySids[j] != res[k].announced {
				e.Rep.Violate("impl", "c17-context", fmt.Sprintf("client %d (session %s): the handler that answered %s ran with session id %s in its context", k, res[k].announced, rid, res[k].replySids[j]), info)
				break
			}
		}
	}
	for _, l := range logs {
		if l.Client < 0 || l.Client >= len(res) || res[l.Client].err != "" {
			continue
		}
		if l.CtxID != res[l.Client].announced || l.CtxLocal != srvNode.String() || l.CtxRemote != pool(l.Client).String() {
			e.Rep.Violate("impl", "c17-context", fmt.Sprintf("handler for %s e-%d-%d ran with context (id %s, local %s, remote %s); the envelope arrived on the session (id %s, local %s, remote %s)",
				l.Kind, l.Client, l.Seq, l.CtxID, l.CtxLocal, l.CtxRemote, res[l.Client].announced, srvNode, pool(l.Client)), info)
			break
		}
	}
	e.Rep.Extra["handler_invocations"] = asInt(e.Rep.Extra["handler_invocations"]) + len(logs)
	// the model, on the observed order of registrations and invocations
	if e.Drv != nil && len(order) == c.Clients {
		idx := map[int]int{}
		idNum := map[string]int{}
		supply := []int{}
		ops := [][]interface{}{}
		nodeNum := func(k int) int { return 100 + k%c.NodePool }
		for i, k := range order {
			idx[k] = i
			idNum[res[k].announced] = 1000 + i
			supply = append(supply, 1000+i)
			ops = append(ops, []interface{}{"accept", nodeNum(k)})
		}
		for _, l := range logs {
			ops = append(ops, []interface{}{"recv", idx[l.Client], l.Kind, l.Client*100000 + l.Seq})
		}
		any := []map[string]interface{}{{"pred": nil, "fails": []bool{}}}
		var r struct {
			Trace [][]interface{} `json:"trace"`
		}
		if err := e.Drv.Call(map[string]interface{}{"m": "sessions", "node": 9, "supply": supply,
			"tbl": map[string]interface{}{"msg": any, "ntf": any, "req": any, "resp": any}, "ops": ops}, &r); err != nil {
			return err
		}
		li := 0
		for _, ev := range r.Trace {
			if ev[0] != "invoked" {
				continue
			}
			l := logs[li]
			li++
			wantID, wantRem, wantSender := int(asFloat(ev[4])), int(asFloat(ev[6])), int(asFloat(ev[7]))
			gotID, ok := idNum[l.CtxID]
			gotRem := -1
			for k := 0; k < c.Clients; k++ {
				if pool(k).String() == l.CtxRemote {
					gotRem = nodeNum(k)
				}
			}
			if !ok || gotID != wantID || gotRem != wantRem || wantSender != idx[l.Client] || l.CtxLocal != srvNode.String() {
				e.Rep.Violate("corr", "c17-corr", fmt.Sprintf("invocation %d (%s from client %d): model context (id #%d, remote #%d), implementation (id %s, remote %s)", li-1, l.Kind, l.Client, wantID, wantRem, l.CtxID, l.CtxRemote), info)
				break
			}
		}
		if li != len(logs) {
			e.Rep.Violate("corr", "c17-corr", fmt.Sprintf("the model has %d invocations, the implementation %d", li, len(logs)), info)
		}
	}
	cj, _ := json.Marshal(c)
	e.Rep.Nontrivial(string(cj))
	return nil
}

func init() {
	Register("c17", func(e *Env) error {
		e.Rep.Rule = "2-32 concurrent real clients (raw ClientChannel after a real guest handshake) against one real Server with an in-process, a TCP and a WebSocket listener at once; the registration callback assigns nodes from a pool that is often smaller than the number of clients (several sessions share one remote node); handlers record the three context values and answer through the sender they were given; each client checks that it only gets answers to its own envelopes and that the handler ran with its session id; session ids are compared across clients and with the Established callback; the observed order of registrations and invocations is replayed on the sessions model and the context values diffed. Non-trivial = every run; distinct by configuration."
		if e.Replay != "" {
			b, err := readReplayCase(e.Replay)
			if err != nil {
				return err
			}
			var wrap struct {
				Case *c17Case `json:"case"`
			}
			if err := json.Unmarshal(b, &wrap); err != nil || wrap.Case == nil {
				return fmt.Errorf("bad replay file")
			}
			for i := 0; i < 3; i++ {
				if err := c17Run(e, wrap.Case); err != nil {
					return err
				}
			}
			return nil
		}
		for i := 0; i < e.N(24, 400); i++ {
			c := &c17Case{Clients: 2 + e.Rng.Intn(31), PerClient: 5 + e.Rng.Intn(30), Seed: e.Seed*1000 + int64(i)}
			c.NodePool = 1 + e.Rng.Intn(c.Clients)
			if i%4 == 0 {
				c.NodePool = 1 + e.Rng.Intn(3)
			}
			if err := c17Run(e, c); err != nil {
				return err
			}
		}
		return nil
	})
}
