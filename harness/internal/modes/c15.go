package modes

import (
	"context"
	"os"
	"encoding/json"
	"fmt"
	"strings"
	"sync"
	"sync/atomic"
	"time"

	lime "github.com/takenet/lime-go"

	"limeverif/internal/pair"
)

// ---- C15: blocking operations honour their context -------------------------------------------

type c15Case struct {
	Op        string `json:"op"`
	Transport string `json:"transport"` // inproc | tcp | ws
	Ctx       string `json:"ctx"`       // deadline | cancel
	AtMs      int    `json:"at_ms"`     // when the context ends, after the call started
}

type c15Obs struct {
	Returned  bool   `json:"returned"`
	Err       string `json:"err"`
	LatencyMs int    `json:"latency_ms"` // from the end of the context to the return (negative: returned before)
	TotalMs   int    `json:"total_ms"`
	Note      string `json:"note,omitempty"`
}

// c15Kind says which model governs the operation on the transport: "poll" (the TCP retry loop),
// "select", or "helper" (the WebSocket goroutine pattern).
func c15Kind(op, tr string) string {
	blocksInTransport := map[string]bool{"t.send-blocked": true, "t.recv": true, "ch.send-blocked": true,
		"ch.establish-client": true, "ch.establish-server": true}
	if !blocksInTransport[op] {
		return "select"
	}
	switch tr {
	case "tcp", "tcp-tls":
		return "poll"
	case "ws", "wss":
		return "helper"
	}
	return "select"
}

const c15PollMs = 5000

// bigMessage is large enough that a handful of them fill the socket buffers of a peer that does not read.
func bigMessage(i int) *lime.Message {
	m := &lime.Message{}
	m.ID = fmt.Sprintf("big-%d", i)
	m.SetContent(lime.TextDocument(strings.Repeat("x", 1<<20)))
	return m
}

func c15Run(c *c15Case) (obs c15Obs) {
	mkctx := func() (context.Context, context.CancelFunc, time.Time) {
		start := time.Now()
		end := start.Add(time.Duration(c.AtMs) * time.Millisecond)
		if c.Ctx == "deadline" {
			ctx, cancel := context.WithDeadline(context.Background(), end)
			return ctx, cancel, end
		}
		if c.Ctx == "cancel-with-distant-deadline" {
			ctx, cancel := context.WithTimeout(context.Background(), time.Minute)
			time.AfterFunc(time.Duration(c.AtMs)*time.Millisecond, cancel)
			return ctx, cancel, end
		}
		ctx, cancel := context.WithCancel(context.Background())
		time.AfterFunc(time.Duration(c.AtMs)*time.Millisecond, cancel)
		return ctx, cancel, end
	}
	// measure runs f with a fresh context and reports; the cap bounds the wait
	measure := func(f func(ctx context.Context) error) (done bool, err error, lat time.Duration, total time.Duration) {
		ctx, cancel, end := mkctx()
		defer cancel()
		ch := make(chan error, 1)
		t0 := time.Now()
		go func() { ch <- f(ctx) }()
		select {
		case err = <-ch:
			now := time.Now()
			return true, err, now.Sub(end), now.Sub(t0)
		case <-time.After(time.Duration(c.AtMs)*time.Millisecond + 9*time.Second):
			return false, nil, 9 * time.Second, time.Since(t0)
		}
	}
	report := func(done bool, err error, lat, total time.Duration) {
		obs.Returned = done
		if err != nil {
			obs.Err = err.Error()
		}
		obs.LatencyMs = int(lat / time.Millisecond)
		obs.TotalMs = int(total / time.Millisecond)
	}
	node := lime.Node{Identity: lime.Identity{Name: "u", Domain: "d"}, Instance: "i"}
	switch c.Op {
	case "l.accept":
		var l lime.TransportListener
		var err error
		switch c.Transport {
		case "inproc":
			addr := lime.InProcessAddr(fmt.Sprintf("c15-%d", atomic.AddInt64(&srvSeq, 1)))
			l = lime.NewInProcessTransportListener(addr)
			err = l.Listen(context.Background(), addr)
		case "tcp":
			a, e := freePort()
			if e != nil {
				obs.Note = "harness: " + e.Error()
				return
			}
			l = lime.NewTCPTransportListener(nil)
			err = l.Listen(context.Background(), a)
		default:
			a, e := freePort()
			if e != nil {
				obs.Note = "harness: " + e.Error()
				return
			}
			l = lime.NewWebsocketTransportListener(nil)
			err = l.Listen(context.Background(), a)
		}
		if err != nil {
			obs.Note = "harness: listen: " + err.Error()
			return
		}
		defer l.Close()
		report(measure(func(ctx context.Context) error { _, err := l.Accept(ctx); return err }))
		return
	}
	ct, st, cleanup, err := pair.Transports(c.Transport, 0, 1)
	if err != nil {
		cleanup()
		obs.Note = "harness: " + err.Error()
		return
	}
	defer cleanup()
	defer func() { go ct.Close(); go st.Close() }()
	established := func() (*lime.ClientChannel, *lime.ServerChannel, bool) {
		cc, sc, err := pair.Established(ct, st, 1, fmt.Sprintf("c15-%d", atomic.AddInt64(&srvSeq, 1)), node)
		if err != nil {
			obs.Note = "harness: " + err.Error()
			return nil, nil, false
		}
		return cc, sc, true
	}
	// a send is measured once the peer's buffers are full: sends with the case's context are repeated
	// until one of them is still in progress when its context ends
	blockedSend := func(send func(ctx context.Context, i int) error) {
		for i := 0; i < 64; i++ {
			done, err, lat, total := measure(func(ctx context.Context) error { return send(ctx, i) })
			if os.Getenv("VERIF_SLOW") != "" {
				fmt.Fprintf(os.Stderr, "c15 send %d: done=%v err=%v total=%v\n", i, done, err, total)
			}
			if !done || err != nil {
				report(done, err, lat, total)
				return
			}
		}
		obs.Note = "inconclusive: 64 sends of 1 MiB completed although the peer does not read"
		obs.Returned = true
		obs.Err = "inconclusive"
	}
	switch c.Op {
	case "t.recv":
		report(measure(func(ctx context.Context) error { _, err := ct.Receive(ctx); return err }))
	case "t.send-blocked":
		blockedSend(func(ctx context.Context, i int) error { return ct.Send(ctx, bigMessage(i)) })
	case "ch.send-blocked":
		cc, _, ok := established()
		if !ok {
			return
		}
		// the server channel's receiver stops taking envelopes once its stream buffer (1) is full,
		// because nobody consumes it
		blockedSend(func(ctx context.Context, i int) error { return cc.SendMessage(ctx, bigMessage(i)) })
	case "ch.process":
		cc, _, ok := established()
		if !ok {
			return
		}
		report(measure(func(ctx context.Context) error {
			r := &lime.RequestCommand{}
			r.ID = "p1"
			r.Method = lime.CommandMethodGet
			r.SetURIString("/x")
			_, err := cc.ProcessCommand(ctx, r)
			return err
		}))
	case "ch.finish-server-backlog":
		// the peer's notifications pile up because nobody consumes them (stream buffer 1): the server's
		// receiver is parked on the full stream. Finishing the session has to get past it; whether it
		// completes or gives up, it returns by the end of its context.
		cc, sc, ok := established()
		if !ok {
			return
		}
		for j := 0; j < 6; j++ {
			n := &lime.Notification{Event: lime.NotificationEventReceived}
			n.ID = fmt.Sprintf("n%d", j)
			sctx, scancel := context.WithTimeout(context.Background(), 200*time.Millisecond)
			_ = cc.SendNotification(sctx, n)
			scancel()
		}
		time.Sleep(50 * time.Millisecond)
		done, err, lat, total := measure(func(ctx context.Context) error { return sc.FinishSession(ctx) })
		if done && err == nil {
			obs.Returned, obs.Err = true, "completed"
			obs.TotalMs = int(total / time.Millisecond)
			return
		}
		report(done, err, lat, total)
	case "ch.finish-client":
		cc, _, ok := established()
		if !ok {
			return
		}
		// nobody serves the server channel: the finishing request is never answered
		report(measure(func(ctx context.Context) error { _, err := cc.FinishSession(ctx); return err }))
	case "ch.finish-after-unclaimed":
		// A response that reaches the table while its caller is on its way out (context ended, not
		// yet cleaned up) is handed to a reply channel nobody reads any more; the receiver goroutine
		// must not stay behind it, or every later operation that stops the receiver hangs whatever
		// its context says. Forced through the scheduling gates; the server is the caller here.
		cc, sc, ok := established()
		if !ok {
			return
		}
		installGates()
		prefix := fmt.Sprintf("k%d", atomic.AddInt64(&c05CaseSeq, 1))
		g := newGateSched()
		gateReg.Store(prefix, g)
		defer gateReg.Delete(prefix)
		defer g.freeAll()
		req := &lime.RequestCommand{}
		req.ID = prefix + "-1"
		req.Method = lime.CommandMethodGet
		req.SetURIString("/x")
		pctx, pcancel := context.WithCancel(context.Background())
		pdone := make(chan struct{})
		go func() { defer close(pdone); _, _ = sc.ProcessCommand(pctx, req) }()
		at := func(point string, isReq bool) *gateWaiter {
			return g.find(point, func(k interface{}) bool {
				if isReq {
					return k == interface{}(req)
				}
				_, ok := k.(*lime.ResponseCommand)
				return ok
			})
		}
		const T = 3 * time.Second
		okStep := g.await(T, func() bool { return at("pc.registered", true) != nil })
		if okStep {
			g.releaseW(g.findL("pc.registered", func(k interface{}) bool { return k == interface{}(req) }))
			select {
			case <-cc.ReqCmdChan():
			case <-time.After(T):
				okStep = false
			}
		}
		if okStep {
			pcancel()
			okStep = g.await(T, func() bool { return at("pc.cleanup", true) != nil })
		}
		if okStep {
			r := &lime.ResponseCommand{Status: lime.CommandStatusSuccess}
			r.ID = req.ID
			r.Method = lime.CommandMethodGet
			sctx, scancel := context.WithTimeout(context.Background(), T)
			_ = cc.SendResponseCommand(sctx, r)
			scancel()
			okStep = g.await(T, func() bool { return at("rcv.deleted", false) != nil })
		}
		if okStep {
			g.releaseW(g.findL("rcv.deleted", func(k interface{}) bool { _, ok := k.(*lime.ResponseCommand); return ok }))
			time.Sleep(2 * time.Millisecond) // the hand-off
			g.releaseW(g.findL("pc.cleanup", func(k interface{}) bool { return k == interface{}(req) }))
			select {
			case <-pdone:
			case <-time.After(T):
				okStep = false
			}
		}
		pcancel()
		g.freeAll()
		if !okStep {
			obs.Note = "harness: the unclaimed-response schedule could not be forced"
			return
		}
		done, err, lat, total := measure(func(ctx context.Context) error { return sc.FinishSession(ctx) })
		report(done, err, lat, total)
		if done && err == nil {
			obs.Err = "completed" // finishing has nothing to wait for: success is the expected outcome
		}
	case "ch.establish-client":
		cc := lime.NewClientChannel(ct, 1)
		report(measure(func(ctx context.Context) error {
			_, err := cc.EstablishSession(ctx, lime.NoneCompressionSelector, lime.NoneEncryptionSelector, node.Identity, lime.GuestAuthenticator, "i")
			return err
		}))
	case "ch.establish-server":
		sc := lime.NewServerChannel(st, 1, pair.ServerNode, "sid")
		report(measure(func(ctx context.Context) error {
			return sc.EstablishSession(ctx, []lime.SessionCompression{lime.SessionCompressionNone},
				[]lime.SessionEncryption{lime.SessionEncryptionNone}, []lime.AuthenticationScheme{lime.AuthenticationSchemeGuest},
				func(context.Context, lime.Identity, lime.Authentication) (*lime.AuthenticationResult, error) {
					return lime.MemberAuthenticationResult(), nil
				},
				func(_ context.Context, n lime.Node, _ *lime.ServerChannel) (lime.Node, error) { return n, nil })
		}))
	}
	return
}

func init() {
	Register("c15", func(e *Env) error {
		e.Rep.Rule = "every context-taking blocking operation (transport Send with a peer that does not read and full buffers, transport Receive with a silent peer, listener Accept with nobody connecting, channel SendMessage blocked, ProcessCommand unanswered, client FinishSession unanswered, client and server EstablishSession against a silent peer, server FinishSession past a backlog of unconsumed notifications) x in-process / TCP / WebSocket (the transport-level waits also over TLS: tcp-tls, wss) x context with a deadline / cancelled, ending 60-400 ms into the call; measured: whether the call returns, with an error, and how long after the end of its context; compared with the bound of the statement (promptly at a deadline; within the 5 s I/O poll for a cancellation on TCP) and with the return time the timed model computes. All cases run concurrently. Non-trivial = every case; distinct by case."
		var cases []*c15Case
		if e.Replay != "" {
			b, err := readReplayCase(e.Replay)
			if err != nil {
				return err
			}
			var wrap struct {
				Case *c15Case `json:"case"`
			}
			if err := json.Unmarshal(b, &wrap); err != nil || wrap.Case == nil {
				return fmt.Errorf("bad replay file")
			}
			cases = []*c15Case{wrap.Case, wrap.Case, wrap.Case}
		} else {
			ops := []string{"l.accept", "t.recv", "t.send-blocked", "ch.send-blocked", "ch.process", "ch.finish-client", "ch.establish-client", "ch.establish-server", "ch.finish-after-unclaimed"}
			ops = append(ops, "ch.finish-server-backlog")
			for _, tr := range []string{"inproc", "tcp", "ws", "tcp-tls", "wss"} {
				for _, op := range ops {
					if (tr == "tcp-tls" || tr == "wss") && op != "t.recv" && op != "t.send-blocked" && op != "ch.send-blocked" {
						continue // the TLS variants differ in what sits under the transport: the transport-level waits
					}
					for _, k := range []string{"deadline", "cancel", "cancel-with-distant-deadline"} {
						reps := 1
						if e.Thorough() {
							reps = 4
						}
						for r := 0; r < reps; r++ {
							cases = append(cases, &c15Case{Op: op, Transport: tr, Ctx: k, AtMs: 60 + e.Rng.Intn(340)})
						}
					}
				}
			}
		}
		obs := make([]c15Obs, len(cases))
		var wg sync.WaitGroup
		sem := make(chan struct{}, 64)
		for i := range cases {
			wg.Add(1)
			sem <- struct{}{}
			go func(i int) {
				defer wg.Done()
				defer func() { <-sem }()
				obs[i] = c15Run(cases[i])
			}(i)
		}
		wg.Wait()
		for i, c := range cases {
			o := obs[i]
			e.Rep.Eval()
			e.Rep.Count("transport=" + c.Transport)
			e.Rep.Count("ctx=" + c.Ctx)
			cj, _ := json.Marshal(c)
			e.Rep.Nontrivial(string(cj))
			info := map[string]interface{}{"case": c, "obs": o}
			if strings.HasPrefix(o.Note, "harness:") {
				e.Rep.Note(o.Note)
				continue
			}
			if o.Err == "completed" {
				// an operation that has nothing to wait for finished its work before its context ended
				e.Rep.Count("completed before the end of its context")
				continue
			}
			if o.Err == "inconclusive" {
				e.Rep.Count("inconclusive: the peer's buffers absorbed everything")
				continue
			}
			kind := c15Kind(c.Op, c.Transport)
			e.Rep.Count("governed by=" + kind)
			// the statement
			bound := 600 // ms of slack for scheduling on a loaded machine
			if c.Ctx != "deadline" && kind == "poll" {
				bound += c15PollMs
			}
			what := fmt.Sprintf("%s over %s, context %s at %d ms", c.Op, c.Transport, c.Ctx, c.AtMs)
			switch {
			case !o.Returned:
				e.Rep.Violate("impl", "c15-blocked", what+": the call had not returned 9 s after its context ended", info)
			case o.Err == "":
				e.Rep.Violate("impl", "c15-no-error", what+": the call returned without an error although nothing could complete it", info)
			case o.LatencyMs > bound:
				e.Rep.Violate("impl", "c15-late", fmt.Sprintf("%s: the call returned %d ms after its context ended (bound %d ms)", what, o.LatencyMs, bound), info)
			case o.LatencyMs < -50:
				e.Rep.Violate("impl", "c15-early", fmt.Sprintf("%s: the call failed %d ms before its context ended: %s", what, -o.LatencyMs, o.Err), info)
			}
			// the model
			if e.Drv != nil {
				req := map[string]interface{}{"m": "timed", "kind": kind, "poll": c15PollMs, "now": 0}
				if kind == "helper" && !strings.Contains(c.Op, "send") {
					// the WebSocket Receive interrupts its helper through the connection's read deadline, which the
					// library applies to the socket itself; only Send depends on the fact read from the source
					// (Generated.wsForcesUnderlyingDeadline, the driver's default for "interrupts")
					req["interrupts"] = true
				}
				switch c.Ctx {
				case "deadline":
					req["deadline"] = c.AtMs
				case "cancel":
					req["cancelAt"] = c.AtMs
				default:
					req["cancelAt"] = c.AtMs
					req["deadline"] = 60000
				}
				var r struct {
					Returns bool   `json:"returns"`
					At      int    `json:"at"`
					Res     string `json:"res"`
				}
				if err := e.Drv.Call(req, &r); err != nil {
					return err
				}
				// a blocked send is measured from the start of the send that blocked: its total time is comparable
				// the model assumes the operation is blocked in its I/O when the context ends; a call that
				// is still preparing (encoding a large envelope) notices the end at once, which is earlier
				// than the model's moment and never later
				if r.Returns != o.Returned || (r.Returns && (o.TotalMs > r.At+600 || o.TotalMs < c.AtMs-60)) {
					e.Rep.Violate("corr", "c15-corr", fmt.Sprintf("%s: the model returns=%v at %d ms, the implementation returned=%v after %d ms", what, r.Returns, r.At, o.Returned, o.TotalMs), info)
				}
			}
			e.Rep.Sample(info, 3)
		}
		return nil
	})
}
