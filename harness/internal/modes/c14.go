package modes

import (
	"strings"
	"context"
	"encoding/json"
	"fmt"
	"os"
	"sync"
	"time"

	lime "github.com/takenet/lime-go"

	"limeverif/internal/codec"
	"limeverif/internal/pair"
)

// ---- C14: every connection that fails to establish is released -------------------------------

type c14Obs struct {
	Trace       []map[string]interface{} `json:"trace"`
	Established bool                     `json:"established"`     // the peer received an established envelope
	PeerClosed  bool                     `json:"peer_saw_close"`  // the server closed the connection
	CbEst       int                      `json:"cb_established"`
	CbFin       int                      `json:"cb_finished"`
	Leaked      []string                 `json:"leaked,omitempty"`
	Starved     bool                     `json:"starved"` // the server was still waiting for input when the script ended
	Note        string                   `json:"note,omitempty"`
}

// runServeCase plays the script against a real Server (NewServer with scripted callbacks) whose only
// listener hands out the real TCP transport over an in-memory connection.
func runServeCase(c *hsCase, census bool) (obs c14Obs) {
	if c.Route == "inproc" {
		return runServeInproc(c, census)
	}
	var tcfgS *lime.TCPConfig
	var peerTLS = false
	var cl interface{}
	_ = cl
	ml := pair.NewMemListener(nil)
	var peerCfg = (*struct{})(nil)
	_ = peerCfg
	if strings.HasPrefix(c.Route, "pipe-tls") {
		s, _ := pair.TLSConfigs()
		tcfgS = &lime.TCPConfig{TLSConfig: s}
		ml = pair.NewMemListener(tcfgS)
		peerTLS = true
	}
	log := &evLog{}
	ai, ri := 0, 0
	var cbmu sync.Mutex
	learnedSid := ""
	cfg := &lime.ServerConfig{
		Node: lnode(c.Cfg.Node), CompOpts: toComp(c.Cfg.CompOpts), EncryptOpts: toEnc(c.Cfg.EncOpts), SchemeOpts: toSchemes(c.Cfg.SchemeOpts),
		Backlog: 4, ChannelBufferSize: 1,
		Authenticate: func(_ context.Context, id lime.Identity, a lime.Authentication) (*lime.AuthenticationResult, error) {
			cbmu.Lock()
			defer cbmu.Unlock()
			var out interface{} = "error"
			if ai < len(c.Auths) {
				out = c.Auths[ai]
			}
			ai++
			var outLog interface{} = out
			if out == "unknown0" {
				outLog = "unknown"
			}
			log.add(map[string]interface{}{"e": "auth", "name": id.Name, "domain": id.Domain, "cred": fromAuth(a), "out": outLog})
			switch o := out.(type) {
			case string:
				switch o {
				case "role":
					return lime.MemberAuthenticationResult(), nil
				case "unknown":
					return lime.UnknownAuthenticationResult(), nil
				case "unknown0":
					return &lime.AuthenticationResult{}, nil
				}
				return nil, callbackError(len(c.Recvs))
			case map[string]interface{}:
				b, _ := json.Marshal(o["rt"])
				var va codec.VAuth
				json.Unmarshal(b, &va)
				return &lime.AuthenticationResult{Role: lime.DomainRoleUnknown, RoundTrip: toAuth(&va)}, nil
			}
			return nil, callbackError(len(c.Recvs))
		},
		Register: func(_ context.Context, n lime.Node, _ *lime.ServerChannel) (lime.Node, error) {
			cbmu.Lock()
			defer cbmu.Unlock()
			var res *codec.VNode
			if ri < len(c.Regs) {
				res = c.Regs[ri]
			}
			ri++
			log.add(map[string]interface{}{"e": "reg", "cand": vnode(n)})
			if res == nil {
				return lime.Node{}, callbackError(len(c.Recvs))
			}
			return lnode(*res), nil
		},
		Established: func(string, *lime.ServerChannel) { cbmu.Lock(); obs.CbEst++; cbmu.Unlock() },
		Finished:    func(string) { cbmu.Lock(); obs.CbFin++; cbmu.Unlock() },
	}
	srv := lime.NewServer(cfg, &lime.EnvelopeMux{}, lime.NewBoundListener(ml, ml.Addr()))
	serveDone := make(chan error, 1)
	go func() { serveDone <- srv.ListenAndServe() }()
	pc, sconn := ml.Connect()
	var ptls = (*struct{})(nil)
	_ = ptls
	var peer *rawPeer
	if peerTLS {
		_, clc := pair.TLSConfigs()
		peer = newRawPeer(pc, clc)
		peer.bad = c.Route == "pipe-tls-bad"
	} else {
		peer = newRawPeer(pc, nil)
	}
	readerDone := make(chan struct{})
	go func() {
		defer close(readerDone)
		defer func() { recover() }()
		for {
			var m map[string]interface{}
			if err := peer.dec.Decode(&m); err != nil {
				// the server ended the stream (close_notify under TLS, or closed): a client closes too,
				// which lets the server's lingering close finish at once
				pc.Close()
				return
			}
			if _, ok := m["state"]; !ok {
				log.add(map[string]interface{}{"e": "emit-other"})
				continue
			}
			ses := rawSes(m)
			cbmu.Lock()
			if learnedSid == "" {
				learnedSid = ses.ID // the real Server draws the session id itself
			}
			cbmu.Unlock()
			log.add(map[string]interface{}{"e": "emit", "ses": ses, "enc": peer.enc})
			if ses.State == "established" {
				cbmu.Lock()
				obs.Established = true
				cbmu.Unlock()
			}
			if ses.State == "negotiating" && ses.Enc == "tls" && peer.enc != "tls" {
				if err := peer.upgrade(); err != nil {
					log.add(map[string]interface{}{"e": "peer-setenc-failed"})
				}
			}
		}
	}()
	// settled: both ends parked (the server waits for input), or the server closed, or the server
	// abandoned the connection (nobody reads its end and nothing moves for a while)
	quiet := func() bool {
		deadline := time.Now().Add(10 * time.Second)
		var lastA, lastB int
		stableSince := time.Now()
		for time.Now().Before(deadline) {
			if pc.Quiescent() || pc.PeerClosed() {
				return true
			}
			a, b, srvParked, _ := pc.Snapshot()
			if a != lastA || b != lastB || srvParked {
				lastA, lastB = a, b
				stableSince = time.Now()
			} else if time.Since(stableSince) > 3*time.Millisecond {
				return true
			}
			time.Sleep(50 * time.Microsecond)
		}
		return false
	}
	// the exchange starts once the server has taken the connection and waits for the first envelope
	for t0 := time.Now(); time.Since(t0) < 5*time.Second; {
		if _, _, srvParked, _ := pc.Snapshot(); srvParked || pc.PeerClosed() {
			break
		}
		time.Sleep(50 * time.Microsecond)
	}
	for _, item := range c.Recvs {
		if !quiet() {
			obs.Note = "no quiescence before script item"
			break
		}
		if pc.PeerClosed() {
			break
		}
		switch item.T {
		case "ses":
			log.add(map[string]interface{}{"e": "recv", "r": item})
			out := item.Ses.toSession()
			cbmu.Lock()
			if out.ID == c.Cfg.Sid && learnedSid != "" {
				out.ID = learnedSid // the script's "right id" is the id this server announced
			}
			cbmu.Unlock()
			peer.send(out)
		case "other":
			log.add(map[string]interface{}{"e": "recv", "r": hsRecv{T: "other"}})
			m := &lime.Message{}
			m.SetContent(lime.TextDocument("injected"))
			m.ID = "injected"
			peer.send(m)
		case "fail":
			log.add(map[string]interface{}{"e": "recv", "r": hsRecv{T: "fail", How: item.How}})
			if item.How == "close" {
				pc.Close()
			} else {
				peer.wmu.Lock()
				peer.conn.Write([]byte("{\"garbage\n"))
				peer.wmu.Unlock()
			}
		}
	}
	quiet()
	// settled: either the server released the connection, or it established the session, or it
	// still waits for the client (starved)
	time.Sleep(300 * time.Microsecond)
	quiet()
	obs.PeerClosed = pc.PeerClosed()
	cbmu.Lock()
	est := obs.Established
	cbmu.Unlock()
	if !obs.PeerClosed && !est {
		obs.Starved = true
		pc.Close() // the client gives up
		deadline := time.Now().Add(1 * time.Second)
		for !sconnClosedByServer(sconn, pc) && time.Now().Before(deadline) {
			time.Sleep(100 * time.Microsecond)
		}
		obs.PeerClosed = pc.PeerClosed()
	}
	pc.Close()
	srv.Close()
	select {
	case <-serveDone:
	case <-time.After(5 * time.Second):
		obs.Note += " ListenAndServe did not return"
	}
	<-readerDone
	// goroutines serving this connection must be gone (TCP receivers poll every 5 s at worst)
	deadline := time.Now().Add(7 * time.Second)
	for census {
		obs.Leaked = limeGoroutines()
		if len(obs.Leaked) == 0 || time.Now().After(deadline) {
			break
		}
		time.Sleep(200 * time.Microsecond)
	}
	sconn.Close()
	log.mu.Lock()
	obs.Trace = log.evs
	log.mu.Unlock()
	return
}

func sconnClosedByServer(sconn, pc pair.BufConn) bool { return pc.PeerClosed() }

// judgeC14 evaluates the statement on one served connection.
func judgeC14(c *hsCase, o c14Obs) []hsVerdict {
	out := []hsVerdict{}
	if o.Established {
		return out // the handshake succeeded: not this property's business
	}
	if !o.PeerClosed && !o.Starved {
		out = append(out, hsVerdict{"c14-not-closed", "the handshake failed but the server left the connection open"})
	}
	if o.Starved && !o.PeerClosed {
		out = append(out, hsVerdict{"c14-not-closed-after-peer-left", "the peer vanished during the handshake but the server end of the connection was never closed"})
	}
	if o.CbEst > 0 || o.CbFin > 0 {
		out = append(out, hsVerdict{"c14-callbacks", fmt.Sprintf("callbacks invoked for a connection that never established: established=%d finished=%d", o.CbEst, o.CbFin)})
	}
	if len(o.Leaked) > 0 {
		out = append(out, hsVerdict{"c14-goroutines", fmt.Sprintf("%d goroutine(s) of the library left after the failed handshake, first at %s", len(o.Leaked), o.Leaked[0])})
	}
	return out
}

func init() {
	Register("c14", func(e *Env) error {
		e.Rep.Rule = "every failing client script of the C03 enumeration (protocol violations, rejected credentials, callback errors, undecodable or non-session input, peer vanishing at each step; 9 server configurations x callback outcome patterns) against a real Server (NewServer with scripted callbacks) whose listener hands out the real TCP transport over observable in-memory connections (with and without TLS); observed: whether the server closed the connection once the exchange settled, Established / Finished callback counters, goroutines of the library left after the connection is gone. Non-trivial = the handshake did not establish; distinct by (case, trace)."
		if e.Drv == nil {
			return fmt.Errorf("c14 needs the model driver for the script enumeration")
		}
		var cases []*hsCase
		if e.Replay != "" {
			b, err := readReplayCase(e.Replay)
			if err != nil {
				return err
			}
			var rc c14RealCase
			if json.Unmarshal(b, &rc) == nil && (strings.HasPrefix(rc.Family, "real-") || rc.Family == "established-send-fails") {
				return runC14Real(e, &rc)
			}
			var wrap struct {
				Case *hsCase `json:"case"`
			}
			if err := json.Unmarshal(b, &wrap); err != nil || wrap.Case == nil {
				return fmt.Errorf("bad replay file")
			}
			cases = []*hsCase{wrap.Case}
		} else {
			depth := 3
			if e.Thorough() {
				depth = 4
			}
			for ci := range hsConfigs {
				cfg := &hsConfigs[ci]
				for pi, pat := range hsAuthPatterns {
					for _, regOk := range []bool{true, false} {
						if !regOk && pi != 0 && !e.Thorough() {
							continue
						}
						routes := []string{"pipe"}
						if inList(cfg.enc, "tls") && (e.Thorough() || pi == 0) {
							routes = append(routes, "pipe-tls", "pipe-tls-bad")
						}
						for _, route := range routes {
							var sample func() bool
							if !e.Thorough() {
								rate := 60
								if pi == 0 && regOk {
									rate = 20
								}
								sample = func() bool { return e.Rng.Intn(rate) == 0 }
							}
							cs, err := enumerateHs(e, cfg, route, pat, regOk, depth, e.Thorough(), pi == 0 && regOk && route == "pipe", sample)
							if err != nil {
								return err
							}
							cases = append(cases, cs...)
						}
						// the in-process transport: same scripts as far as typed envelopes can express
						// them, plus the client vanishing right after each of its envelopes was taken
						if pi == 0 || e.Thorough() {
							rate := 25
							sample := func() bool { return e.Rng.Intn(rate) == 0 }
							cs, err := enumerateHs(e, cfg, "inproc", pat, regOk, depth, false, false, sample)
							if err != nil {
								return err
							}
							for _, c := range cs {
								if !inprocPlayable(c) {
									continue
								}
								cases = append(cases, c)
								cases = append(cases, goneVariants(c)...)
							}
						}
					}
				}
			}
		}
		e.Rep.Extra["scripts_run"] = len(cases)
		// cases run in parallel without the (process-wide) goroutine census; the census is taken
		// once at the end, and if it finds something the cases are re-run one at a time to say which
		type res struct {
			c *hsCase
			o c14Obs
		}
		results := make([]res, len(cases))
		var wg sync.WaitGroup
		sem := make(chan struct{}, 8)
		for i, c := range cases {
			wg.Add(1)
			sem <- struct{}{}
			go func(i int, c *hsCase) {
				defer wg.Done()
				defer func() { <-sem }()
				t0 := time.Now()
				results[i] = res{c, runServeCase(c, false)}
				if d := time.Since(t0); d > 2*time.Second && os.Getenv("VERIF_SLOW") != "" {
					cj, _ := json.Marshal(c)
					fmt.Fprintf(os.Stderr, "slow c14 case %.1fs: %s\n", d.Seconds(), tail(string(cj), 600))
				}
			}(i, c)
		}
		wg.Wait()
		report := func(c *hsCase, o c14Obs, census bool) {
			vs := judgeC14(c, o)
			if len(vs) == 0 {
				return
			}
			ok := true
			for i := 0; i < 2 && ok; i++ {
				o = runServeCase(c, census)
				if len(judgeC14(c, o)) == 0 {
					ok = false
					e.Rep.Count("unreproduced-disagreement")
				}
			}
			if ok {
				for _, v := range judgeC14(c, o) {
					e.Rep.Violate("impl", v.key, v.msg, map[string]interface{}{"case": c, "obs": o})
				}
			}
		}
		for _, r := range results {
			c, o := r.c, r.o
			e.Rep.Eval()
			e.Rep.Count("route=" + c.Route)
			if o.Established {
				e.Rep.Count("outcome=established")
				if e.Drv != nil {
					var mo struct {
						CbEst int `json:"cb_established"`
					}
					req := map[string]interface{}{"m": "srvserve", "cfg": c.Cfg, "recvs": c.Recvs, "auths": c.Auths, "regs": c.Regs,
						"sendOk": c.SendOk, "setEncOk": c.SetEncOk, "enc0": c.Enc0}
					if err := e.Drv.Call(req, &mo); err != nil {
						return err
					}
					if mo.CbEst != 1 {
						e.Rep.Violate("corr", "c14-corr", "the implementation established a session where the model does not", map[string]interface{}{"case": c, "obs": o})
					}
				}
				continue
			}
			if o.Starved {
				e.Rep.Count("outcome=peer-left")
			} else {
				e.Rep.Count("outcome=failed")
			}
			cj, _ := json.Marshal(c)
			tj, _ := json.Marshal(projectHs(o.Trace))
			e.Rep.Nontrivial(string(cj) + string(tj))
			e.Rep.Sample(map[string]interface{}{"case": c, "obs": o}, 2)
			if o.Note != "" {
				e.Rep.Note(o.Note)
			}
			report(c, o, false)
			// correspondence with handleChannel of the model
			if e.Drv != nil {
				var mo struct {
					CbEst   int    `json:"cb_established"`
					CbFin   int    `json:"cb_finished"`
					Held    bool   `json:"held"`
					State   string `json:"state"`
					Starved bool   `json:"starved"`
				}
				req := map[string]interface{}{"m": "srvserve", "cfg": c.Cfg, "recvs": c.Recvs, "auths": c.Auths, "regs": c.Regs,
					"sendOk": c.SendOk, "setEncOk": c.SetEncOk, "enc0": c.Enc0}
				if err := e.Drv.Call(req, &mo); err != nil {
					return err
				}
				if mo.CbEst != o.CbEst || mo.CbFin != o.CbFin || mo.Held == o.PeerClosed {
					o2 := o
					same := true
					for i := 0; i < 2 && same; i++ {
						o2 = runServeCase(c, false)
						same = mo.CbEst != o2.CbEst || mo.CbFin != o2.CbFin || mo.Held == o2.PeerClosed
					}
					if same {
						e.Rep.Violate("corr", "c14-corr", fmt.Sprintf("handleChannel: model (callbacks %d/%d, connection held=%v) and implementation (callbacks %d/%d, closed=%v) differ",
							mo.CbEst, mo.CbFin, mo.Held, o2.CbEst, o2.CbFin, o2.PeerClosed), map[string]interface{}{"case": c, "obs": o2, "model": mo})
					} else {
						e.Rep.Count("unreproduced-disagreement")
					}
				}
			}
		}
		// census: nothing of the library may be left once every connection and server is gone
		deadline := time.Now().Add(8 * time.Second)
		var left []string
		for {
			left = limeGoroutines()
			if len(left) == 0 || time.Now().After(deadline) {
				break
			}
			time.Sleep(time.Millisecond)
		}
		e.Rep.Extra["goroutines_left_at_end"] = len(left)
		if len(left) > 0 {
			found := false
			for _, r := range results {
				if r.o.Established {
					continue
				}
				o := runServeCase(r.c, true)
				if len(o.Leaked) > 0 {
					found = true
					report(r.c, o, true)
					break
				}
			}
			if !found {
				e.Rep.Violate("impl", "c14-goroutines", fmt.Sprintf("%d goroutine(s) of the library left after all failed handshakes, first at %s", len(left), left[0]), map[string]interface{}{"left": left})
			}
		}
		// real sockets, peers that do not behave after the refusal (one at a time: each ends with a census)
		for _, rc := range c14RealCases() {
			if e.Replay != "" {
				break
			}
			if err := runC14Real(e, rc); err != nil {
				return err
			}
		}
		return nil
	})
}
