package modes

import (
	"context"
	"crypto/tls"
	"fmt"
	"sync"
	"time"

	lime "github.com/takenet/lime-go"

	"limeverif/internal/pair"
)

// ---- C09: only offered options are negotiated and both ends apply them ----------------------

// judgeC09srv: the server half on scripted-client runs (offer = intersection, confirmation only of
// an offered pair: the C07 automaton; confirmed encryption in force before authentication: appliedRev).
func judgeC09srv(e *Env, c *hsCase, o hsObs) []hsVerdict {
	v, err := e.judgeTrace(c, o)
	if err != nil {
		return []hsVerdict{{"c09-judge-error", err.Error()}}
	}
	out := []hsVerdict{}
	if !v["c07"] {
		out = append(out, hsVerdict{"c09-offer-or-confirmation", "the server's offer is not exactly the configured options the connection supports, or a pair outside the offer was confirmed / not refused (protocol automaton, phase " + lastPhase + ")"})
	}
	if !v["c09"] {
		out = append(out, hsVerdict{"c09-server-not-applied", "after confirming a negotiated encryption the server exchanged authentication data with its transport on another encryption"})
	}
	return out
}

// withGhost inserts the `confirmed` marker after a server `negotiating` reply to the client's selection.
func withGhost(tr []map[string]interface{}) []map[string]interface{} {
	out := []map[string]interface{}{}
	for i, ev := range tr {
		out = append(out, ev)
		if ev["e"] != "recv" || i == 0 {
			continue
		}
		r, ok := ev["r"].(hsRecv)
		if !ok || r.T != "ses" || r.Ses.State != "negotiating" {
			continue
		}
		prev := tr[i-1]
		if prev["e"] == "emit" {
			if s, ok := prev["ses"].(*hsSes); ok && s.State == "negotiating" {
				out = append(out, map[string]interface{}{"e": "confirmed", "comp": r.Ses.Comp, "enc": r.Ses.Enc})
			}
		}
	}
	return out
}

func judgeC09cli(e *Env, c *cliCase, o cliObs) []hsVerdict {
	if e.Drv == nil || o.Res.R == "panic" {
		return nil
	}
	var v map[string]bool
	req := map[string]interface{}{"m": "clijudge", "trace": withGhost(projectCli(o.Trace)), "res": o.Res, "state": o.State,
		"connected": o.Connected, "sid": o.Sid, "local": o.Local, "remote": o.Remote}
	if err := e.Drv.Call(req, &v); err != nil {
		return []hsVerdict{{"c09-judge-error", err.Error()}}
	}
	if !v["applied"] {
		return []hsVerdict{{"c09-client-not-applied", "the client sent credentials with its transport not on the encryption the server had confirmed"}}
	}
	return nil
}

// ---- library client against library server ---------------------------------------------------

type lvlCase struct {
	Transport string   `json:"transport"` // pipe | pipe-tls | inproc | ws | wss
	Comp      []string `json:"comp"`
	Enc       []string `json:"enc"`
	CompSel   string   `json:"compSel"`
	EncSel    string   `json:"encSel"`
}

type lvlObs struct {
	SrvErr, CliErr   string
	SrvState         string `json:"srv_state"`
	CliState         string `json:"cli_state"`
	SrvEnc, CliEnc   string
	SrvComp, CliComp string
	SrvEncAtAuth     string `json:"srv_enc_at_auth"`
	CliEncAtCreds    string `json:"cli_enc_at_creds"`
	Note             string `json:"note,omitempty"`
}

func runLvl(c *lvlCase) (o lvlObs) {
	var ct, st lime.Transport
	var cleanup func()
	ctx, cancel := context.WithTimeout(context.Background(), 15*time.Second)
	defer cancel()
	switch c.Transport {
	case "pipe", "pipe-tls":
		var scfg, ccfg *lime.TCPConfig
		if c.Transport == "pipe-tls" {
			s, cl := pair.TLSConfigs()
			scfg, ccfg = &lime.TCPConfig{TLSConfig: s}, &lime.TCPConfig{TLSConfig: cl}
		}
		a, b := pair.NewBufConns()
		ct, st = lime.NewTCPTransportFromConn(a, false, ccfg), lime.NewTCPTransportFromConn(b, true, scfg)
		cleanup = func() { a.Close(); b.Close() }
	case "inproc":
		var err error
		ct, st, err = pair.InProc(1)
		if err != nil {
			o.Note = err.Error()
			return
		}
		cleanup = func() {}
	case "ws", "wss", "ws-tlscfg":
		var tlsS, tlsC *tls.Config
		scheme := "ws"
		if c.Transport == "wss" {
			tlsS, tlsC = pair.TLSConfigs()
			scheme = "wss"
		}
		if c.Transport == "ws-tlscfg" {
			// an application that hands one TLS configuration to every endpoint, this plain one included:
			// the connection is not encrypted and both ends must say so
			_, tlsC = pair.TLSConfigs()
		}
		l := lime.NewWebsocketTransportListener(&lime.WebsocketConfig{TLSConfig: tlsS})
		addr, err := freePort()
		if err != nil {
			o.Note = err.Error()
			return
		}
		if err := l.Listen(ctx, addr); err != nil {
			o.Note = err.Error()
			return
		}
		acc := make(chan lime.Transport, 1)
		go func() {
			t, err := l.Accept(ctx)
			if err == nil {
				acc <- t
			} else {
				close(acc)
			}
		}()
		var derr error
		for i := 0; i < 50; i++ {
			ct, derr = lime.DialWebsocket(ctx, fmt.Sprintf("%s://%s", scheme, addr.String()), nil, tlsC)
			if derr == nil {
				break
			}
			time.Sleep(5 * time.Millisecond)
		}
		if derr != nil {
			l.Close()
			o.Note = "dial: " + derr.Error()
			return
		}
		var ok bool
		st, ok = <-acc
		if !ok {
			l.Close()
			o.Note = "accept failed"
			return
		}
		cleanup = func() { l.Close() }
	}
	defer cleanup()
	sc := lime.NewServerChannel(st, 1, pair.ServerNode, "sid-c09")
	cc := lime.NewClientChannel(ct, 1)
	var mu sync.Mutex
	var wg sync.WaitGroup
	wg.Add(2)
	go func() {
		defer wg.Done()
		defer func() {
			if r := recover(); r != nil {
				o.SrvErr = fmt.Sprint("panic: ", r)
			}
		}()
		err := sc.EstablishSession(ctx, toComp(c.Comp), toEnc(c.Enc), []lime.AuthenticationScheme{lime.AuthenticationSchemePlain},
			func(context.Context, lime.Identity, lime.Authentication) (*lime.AuthenticationResult, error) {
				mu.Lock()
				o.SrvEncAtAuth = string(st.Encryption())
				mu.Unlock()
				return lime.MemberAuthenticationResult(), nil
			},
			func(_ context.Context, n lime.Node, _ *lime.ServerChannel) (lime.Node, error) { return n, nil })
		if err != nil {
			o.SrvErr = err.Error()
			// a server that gives up releases the connection (C14 is about that; here it only
			// keeps the other end from waiting for its context)
			if st.Connected() {
				st.Close()
			}
		}
	}()
	go func() {
		defer wg.Done()
		defer func() {
			if r := recover(); r != nil {
				o.CliErr = fmt.Sprint("panic: ", r)
			}
		}()
		cs, es := selectorFor(c.CompSel), selectorFor(c.EncSel)
		_, err := cc.EstablishSession(ctx,
			func(o []lime.SessionCompression) lime.SessionCompression {
				l := []string{}
				for _, x := range o {
					l = append(l, string(x))
				}
				return lime.SessionCompression(cs(l))
			},
			func(o []lime.SessionEncryption) lime.SessionEncryption {
				l := []string{}
				for _, x := range o {
					l = append(l, string(x))
				}
				return lime.SessionEncryption(es(l))
			},
			lime.Identity{Name: "alice", Domain: "verif.local"},
			func([]lime.AuthenticationScheme, lime.Authentication) lime.Authentication {
				mu.Lock()
				o.CliEncAtCreds = string(ct.Encryption())
				mu.Unlock()
				return &lime.PlainAuthentication{Password: "cHc="}
			}, "home")
		if err != nil {
			o.CliErr = err.Error()
			// a client that gives up goes away, as the high-level client does
			if ct.Connected() {
				ct.Close()
			}
		}
	}()
	done := make(chan struct{})
	go func() { wg.Wait(); close(done) }()
	select {
	case <-done:
	case <-time.After(14 * time.Second):
		o.Note = "handshake did not finish"
		cancel()
		<-done
	}
	o.SrvState, o.CliState = string(sc.State()), string(cc.State())
	o.SrvEnc, o.CliEnc = string(st.Encryption()), string(ct.Encryption())
	o.SrvComp, o.CliComp = string(st.Compression()), string(ct.Compression())
	go sc.Close()
	go cc.Close()
	return
}

func lvlOracle(c *lvlCase, o lvlObs) string {
	if o.Note != "" {
		return ""
	}
	if o.SrvState == "established" || o.CliState == "established" {
		if o.SrvState != o.CliState {
			return fmt.Sprintf("one end established, the other %s/%s", o.SrvState, o.CliState)
		}
		if o.SrvEnc != o.CliEnc || o.SrvComp != o.CliComp {
			return fmt.Sprintf("ends disagree on the options in force: server %s/%s client %s/%s", o.SrvEnc, o.SrvComp, o.CliEnc, o.CliComp)
		}
		if o.SrvEncAtAuth != o.SrvEnc || o.CliEncAtCreds != o.CliEnc {
			return fmt.Sprintf("authentication data was exchanged before the options were applied: server saw %s at Authenticate (final %s), client wrote credentials under %s (final %s)", o.SrvEncAtAuth, o.SrvEnc, o.CliEncAtCreds, o.CliEnc)
		}
	}
	return ""
}

func init() {
	Register("c09", func(e *Env) error {
		// 1. server half against scripted clients; 2. client half against scripted servers
		if err := hssrvMode(judgeC09srv, "c09")(e); err != nil {
			return err
		}
		rule := e.Rep.Rule
		if err := c08Mode(judgeC09cli, "c09")(e); err != nil {
			return err
		}
		e.Rep.Rule = rule + " | client half: the C08 server-script enumeration judged by cliAppliedRev | library client against library server: every transport (TCP over pipe with/without TLS, in-process, ws, wss, and ws dialled with a TLS configuration that the plain URL does not use) x configured option lists x selector behaviours, both real handshakes run against each other; observed: final states, Encryption()/Compression() on both ends, the encryption in force when Authenticate runs and when the credentials are written."
		if e.Replay != "" {
			return nil
		}
		// 3. library against library
		comps := [][]string{{"none"}, {"none", "gzip"}, {"gzip"}}
		encs := [][]string{{"none"}, {"none", "tls"}, {"tls", "none"}, {"tls"}, {"tls", "tls", "none"}}
		sels := [][2]string{{"none", "none"}, {"first", "tls"}, {"first", "first"}, {"last", "last"}, {"empty", "unknown"}, {"gzip", "tls"}}
		trs := []string{"pipe", "pipe-tls", "inproc"}
		if e.Thorough() {
			trs = append(trs, "ws", "wss", "ws-tlscfg")
		}
		var cases []*lvlCase
		if !e.Thorough() {
			// the WebSocket transports on a reduced grid in the quick tier
			for _, tr := range []string{"ws", "wss", "ws-tlscfg"} {
				for _, en := range encs {
					for _, sl := range sels[:3] {
						cases = append(cases, &lvlCase{Transport: tr, Comp: comps[0], Enc: en, CompSel: sl[0], EncSel: sl[1]})
					}
				}
			}
		}
		for _, tr := range trs {
			for _, co := range comps {
				for _, en := range encs {
					for _, sl := range sels {
						cases = append(cases, &lvlCase{Transport: tr, Comp: co, Enc: en, CompSel: sl[0], EncSel: sl[1]})
					}
				}
			}
		}
		type res struct {
			c *lvlCase
			o lvlObs
		}
		out := make([]res, len(cases))
		var wg sync.WaitGroup
		sem := make(chan struct{}, 8)
		for i, c := range cases {
			wg.Add(1)
			sem <- struct{}{}
			go func(i int, c *lvlCase) {
				defer wg.Done()
				defer func() { <-sem }()
				out[i] = res{c, runLvl(c)}
			}(i, c)
		}
		wg.Wait()
		for _, r := range out {
			e.Rep.Eval()
			e.Rep.Count("lvl-transport=" + r.c.Transport)
			e.Rep.Count("lvl-final=" + r.o.SrvState + "/" + r.o.CliState)
			e.Rep.Nontrivial(fmt.Sprintf("%v%v", *r.c, r.o))
			if r.o.Note != "" {
				e.Rep.Note("lvl " + r.c.Transport + ": " + r.o.Note)
			}
			if msg := lvlOracle(r.c, r.o); msg != "" {
				e.Rep.Violate("impl", "c09-ends", msg, map[string]interface{}{"lvl": r.c, "obs": r.o})
			}
		}
		return nil
	})
}
