package modes

import (
	"context"
	"encoding/json"
	"errors"
	"fmt"
	"io"
	"net"
	"strconv"
	"strings"
	"sync"
	"time"

	lime "github.com/takenet/lime-go"

	"limeverif/internal/pair"
)

// ---- C20: EnvelopeMux dispatch -------------------------------------------------------------

type muxHandler struct {
	Pred   []bool `json:"pred"` // nil = no predicate (Go nil)
	Fails  []bool `json:"fails"`
	Custom bool   `json:"custom"` // registered through the handler interface instead of the Func helper
}

type muxCase struct {
	Tbl   map[string][]muxHandler `json:"tbl"`
	Envs  [][2]interface{}        `json:"envs"` // [kind, class]
	Route string                  `json:"route"`
	ErrK  int                     `json:"errk"` // index into handlerErrors of the error failing handlers return
}

type muxObs struct {
	Log [][2]interface{} `json:"log"` // [kind, [[c,i,r]|[i,i,err]...]]
	Err bool             `json:"err"`
}

var muxKinds = []string{"msg", "ntf", "req", "resp"}

func classOf(id string) int {
	i := strings.LastIndex(id, "-")
	n, _ := strconv.Atoi(id[i+1:])
	return n
}

type muxLog struct {
	mu     sync.Mutex
	events map[string][][]interface{} // envelope id -> events
	intact map[string]bool
	order  []string
}

func (l *muxLog) add(id string, ev []interface{}) {
	l.mu.Lock()
	if _, ok := l.events[id]; !ok {
		l.order = append(l.order, id)
	}
	l.events[id] = append(l.events[id], ev)
	l.mu.Unlock()
}

func at(t []bool, i int) bool {
	if i < len(t) {
		return t[i]
	}
	return false
}

// custom handler types exercising the handler interfaces directly
type cMsg struct {
	m func(string) bool
	h func(string, interface{}) error
}

func (c cMsg) Match(e *lime.Message) bool { return c.m(e.ID) }
func (c cMsg) Handle(_ context.Context, e *lime.Message, _ lime.Sender) error {
	return c.h(e.ID, e)
}

type cNot struct {
	m func(string) bool
	h func(string, interface{}) error
}

func (c cNot) Match(e *lime.Notification) bool { return c.m(e.ID) }
func (c cNot) Handle(_ context.Context, e *lime.Notification) error {
	return c.h(e.ID, e)
}

type cReq struct {
	m func(string) bool
	h func(string, interface{}) error
}

func (c cReq) Match(e *lime.RequestCommand) bool { return c.m(e.ID) }
func (c cReq) Handle(_ context.Context, e *lime.RequestCommand, _ lime.Sender) error {
	return c.h(e.ID, e)
}

type cResp struct {
	m func(string) bool
	h func(string, interface{}) error
}

func (c cResp) Match(e *lime.ResponseCommand) bool { return c.m(e.ID) }
func (c cResp) Handle(_ context.Context, e *lime.ResponseCommand, _ lime.Sender) error {
	return c.h(e.ID, e)
}

var errHandler = errors.New("verif handler error")

// handlerErrors is the pool of error values a failing handler returns: the property speaks of any
// error, so errors that other parts of the library treat specially are included.
var handlerErrors = []error{
	errHandler,
	fmt.Errorf("wrapped: %w", context.DeadlineExceeded),
	fmt.Errorf("wrapped: %w", context.Canceled),
	context.Canceled,
	io.EOF,
	fmt.Errorf("wrapped: %w", net.ErrClosed),
	timeoutError{},
}

type timeoutError struct{}

func (timeoutError) Error() string   { return "verif timeout error" }
func (timeoutError) Timeout() bool   { return true }
func (timeoutError) Temporary() bool { return true }

func buildMux(c *muxCase, l *muxLog, sent *sync.Map) *lime.EnvelopeMux {
	mux := &lime.EnvelopeMux{}
	for _, k := range muxKinds {
		for i, h := range c.Tbl[k] {
			i, h, k := i, h, k
			match := func(id string) bool {
				r := at(h.Pred, classOf(id))
				l.add(id, []interface{}{"c", i, r})
				return r
			}
			handle := func(id string, env interface{}) error {
				err := at(h.Fails, classOf(id))
				if want, ok := sent.Load(id); ok {
					got, _ := json.Marshal(env)
					l.mu.Lock()
					l.intact[id] = string(got) == want.(string)
					l.mu.Unlock()
				}
				l.add(id, []interface{}{"i", i, err})
				if err {
					return handlerErrors[c.ErrK%len(handlerErrors)]
				}
				return nil
			}
			switch k {
			case "msg":
				if h.Custom {
					mux.MessageHandler(cMsg{match, handle})
				} else if h.Pred == nil {
					mux.MessageHandlerFunc(nil, func(_ context.Context, e *lime.Message, _ lime.Sender) error { return handle(e.ID, e) })
				} else {
					mux.MessageHandlerFunc(func(e *lime.Message) bool { return match(e.ID) },
						func(_ context.Context, e *lime.Message, _ lime.Sender) error { return handle(e.ID, e) })
				}
			case "ntf":
				if h.Custom {
					mux.NotificationHandler(cNot{match, handle})
				} else if h.Pred == nil {
					mux.NotificationHandlerFunc(nil, func(_ context.Context, e *lime.Notification) error { return handle(e.ID, e) })
				} else {
					mux.NotificationHandlerFunc(func(e *lime.Notification) bool { return match(e.ID) },
						func(_ context.Context, e *lime.Notification) error { return handle(e.ID, e) })
				}
			case "req":
				if h.Custom {
					mux.RequestCommandHandler(cReq{match, handle})
				} else if h.Pred == nil {
					mux.RequestCommandHandlerFunc(nil, func(_ context.Context, e *lime.RequestCommand, _ lime.Sender) error { return handle(e.ID, e) })
				} else {
					mux.RequestCommandHandlerFunc(func(e *lime.RequestCommand) bool { return match(e.ID) },
						func(_ context.Context, e *lime.RequestCommand, _ lime.Sender) error { return handle(e.ID, e) })
				}
			case "resp":
				if h.Custom {
					mux.ResponseCommandHandler(cResp{match, handle})
				} else if h.Pred == nil {
					mux.ResponseCommandHandlerFunc(nil, func(_ context.Context, e *lime.ResponseCommand, _ lime.Sender) error { return handle(e.ID, e) })
				} else {
					mux.ResponseCommandHandlerFunc(func(e *lime.ResponseCommand) bool { return match(e.ID) },
						func(_ context.Context, e *lime.ResponseCommand, _ lime.Sender) error { return handle(e.ID, e) })
				}
			}
		}
	}
	return mux
}

// mkEnvelope builds the envelope of the given kind whose id encodes (seq, class).
func mkEnvelope(kind string, seq, class int) (id string, send func(context.Context, *lime.ClientChannel) error, canon string) {
	id = fmt.Sprintf("e%d-%d", seq, class)
	switch kind {
	case "msg":
		m := &lime.Message{}
		m.SetContent(lime.TextDocument(fmt.Sprintf("payload %d", seq)))
		m.ID = id
		m.SetMetadataKeyValue("k", strconv.Itoa(class))
		b, _ := json.Marshal(m)
		return id, func(ctx context.Context, c *lime.ClientChannel) error { return c.SendMessage(ctx, m) }, string(b)
	case "ntf":
		n := &lime.Notification{Event: lime.NotificationEventReceived}
		n.ID = id
		b, _ := json.Marshal(n)
		return id, func(ctx context.Context, c *lime.ClientChannel) error { return c.SendNotification(ctx, n) }, string(b)
	case "req":
		r := &lime.RequestCommand{}
		r.ID = id
		r.Method = lime.CommandMethodGet
		// same method and path for every request command of a case: what tells them apart for the handlers'
		// predicates is the id (class) only — a dispatcher may not remember "where commands like this go"
		r.SetURIString("/thing?seq=" + strconv.Itoa(seq))
		b, _ := json.Marshal(r)
		return id, func(ctx context.Context, c *lime.ClientChannel) error { return c.SendRequestCommand(ctx, r) }, string(b)
	default:
		r := &lime.ResponseCommand{Status: lime.CommandStatusSuccess}
		r.ID = id
		r.Method = lime.CommandMethodSet
		b, _ := json.Marshal(r)
		return id, func(ctx context.Context, c *lime.ClientChannel) error { return c.SendResponseCommand(ctx, r) }, string(b)
	}
}

// runMuxCase drives the real mux through a real established channel pair.
func runMuxCase(c *muxCase) (obs muxObs, intact bool, note string, err error) {
	var ct, st lime.Transport
	cut := func() {}
	switch c.Route {
	case "pipe":
		ct, st, cut = pair.PipeC(nil)
	default:
		ct, st, err = pair.InProc(8)
		if err != nil {
			return
		}
	}
	node := lime.Node{Identity: lime.Identity{Name: "cli", Domain: "verif.local"}, Instance: "i"}
	cc, sc, err := pair.Established(ct, st, 4, "sid-c20", node)
	if err != nil {
		return
	}
	defer cc.Close()
	defer sc.Close()
	defer cut()
	l := &muxLog{events: map[string][][]interface{}{}, intact: map[string]bool{}}
	sent := &sync.Map{}
	mux := buildMux(c, l, sent)
	ctx, cancel := context.WithCancel(context.Background())
	defer cancel()
	done := make(chan error, 1)
	go func() { done <- mux.ListenServer(ctx, sc) }()
	intact = true
	finished := false
	var lerr error
	ids := []string{}
	for seq, e := range c.Envs {
		kind := e[0].(string)
		class := toInt(e[1])
		id, send, canon := mkEnvelope(kind, seq, class)
		sent.Store(id, canon)
		sctx, scancel := context.WithTimeout(ctx, 5*time.Second)
		serr := send(sctx, cc)
		scancel()
		if serr != nil {
			note = "send failed: " + serr.Error()
			break
		}
		ids = append(ids, id+"|"+kind)
		nh := len(c.Tbl[kind])
		deadline := time.Now().Add(5 * time.Second)
		for {
			select {
			case lerr = <-done:
				finished = true
			default:
			}
			if finished {
				break
			}
			l.mu.Lock()
			evs := l.events[id]
			complete := false
			nc := 0
			for _, ev := range evs {
				if ev[0] == "i" {
					complete = true
				} else {
					nc++
				}
			}
			if nc >= nh && !anyTrue(evs) {
				complete = true
			}
			l.mu.Unlock()
			if complete {
				// a failing handler makes listen return; wait for that so the next send is not raced
				if hasErr(evs) {
					select {
					case lerr = <-done:
						finished = true
					case <-time.After(5 * time.Second):
						note = "listen did not return after a handler error"
					}
				}
				break
			}
			if time.Now().After(deadline) {
				note = "dispatch of " + id + " did not complete"
				break
			}
			time.Sleep(200 * time.Microsecond)
		}
		if finished || note != "" {
			break
		}
	}
	if !finished {
		// give a late extra dispatch a moment to show up, then stop the loop
		time.Sleep(2 * time.Millisecond)
		cancel()
		select {
		case lerr = <-done:
			if errors.Is(lerr, context.Canceled) {
				lerr = nil
			}
		case <-time.After(5 * time.Second):
			note = "listen did not return after cancel"
		}
	}
	l.mu.Lock()
	defer l.mu.Unlock()
	for _, idk := range ids {
		p := strings.SplitN(idk, "|", 2)
		evs := l.events[p[0]]
		arr := make([]interface{}, len(evs))
		for i, ev := range evs {
			arr[i] = ev
		}
		obs.Log = append(obs.Log, [2]interface{}{p[1], arr})
		if v, ok := l.intact[p[0]]; ok && !v {
			intact = false
		}
	}
	obs.Err = lerr != nil
	return
}

func anyTrue(evs [][]interface{}) bool {
	for _, ev := range evs {
		if ev[0] == "c" && ev[2] == true {
			return true
		}
	}
	return false
}

func hasErr(evs [][]interface{}) bool {
	for _, ev := range evs {
		if ev[0] == "i" && ev[2] == true {
			return true
		}
	}
	return false
}

func toInt(v interface{}) int {
	switch x := v.(type) {
	case int:
		return x
	case float64:
		return int(x)
	case json.Number:
		n, _ := x.Int64()
		return int(n)
	}
	return 0
}

// muxOracle evaluates the property directly on the observation (no model involved).
func muxOracle(c *muxCase, o muxObs) string {
	for n, entry := range o.Log {
		kind := entry[0].(string)
		evs := entry[1].([]interface{})
		class := toInt(c.Envs[n][1])
		hs := c.Tbl[kind]
		first := -1
		for i, h := range hs {
			if h.Pred == nil && !h.Custom || at(h.Pred, class) {
				first = i
				break
			}
		}
		inv := []int{}
		for _, e := range evs {
			ev := e.([]interface{})
			if ev[0] == "i" {
				inv = append(inv, toInt(ev[1]))
			}
		}
		if first < 0 && len(inv) != 0 {
			return fmt.Sprintf("envelope %d (%s class %d): no handler matches but handler %v was invoked", n, kind, class, inv)
		}
		if first >= 0 && (len(inv) != 1 || inv[0] != first) {
			return fmt.Sprintf("envelope %d (%s class %d): first matching handler is %d, invoked %v", n, kind, class, first, inv)
		}
		failed := first >= 0 && at(hs[first].Fails, class)
		if failed && n != len(o.Log)-1 {
			return fmt.Sprintf("envelope %d: handler returned an error but %d more envelope(s) were dispatched", n, len(o.Log)-1-n)
		}
		if failed && !o.Err {
			return fmt.Sprintf("envelope %d: handler returned an error but the listen loop reported none", n)
		}
		if !failed && n == len(o.Log)-1 && o.Err {
			return "listen loop reported an error although no handler failed"
		}
	}
	return ""
}

func genMuxCase(e *Env, maxH, classes int) *muxCase {
	r := e.Rng
	c := &muxCase{Tbl: map[string][]muxHandler{}}
	for _, k := range muxKinds {
		n := r.Intn(maxH + 1)
		hs := make([]muxHandler, n)
		for i := range hs {
			h := muxHandler{Fails: make([]bool, classes)}
			mode := r.Intn(6)
			if mode == 0 {
				h.Pred = nil // nil predicate through the Func helper
			} else {
				h.Pred = make([]bool, classes)
				for j := range h.Pred {
					switch mode {
					case 1:
						h.Pred[j] = true // catch-all
					default:
						h.Pred[j] = r.Intn(3) == 0
					}
				}
				h.Custom = r.Intn(3) == 0
			}
			for j := range h.Fails {
				h.Fails[j] = r.Intn(7) == 0
			}
			hs[i] = h
		}
		c.Tbl[k] = hs
	}
	n := 1 + r.Intn(7)
	for i := 0; i < n; i++ {
		c.Envs = append(c.Envs, [2]interface{}{muxKinds[r.Intn(4)], r.Intn(classes)})
	}
	c.ErrK = r.Intn(len(handlerErrors))
	if r.Intn(3) == 0 {
		c.Route = "pipe"
	} else {
		c.Route = "inproc"
	}
	return c
}

func checkMuxCase(e *Env, c *muxCase) error {
	e.Rep.Eval()
	obs, intact, note, err := runMuxCase(c)
	if err != nil {
		return fmt.Errorf("c20: cannot run case: %w", err)
	}
	canon, _ := json.Marshal(c)
	ob, _ := json.Marshal(obs)
	if len(obs.Log) > 0 {
		e.Rep.Nontrivial(string(canon) + string(ob))
	}
	e.Rep.Count(fmt.Sprintf("route=%s", c.Route))
	e.Rep.Count(fmt.Sprintf("err=%v", obs.Err))
	e.Rep.Sample(map[string]interface{}{"case": c, "impl": obs}, 3)
	if note != "" {
		e.Rep.Violate("impl", "c20-stuck", note, c)
		return nil
	}
	if !intact {
		e.Rep.Violate("impl", "c20-intact", "a handler received an envelope that differs from the one sent", c)
	}
	if msg := muxOracle(c, obs); msg != "" {
		e.Rep.Violate("impl", "c20-oracle", msg, map[string]interface{}{"case": c, "impl": obs})
	}
	if e.Drv != nil {
		var mo muxObs
		req := map[string]interface{}{"m": "mux", "tbl": modelTbl(c), "envs": c.Envs}
		if err := e.Drv.Call(req, &mo); err != nil {
			return err
		}
		mb, _ := json.Marshal(projectMux(c, mo))
		if string(mb) != string(ob) {
			e.Rep.Violate("corr", "c20-corr", "model and implementation dispatch logs differ",
				map[string]interface{}{"case": c, "impl": obs, "model": mo})
		}
	}
	return nil
}

// projectMux removes from the model's log what the harness cannot observe: the Match call of a
// built-in handler whose predicate is nil (no user code runs in it).
func projectMux(c *muxCase, mo muxObs) muxObs {
	out := muxObs{Err: mo.Err}
	for _, entry := range mo.Log {
		kind := entry[0].(string)
		evs, _ := entry[1].([]interface{})
		kept := []interface{}{}
		for _, e := range evs {
			ev := e.([]interface{})
			if ev[0] == "c" {
				i := toInt(ev[1])
				if i < len(c.Tbl[kind]) && c.Tbl[kind][i].Pred == nil {
					continue
				}
			}
			kept = append(kept, ev)
		}
		out.Log = append(out.Log, [2]interface{}{kind, kept})
	}
	return out
}

// modelTbl maps a custom handler with a nil truth table to an all-false predicate (the custom
// types always consult their table), and keeps nil for the Func helper's nil predicate.
func modelTbl(c *muxCase) map[string][]map[string]interface{} {
	out := map[string][]map[string]interface{}{}
	for _, k := range muxKinds {
		hs := []map[string]interface{}{}
		for _, h := range c.Tbl[k] {
			m := map[string]interface{}{"fails": h.Fails}
			if h.Pred == nil {
				m["pred"] = nil
			} else {
				m["pred"] = h.Pred
			}
			hs = append(hs, m)
		}
		out[k] = hs
	}
	return out
}

func init() {
	Register("c20", func(e *Env) error {
		e.Rep.Rule = "random handler tables (0..maxH handlers per kind; nil predicate, catch-all, sparse truth tables; Func helpers and custom handler types) x envelope sequences x handler outcomes, dispatched by the real mux over a real established channel pair (in-process and TCP-over-pipe); a case is non-trivial when at least one envelope was dispatched; distinct = distinct (case, observation)"
		if e.Replay != "" {
			return replayMux(e)
		}
		// exhaustive small tables first: one kind, up to 3 handlers, predicates over 2 classes
		if err := muxExhaustive(e); err != nil {
			return err
		}
		n := e.N(150, 4000)
		maxH := 4
		if e.Thorough() {
			maxH = 6
		}
		for i := 0; i < n; i++ {
			if err := checkMuxCase(e, genMuxCase(e, maxH, 3)); err != nil {
				return err
			}
		}
		return muxServerCases(e)
	})
}

func replayMux(e *Env) error {
	b, err := readReplayCase(e.Replay)
	if err != nil {
		return err
	}
	var wrap struct {
		Case *muxCase `json:"case"`
	}
	c := &muxCase{}
	if json.Unmarshal(b, &wrap) == nil && wrap.Case != nil && wrap.Case.Tbl != nil {
		c = wrap.Case
	} else if err := json.Unmarshal(b, c); err != nil {
		return err
	}
	if c.Tbl == nil {
		return muxServerCases(e)
	}
	return checkMuxCase(e, c)
}

// muxExhaustive enumerates every table of up to 2 handlers (3 in thorough) for one kind with
// predicates in {nil, FF, FT, TF, TT} over two classes and a failing/non-failing outcome, against
// the two-envelope sequence (class 0, class 1).
func muxExhaustive(e *Env) error {
	preds := [][]bool{nil, {false, false}, {false, true}, {true, false}, {true, true}}
	fails := [][]bool{{false, false}, {true, false}, {false, true}}
	maxN := 2
	if e.Thorough() {
		maxN = 3
	}
	var rec func(hs []muxHandler, n int) error
	kinds := muxKinds
	ki := 0
	rec = func(hs []muxHandler, n int) error {
		if len(hs) == n {
			k := kinds[ki%4]
			ki++
			c := &muxCase{Tbl: map[string][]muxHandler{k: append([]muxHandler{}, hs...)}, Route: "inproc",
				Envs: [][2]interface{}{{k, 0}, {k, 1}}}
			return checkMuxCase(e, c)
		}
		for _, p := range preds {
			for _, f := range fails {
				if err := rec(append(hs, muxHandler{Pred: p, Fails: f}), n); err != nil {
					return err
				}
			}
		}
		return nil
	}
	for n := 0; n <= maxN; n++ {
		if err := rec(nil, n); err != nil {
			return err
		}
	}
	e.Rep.Extra["exhaustive_tables_upto"] = maxN
	return nil
}

// muxServerCases: a handler error on a real Server makes the server finish the session; an
// unmatched envelope is dropped and the session goes on.
func muxServerCases(e *Env) error {
	for _, pf := range []bool{true, false} {
		e.Rep.Eval()
		e.Rep.Count("builder-order case")
		what, err := runBuilderOrderCase(pf)
		if err != nil {
			return err
		}
		if what != "" {
			e.Rep.Violate("impl", "c20-server", what, map[string]interface{}{"server_case": "builder-order", "ping_first": pf})
		} else {
			e.Rep.Nontrivial(fmt.Sprintf("builder-order %v", pf))
		}
	}
	trs := []string{"inproc"}
	if e.Thorough() {
		trs = []string{"inproc", "tcp", "ws"}
	}
	for _, tr := range trs {
		for k := range handlerErrors {
			e.Rep.Eval()
			what, err := runMuxServerCase(tr, k)
			if err != nil {
				return err
			}
			e.Rep.Count("server-case=" + tr)
			if what != "" {
				e.Rep.Violate("impl", "c20-server", what, map[string]interface{}{"server_case": tr, "errk": k, "error": handlerErrors[k].Error()})
			}
		}
	}
	return nil
}

// runBuilderOrderCase: handlers registered through the ServerBuilder are tried in the order of the
// builder calls, the built-in ping auto-reply included: a catch-all registered before AutoReplyPings
// gets the ping (and the auto-reply does not run); registered after it, it gets everything but the ping.
func runBuilderOrderCase(pingFirst bool) (string, error) {
	var mu sync.Mutex
	got := []string{}
	catchAll := func(_ context.Context, c *lime.RequestCommand, s lime.Sender) error {
		mu.Lock()
		got = append(got, c.ID)
		mu.Unlock()
		return s.SendResponseCommand(context.Background(), c.FailureResponse(&lime.Reason{Code: 77, Description: "catch-all"}))
	}
	b := lime.NewServerBuilder().Name("postmaster").Domain("verif.local").Instance("s").
		EnableGuestAuthentication().
		Register(func(_ context.Context, cand lime.Node, _ *lime.ServerChannel) (lime.Node, error) {
			return lime.Node{Identity: lime.Identity{Name: cand.Name, Domain: "verif.local"}, Instance: "x"}, nil
		})
	if pingFirst {
		b.AutoReplyPings().RequestCommandsHandlerFunc(catchAll)
	} else {
		b.RequestCommandsHandlerFunc(catchAll).AutoReplyPings()
	}
	dial, stop, err := startServer(b, "inproc")
	if err != nil {
		return "", err
	}
	defer stop()
	ct, err := dial()
	if err != nil {
		return "", err
	}
	cc := lime.NewClientChannel(ct, 4)
	defer func() { go cc.Close() }()
	ctx, cancel := context.WithTimeout(context.Background(), 10*time.Second)
	defer cancel()
	ses, err := cc.EstablishSession(ctx, lime.NoneCompressionSelector, lime.NoneEncryptionSelector,
		lime.Identity{Name: "7b2f3a52-9f0d-4c0b-8d5e-0a4d4f1f2c11", Domain: "verif.local"}, lime.GuestAuthenticator, "i")
	if err != nil || ses.State != lime.SessionStateEstablished {
		return "", fmt.Errorf("c20 builder case: establish: %v", err)
	}
	statuses := []string{}
	for _, x := range [][2]string{{"g1", "/thing"}, {"p1", "/ping"}, {"g2", "/thing"}} {
		r := &lime.RequestCommand{}
		r.ID = x[0]
		r.Method = lime.CommandMethodGet
		r.SetURIString(x[1])
		pctx, pc := context.WithTimeout(ctx, 3*time.Second)
		resp, err := cc.ProcessCommand(pctx, r)
		pc()
		if err != nil {
			return fmt.Sprintf("request %s got no response: %v", x[0], err), nil
		}
		statuses = append(statuses, x[0]+":"+string(resp.Status))
	}
	mu.Lock()
	defer mu.Unlock()
	wantGot, wantSt := "g1,p1,g2", "g1:failure,p1:failure,g2:failure"
	if pingFirst {
		wantGot, wantSt = "g1,g2", "g1:failure,p1:success,g2:failure"
	}
	if strings.Join(got, ",") != wantGot || strings.Join(statuses, ",") != wantSt {
		return fmt.Sprintf("registration order (ping auto-reply first=%v): the catch-all handler saw [%s], want [%s]; responses [%s], want [%s]",
			pingFirst, strings.Join(got, ","), wantGot, strings.Join(statuses, ","), wantSt), nil
	}
	return "", nil
}

func runMuxServerCase(tr string, errk int) (string, error) {
	var mu sync.Mutex
	seen := []string{}
	finishedCb := make(chan string, 4)
	b := lime.NewServerBuilder().Name("postmaster").Domain("verif.local").Instance("s").
		EnableGuestAuthentication().
		Register(func(_ context.Context, cand lime.Node, _ *lime.ServerChannel) (lime.Node, error) {
			return lime.Node{Identity: lime.Identity{Name: cand.Name, Domain: "verif.local"}, Instance: "x"}, nil
		}).
		Finished(func(id string) { finishedCb <- id }).
		MessageHandlerFunc(func(m *lime.Message) bool { return strings.HasPrefix(m.ID, "h") },
			func(_ context.Context, m *lime.Message, _ lime.Sender) error {
				mu.Lock()
				seen = append(seen, m.ID)
				mu.Unlock()
				if m.ID == "h-bad" {
					return handlerErrors[errk]
				}
				return nil
			})
	dial, stop, err := startServer(b, tr)
	if err != nil {
		return "", err
	}
	defer stop()
	ct, err := dial()
	if err != nil {
		return "", err
	}
	cc := lime.NewClientChannel(ct, 4)
	defer cc.Close()
	ctx, cancel := context.WithTimeout(context.Background(), 12*time.Second)
	defer cancel()
	ses, err := cc.EstablishSession(ctx, lime.NoneCompressionSelector, lime.NoneEncryptionSelector,
		lime.Identity{Name: "7b2f3a52-9f0d-4c0b-8d5e-0a4d4f1f2c11", Domain: "verif.local"}, lime.GuestAuthenticator, "i")
	if err != nil || ses.State != lime.SessionStateEstablished {
		return "", fmt.Errorf("c20 server case: establish: %v %v", err, ses)
	}
	send := func(id string) error {
		m := &lime.Message{}
		m.SetContent(lime.TextDocument("x"))
		m.ID = id
		return cc.SendMessage(ctx, m)
	}
	for _, id := range []string{"h-1", "zz-unmatched", "h-2", "h-bad"} {
		if err := send(id); err != nil {
			return "send " + id + " failed: " + err.Error(), nil
		}
	}
	_ = send("h-after")
	select {
	case <-cc.RcvDone():
	case <-ctx.Done():
		return "after a handler error the client's receiver never stopped (server did not finish the session)", nil
	}
	if st := cc.State(); st != lime.SessionStateFinished {
		return fmt.Sprintf("after a handler error the client observed state %v, want finished", st), nil
	}
	select {
	case <-finishedCb:
	case <-time.After(10 * time.Second):
		return "Finished callback not invoked after handler error", nil
	}
	mu.Lock()
	defer mu.Unlock()
	got := strings.Join(seen, ",")
	if got != "h-1,h-2,h-bad" {
		return "handler invocations on server: " + got + " (want h-1,h-2,h-bad: unmatched dropped, session continued, nothing after the error)", nil
	}
	return "", nil
}
