package modes

import (
	"context"
	"encoding/json"
	"fmt"
	"io"
	"net"
	"strings"
	"time"

	lime "github.com/takenet/lime-go"

	"limeverif/internal/pair"
)

// ---- C16: inbound envelope size is bounded by the read limit ---------------------------------

type c16Case struct {
	L      int64         `json:"limit"` // 0 = the default
	Sizes  []int         `json:"sizes"` // JSON text length of each envelope on the stream
	RPlan  []pair.ReadEv `json:"rplan"`
	Trace  bool          `json:"trace"` // a TraceWriter is configured
	Family string        `json:"family"`
	// Kinds[i], when present and not "", makes document i a well-formed JSON value that is not a valid
	// envelope: "type-error" (a member of the wrong JSON type), "bad-mediatype", "no-kind" (no member that
	// tells the kind). Receive must refuse it with that error, and go on: it was taken off the stream.
	Kinds []string `json:"kinds,omitempty"`
}

// c16Doc is document i of the case: n bytes of JSON text.
func c16Doc(kind string, n int) []byte {
	var pre, post string
	switch kind {
	case "type-error":
		pre, post = `{"id":5,"pad":"`, `"}`
	case "bad-mediatype":
		pre, post = `{"id":"1","type":"/","content":"`, `"}`
	case "no-kind":
		pre, post = `{"id":"`, `"}`
	default:
		return c16Text(n)
	}
	if n < len(pre)+len(post) {
		n = len(pre) + len(post)
	}
	return []byte(pre + strings.Repeat("a", n-len(pre)-len(post)) + post)
}

// c16Refusal is the error text with which Receive refuses a document of that kind.
var c16Refusal = map[string]string{"type-error": "cannot unmarshal", "bad-mediatype": "invalid media type", "no-kind": "could not determine the envelope type"}

type discardTrace struct{ s, r io.Writer }

func (d *discardTrace) SendWriter() *io.Writer    { return &d.s }
func (d *discardTrace) ReceiveWriter() *io.Writer { return &d.r }

const c16Base = len(`{"id":"1","type":"text/plain","content":""}`)

// c16Text is a text message whose JSON text is exactly n bytes long (n >= c16Base).
func c16Text(n int) []byte {
	if n < c16Base {
		n = c16Base
	}
	return []byte(`{"id":"1","type":"text/plain","content":"` + strings.Repeat("a", n-c16Base) + `"}`)
}

type c16Recv struct {
	OK       bool  `json:"ok"`
	Consumed int   `json:"consumed"`
	Reads    []int `json:"reads"`
	Err      string `json:"err,omitempty"`
}

func c16Run(e *Env, c *c16Case) error {
	e.Rep.Eval()
	e.Rep.Count("family=" + c.Family)
	var stream []byte
	kindOf := func(i int) string {
		if i < len(c.Kinds) {
			return c.Kinds[i]
		}
		return ""
	}
	docLen := make([]int, len(c.Sizes))
	for i, n := range c.Sizes {
		d := c16Doc(kindOf(i), n)
		docLen[i] = len(d)
		stream = append(stream, d...)
		stream = append(stream, '\n')
	}
	cfg := &lime.TCPConfig{ReadLimit: c.L}
	if c.Trace {
		cfg.TraceWriter = &discardTrace{io.Discard, io.Discard}
	}
	L := int(c.L)
	if L == 0 {
		L = int(lime.DefaultReadLimit)
	}
	rc := &pair.FaultConn{In: stream, ReadPlan: append([]pair.ReadEv{}, c.RPlan...)}
	rx := lime.NewTCPTransportFromConn(rc, true, cfg)
	var obs []c16Recv
	for i := 0; i <= len(c.Sizes); i++ {
		before := rc.Consumed()
		ctx, cancel := context.WithTimeout(context.Background(), 20*time.Second)
		env, err := rx.Receive(ctx)
		cancel()
		o := c16Recv{OK: err == nil, Consumed: rc.Consumed() - before, Reads: []int{}}
		refusedAsExpected := false
		if i < len(c.Sizes) && kindOf(i) != "" && err != nil && strings.Contains(err.Error(), c16Refusal[kindOf(i)]) {
			// the document was taken off the stream and refused for what it is: for the read budget this
			// Receive succeeded
			refusedAsExpected = true
			o.OK = true
		}
		for _, r := range rc.TakeReads() {
			if r.N > 0 {
				o.Reads = append(o.Reads, r.N)
			}
		}
		if err != nil {
			o.Err = err.Error()
		}
		obs = append(obs, o)
		// the statement
		if o.Consumed > L {
			e.Rep.Violate("impl", "c16-consumed", fmt.Sprintf("Receive #%d consumed %d bytes from the connection, the read limit is %d", i, o.Consumed, L), c)
		}
		if i < len(c.Sizes) && kindOf(i) != "" {
			n := docLen[i]
			e.Rep.Count("document: " + kindOf(i))
			if err == nil {
				e.Rep.Violate("impl", "c16-other", fmt.Sprintf("document #%d (%s) was accepted as an envelope", i, kindOf(i)), c)
			} else if n+1 <= L && !refusedAsExpected {
				e.Rep.Violate("impl", "c16-refused", fmt.Sprintf("document #%d (%s) of %d bytes (+1 separator) is within the limit %d but the stream failed on it: %v", i, kindOf(i), n, L, err), c)
			}
		} else if i < len(c.Sizes) {
			n := docLen[i]
			switch {
			case n+1 <= L:
				e.Rep.Count("size: within the limit")
				if err != nil {
					e.Rep.Violate("impl", "c16-refused", fmt.Sprintf("envelope #%d of %d bytes (+1 separator) is within the limit %d but was refused: %v", i, n, L, err), c)
				}
			case n > 2*L:
				e.Rep.Count("size: above twice the limit")
				if err == nil {
					e.Rep.Violate("impl", "c16-oversize-accepted", fmt.Sprintf("envelope #%d of %d bytes was accepted, the read limit is %d", i, n, L), c)
				}
			default:
				e.Rep.Count("size: between one and two limits")
				if err == nil {
					e.Rep.Count("size: between one and two limits, accepted")
				}
			}
			if err == nil {
				if m, ok := env.(*lime.Message); !ok || m.ID != "1" {
					e.Rep.Violate("impl", "c16-other", fmt.Sprintf("envelope #%d came out as %T", i, env), c)
				}
			}
		} else if err == nil {
			e.Rep.Violate("impl", "c16-other", "an envelope is handed out after the end of the stream", c)
		}
		if err != nil && !refusedAsExpected {
			break
		}
	}
	e.Rep.Nontrivial(fmt.Sprintf("%d %v %v %v %v", c.L, c.Sizes, len(c.RPlan), c.Trace, c.Kinds))
	if e.Drv != nil {
		frames := make([]int, len(c.Sizes))
		for i := range c.Sizes {
			n := docLen[i]
			frames[i] = n + 1 // the separator that precedes the value
			if i == 0 {
				frames[i] = n
			}
		}
		reads := make([][]int, len(obs))
		for i, o := range obs {
			reads[i] = o.Reads
		}
		var r struct {
			Out []struct {
				OK       bool `json:"ok"`
				Consumed int  `json:"consumed"`
			} `json:"out"`
		}
		kinds := make([]string, len(c.Sizes))
		for i := range c.Sizes {
			kinds[i] = kindOf(i)
		}
		// the model threads the budget through the connection and renews it by the policy read from the source
		if err := e.Drv.Call(map[string]interface{}{"m": "rlimit", "L": L, "frames": frames, "kinds": kinds, "avail": len(stream), "reads": reads}, &r); err != nil {
			return err
		}
		same := len(r.Out) == len(obs)
		for i := 0; same && i < len(obs); i++ {
			same = r.Out[i].OK == obs[i].OK && r.Out[i].Consumed == obs[i].Consumed
		}
		if !same {
			mb, _ := json.Marshal(r.Out)
			ob, _ := json.Marshal(obs)
			if len(ob) > 1500 {
				ob = append(ob[:1500], "..."...)
			}
			e.Rep.Violate("corr", "c16-corr", fmt.Sprintf("read budget: model %s, implementation %s", mb, ob), c)
		}
	}
	if len(stream) < 4096 {
		e.Rep.Sample(map[string]interface{}{"case": c, "observed": obs}, 3)
	}
	return nil
}

// c16Listener: a transport accepted by a real TCP listener carries the listener's limit.
func c16Listener(e *Env, L int64, size int) error {
	e.Rep.Eval()
	e.Rep.Count("family=listener")
	addr, err := freePort()
	if err != nil {
		return err
	}
	l := lime.NewTCPTransportListener(&lime.TCPConfig{ReadLimit: L})
	ctx, cancel := context.WithTimeout(context.Background(), 20*time.Second)
	defer cancel()
	if err := l.Listen(ctx, addr); err != nil {
		return err
	}
	defer l.Close()
	conn, err := net.Dial("tcp", addr.String())
	if err != nil {
		return err
	}
	defer conn.Close()
	go func() {
		conn.Write(append(c16Text(size), '\n'))
	}()
	t, err := l.Accept(ctx)
	if err != nil {
		return err
	}
	defer t.Close()
	_, rerr := t.Receive(ctx)
	lim := int(L)
	if lim == 0 {
		lim = int(lime.DefaultReadLimit)
	}
	c := map[string]interface{}{"family": "listener", "limit": L, "sizes": []int{size}}
	if size+1 <= lim && rerr != nil {
		e.Rep.Violate("impl", "c16-refused", fmt.Sprintf("accepted transport: envelope of %d bytes refused under the listener's limit %d: %v", size, lim, rerr), c)
	}
	if size > 2*lim && rerr == nil {
		e.Rep.Violate("impl", "c16-oversize-accepted", fmt.Sprintf("accepted transport: envelope of %d bytes accepted, the listener's limit is %d", size, lim), c)
	}
	return nil
}

func init() {
	Register("c16", func(e *Env) error {
		e.Rep.Rule = "real TCP transport (hook constructor, server role) with configured read limits 64..4096 and the default, over a scripted connection; streams of 1..20 text messages of exact sizes around L, 2L, 10L at every position, after coalesced and separately delivered predecessors, after runs of well-formed documents that Receive refuses (wrong member type, invalid media type, no kind), delivered coalesced / byte by byte / in random pieces with transient timeouts; with and without a TraceWriter; per Receive the result and the number of bytes taken from the connection are compared with the statement (consumed <= L; size+1 <= L accepted; size > 2L refused) and with the model's budget loop run on the observed read sizes; plus transports accepted by a real TCP listener. Non-trivial = every case; distinct by limit, sizes and plan."
		if e.Replay != "" {
			b, err := readReplayCase(e.Replay)
			if err != nil {
				return err
			}
			var c c16Case
			if err := json.Unmarshal(b, &c); err != nil {
				return err
			}
			if c.Family == "listener" {
				return c16Listener(e, c.L, c.Sizes[0])
			}
			return c16Run(e, &c)
		}
		limits := []int64{64, 100, 256, 600, 1000, 4096}
		plans := func(total int) [][]pair.ReadEv {
			return [][]pair.ReadEv{nil, repeatRead(total, 1), randomReadPlan(e, total), randomReadPlan(e, total)}
		}
		around := func(L int) []int {
			return []int{c16Base, L / 2, L - 2, L - 1, L, L + 1, L + 2, L + 200, 2*L - 1, 2 * L, 2*L + 1, 2*L + 2, 3 * L, 10 * L}
		}
		for _, L := range limits {
			for _, trace := range []bool{false, true} {
				for _, s := range around(int(L)) {
					// as the first envelope of a connection
					for _, p := range plans(s + 1) {
						if err := c16Run(e, &c16Case{Family: "first", L: L, Sizes: []int{s}, RPlan: p, Trace: trace}); err != nil {
							return err
						}
					}
					// after a predecessor that arrives together with it / whose separator arrives alone
					pre := c16Base + e.Rng.Intn(int(L)/2)
					if pre+1 > int(L) {
						pre = c16Base
					}
					for _, p := range append(plans(pre+s+2), []pair.ReadEv{{Kind: "data", N: pre}, {Kind: "data", N: 1}}, []pair.ReadEv{{Kind: "data", N: pre + 1}}) {
						if err := c16Run(e, &c16Case{Family: "after-predecessor", L: L, Sizes: []int{pre, s}, RPlan: p, Trace: trace}); err != nil {
							return err
						}
					}
				}
			}
		}
		// after documents that were taken off the stream and refused (well-formed JSON, not an envelope):
		// "no matter how much data preceded it on the same connection"
		for _, L := range limits {
			for _, kind := range []string{"type-error", "bad-mediatype", "no-kind"} {
				for _, last := range []int{c16Base, int(L) / 2, int(L) - 1} {
					each := int(L)/3 + 40
					if each+1 > int(L) {
						each = int(L) - 1
					}
					sizes, kinds, total := []int{}, []string{}, 0
					for j := 0; j < 5; j++ {
						sizes, kinds = append(sizes, each), append(kinds, kind)
						total += len(c16Doc(kind, each)) + 1
					}
					sizes, kinds = append(sizes, last), append(kinds, "")
					total += last + 1
					for _, p := range [][]pair.ReadEv{nil, randomReadPlan(e, total), repeatRead(total, 7)} {
						if err := c16Run(e, &c16Case{Family: "after-refused", L: L, Sizes: sizes, Kinds: kinds, RPlan: p}); err != nil {
							return err
						}
					}
				}
			}
		}
		// any position in a long stream
		for i := 0; i < e.N(300, 6000); i++ {
			L := limits[e.Rng.Intn(len(limits))]
			n := 1 + e.Rng.Intn(20)
			sizes := []int{}
			total := 0
			for j := 0; j < n; j++ {
				s := c16Base + e.Rng.Intn(int(L))
				if s+1 > int(L) {
					s = int(L) - 1
				}
				if s < c16Base {
					s = c16Base
				}
				sizes = append(sizes, s)
				total += s + 1
			}
			tail := around(int(L))
			last := tail[e.Rng.Intn(len(tail))]
			sizes = append(sizes, last)
			total += last + 1
			var p []pair.ReadEv
			if e.Rng.Intn(4) != 0 {
				p = randomReadPlan(e, total)
			}
			if err := c16Run(e, &c16Case{Family: "position", L: L, Sizes: sizes, RPlan: p, Trace: e.Rng.Intn(4) == 0}); err != nil {
				return err
			}
		}
		// the default limit
		D := int(lime.DefaultReadLimit)
		for _, s := range []int{D - 2, 2*D + 2} {
			if err := c16Run(e, &c16Case{Family: "default-limit", L: 0, Sizes: []int{1000, s}}); err != nil {
				return err
			}
		}
		if e.Thorough() {
			for _, s := range []int{D - 1, D, D + 1, 2 * D, 5 * D} {
				if err := c16Run(e, &c16Case{Family: "default-limit", L: 0, Sizes: []int{s}, RPlan: randomReadPlan(e, 4096)}); err != nil {
					return err
				}
			}
		}
		for _, L := range []int64{64, 1000} {
			for _, s := range []int{int(L) - 1, 2*int(L) + 1, 20 * int(L)} {
				if err := c16Listener(e, L, s); err != nil {
					return err
				}
			}
		}
		return nil
	})
}
