package modes

import (
	"fmt"

	lime "github.com/takenet/lime-go"

	"limeverif/internal/codec"
)

type textObs struct {
	V  map[string]string `json:"v"`
	P  string            `json:"p"`
	WF bool              `json:"wf"`
}

// textCase diffs the three text parsers / printers on one string and evaluates
// parse(print(x)) = x on the implementation for values the model's grammar predicate accepts.
func textCase(e *Env, s string) error {
	e.Rep.Eval()
	// node
	n := lime.ParseNode(s)
	in := textObs{V: map[string]string{"n": n.Name, "d": n.Domain, "i": n.Instance}, P: n.String()}
	if e.Drv != nil {
		var mn textObs
		if err := e.Drv.Call(map[string]interface{}{"m": "text", "f": "node", "s": s}, &mn); err != nil {
			return err
		}
		if fmt.Sprint(mn.V) != fmt.Sprint(in.V) || mn.P != in.P {
			e.Rep.Violate("corr", "c01-text-corr", "ParseNode / Node.String differ from the model",
				map[string]interface{}{"text": s, "impl": in, "model": mn})
		}
		if mn.WF {
			e.Rep.Nontrivial("node:" + s)
			if back := lime.ParseNode(n.String()); back != n {
				e.Rep.Violate("impl", "c01-text-node", fmt.Sprintf("node %#v prints as %q which parses to %#v", n, n.String(), back),
					map[string]interface{}{"text": s})
			}
		}
	}
	// identity
	id := lime.ParseIdentity(s)
	ii := textObs{V: map[string]string{"n": id.Name, "d": id.Domain}, P: id.String()}
	if e.Drv != nil {
		var mi textObs
		if err := e.Drv.Call(map[string]interface{}{"m": "text", "f": "identity", "s": s}, &mi); err != nil {
			return err
		}
		if fmt.Sprint(mi.V) != fmt.Sprint(ii.V) || mi.P != ii.P {
			e.Rep.Violate("corr", "c01-text-corr", "ParseIdentity / Identity.String differ from the model",
				map[string]interface{}{"text": s, "impl": ii, "model": mi})
		}
		if mi.WF {
			if back := lime.ParseIdentity(id.String()); back != id {
				e.Rep.Violate("impl", "c01-text-identity", fmt.Sprintf("identity %#v prints as %q which parses to %#v", id, id.String(), back),
					map[string]interface{}{"text": s})
			}
		}
	}
	// media type
	mt, err := lime.ParseMediaType(s)
	var im textObs
	if err == nil {
		im = textObs{V: map[string]string{"t": mt.Type, "s": mt.Subtype, "x": mt.Suffix}, P: mt.String()}
	}
	if e.Drv != nil {
		var mm textObs
		if derr := e.Drv.Call(map[string]interface{}{"m": "text", "f": "mt", "s": s}, &mm); derr != nil {
			return derr
		}
		if (mm.V == nil) != (err != nil) || (err == nil && (fmt.Sprint(mm.V) != fmt.Sprint(im.V) || mm.P != im.P)) {
			e.Rep.Violate("corr", "c01-text-corr", "ParseMediaType / MediaType.String differ from the model",
				map[string]interface{}{"text": s, "impl": im, "impl_err": err != nil, "model": mm})
		}
		if err == nil && mm.WF {
			e.Rep.Nontrivial("mt:" + s)
			back, berr := lime.ParseMediaType(mt.String())
			if berr != nil || back != mt {
				e.Rep.Violate("impl", "c01-text-mt", fmt.Sprintf("media type %#v prints as %q which parses to %#v (err %v)", mt, mt.String(), back, berr),
					map[string]interface{}{"text": s})
			}
		}
	}
	// URI: parse-print is idempotent on the implementation (net/url is not modelled)
	if u := codec.NormURI(s); u != nil {
		if u2 := codec.NormURI(*u); u2 == nil || *u2 != *u {
			e.Rep.Violate("impl", "c01-text-uri", fmt.Sprintf("URI %q prints as %q which does not parse back to itself", s, *u),
				map[string]interface{}{"text": s})
		}
	}
	return nil
}

// textValues checks print-then-parse directly on values assembled from a small string set.
func textValues(e *Env) error {
	parts := []string{"", "a", "b", "é", "a@", "a/", "a+", "@", "/", "+", "ab"}
	for _, n := range parts {
		for _, d := range parts {
			for _, i := range parts {
				e.Rep.Eval()
				node := lime.Node{Identity: lime.Identity{Name: n, Domain: d}, Instance: i}
				mt := lime.MediaType{Type: n, Subtype: d, Suffix: i}
				if e.Drv == nil {
					continue
				}
				var pn, pm struct {
					P  string `json:"p"`
					WF bool   `json:"wf"`
				}
				if err := e.Drv.Call(map[string]interface{}{"m": "text", "f": "printnode", "v": map[string]string{"n": n, "d": d, "i": i}}, &pn); err != nil {
					return err
				}
				if err := e.Drv.Call(map[string]interface{}{"m": "text", "f": "printmt", "v": map[string]string{"t": n, "s": d, "x": i}}, &pm); err != nil {
					return err
				}
				if pn.P != node.String() || pm.P != mt.String() {
					e.Rep.Violate("corr", "c01-text-corr", "String() differs from the model's print",
						map[string]interface{}{"text": fmt.Sprintf("%q %q %q", n, d, i), "impl": []string{node.String(), mt.String()}, "model": []string{pn.P, pm.P}})
				}
				if pn.WF {
					if back := lime.ParseNode(node.String()); back != node {
						e.Rep.Violate("impl", "c01-text-node", fmt.Sprintf("node %#v prints as %q which parses to %#v", node, node.String(), back),
							map[string]interface{}{"text": node.String()})
					}
				}
				if pm.WF {
					back, err := lime.ParseMediaType(mt.String())
					if err != nil || back != mt {
						e.Rep.Violate("impl", "c01-text-mt", fmt.Sprintf("media type %#v prints as %q which parses to %#v (err %v)", mt, mt.String(), back, err),
							map[string]interface{}{"text": mt.String()})
					}
				}
			}
		}
	}
	return nil
}

func textEnumeration(e *Env) error {
	alphabet := []rune{'a', 'b', '@', '/', '+', 'é'}
	maxLen := 5
	if e.Thorough() {
		maxLen = 6
	}
	var rec func(prefix []rune) error
	count := 0
	rec = func(prefix []rune) error {
		if err := textCase(e, string(prefix)); err != nil {
			return err
		}
		count++
		if len(prefix) == maxLen {
			return nil
		}
		for _, r := range alphabet {
			if err := rec(append(prefix, r)); err != nil {
				return err
			}
		}
		return nil
	}
	if err := rec(nil); err != nil {
		return err
	}
	e.Rep.Extra["text_strings_enumerated"] = count
	e.Rep.Extra["text_alphabet"] = string(alphabet)
	e.Rep.Extra["text_max_len"] = maxLen
	return textValues(e)
}
