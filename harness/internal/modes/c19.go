package modes

import (
	"errors"
	"context"
	"encoding/json"
	"fmt"
	"strings"
	"sync"
	"sync/atomic"
	"syscall"
	"time"

	lime "github.com/takenet/lime-go"

	"limeverif/internal/pair"
)

// ---- C19: the client recovers from any unrequested loss of its session -----------------------

type c19Case struct {
	Faults  []string `json:"faults"`   // one per repetition: srv-finish | srv-fail | drop | garbage | not-envelope | oversize | half-close
	Moment  string   `json:"moment"`   // idle | sending
	Handler bool     `json:"handler"`  // the client has a message handler registered (its listener consumes)
	ReadLim int64    `json:"read_lim"` // client read limit
}

type c19Obs struct {
	Sessions     int      `json:"sessions"` // sessions the server established
	Steps        []string `json:"steps"`
	Problems     []string `json:"problems"`
	IdleCPUms    []int    `json:"idle_cpu_ms"` // process CPU time used during the idle window after each fault
	Dials        int      `json:"dials"`
}

func cpuMs() int {
	var ru syscall.Rusage
	syscall.Getrusage(syscall.RUSAGE_SELF, &ru)
	return int(ru.Utime.Sec*1000+ru.Utime.Usec/1000) + int(ru.Stime.Sec*1000+ru.Stime.Usec/1000)
}

func c19Run(c *c19Case) (obs c19Obs) {
	problem := func(f string, a ...interface{}) { obs.Problems = append(obs.Problems, fmt.Sprintf(f, a...)) }
	step := func(f string, a ...interface{}) { obs.Steps = append(obs.Steps, fmt.Sprintf(f, a...)) }
	obs.Problems = []string{}
	ql := pair.NewQueueListener()
	var mu sync.Mutex
	type srvSide struct {
		conn pair.BufConn
		ch   *lime.ServerChannel
	}
	var sides []*srvSide        // in dial order
	var estChans []*lime.ServerChannel // in establishment order
	estCh := make(chan struct{}, 16)
	var srvGot int64 // messages the server's handler saw
	cfg := lime.NewServerConfig()
	cfg.SchemeOpts = []lime.AuthenticationScheme{lime.AuthenticationSchemePlain}
	cfg.Authenticate = func(context.Context, lime.Identity, lime.Authentication) (*lime.AuthenticationResult, error) {
		return lime.MemberAuthenticationResult(), nil
	}
	cfg.Register = func(_ context.Context, n lime.Node, _ *lime.ServerChannel) (lime.Node, error) { return n, nil }
	cfg.EncryptOpts = []lime.SessionEncryption{lime.SessionEncryptionNone}
	cfg.ChannelBufferSize = 4
	cfg.Established = func(_ string, sc *lime.ServerChannel) {
		mu.Lock()
		estChans = append(estChans, sc)
		mu.Unlock()
		estCh <- struct{}{}
	}
	smux := &lime.EnvelopeMux{}
	smux.MessageHandlerFunc(nil, func(context.Context, *lime.Message, lime.Sender) error {
		atomic.AddInt64(&srvGot, 1)
		return nil
	})
	srv := lime.NewServer(cfg, smux, lime.NewBoundListener(ql, ql.Addr()))
	serveDone := make(chan error, 1)
	go func() { serveDone <- srv.ListenAndServe() }()

	ccfg := lime.NewClientConfig()
	ccfg.Node = lime.Node{Identity: lime.Identity{Name: "alice", Domain: "c19.local"}, Instance: "home"}
	ccfg.ChannelBufferSize = 4
	ccfg.EncryptSelector = lime.NoneEncryptionSelector
	ccfg.Authenticator = func([]lime.AuthenticationScheme, lime.Authentication) lime.Authentication {
		a := &lime.PlainAuthentication{}
		a.SetPasswordAsBase64("secret")
		return a
	}
	var unreachable int32 // 1: the server cannot be reached (NewTransport fails)
	ccfg.NewTransport = func(context.Context) (lime.Transport, error) {
		if atomic.LoadInt32(&unreachable) == 1 {
			return nil, errors.New("connection refused (scripted)")
		}
		a, b := pair.NewBufConns()
		mu.Lock()
		sides = append(sides, &srvSide{conn: b})
		obs.Dials++
		mu.Unlock()
		ql.Offer(lime.NewTCPTransportFromConn(b, true, nil))
		return lime.NewTCPTransportFromConn(a, false, &lime.TCPConfig{ReadLimit: c.ReadLim}), nil
	}
	var cliGot int64 // messages the client's handler saw
	cmux := &lime.EnvelopeMux{}
	holdHandler := make(chan struct{}) // closed = handlers run freely
	close(holdHandler)
	var holdMu sync.Mutex
	if c.Handler {
		cmux.MessageHandlerFunc(nil, func(context.Context, *lime.Message, lime.Sender) error {
			atomic.AddInt64(&cliGot, 1)
			holdMu.Lock()
			h := holdHandler
			holdMu.Unlock()
			<-h
			return nil
		})
	}
	client := lime.NewClient(ccfg, cmux)
	defer func() {
		cd := make(chan struct{})
		go func() { _ = client.Close(); close(cd) }()
		select {
		case <-cd:
		case <-time.After(8 * time.Second):
			problem("Client.Close did not return within 8 s")
		}
		_ = srv.Close()
		select {
		case <-serveDone:
		case <-time.After(5 * time.Second):
		}
	}()
	waitSession := func(n int, what string) bool {
		deadline := time.After(6 * time.Second)
		for {
			mu.Lock()
			have := len(estChans)
			mu.Unlock()
			if have >= n {
				return true
			}
			select {
			case <-estCh:
			case <-deadline:
				problem("%s: the server has %d session(s), %d expected: the client did not establish a fresh session", what, have, n)
				return false
			}
		}
	}
	send := func(id string) error {
		m := &lime.Message{}
		m.ID = id
		m.SetContent(lime.TextDocument("hello"))
		ctx, cancel := context.WithTimeout(context.Background(), 5*time.Second)
		defer cancel()
		return client.SendMessage(ctx, m)
	}
	// the server pushes a message on its newest session; with a handler registered it must arrive
	push := func(what string) {
		if !c.Handler {
			return
		}
		mu.Lock()
		sc := estChans[len(estChans)-1]
		mu.Unlock()
		before := atomic.LoadInt64(&cliGot)
		m := &lime.Message{}
		m.ID = "from-server"
		m.SetContent(lime.TextDocument("news"))
		ctx, cancel := context.WithTimeout(context.Background(), 2*time.Second)
		err := sc.SendMessage(ctx, m)
		cancel()
		if err != nil {
			problem("%s: the server could not send on the newest session: %v", what, err)
			return
		}
		deadline := time.Now().Add(3 * time.Second)
		for atomic.LoadInt64(&cliGot) == before && time.Now().Before(deadline) {
			time.Sleep(200 * time.Microsecond)
		}
		if atomic.LoadInt64(&cliGot) == before {
			problem("%s: a message the server sent on the newest session never reached the client's handler (deaf listener)", what)
		}
	}
	// ---- first session
	ctx0, cancel0 := context.WithTimeout(context.Background(), 5*time.Second)
	err := client.Establish(ctx0)
	cancel0()
	if err != nil {
		problem("harness: first Establish: %v", err)
		return
	}
	if !waitSession(1, "start") {
		return
	}
	if err := send("m0"); err != nil {
		problem("the first send failed: %v", err)
	}
	push("first session")
	// ---- faults
	for rep, fault := range c.Faults {
		mu.Lock()
		sc := estChans[len(estChans)-1]
		var side *srvSide
		// the raw connection of the newest session is the newest dialled one
		side = sides[len(sides)-1]
		mu.Unlock()
		var sending int32
		var swg sync.WaitGroup
		if c.Moment == "sending" {
			atomic.StoreInt32(&sending, 1)
			swg.Add(1)
			go func() {
				defer swg.Done()
				for i := 0; atomic.LoadInt32(&sending) == 1; i++ {
					_ = send(fmt.Sprintf("bg-%d-%d", rep, i))
					time.Sleep(50 * time.Microsecond)
				}
			}()
			time.Sleep(300 * time.Microsecond)
		}
		step("fault %d: %s", rep, fault)
		fctx, fcancel := context.WithTimeout(context.Background(), 2*time.Second)
		if c.Moment == "unreachable-deadline" {
			fault = "drop during an outage" // the drop happens inside the outage block below
		}
		if c.Moment == "finish-then-outage" {
			fault = "srv-finish during an outage"
		}
		switch fault {
		case "srv-finish":
			_ = sc.FinishSession(fctx)
		case "srv-fail":
			_ = sc.FailSession(fctx, &lime.Reason{Code: 9, Description: "scripted"})
		case "drop":
			side.conn.Close()
		case "garbage":
			side.conn.Write([]byte("{\"garbage\n"))
		case "not-envelope":
			side.conn.Write([]byte("{\"foo\":1}\n"))
		case "odd-session":
			// a session envelope that ends nothing (the state the session is in already)
			b, _ := json.Marshal(&lime.Session{State: lime.SessionStateEstablished})
			side.conn.Write(append(b, '\n'))
		case "oversize":
			big := &lime.Message{}
			big.ID = "big"
			big.SetContent(lime.TextDocument(strings.Repeat("y", int(3*c.ReadLim))))
			b, _ := json.Marshal(big)
			side.conn.Write(append(b, '\n'))
		}
		if c.Moment == "finish-then-outage" {
			// the server ends the session while it cannot be reached again for a while: the client's attempts to
			// re-establish fail, and the connection of the ended session must not stay open meanwhile (C13: the
			// end of a session releases the connection, whoever ended it)
			atomic.StoreInt32(&unreachable, 1)
			octx, ocancel := context.WithTimeout(context.Background(), 2*time.Second)
			_ = sc.FinishSession(octx)
			ocancel()
			closed := false
			deadline := time.Now().Add(1500 * time.Millisecond)
			for time.Now().Before(deadline) {
				if side.conn.PeerClosed() {
					closed = true
					break
				}
				time.Sleep(2 * time.Millisecond)
			}
			if !closed {
				problem("after the server finished the session (and while it is unreachable) the client's connection of the ended session is still open 1.5 s later")
			}
			atomic.StoreInt32(&unreachable, 0)
		}
		if c.Moment == "unreachable-deadline" && c.Handler {
			// "during re-establishment": the listener is busy inside a handler, the connection is gone and the
			// server cannot be reached for a while; an application call with a short deadline is the one that
			// tries to re-establish, and gives up at its deadline. When the server is back, everything must work.
			holdMu.Lock()
			holdHandler = make(chan struct{})
			hh := holdHandler
			holdMu.Unlock()
			pm := &lime.Message{}
			pm.ID = "held"
			pm.SetContent(lime.TextDocument("x"))
			pctx, pcancel := context.WithTimeout(context.Background(), time.Second)
			_ = sc.SendMessage(pctx, pm)
			pcancel()
			time.Sleep(20 * time.Millisecond) // the handler has it
			atomic.StoreInt32(&unreachable, 1)
			side.conn.Close()
			time.Sleep(5 * time.Millisecond)
			dctx, dcancel := context.WithTimeout(context.Background(), 300*time.Millisecond)
			dm := &lime.Message{}
			dm.ID = "during-outage"
			dm.SetContent(lime.TextDocument("x"))
			derr := client.SendMessage(dctx, dm)
			dcancel()
			step("send during the outage: %v", derr)
			atomic.StoreInt32(&unreachable, 0)
			close(hh)
		}
		fcancel()
		atomic.StoreInt32(&sending, 0)
		swg.Wait()
		// ---- an idle stretch: the background listener must neither spin nor stay deaf
		time.Sleep(30 * time.Millisecond) // the fault is noticed
		c0 := cpuMs()
		time.Sleep(250 * time.Millisecond)
		used := cpuMs() - c0
		obs.IdleCPUms = append(obs.IdleCPUms, used)
		if used > 150 {
			problem("after %s the idle process used %d ms of CPU in 250 ms: the client's listener busy-loops", fault, used)
		}
		// ---- the next operation establishes a fresh session and is really sent
		before := atomic.LoadInt64(&srvGot)
		err := send(fmt.Sprintf("after-%d", rep))
		if err != nil {
			// one failed operation is acceptable only if it says so; the one after it must work
			step("send after %s: %v", fault, err)
			err = send(fmt.Sprintf("after-%d-retry", rep))
		}
		if err != nil {
			problem("after %s two consecutive sends failed: %v", fault, err)
		} else {
			deadline := time.Now().Add(3 * time.Second)
			for atomic.LoadInt64(&srvGot) == before && time.Now().Before(deadline) {
				time.Sleep(200 * time.Microsecond)
			}
			if atomic.LoadInt64(&srvGot) == before {
				problem("after %s a send reported success but the server never got the message: it was not written to an established session", fault)
			}
		}
		if !waitSession(rep+2, "after "+fault) {
			return
		}
		push("after " + fault)
	}
	mu.Lock()
	obs.Sessions = len(estChans)
	mu.Unlock()
	return
}

func c19Key(p string) string {
	switch {
	case strings.Contains(p, "harness:"):
		return "c19-harness"
	case strings.Contains(p, "connection of the ended session is still open"):
		return "c13-connection-left"
	case strings.Contains(p, "busy-loops"):
		return "c19-spin"
	case strings.Contains(p, "deaf listener"):
		return "c19-deaf"
	case strings.Contains(p, "never got the message"):
		return "c19-false-success"
	case strings.Contains(p, "fresh session"):
		return "c19-wedged"
	case strings.Contains(p, "consecutive sends failed"):
		return "c19-wedged"
	}
	return "c19-other"
}

func init() {
	Register("c19", func(e *Env) error {
		e.Rep.Rule = "a real high-level Client (its transports are real TCP transports over in-memory connections made by its NewTransport factory, so that the harness holds the server's raw end) against a real Server; after the first session 1-3 faults in a row, each of: server FinishSession, server FailSession, connection dropped, undecodable bytes, JSON that is no envelope, an envelope of three times the client's read limit; while the client is idle, sending, or (connection dropped) re-establishing against a server that is unreachable for a while, with the application call that tries giving up at its deadline; with and without a registered handler; after each fault: CPU used by the idle process (a spinning listener shows), the next send must establish a fresh session and reach the server's handler, a message pushed by the server on the new session must reach the client's handler. Cases run one after the other (CPU measurement). Non-trivial = every case; distinct by case."
		var cases []*c19Case
		if e.Replay != "" {
			b, err := readReplayCase(e.Replay)
			if err != nil {
				return err
			}
			var wrap struct {
				Case *c19Case `json:"case"`
			}
			if err := json.Unmarshal(b, &wrap); err != nil || wrap.Case == nil {
				return fmt.Errorf("bad replay file")
			}
			if len(wrap.Case.Faults) == 1 && wrap.Case.Faults[0] == "ws-garbage-then-streaming-peer" {
				return c19WSStreaming(e)
			}
			cases = []*c19Case{wrap.Case, wrap.Case}
		} else {
			faults := []string{"srv-finish", "srv-fail", "drop", "garbage", "not-envelope", "oversize", "odd-session"}
			for _, f := range faults {
				for _, moment := range []string{"idle", "sending", "unreachable-deadline", "finish-then-outage"} {
					for _, h := range []bool{true, false} {
						if moment == "unreachable-deadline" && (f != "drop" || !h) {
							continue
						}
						if moment == "finish-then-outage" && f != "srv-finish" {
							continue
						}
						cases = append(cases, &c19Case{Faults: []string{f}, Moment: moment, Handler: h, ReadLim: 4096})
					}
				}
			}
			for i := 0; i < e.N(6, 120); i++ {
				n := 2 + e.Rng.Intn(2)
				c := &c19Case{Moment: []string{"idle", "sending"}[e.Rng.Intn(2)], Handler: e.Rng.Intn(3) != 0, ReadLim: 4096}
				for k := 0; k < n; k++ {
					c.Faults = append(c.Faults, faults[e.Rng.Intn(len(faults))])
				}
				cases = append(cases, c)
			}
		}
		for _, c := range cases {
			e.Rep.Eval()
			o := c19Run(c)
			cj, _ := json.Marshal(c)
			e.Rep.Nontrivial(string(cj))
			for _, f := range c.Faults {
				e.Rep.Count("fault=" + f)
			}
			e.Rep.Count("moment=" + c.Moment)
			info := map[string]interface{}{"case": c, "obs": o}
			e.Rep.Sample(info, 2)
			for _, p := range o.Problems {
				k := c19Key(p)
				if k == "c19-harness" {
					e.Rep.Note(p)
					continue
				}
				e.Rep.Violate("impl", k, fmt.Sprintf("%v (%s, handler=%v): %s", c.Faults, c.Moment, c.Handler, p), info)
			}
			// the model: the same fault sequence on the client life-cycle model
			if e.Drv != nil {
				var r struct {
					Wedged bool `json:"wedged"`
					Spins  bool `json:"spins"`
				}
				if err := e.Drv.Call(map[string]interface{}{"m": "clientlife", "faults": c.Faults}, &r); err != nil {
					return err
				}
				implWedged, implSpins := false, false
				for _, p := range o.Problems {
					k := c19Key(p)
					if k == "c19-wedged" || k == "c19-deaf" || k == "c19-false-success" {
						implWedged = true
					}
					if k == "c19-spin" {
						implSpins = true
					}
				}
				if r.Wedged != implWedged || r.Spins != implSpins {
					e.Rep.Violate("corr", "c19-corr", fmt.Sprintf("%v: the model says wedged=%v spins=%v, the implementation wedged=%v spins=%v", c.Faults, r.Wedged, r.Spins, implWedged, implSpins), info)
				}
			}
		}
		return c19WSStreaming(e)
	})
}
